From Coq Require Import List NArith ZArith Lia Bool.
Import ListNotations.
Open Scope N_scope.

Inductive expr :=
| Lit (c : N) | AnyE | Seq (l : list expr) | Choice (l : list expr)
| Star (e : expr) | NotE (e : expr) | RefE (n : nat) | StateE (k : N).

Inductive val := VNil | VB (b : N) | VL (l : list val).

(* implementation-style state: position, store are mutated and explicitly restored *)
Record st := { off : nat; rest : list N; store : list N; cnt : N }.

Definition bump (s : st) := {| off := off s; rest := rest s; store := store s; cnt := cnt s + 1 |}.
Definition restore (s : st) (o : nat) (r : list N) (m : list N) :=
  {| off := o; rest := r; store := m; cnt := cnt s |}.
Definition restore_store (s : st) (m : list N) :=
  {| off := off s; rest := rest s; store := m; cnt := cnt s |}.
Definition advance (s : st) := {| off := S (off s); rest := tl (rest s); store := store s; cnt := cnt s |}.

Section Run.
Variable g : list expr.

Fixpoint run (fuel : nat) (e : expr) (s : st) : option (option val * st) :=
  match fuel with O => None | S f =>
  let s := bump s in
  match e with
  | Lit c => match rest s with
             | b :: _ => if N.eqb b c then Some (Some (VB b), advance s) else Some (None, s)
             | [] => Some (None, s) end
  | AnyE => match rest s with
             | b :: _ => Some (Some (VB b), advance s)
             | [] => Some (None, s) end
  | Seq l =>
      let o0 := off s in let r0 := rest s in let st0 := store s in
      (fix go (l : list expr) (acc : list val) (s : st) {struct l} :=
         match l with
         | [] => Some (Some (VL (rev acc)), s)
         | e :: l' => match run f e s with
                      | None => None
                      | Some (None, s') => Some (None, restore s' o0 r0 st0)
                      | Some (Some v, s') => go l' (v :: acc) s'
                      end
         end) l [] s
  | Choice l =>
      (fix go (l : list expr) (s : st) {struct l} :=
         match l with
         | [] => Some (None, s)
         | e :: l' => let st0 := store s in
                      match run f e s with
                      | None => None
                      | Some (None, s') => go l' (restore_store s' st0)
                      | Some (Some v, s') => Some (Some v, s')
                      end
         end) l s
  | Star e1 =>
      (fix loop (n : nat) (acc : list val) (s : st) {struct n} :=
         match n with
         | O => None
         | S n' => match run f e1 s with
                   | None => None
                   | Some (None, s') => Some (Some (VL (rev acc)), s')
                   | Some (Some v, s') => loop n' (v :: acc) s'
                   end
         end) f [] s
  | NotE e1 =>
      let o0 := off s in let r0 := rest s in let st0 := store s in
      match run f e1 s with
      | None => None
      | Some (None, s') => Some (Some VNil, restore s' o0 r0 st0)
      | Some (Some _, s') => Some (None, restore s' o0 r0 st0)
      end
  | RefE n => match nth_error g n with Some e1 => run f e1 s | None => Some (None, s) end
  | StateE k => Some (Some VNil, {| off := off s; rest := rest s; store := k :: store s; cnt := cnt s |})
  end end.

(* reference semantics: backtracked components passed by value, counter threaded *)
Record bt := { boff : nat; brest : list N; bstore : list N }.
Definition bt_of (s : st) := {| boff := off s; brest := rest s; bstore := store s |}.

Fixpoint eval (fuel : nat) (e : expr) (b : bt) (c : N) : option (option (val * bt) * N) :=
  match fuel with O => None | S f =>
  let c := c + 1 in
  match e with
  | Lit k => match brest b with
             | x :: r => if N.eqb x k then Some (Some (VB x, {| boff := S (boff b); brest := r; bstore := bstore b |}), c)
                         else Some (None, c)
             | [] => Some (None, c) end
  | AnyE => match brest b with
             | x :: r => Some (Some (VB x, {| boff := S (boff b); brest := r; bstore := bstore b |}), c)
             | [] => Some (None, c) end
  | Seq l =>
      (fix go (l : list expr) (acc : list val) (b : bt) (c : N) {struct l} :=
         match l with
         | [] => Some (Some (VL (rev acc), b), c)
         | e :: l' => match eval f e b c with
                      | None => None
                      | Some (None, c') => Some (None, c')
                      | Some (Some (v, b'), c') => go l' (v :: acc) b' c'
                      end
         end) l [] b c
  | Choice l =>
      (fix go (l : list expr) (c : N) {struct l} :=
         match l with
         | [] => Some (None, c)
         | e :: l' => match eval f e b c with
                      | None => None
                      | Some (None, c') => go l' c'
                      | Some (Some r, c') => Some (Some r, c')
                      end
         end) l c
  | Star e1 =>
      (fix loop (n : nat) (acc : list val) (b : bt) (c : N) {struct n} :=
         match n with
         | O => None
         | S n' => match eval f e1 b c with
                   | None => None
                   | Some (None, c') => Some (Some (VL (rev acc), b), c')
                   | Some (Some (v, b'), c') => loop n' (v :: acc) b' c'
                   end
         end) f [] b c
  | NotE e1 =>
      match eval f e1 b c with
      | None => None
      | Some (None, c') => Some (Some (VNil, b), c')
      | Some (Some _, c') => Some (None, c')
      end
  | RefE n => match nth_error g n with Some e1 => eval f e1 b c | None => Some (None, c) end
  | StateE k => Some (Some (VNil, {| boff := boff b; brest := brest b; bstore := k :: bstore b |}), c)
  end end.

(* refinement: impl result = ref result, and failure restores the backtracked part *)
Definition rel (r : option val * st) (b0 : bt) (q : option (val * bt) * N) : Prop :=
  let '(ov, s') := r in let '(orb, c') := q in
  cnt s' = c' /\
  match ov, orb with
  | Some v, Some (v', b') => v = v' /\ bt_of s' = b'
  | None, None => bt_of s' = b0
  | _, _ => False
  end.

Lemma bt_of_eta s : {| boff := off s; brest := rest s; bstore := store s |} = bt_of s.
Proof. reflexivity. Qed.

Theorem refine : forall fuel e s r,
  run fuel e s = Some r ->
  exists q, eval fuel e (bt_of s) (cnt s) = Some q /\ rel r (bt_of s) q.
Proof.
  induction fuel as [|f IH]; intros e s r H; [discriminate|].
  cbn [run] in H. cbn [eval].
  destruct e.
  - (* Lit *)
    cbn in *. destruct (rest s) as [|b rs] eqn:Er.
    + inversion H; subst; clear H. eexists; split; [reflexivity|]. cbn. unfold bt_of; cbn. rewrite Er. auto.
    + destruct (N.eqb b c); inversion H; subst; clear H; eexists; (split; [reflexivity|]); cbn; unfold bt_of; cbn; rewrite Er; auto.
  - cbn in *. destruct (rest s) as [|b rs] eqn:Er; inversion H; subst; clear H; eexists; (split; [reflexivity|]); cbn; unfold bt_of; cbn; rewrite Er; auto.
  - (* Seq *)
    set (s1 := bump s) in *.
    assert (Hgen : forall l acc s2 r,
      (fix go (l : list expr) (acc : list val) (s : st) {struct l} :=
         match l with
         | [] => Some (Some (VL (rev acc)), s)
         | e :: l' => match run f e s with
                      | None => None
                      | Some (None, s') => Some (None, restore s' (off s1) (rest s1) (store s1))
                      | Some (Some v, s') => go l' (v :: acc) s'
                      end
         end) l acc s2 = Some r ->
      exists q,
      (fix go (l : list expr) (acc : list val) (b : bt) (c : N) {struct l} :=
         match l with
         | [] => Some (Some (VL (rev acc), b), c)
         | e :: l' => match eval f e b c with
                      | None => None
                      | Some (None, c') => Some (None, c')
                      | Some (Some (v, b'), c') => go l' (v :: acc) b' c'
                      end
         end) l acc (bt_of s2) (cnt s2) = Some q /\ rel r (bt_of s1) q).
    { induction l0 as [|e0 l0 IHl]; intros acc s2 r0 Hr.
      - inversion Hr; subst. eexists; split; [reflexivity|]. cbn. auto.
      - destruct (run f e0 s2) as [[[v|] s']|] eqn:Erun; try discriminate.
        + destruct (IH _ _ _ Erun) as [q [Hq Hrel]]. rewrite Hq.
          destruct q as [[[v' b']|] c']; cbn in Hrel; destruct Hrel as [Hc Hm]; try contradiction.
          destruct Hm as [-> <-]. rewrite <- Hc. apply IHl. exact Hr.
        + destruct (IH _ _ _ Erun) as [q [Hq Hrel]]. rewrite Hq.
          destruct q as [[[v' b']|] c']; cbn in Hrel; destruct Hrel as [Hc Hm]; try contradiction.
          inversion Hr; subst. eexists; split; [reflexivity|]. cbn. split; auto. }
    apply Hgen in H. destruct H as [q [Hq Hrel]].
    exists q. split; [|exact Hrel].
    replace (cnt s + 1) with (cnt s1) by reflexivity. exact Hq.
  - (* Choice *)
    set (s1 := bump s) in *.
    assert (Hgen : forall l s2 r, bt_of s2 = bt_of s1 ->
      (fix go (l : list expr) (s : st) {struct l} :=
         match l with
         | [] => Some (None, s)
         | e :: l' => let st0 := store s in
                      match run f e s with
                      | None => None
                      | Some (None, s') => go l' (restore_store s' st0)
                      | Some (Some v, s') => Some (Some v, s')
                      end
         end) l s2 = Some r ->
      exists q,
      (fix go (l : list expr) (c : N) {struct l} :=
         match l with
         | [] => Some (None, c)
         | e :: l' => match eval f e (bt_of s) c with
                      | None => None
                      | Some (None, c') => go l' c'
                      | Some (Some r, c') => Some (Some r, c')
                      end
         end) l (cnt s2) = Some q /\ rel r (bt_of s1) q).
    { induction l0 as [|e0 l0 IHl]; intros s2 r0 Hb Hr.
      - inversion Hr; subst. eexists; split; [reflexivity|]. cbn. auto.
      - cbn zeta in Hr. destruct (run f e0 s2) as [[[v|] s']|] eqn:Erun; try discriminate.
        + destruct (IH _ _ _ Erun) as [q [Hq Hrel]]. rewrite Hb in Hq. change (bt_of s1) with (bt_of s) in Hq. rewrite Hq.
          destruct q as [[[v' b']|] c']; cbn in Hrel; destruct Hrel as [Hc Hm]; try contradiction.
          inversion Hr; subst. eexists; split; [reflexivity|]. cbn. auto.
        + destruct (IH _ _ _ Erun) as [q [Hq Hrel]]. rewrite Hb in Hq. change (bt_of s1) with (bt_of s) in Hq. rewrite Hq.
          destruct q as [[[v' b']|] c']; cbn in Hrel; destruct Hrel as [Hc Hm]; try contradiction.
          rewrite <- Hc.
          apply (IHl (restore_store s' (store s2)) r0); [|exact Hr].
          unfold bt_of, restore_store in *; cbn. inversion Hm. inversion Hb. congruence. }
    apply (Hgen l s1 r eq_refl) in H. exact H.
  - (* Star *)
    set (s1 := bump s) in *.
    assert (Hgen : forall n acc s2 r,
      (fix loop (n : nat) (acc : list val) (s : st) {struct n} :=
         match n with
         | O => None
         | S n' => match run f e s with
                   | None => None
                   | Some (None, s') => Some (Some (VL (rev acc)), s')
                   | Some (Some v, s') => loop n' (v :: acc) s'
                   end
         end) n acc s2 = Some r ->
      exists q,
      (fix loop (n : nat) (acc : list val) (b : bt) (c : N) {struct n} :=
         match n with
         | O => None
         | S n' => match eval f e b c with
                   | None => None
                   | Some (None, c') => Some (Some (VL (rev acc), b), c')
                   | Some (Some (v, b'), c') => loop n' (v :: acc) b' c'
                   end
         end) n acc (bt_of s2) (cnt s2) = Some q /\
      match r, q with
      | (Some v, s'), (Some (v', b'), c') => cnt s' = c' /\ v = v' /\ bt_of s' = b'
      | _, _ => False end).
    { induction n as [|n IHn]; intros acc s2 r0 Hr; [discriminate|].
      destruct (run f e s2) as [[[v|] s']|] eqn:Erun; try discriminate.
      - destruct (IH _ _ _ Erun) as [q [Hq Hrel]]. rewrite Hq.
        destruct q as [[[v' b']|] c']; cbn in Hrel; destruct Hrel as [Hc Hm]; try contradiction.
        destruct Hm as [-> <-]. rewrite <- Hc. apply IHn. exact Hr.
      - destruct (IH _ _ _ Erun) as [q [Hq Hrel]]. rewrite Hq.
        destruct q as [[[v' b']|] c']; cbn in Hrel; destruct Hrel as [Hc Hm]; try contradiction.
        inversion Hr; subst. eexists; split; [reflexivity|]. repeat split; auto. }
    apply Hgen in H. destruct H as [q [Hq Hrel]]. exists q. split; [exact Hq|].
    destruct r as [[v|] s']; destruct q as [[[v' b']|] c']; try contradiction. cbn. tauto.
  - (* Not *)
    set (s1 := bump s) in *.
    destruct (run f e s1) as [[[v|] s']|] eqn:Erun; try discriminate;
      destruct (IH _ _ _ Erun) as [q [Hq Hrel]];
      change (bt_of s1) with (bt_of s) in Hq; change (cnt s1) with (cnt s + 1) in Hq; rewrite Hq;
      destruct q as [[[v' b']|] c']; cbn in Hrel; destruct Hrel as [Hc Hm]; try contradiction;
      inversion H; subst; eexists; (split; [reflexivity|]); cbn; auto.
  - (* Ref *)
    set (s1 := bump s) in *.
    destruct (nth_error g n) as [e1|].
    + destruct (IH _ _ _ H) as [q [Hq Hrel]]. exists q. split; auto.
    + inversion H; subst. eexists; split; [reflexivity|]. cbn; auto.
  - (* State *)
    inversion H; subst. eexists; split; [reflexivity|]. cbn. auto.
Qed.
End Run.
Print Assumptions refine.
