From Coq Require Import List NArith ZArith Lia Bool.
Import ListNotations.
Open Scope N_scope.

Inductive expr :=
| Lit (c : N) | AnyE | Seq (l : list expr) | Choice (l : list expr)
| Star (e : expr) | NotE (e : expr) | RefE (n : nat) | StateE (k : N).

Inductive val := VNil | VB (b : N) | VL (l : list val).

Record st := { off : nat; rest : list N; store : list N; cnt : N }.

Definition nthb (data : list N) (o : nat) : option N := nth_error data o.

Section Run.
Variable g : list expr.


Fixpoint run (fuel : nat) (e : expr) (s : st) : option (option val * st) :=
  match fuel with O => None | S f =>
  let s := {| off := off s; rest := rest s; store := store s; cnt := cnt s + 1 |} in
  match e with
  | Lit c => match hd_error (rest s) with
             | Some b => if N.eqb b c then Some (Some (VB b), {| off := S (off s); rest := tl (rest s); store := store s; cnt := cnt s |})
                         else Some (None, s)
             | None => Some (None, s) end
  | AnyE => match hd_error (rest s) with
             | Some b => Some (Some (VB b), {| off := S (off s); rest := tl (rest s); store := store s; cnt := cnt s |})
             | None => Some (None, s) end
  | Seq l =>
      let o0 := off s in let r0 := rest s in let st0 := store s in
      (fix go (l : list expr) (acc : list val) (s : st) {struct l} :=
         match l with
         | [] => Some (Some (VL (rev acc)), s)
         | e :: l' => match run f e s with
                      | None => None
                      | Some (None, s') => Some (None, {| off := o0; rest := r0; store := st0; cnt := cnt s' |})
                      | Some (Some v, s') => go l' (v :: acc) s'
                      end
         end) l [] s
  | Choice l =>
      (fix go (l : list expr) (s : st) {struct l} :=
         match l with
         | [] => Some (None, s)
         | e :: l' => let st0 := store s in
                      match run f e s with
                      | None => None
                      | Some (None, s') => go l' {| off := off s'; rest := rest s'; store := st0; cnt := cnt s' |}
                      | Some (Some v, s') => Some (Some v, s')
                      end
         end) l s
  | Star e1 =>
      match run f e1 s with
      | None => None
      | Some (None, s') => Some (Some (VL []), s')
      | Some (Some v, s') =>
          match run f (Star e1) {| off := off s'; rest := rest s'; store := store s'; cnt := cnt s' - 1 |} with
          | Some (Some (VL vs), s'') => Some (Some (VL (v :: vs)), s'')
          | _ => None
          end
      end
  | NotE e1 =>
      let o0 := off s in let r0 := rest s in let st0 := store s in
      match run f e1 s with
      | None => None
      | Some (None, s') => Some (Some VNil, {| off := o0; rest := r0; store := st0; cnt := cnt s' |})
      | Some (Some _, s') => Some (None, {| off := o0; rest := r0; store := st0; cnt := cnt s' |})
      end
  | RefE n => match nth_error g n with Some e1 => run f e1 s | None => Some (None, s) end
  | StateE k => Some (Some VNil, {| off := off s; rest := rest s; store := k :: store s; cnt := cnt s |})
  end end.
End Run.

(* heavy grammar: S <- (A / B)* !. ; A <- 'a' 'b' 'c' 'd' 'x' ; B <- 'a' / 'b' / 'c' / 'd' / . *)
Definition g0 : list expr :=
  [ Seq [Star (Choice [RefE 1; RefE 2]); NotE AnyE];
    Seq [Lit 97; Lit 98; Lit 99; Lit 100; Lit 120];
    Choice [Lit 97; Lit 98; Lit 99; Lit 100; AnyE] ].

Fixpoint mk (n : nat) : list N := match n with O => [] | S n' => 97 :: 98 :: 99 :: 100 :: mk n' end.

Definition test (n : nat) :=
  match run g0 (20 * n + 100) (RefE 0) {| off := 0; rest := mk n; store := []; cnt := 0 |} with
  | Some (Some _, s) => Some (off s, cnt s)
  | _ => None end.

Time Eval vm_compute in test 1000.
Time Eval vm_compute in test 5000.
Time Eval vm_compute in test 50000.
