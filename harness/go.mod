module verifharness

go 1.25.0

require github.com/mna/pigeon v0.0.0

replace github.com/mna/pigeon => /repo
