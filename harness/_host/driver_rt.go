//go:build needrt

package main

import "unicode"

// The real builder emits rangeTable only for grammars that use Unicode classes; the table-building code of the
// driver (unused on the emitted path) still refers to it.
func rangeTable(class string) *unicode.RangeTable { panic("rangeTable: not emitted for this grammar") }
