//go:build opt

package main

func variantOpts(c *caseSpec) []Option { return nil }

func variantToggles(c *caseSpec) []Option { return nil }
