//go:build opt

package main

func variantOpts(c *caseSpec) []Option { return nil }
