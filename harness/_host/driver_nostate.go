//go:build !hasstate

package main

import (
	"fmt"
	"io"
)

func getState(p *parser) map[string]any { return nil }

func stateOfCur(c *current) map[string]any { return nil }

func initOpts(c *caseSpec) []Option { return nil }

// The optimized template without state blocks has no stateCodeExpr type; the
// generator never emits state blocks for this variant.
type unknownStateCodeExpr struct{}

func mkStateCode(run func(p *parser) error) any { return &unknownStateCodeExpr{} }

func poolTest(seed int64, n int, w io.Writer) { fmt.Fprintln(w, "nostate") }
