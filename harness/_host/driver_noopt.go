//go:build !opt

package main

func variantOpts(c *caseSpec) []Option {
	var opts []Option
	if c.memo {
		opts = append(opts, Memoize(true))
	}
	if c.dbg {
		opts = append(opts, Debug(true))
	}
	if c.stats {
		opts = append(opts, Statistics(&Stats{}, "no match"))
	}
	return opts
}
