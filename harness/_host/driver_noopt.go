//go:build !opt

package main

func variantOpts(c *caseSpec) []Option {
	var opts []Option
	if c.memo {
		opts = append(opts, Memoize(true))
	}
	if c.dbg {
		opts = append(opts, Debug(true))
	}
	if c.stats {
		// -prestats N: a Stats value that has been used before (its expression count is not zero)
		opts = append(opts, Statistics(&Stats{ExprCnt: uint64(preStats)}, "no match"))
	}
	return opts
}

func variantToggles(c *caseSpec) []Option { return []Option{Memoize(!c.memo), Debug(!c.dbg)} }
