//go:build lr

package main

func setLR(r *rule, leader, leftRecursive bool) {
	r.leader = leader
	r.leftRecursive = leftRecursive
}
