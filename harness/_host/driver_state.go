//go:build hasstate

package main

func getState(p *parser) map[string]any { return p.cur.state }

func mkStateCode(run func(p *parser) error) any { return &stateCodeExpr{run: run} }
