//go:build hasstate

package main

import (
	"fmt"
	"io"
	"math/rand"
	"runtime"
	"sort"
	"strings"
)

func getState(p *parser) map[string]any { return p.cur.state }

func stateOfCur(c *current) map[string]any { return c.state }

// the InitState options of a case: a fresh Cloner cell per parse, or a plain int
func initOpts(c *caseSpec) []Option {
	var opts []Option
	for _, kv := range c.init {
		if kv.cell {
			opts = append(opts, InitState(kv.key, &Cell{items: append([]int(nil), kv.items...)}))
		} else {
			opts = append(opts, InitState(kv.key, kv.imm))
		}
	}
	return opts
}

func mkStateCode(run func(p *parser) error) any { return &stateCodeExpr{run: run} }

// poolTest drives the real state-store bookkeeping (newParser, #{}-style writes, cloneState,
// restoreState, dropped clones, pool garbage collection) of several parser objects through a random
// interleaving and prints, after every step, what each parser can observe: the line format is the
// one the model driver prints for Pool.view, so that the two can be diffed.
func poolTest(seed int64, n int, w io.Writer) {
	type th struct {
		p     *parser
		saved []storeDict // most recent last
	}
	r := rand.New(rand.NewSource(seed))
	const K = 3
	ths := make([]*th, K)
	showMap := func(m storeDict) string {
		keys := make([]string, 0, len(m))
		for k := range m {
			keys = append(keys, k)
		}
		sort.Strings(keys)
		parts := make([]string, len(keys))
		for i, k := range keys {
			parts[i] = fmt.Sprintf("%s=%v", k[1:], m[k])
		}
		return "{" + strings.Join(parts, ",") + "}"
	}
	for i := 0; i < n; i++ {
		t := r.Intn(K)
		var op string
		switch x := r.Intn(20); {
		case x < 2 || (ths[t] == nil && x < 12):
			op = "start"
			if ths[t] == nil {
				ths[t] = &th{p: newParser("", nil)}
			}
		case x < 9:
			k, v := r.Intn(3), r.Intn(50)
			op = fmt.Sprintf("set %d %d", k, v)
			if ths[t] != nil {
				ths[t].p.cur.state[fmt.Sprintf("k%d", k)] = v
			}
		case x < 13:
			op = fmt.Sprintf("clone %d", r.Intn(3))
			if ths[t] != nil {
				ths[t].saved = append(ths[t].saved, ths[t].p.cloneState())
			}
		case x < 16:
			op = "restore"
			if ths[t] != nil && len(ths[t].saved) > 0 {
				s := ths[t].saved[len(ths[t].saved)-1]
				ths[t].saved = ths[t].saved[:len(ths[t].saved)-1]
				ths[t].p.restoreState(s)
			}
		case x < 19:
			op = "drop"
			if ths[t] != nil && len(ths[t].saved) > 0 {
				ths[t].saved = ths[t].saved[:len(ths[t].saved)-1]
			}
		default:
			op = fmt.Sprintf("gc %d", r.Intn(3))
			runtime.GC()
		}
		var sb strings.Builder
		fmt.Fprintf(&sb, "%d %s |", t, op)
		for j, x := range ths {
			if x == nil {
				fmt.Fprintf(&sb, " t%d=none", j)
				continue
			}
			fmt.Fprintf(&sb, " t%d=%s[", j, showMap(x.p.cur.state))
			for q := len(x.saved) - 1; q >= 0; q-- {
				sb.WriteString(showMap(x.saved[q]))
			}
			sb.WriteString("]")
		}
		fmt.Fprintln(w, sb.String())
	}
}
