package gen

import (
	"fmt"
	"math/rand"
	"strings"
	"unicode"
	"unicode/utf8"

	"github.com/mna/pigeon/ast"
	"github.com/mna/pigeon/builder"
)

// Profile steers the random generator; one per property family.
type Profile struct {
	Name       string
	MaxRules   int
	MaxDepth   int
	W          [18]int // weight per Kind
	Blocks     bool    // actions / code predicates
	State      bool    // state blocks and state ops
	Errors     int     // percentage of blocks returning errors
	Panics     int     // percentage of blocks that panic
	Throw      bool
	LR         bool // generate left-recursive shapes
	Invalid    int  // percentage of inputs with invalid UTF-8 bytes
	NonAscii   bool
	Tmpls      []Tmpl
	MemoPct    int
	DebugPct   int
	StatsPct   int
	NoRecover  int // percentage Recover(false)
	AllowInv   int // percentage AllowInvalidUTF8(true)
	BudgetPct  int // percentage of WF cases that still get a budget
	EntryPct   int // percentage with explicit entrypoint
	Inputs     int // inputs per grammar
	MaxInput   int
	ClassHeavy bool
	IgnoreCase int // percentage of literals/classes with i
	FoldSafe   bool // avoid class shapes hitting the known case-folding defects
	BadRefPct  int // percentage of references to undefined rules
	DupLabels  bool
	NoStaleCtx bool // predicates/state blocks do not observe c.text / c.pos (avoid Q-STALE-CTX)
	NoFFFDLit  bool // no literal contains U+FFFD (avoid Q-LIT-EOF)
	Splice     int  // percentage of grammars led by a rule with a parenthesised group of 3-5 items inside a sequence / choice of 3-6
	SharedLeaf int  // percentage of grammars led by a rule that uses one class-bodied leaf rule in several mergeable choices
	TwoLR      int  // percentage of grammars made of two (or three) separate mutually left-recursive components
	MemoPred   int  // percentage of sequences that start with an optional labelled item followed by a predicate on that label
	UntilIdiom int  // percentage of sequences that are the "until" idiom (!"x" .)* !.
	RuleLabels bool // label names are made distinct between rules (x0, x1, ..)
	CharAlt    int  // percentage of choices built from single-character literals and small classes over a shared alphabet
	ThrowIdiom int  // percentage of rules built as labelled-failure idioms (guarded items in sequence / nested)
	ScanPct    int  // percentage of grammars wrapped in a scanning start rule S <- (v:R0 w:. {..} / .)*
	PredAct    int  // percentage of & and ! predicates whose operand is wrapped in an action
	InitPct    int  // percentage of cases (on templates with a state store) run with InitState options
	JoinWords  int  // percentage of literals (and classes) spelled like the separators of the expected list: ", "  " or "
	NotShare   int  // percentage of choices of the form !R x / R y (or R y / !R x): one rule evaluated at one offset inside and outside a negative predicate
}

var AllTmpls = func() []Tmpl {
	var ts []Tmpl
	for i := 0; i < 16; i++ {
		ts = append(ts, Tmpl{Opt: i&1 != 0, GS: i&2 != 0, LR: i&4 != 0, BL: i&8 != 0})
	}
	return ts
}()

func defaultWeights() [18]int {
	var w [18]int
	w[KLit] = 30
	w[KCls] = 14
	w[KAny] = 6
	w[KSeq] = 18
	w[KAlt] = 14
	w[KStar] = 6
	w[KPlus] = 5
	w[KOpt] = 6
	w[KAnd] = 3
	w[KNot] = 4
	w[KLab] = 0 // labels are generated inside sequences
	w[KAct] = 8
	w[KAndC] = 2
	w[KNotC] = 2
	w[KStC] = 0
	w[KRef] = 14
	w[KRec] = 0
	w[KThrow] = 0
	return w
}

func BaseProfile(name string) *Profile {
	return &Profile{Name: name, MaxRules: 4, MaxDepth: 4, W: defaultWeights(), Blocks: true,
		Tmpls: AllTmpls, MemoPct: 30, BudgetPct: 5, EntryPct: 8, Inputs: 4, MaxInput: 10, NonAscii: true,
		IgnoreCase: 15, AllowInv: 30, Invalid: 10, FoldSafe: true, NoStaleCtx: false, ScanPct: 20}
}

type gctx struct {
	r       *rand.Rand
	p       *Profile
	nrules  int
	nextID  int
	nextCid int
	blocks  map[int]*Block
	depthOf map[*Node]int
	forced  map[int]Cond // predicate conditions fixed by an idiom
}

var asciiAlpha = []string{"a", "b", "c", "A", "B", "x", "+", "1", "\n", " ", "\r", "\t"}
var nonAsciiAlpha = []string{"é", "K", "k", "K", "�", "ß", "Σ", "σ", "ς", "\U0001F600", "\ufeff", "\u0301", "\u200d"}
var labelNames = []string{"x", "y", "z"}
var stateKeys = []string{"k", "m"}
var failLabels = []string{"e1", "e2"}

func (g *gctx) pct(n int) bool { return g.r.Intn(100) < n }

func (g *gctx) alphaRune() string {
	if g.p.NonAscii && g.pct(20) {
		return nonAsciiAlpha[g.r.Intn(len(nonAsciiAlpha))]
	}
	return asciiAlpha[g.r.Intn(len(asciiAlpha))]
}

func (g *gctx) newNode(k Kind) *Node {
	g.nextID++
	return &Node{K: k, ID: g.nextID}
}

func (g *gctx) genLit() *Node {
	n := g.newNode(KLit)
	if g.p.JoinWords > 0 && g.pct(g.p.JoinWords) {
		// terminals whose text looks like the separators of the "expected: a, b or c" list
		n.Lit = []string{", ", " or ", ",", "or", "a, b", "\", \""}[g.r.Intn(6)]
		return n
	}
	ln := 1
	switch x := g.r.Intn(10); {
	case x == 0:
		ln = 0
	case x < 7:
		ln = 1
	case x < 9:
		ln = 2
	default:
		ln = 3
	}
	var sb strings.Builder
	for i := 0; i < ln; i++ {
		sb.WriteString(g.alphaRune())
	}
	n.Lit = sb.String()
	if g.p.NoFFFDLit {
		n.Lit = strings.ReplaceAll(n.Lit, "\uFFFD", "q")
	}
	n.IC = g.pct(g.p.IgnoreCase)
	return n
}

var classPool = []string{"L", "Lu", "Ll", "N", "Nd", "Greek", "Latin", "White_Space", "P", "Zs"}

func escClassRune(s string) string {
	switch s {
	case "\n":
		return `\n`
	case "\r":
		return `\r`
	case "\t":
		return `\t`
	case "]", "\\", "-", "^":
		return `\` + s
	}
	return s
}

func (g *gctx) genCls() *Node {
	n := g.newNode(KCls)
	if g.p.JoinWords > 0 && g.pct(g.p.JoinWords) {
		n.Cls = []string{"[;, ]", "[, ]", "[ or]"}[g.r.Intn(3)]
		return n
	}
	ic := g.pct(g.p.IgnoreCase)
	inv := g.pct(20)
	var sb strings.Builder
	sb.WriteString("[")
	if inv {
		sb.WriteString("^")
	}
	parts := 1 + g.r.Intn(3)
	if g.pct(4) {
		parts = 0
	}
	for i := 0; i < parts; i++ {
		switch x := g.r.Intn(10); {
		case x < 5:
			ch := g.alphaRune()
			if g.p.FoldSafe && ic && ch == "\u212a" {
				ch = "k" // the Kelvin sign in a class with i is the C15 finding (table vs general procedure)
			}
			sb.WriteString(escClassRune(ch))
		case x < 8:
			ranges := []string{"a-c", "A-C", "a-z", "A-Z", "0-9", "b-x"}
			if !g.p.FoldSafe || !ic {
				ranges = append(ranges, "@-Z", "A-a", "Z-a", "J-L", "à-ÿ", "Α-Ω")
			}
			sb.WriteString(ranges[g.r.Intn(len(ranges))])
		default:
			if g.p.FoldSafe && ic {
				ch := g.alphaRune()
				if ch == "\u212a" {
					ch = "k"
				}
				sb.WriteString(escClassRune(ch))
			} else {
				cl := classPool[g.r.Intn(len(classPool))]
				if len(cl) == 1 && g.pct(50) {
					sb.WriteString(`\p` + cl)
				} else {
					sb.WriteString(`\p{` + cl + `}`)
				}
			}
		}
	}
	sb.WriteString("]")
	if ic {
		sb.WriteString("i")
	}
	n.Cls = sb.String()
	return n
}

func (g *gctx) pickKind(depth int) Kind {
	w := g.p.W
	if depth >= g.p.MaxDepth {
		for _, k := range []Kind{KSeq, KAlt, KStar, KPlus, KOpt, KAnd, KNot, KAct, KRec} {
			w[k] = 0
		}
	}
	if depth <= 2 {
		for _, k := range []Kind{KLit, KCls, KAny, KRef, KAndC, KNotC, KThrow} {
			if depth == 1 {
				w[k] = (w[k] + 4) / 5
			} else {
				w[k] = (w[k] + 1) / 2
			}
		}
	}
	if !g.p.Blocks {
		w[KAct], w[KAndC], w[KNotC], w[KStC] = 0, 0, 0, 0
	}
	if !g.p.State {
		w[KStC] = 0
	}
	if !g.p.Throw {
		w[KRec], w[KThrow] = 0, 0
	}
	tot := 0
	for _, x := range w {
		tot += x
	}
	x := g.r.Intn(tot)
	for k, wk := range w {
		if x < wk {
			return Kind(k)
		}
		x -= wk
	}
	return KLit
}

func (g *gctx) newBlock(k Kind) int {
	g.nextCid++
	g.blocks[g.nextCid] = &Block{Cid: g.nextCid, Kind: k}
	return g.nextCid
}

func (g *gctx) genExpr(depth int) *Node {
	k := g.pickKind(depth)
	switch k {
	case KLit:
		return g.genLit()
	case KCls:
		return g.genCls()
	case KAny:
		return g.newNode(KAny)
	case KSeq:
		if g.p.Blocks && g.pct(g.p.MemoPred) {
			// x:"a"? &{ x == nil } ...: evaluated from two start offsets, the predicate node is reached at one offset
			// with two different values of x
			lit := g.newNode(KLit)
			lit.Lit = asciiAlpha[g.r.Intn(4)]
			opt := g.newNode(KOpt)
			opt.Kids = []*Node{lit}
			lab := g.newNode(KLab)
			lab.Label = labelNames[g.r.Intn(len(labelNames))]
			lab.Kids = []*Node{opt}
			k := KAndC
			if g.pct(50) {
				k = KNotC
			}
			pred := g.newNode(k)
			pred.Cid = g.newBlock(k)
			if g.forced == nil {
				g.forced = map[int]Cond{}
			}
			g.forced[pred.Cid] = Cond{Kind: "argnil", S: lab.Label}
			n := g.newNode(KSeq)
			n.Kids = []*Node{lab, pred}
			if g.pct(60) {
				n.Kids = append(n.Kids, g.genExpr(depth+1))
			}
			return n
		}
		if g.pct(g.p.UntilIdiom) {
			// (!"x" .)* followed by end of input: a literal matched inside a negative predicate and the end-of-input
			// marker meet at one offset of the failure report
			stop := g.newNode(KLit)
			stop.Lit = asciiAlpha[g.r.Intn(4)]
			not := g.newNode(KNot)
			not.Kids = []*Node{stop}
			body := g.newNode(KSeq)
			body.Kids = []*Node{not, g.newNode(KAny)}
			star := g.newNode(KStar)
			star.Kids = []*Node{body}
			star.Many = true
			eof := g.newNode(KNot)
			eof.Kids = []*Node{g.newNode(KAny)}
			n := g.newNode(KSeq)
			n.Kids = []*Node{star, eof}
			return n
		}
		n := g.newNode(KSeq)
		cnt := 2 + g.r.Intn(3)
		if g.pct(3) {
			cnt = g.r.Intn(2)
		}
		for i := 0; i < cnt; i++ {
			kid := g.genExpr(depth + 1)
			if g.p.Blocks && g.pct(35) && kid.K != KLab {
				if g.pct(25) && kid.K != KOpt {
					// an optional labelled item: the label is bound to nil when the item is absent
					o := g.newNode(KOpt)
					o.Kids = []*Node{kid}
					kid = o
				}
				l := g.newNode(KLab)
				l.Label = labelNames[g.r.Intn(len(labelNames))]
				l.Kids = []*Node{kid}
				kid = l
			}
			n.Kids = append(n.Kids, kid)
		}
		if g.p.State && g.p.W[KStC] > 0 && g.pct(25) {
			// a zero-width state change at the head of the sequence: its effect must vanish when a later item fails
			st := g.newNode(KStC)
			st.Cid = g.newBlock(KStC)
			n.Kids = append([]*Node{st}, n.Kids...)
		}
		return n
	case KAlt:
		n := g.newNode(KAlt)
		cnt := 2 + g.r.Intn(2)
		if g.p.NotShare > 0 && g.pct(g.p.NotShare) {
			ref := fmt.Sprintf("R%d", g.r.Intn(g.nrules))
			mk := func() *Node { r := g.newNode(KRef); r.Ref = ref; return r }
			not := g.newNode(KNot)
			not.Kids = []*Node{mk()}
			s1 := g.newNode(KSeq)
			s1.Kids = []*Node{not, g.genExpr(depth + 1)}
			second := mk()
			if g.pct(50) {
				s2 := g.newNode(KSeq)
				s2.Kids = []*Node{mk(), g.genExpr(depth + 1)}
				second = s2
			}
			if g.pct(50) {
				n.Kids = []*Node{s1, second}
			} else {
				n.Kids = []*Node{second, s1}
			}
			return n
		}
		if g.pct(g.p.CharAlt) {
			// "0" / [012] / [2345]: what the grammar optimizer merges into one class (with repeated characters)
			alpha := []string{"a", "b", "c", "0", "1", "+"}
			for i := 0; i < cnt+1; i++ {
				if g.pct(40) {
					l := g.newNode(KLit)
					l.Lit = alpha[g.r.Intn(len(alpha))]
					if g.pct(30) {
						// a longer literal next to one-character ones ("=" / "<-"): must not be merged into a class
						l.Lit += alpha[g.r.Intn(len(alpha))]
					}
					n.Kids = append(n.Kids, l)
					continue
				}
				c := g.newNode(KCls)
				var sb strings.Builder
				sb.WriteString("[")
				for j := 1 + g.r.Intn(3); j > 0; j-- {
					sb.WriteString(alpha[g.r.Intn(len(alpha))])
				}
				if g.pct(30) {
					sb.WriteString([]string{"a-c", "0-9", "b-x"}[g.r.Intn(3)])
				}
				sb.WriteString("]")
				c.Cls = sb.String()
				n.Kids = append(n.Kids, c)
			}
			return n
		}
		for i := 0; i < cnt; i++ {
			n.Kids = append(n.Kids, g.genExpr(depth+1))
		}
		return n
	case KStar, KPlus, KOpt, KAnd, KNot:
		n := g.newNode(k)
		n.Kids = []*Node{g.genExpr(depth + 1)}
		if (k == KAnd || k == KNot) && g.p.Blocks && g.p.PredAct > 0 && g.pct(g.p.PredAct) && n.Kids[0].K != KAct {
			// an action directly under a predicate: it runs although its value is thrown away
			a := g.newNode(KAct)
			a.Cid = g.newBlock(KAct)
			a.Kids = []*Node{n.Kids[0]}
			n.Kids[0] = a
		}
		return n
	case KLab:
		n := g.newNode(KLab)
		n.Label = labelNames[g.r.Intn(len(labelNames))]
		n.Kids = []*Node{g.genExpr(depth + 1)}
		return n
	case KAct:
		n := g.newNode(KAct)
		n.Kids = []*Node{g.genExpr(depth + 1)}
		n.Cid = g.newBlock(KAct)
		return n
	case KAndC, KNotC, KStC:
		n := g.newNode(k)
		n.Cid = g.newBlock(k)
		return n
	case KRef:
		n := g.newNode(KRef)
		n.Ref = fmt.Sprintf("R%d", g.r.Intn(g.nrules))
		if g.pct(g.p.BadRefPct) {
			n.Ref = "Undef"
		}
		return n
	case KRec:
		n := g.newNode(KRec)
		n.Kids = []*Node{g.genExpr(depth + 1), g.genExpr(depth + 1)}
		n.Labels = []string{failLabels[g.r.Intn(len(failLabels))]}
		if g.pct(30) {
			n.Labels = append(n.Labels, failLabels[g.r.Intn(len(failLabels))])
		}
		return n
	case KThrow:
		n := g.newNode(KThrow)
		n.Label = failLabels[g.r.Intn(len(failLabels))]
		return n
	}
	panic("unreachable")
}

// ---------- labelled-failure idioms ----------
var idiomLabels = []string{"e1", "e2", "e3"}

func (g *gctx) lit(sv string) *Node {
	n := g.newNode(KLit)
	n.Lit = sv
	return n
}

func (g *gctx) throwOf(l string) *Node {
	n := g.newNode(KThrow)
	n.Label = l
	return n
}

// a recovery expression: consumes something, nothing, fails, or throws again
func (g *gctx) genRecov() *Node {
	switch g.r.Intn(8) {
	case 0, 1:
		return g.newNode(KAny)
	case 2, 3:
		return g.lit(asciiAlpha[g.r.Intn(4)])
	case 4:
		return g.lit("")
	case 5:
		n := g.newNode(KNot)
		n.Kids = []*Node{g.lit("")} // always fails
		return n
	case 6:
		return g.throwOf(idiomLabels[g.r.Intn(len(idiomLabels))])
	default:
		n := g.newNode(KAct)
		n.Kids = []*Node{g.newNode(KAny)}
		n.Cid = g.newBlock(KAct)
		return n
	}
}

// guarded item: (lit / throw / call / nested guarded) //{labels} recov
func (g *gctx) genGuarded(depth int) *Node {
	body := g.newNode(KAlt)
	body.Kids = append(body.Kids, g.lit(asciiAlpha[g.r.Intn(4)]))
	for i := g.r.Intn(3); i > 0; i-- {
		switch x := g.r.Intn(10); {
		case x < 5:
			body.Kids = append(body.Kids, g.throwOf(idiomLabels[g.r.Intn(len(idiomLabels))]))
		case x < 7 && depth < 2:
			body.Kids = append(body.Kids, g.genGuarded(depth+1))
		case x < 9:
			r := g.newNode(KRef)
			r.Ref = fmt.Sprintf("R%d", g.r.Intn(g.nrules))
			body.Kids = append(body.Kids, r)
		default:
			sq := g.newNode(KSeq)
			sq.Kids = []*Node{g.lit(asciiAlpha[g.r.Intn(4)]), g.throwOf(idiomLabels[g.r.Intn(len(idiomLabels))])}
			body.Kids = append(body.Kids, sq)
		}
	}
	n := g.newNode(KRec)
	n.Kids = []*Node{body, g.genRecov()}
	n.Labels = []string{idiomLabels[g.r.Intn(len(idiomLabels))]}
	if g.pct(35) {
		n.Labels = append(n.Labels, idiomLabels[g.r.Intn(len(idiomLabels))])
	}
	return n
}

// a rule made of guarded items in sequence, optionally repeated / under a predicate, with a fallback alternative
func (g *gctx) genThrowRule() *Node {
	seq := g.newNode(KSeq)
	for i := 2 + g.r.Intn(3); i > 0; i-- {
		var it *Node
		switch x := g.r.Intn(10); {
		case x < 6:
			it = g.genGuarded(0)
		case x < 7:
			it = g.throwOf(idiomLabels[g.r.Intn(len(idiomLabels))])
		case x < 8:
			it = g.newNode(KStar)
			it.Kids = []*Node{g.genGuarded(1)}
			sq := g.newNode(KSeq)
			sq.Kids = []*Node{it.Kids[0], g.lit(asciiAlpha[g.r.Intn(4)])} // progress inside the repetition
			it.Kids[0] = sq
		case x < 9:
			it = g.newNode(KAnd)
			it.Kids = []*Node{g.genGuarded(1)}
		default:
			it = g.lit(asciiAlpha[g.r.Intn(4)])
		}
		if g.p.Blocks && g.pct(30) {
			l := g.newNode(KLab)
			l.Label = labelNames[g.r.Intn(len(labelNames))]
			l.Kids = []*Node{it}
			it = l
		}
		seq.Kids = append(seq.Kids, it)
	}
	var e *Node = seq
	if g.p.Blocks && g.pct(50) {
		a := g.newNode(KAct)
		a.Kids = []*Node{e}
		a.Cid = g.newBlock(KAct)
		e = a
	}
	if g.pct(50) {
		alt := g.newNode(KAlt)
		fb := g.newNode(KStar)
		fb.Kids = []*Node{g.newNode(KAny)}
		alt.Kids = []*Node{e, fb}
		e = alt
	}
	if g.pct(30) {
		outer := g.newNode(KRec)
		outer.Kids = []*Node{e, g.genRecov()}
		outer.Labels = []string{idiomLabels[g.r.Intn(len(idiomLabels))]}
		e = outer
	}
	return e
}

func (g *gctx) genCond(params []string, allowState, predCtx bool) Cond {
	for {
		switch g.r.Intn(6) {
		case 0:
			return Cond{Kind: "always"}
		case 1:
			return Cond{Kind: "never"}
		case 2:
			if predCtx && g.p.NoStaleCtx {
				continue
			}
			return Cond{Kind: "textis", S: g.alphaRune()}
		case 3:
			if predCtx && g.p.NoStaleCtx {
				continue
			}
			return Cond{Kind: "offge", N: g.r.Intn(4)}
		case 4:
			if allowState {
				return Cond{Kind: "statege", S: stateKeys[g.r.Intn(len(stateKeys))], N: 1 + g.r.Intn(2)}
			}
		case 5:
			if len(params) > 0 {
				return Cond{Kind: "argnil", S: params[g.r.Intn(len(params))]}
			}
		}
	}
}

func (g *gctx) fillBlock(b *Block, hasState bool) {
	st := hasState && g.p.State
	predCtx := b.Kind != KAct
	// ops
	nops := 0
	if b.Kind == KStC {
		nops = 1 + g.r.Intn(2)
	} else if g.pct(25) {
		nops = 1
	}
	for i := 0; i < nops; i++ {
		kinds := []string{"gapp"}
		if st {
			kinds = []string{"set", "add", "add", "push", "push", "gapp"}
		}
		k := kinds[g.r.Intn(len(kinds))]
		key := stateKeys[g.r.Intn(len(stateKeys))]
		if k == "gapp" {
			key = "g"
		}
		b.Ops = append(b.Ops, Sop{Kind: k, K: key, Z: 1 + g.r.Intn(3)})
	}
	b.PanicC = Cond{Kind: "never"}
	if g.pct(g.p.Panics) {
		b.PanicC = g.genCond(b.Params, st, predCtx)
		b.PanicMsg = fmt.Sprintf("boom%d", b.Cid)
	}
	b.ErrC = Cond{Kind: "never"}
	if g.pct(g.p.Errors) {
		b.ErrC = g.genCond(b.Params, st, predCtx)
		b.ErrMsg = fmt.Sprintf("err%d", b.Cid%3) // few distinct messages so that dedupe is exercised
	}
	b.Pred = Cond{Kind: "always"}
	if b.Kind == KAndC || b.Kind == KNotC {
		b.Pred = g.genCond(b.Params, st, true)
		if c, ok := g.forced[b.Cid]; ok {
			b.Pred = c
		}
	}
	b.RetKind = "nil"
	if b.Kind == KAct {
		switch x := g.r.Intn(10); {
		case x < 1:
			b.RetKind = "nil"
		case x < 3 && len(b.Params) > 0:
			b.RetKind = "arg"
			b.RetArg = b.Params[g.r.Intn(len(b.Params))]
		default:
			b.RetKind = "tuple"
			b.RetItems = []RItem{{Kind: "cid"}, {Kind: "text"}}
			if g.pct(50) {
				b.RetItems = append(b.RetItems, RItem{Kind: "pos"})
			}
			for _, p := range b.Params {
				if g.pct(70) {
					b.RetItems = append(b.RetItems, RItem{Kind: "arg", S: p})
				}
			}
			if st && g.pct(40) {
				b.RetItems = append(b.RetItems, RItem{Kind: "state", S: stateKeys[g.r.Intn(len(stateKeys))]})
			}
		}
	}
}

// ---------- deriving inputs from the grammar ----------
func (g *gctx) derive(n *Node, rules map[string]*Rule, depth int, sb *strings.Builder) {
	if depth > 12 || sb.Len() > 24 {
		return
	}
	switch n.K {
	case KLit:
		s := n.Lit
		if n.IC && g.pct(50) {
			s = strings.ToUpper(s)
		}
		sb.WriteString(s)
	case KCls:
		c := ast.NewCharClassMatcher(ast.Pos{}, n.Cls)
		var cands []rune
		cands = append(cands, c.Chars...)
		for i := 0; i+1 < len(c.Ranges); i += 2 {
			cands = append(cands, c.Ranges[i], c.Ranges[i+1])
		}
		for _, u := range c.UnicodeClasses {
			switch u {
			case "L", "Ll", "Latin":
				cands = append(cands, 'a', 'é')
			case "Lu":
				cands = append(cands, 'A', 'Σ')
			case "N", "Nd":
				cands = append(cands, '1')
			case "Greek":
				cands = append(cands, 'σ')
			case "White_Space", "Zs":
				cands = append(cands, ' ')
			case "P":
				cands = append(cands, '+', '!')
			}
		}
		if c.Inverted || len(cands) == 0 {
			sb.WriteString(g.alphaRune())
		} else {
			r := cands[g.r.Intn(len(cands))]
			if c.IgnoreCase && g.pct(50) {
				r = unicode.ToUpper(r)
			}
			sb.WriteRune(r)
		}
	case KAny:
		sb.WriteString(g.alphaRune())
	case KSeq:
		for i, k := range n.Kids {
			if i > 0 && g.pct(7) {
				continue // near-sentence: one item of the sequence is missing, the rest of the input goes on
			}
			g.derive(k, rules, depth+1, sb)
		}
	case KAlt:
		g.derive(n.Kids[g.r.Intn(len(n.Kids))], rules, depth+1, sb)
	case KStar:
		cnt := g.r.Intn(3)
		if n.Many {
			cnt = 2 + g.r.Intn(4)
		}
		for i := cnt; i > 0; i-- {
			g.derive(n.Kids[0], rules, depth+1, sb)
		}
	case KPlus:
		for i := 1 + g.r.Intn(2); i > 0; i-- {
			g.derive(n.Kids[0], rules, depth+1, sb)
		}
	case KOpt:
		if g.pct(50) {
			g.derive(n.Kids[0], rules, depth+1, sb)
		}
	case KLab, KAct:
		g.derive(n.Kids[0], rules, depth+1, sb)
	case KRef:
		if r, ok := rules[n.Ref]; ok {
			g.derive(r.Expr, rules, depth+1, sb)
		}
	case KRec:
		g.derive(n.Kids[0], rules, depth+1, sb)
	}
}

var invalidBytes = []string{"\xff", "\xc3", "\x80", "\xe2\x82", "\xed\xa0\x80", "\xc0\xaf", "\xf4\x90\x80\x80", "\xf0\x9f"}

func (g *gctx) mutate(s string) string {
	b := []byte(s)
	switch g.r.Intn(6) {
	case 0, 1:
		return s
	case 2: // delete a byte
		if len(b) > 0 {
			i := g.r.Intn(len(b))
			b = append(b[:i:i], b[i+1:]...)
		}
	case 3: // insert a rune
		i := g.r.Intn(len(b) + 1)
		b = append(b[:i:i], append([]byte(g.alphaRune()), b[i:]...)...)
	case 4: // append
		b = append(b, []byte(g.alphaRune())...)
	case 5: // truncate
		if len(b) > 0 {
			b = b[:g.r.Intn(len(b))]
		}
	}
	return string(b)
}

func (g *gctx) genInput(rules []*Rule, rmap map[string]*Rule, entry string) []byte {
	var s string
	if g.pct(80) {
		var sb strings.Builder
		start := rules[0]
		if r, ok := rmap[entry]; ok && entry != "" {
			start = r
		}
		g.derive(start.Expr, rmap, 0, &sb)
		s = g.mutate(sb.String())
	} else {
		n := g.r.Intn(g.p.MaxInput + 1)
		var sb strings.Builder
		for i := 0; i < n && sb.Len() < g.p.MaxInput; i++ {
			sb.WriteString(g.alphaRune())
		}
		s = sb.String()
	}
	if strings.Contains(s, ";") && g.pct(40) {
		// drop closing tokens: the construct that needs them fails after its operands ran, the input goes on
		var sb strings.Builder
		for _, c := range s {
			if c == ';' && g.pct(60) {
				continue
			}
			sb.WriteRune(c)
		}
		s = sb.String()
	}
	if g.pct(g.p.Invalid) {
		ib := invalidBytes[g.r.Intn(len(invalidBytes))]
		i := 0
		if len(s) > 0 {
			i = g.r.Intn(len(s) + 1)
		}
		s = s[:i] + ib + s[i:]
	}
	lim := g.p.MaxInput + 6
	if rules[0].Name == "S" {
		lim = 30
	}
	if len(s) > lim {
		s = s[:lim]
	}
	return []byte(s)
}

// hasKind reports whether any rule contains a node of kind k.
func hasKind(rules []*Rule, k Kind) bool {
	found := false
	for _, r := range rules {
		walkNodes(r.Expr, func(n *Node) {
			if n.K == k {
				found = true
			}
		})
	}
	return found
}

// genLRRule builds  A <- A op B / ... / B  shapes (direct or through one other rule).
func (g *gctx) genLRShape(rules []*Rule) {
	// rules[0] = E <- E '+' T / E '-' T / T ; rules[1] = T (random non-LR operand expression)
	if len(rules) < 2 {
		return
	}
	e, t := rules[0], rules[1]
	mkRef := func(name string) *Node { n := g.newNode(KRef); n.Ref = name; return n }
	mkLit := func(s string) *Node { n := g.newNode(KLit); n.Lit = s; return n }
	lab := func(l string, k *Node) *Node { n := g.newNode(KLab); n.Label = l; n.Kids = []*Node{k}; return n }
	alt := g.newNode(KAlt)
	nrec := 1 + g.r.Intn(2)
	ops := []string{"+", "-", "x"}
	self := e.Name
	indirect := g.pct(30) && len(rules) >= 3
	if indirect {
		// E <- M op T / T ; M <- E
		if g.pct(50) {
			// a name that sorts before the others: the analysis then picks the alias as the cycle's leader,
			// so the cycle is entered through a rule that is not its leader
			old := rules[2].Name
			rules[2].Name = "A2"
			for _, r := range rules {
				walkNodes(r.Expr, func(n *Node) {
					if n.K == KRef && n.Ref == old {
						n.Ref = "A2"
					}
				})
			}
		}
		self = rules[2].Name
		rules[2].Expr = mkRef(e.Name)
		if g.pct(50) {
			s := g.newNode(KSeq)
			s.Kids = []*Node{mkRef(e.Name)}
			rules[2].Expr = s
		}
	}
	for i := 0; i < nrec; i++ {
		s := g.newNode(KSeq)
		s.Kids = []*Node{lab("x", mkRef(self)), mkLit(ops[i]), lab("y", mkRef(t.Name))}
		if g.pct(50) {
			// a closing token after the operand: a growth attempt can fail after the operand (and its code blocks) ran
			s.Kids = append(s.Kids, mkLit(";"))
		}
		var a *Node = s
		if g.p.Blocks && g.pct(80) {
			a = g.newNode(KAct)
			a.Kids = []*Node{s}
			a.Cid = g.newBlock(KAct)
		}
		alt.Kids = append(alt.Kids, a)
	}
	alt.Kids = append(alt.Kids, mkRef(t.Name))
	e.Expr = alt
	if g.p.Blocks && g.pct(60) {
		// the classic operand: one character with an action (which may return an error or change the state)
		c := g.newNode(KCls)
		c.Cls = "[0-9ab]"
		a := g.newNode(KAct)
		a.Kids = []*Node{c}
		a.Cid = g.newBlock(KAct)
		t.Expr = a
	}
	// make sure T does not refer back to E at its first position: simplest is to forbid E in T entirely unless parenthesised by a literal
	walkNodes(t.Expr, func(n *Node) {
		if n.K == KRef && (n.Ref == e.Name || n.Ref == self) {
			n.Ref = t.Name + "x" // undefined → replaced below
		}
	})
	walkNodes(t.Expr, func(n *Node) {
		if n.K == KRef && strings.HasSuffix(n.Ref, "x") {
			n.K = KLit
			n.Lit = "1"
			n.Ref = ""
		}
	})
}

// GenGrammar produces one random grammar with its blocks; returns nil if the draw is unusable.
func GenGrammar(p *Profile, seed int64) (rules []*Rule, blocks map[int]*Block, g *gctx) {
	g = &gctx{r: rand.New(rand.NewSource(seed)), p: p, blocks: map[int]*Block{}}
	g.nrules = 1 + g.r.Intn(p.MaxRules)
	if p.LR && g.nrules < 2 {
		g.nrules = 2
	}
	for i := 0; i < g.nrules; i++ {
		r := &Rule{Name: fmt.Sprintf("R%d", i)}
		if g.pct(15) {
			r.Display = fmt.Sprintf("%q", fmt.Sprintf("rule %d", i)) // the raw literal text, quotes included: what the front-end stores and the builder emits
		}
		if p.Throw && g.pct(p.ThrowIdiom) {
			r.Expr = g.genThrowRule()
		} else {
			r.Expr = g.genExpr(1)
		}
		rules = append(rules, r)
	}
	if p.LR && g.pct(85) {
		g.genLRShape(rules)
	}
	if g.pct(p.TwoLR) {
		// S <- A0 / A1 [/ A2] ; Ai <- Bi 'x' / 'a' ; Bi <- Ai 'y' / 'b' [; one component without a common rule]
		mk := func(k Kind) *Node { return g.newNode(k) }
		ref := func(nm string) *Node { n := mk(KRef); n.Ref = nm; return n }
		lit := func(sv string) *Node { n := mk(KLit); n.Lit = sv; return n }
		seq := func(ks ...*Node) *Node { n := mk(KSeq); n.Kids = ks; return n }
		alt := func(ks ...*Node) *Node { n := mk(KAlt); n.Kids = ks; return n }
		ncomp := 2 + g.r.Intn(2)
		start := mk(KAlt)
		rules = nil
		names := []string{"Pa", "Pb", "Qa", "Qb", "Ea", "Eb"}
		g.r.Shuffle(3, func(i, j int) { // which component gets which name pair
			names[2*i], names[2*j] = names[2*j], names[2*i]
			names[2*i+1], names[2*j+1] = names[2*j+1], names[2*i+1]
		})
		var body []*Rule
		for ci := 0; ci < ncomp; ci++ {
			a, b := names[2*ci], names[2*ci+1]
			start.Kids = append(start.Kids, ref(a))
			body = append(body, &Rule{Name: a, Expr: alt(seq(ref(b), lit("x")), lit("a"))})
			if g.pct(25) {
				// both rules also recurse into themselves: no rule is common to all cycles
				body[len(body)-1].Expr = alt(seq(ref(a), lit("p")), seq(ref(b), lit("x")), lit("a"))
				body = append(body, &Rule{Name: b, Expr: alt(seq(ref(b), lit("q")), seq(ref(a), lit("y")), lit("b"))})
			} else {
				body = append(body, &Rule{Name: b, Expr: alt(seq(ref(a), lit("y")), lit("b"))})
			}
		}
		rules = append([]*Rule{{Name: "R0", Expr: start}}, body...)
		for _, r := range rules {
			r.Expr = normalize(r.Expr)
		}
		return rules, g.blocks, g
	}
	if p.RuleLabels {
		// labels of different rules do not clash: inlining a rule into its user (-optimize-grammar) otherwise lets the
		// inlined rule's label capture the user's label of the same name (known finding C09-INLINE-LABEL-CAPTURE)
		for i, r := range rules {
			ix := i
			walkNodes(r.Expr, func(n *Node) {
				if n.K == KLab {
					n.Label = fmt.Sprintf("%s%d", n.Label, ix)
				}
			})
		}
	}
	if p.LR && p.Blocks && len(rules) >= 2 && g.pct(30) {
		// S <- first:E rest:(op T)* !. : operands are matched again right after the left-recursive rule gave up
		mk := func(k Kind) *Node { return g.newNode(k) }
		ref := func(nm string) *Node { n := mk(KRef); n.Ref = nm; return n }
		lab := func(name string, kid *Node) *Node { l := mk(KLab); l.Label = name; l.Kids = []*Node{kid}; return l }
		op := mk(KLit)
		op.Lit = "+"
		pair := mk(KSeq)
		pair.Kids = []*Node{op, ref("R1")}
		rest := mk(KStar)
		rest.Kids = []*Node{pair}
		rest.Many = true
		seq := mk(KSeq)
		seq.Kids = []*Node{lab("v", ref("R0")), lab("w", rest)}
		act := mk(KAct)
		act.Kids = []*Node{seq}
		act.Cid = g.newBlock(KAct)
		rules = append([]*Rule{{Name: "S", Expr: act}}, rules...)
	} else if p.Blocks && g.pct(p.ScanPct) {
		// the scanning idiom: the first generated rule is tried at every position of the input, so every rule is
		// entered many times at the same nesting depth, after earlier successes and failures
		lab := func(name string, kid *Node) *Node {
			l := g.newNode(KLab)
			l.Label = name
			l.Kids = []*Node{kid}
			return l
		}
		ref := g.newNode(KRef)
		ref.Ref = "R0"
		seq := g.newNode(KSeq)
		seq.Kids = []*Node{lab("v", ref), lab("w", g.newNode(KAny))}
		act := g.newNode(KAct)
		act.Kids = []*Node{seq}
		act.Cid = g.newBlock(KAct)
		alt := g.newNode(KAlt)
		alt.Kids = []*Node{act, g.newNode(KAny)}
		star := g.newNode(KStar)
		star.Kids = []*Node{alt}
		star.Many = true
		rules = append([]*Rule{{Name: "S", Expr: star}}, rules...)
	}
	if p.SharedLeaf > 0 && g.pct(p.SharedLeaf) {
		// Sv <- (V / "y") (V / "w") (V / [xz])? R0? ; V <- [aei] : the leaf rule is inlined at every reference and each
		// copy is merged with its own neighbour - the copies must not share anything
		mk := func(k Kind) *Node { return g.newNode(k) }
		ref := func(nm string) *Node { n := mk(KRef); n.Ref = nm; return n }
		lit := func(sv string) *Node { n := mk(KLit); n.Lit = sv; return n }
		alt := func(ks ...*Node) *Node { n := mk(KAlt); n.Kids = ks; return n }
		opt := func(k *Node) *Node { n := mk(KOpt); n.Kids = []*Node{k}; return n }
		leaf := mk(KCls)
		leaf.Cls = []string{"[a]", "[aei]", "[aeiou]", "[a-cx-z0-9]", "[abc0-2x-z+]", "[ab1]", "[c0+ax]"}[g.r.Intn(7)]
		extra := []string{"y", "w", "B", "A", "1", " "}
		g.r.Shuffle(len(extra), func(i, j int) { extra[i], extra[j] = extra[j], extra[i] })
		seq := mk(KSeq)
		nuse := 2 + g.r.Intn(2)
		for i := 0; i < nuse; i++ {
			var c *Node
			if g.pct(50) {
				c = alt(ref("V"), lit(extra[i]))
			} else {
				c = alt(lit(extra[i]), ref("V"))
			}
			if i >= 2 {
				c = opt(c)
			}
			seq.Kids = append(seq.Kids, c)
		}
		cls2 := mk(KCls)
		cls2.Cls = "[" + extra[4] + extra[5] + "]"
		seq.Kids = append(seq.Kids, opt(alt(ref("V"), cls2)))
		if len(rules) > 0 {
			seq.Kids = append(seq.Kids, opt(ref(rules[0].Name)))
		}
		rules = append([]*Rule{{Name: "Sv", Expr: seq}}, rules...)
		rules = append(rules, &Rule{Name: "V", Expr: leaf})
	} else if p.Splice > 0 && g.pct(p.Splice) {
		// Sp <- "a" ("b" "c" "d") "e"   or   "a" / ("b" / "c" / "d") / "e": the optimizer splices the group into the
		// outer list; every item is a different terminal, so a lost, repeated or displaced item changes what is accepted
		mk := func(k Kind) *Node { return g.newNode(k) }
		pool := []string{"a", "b", "c", "0", "1", "+", "x", "A", "B", "y", "w", " "}
		g.r.Shuffle(len(pool), func(i, j int) { pool[i], pool[j] = pool[j], pool[i] })
		next := 0
		term := func() *Node { n := mk(KLit); n.Lit = pool[next%len(pool)]; next++; return n }
		kind := KSeq
		if g.pct(50) {
			kind = KAlt
		}
		outer := mk(kind)
		olen := []int{3, 3, 5, 6}[g.r.Intn(4)]
		at := g.r.Intn(olen)
		for i := 0; i < olen; i++ {
			if i == at {
				inner := mk(kind)
				for j := 3 + g.r.Intn(3); j > 0; j-- {
					inner.Kids = append(inner.Kids, term())
				}
				outer.Kids = append(outer.Kids, inner)
			} else {
				outer.Kids = append(outer.Kids, term())
			}
		}
		body := outer
		if len(rules) > 0 && kind == KSeq {
			o := mk(KOpt)
			rf := mk(KRef)
			rf.Ref = rules[0].Name
			o.Kids = []*Node{rf}
			body = mk(KSeq)
			body.Kids = []*Node{outer, o}
		}
		rules = append([]*Rule{{Name: "Sp", Expr: body}}, rules...)
	}
	for _, r := range rules {
		r.Expr = normalize(r.Expr)
	}
	return rules, g.blocks, g
}

// normalize rewrites the shapes the grammar front-end can never produce from text:
// an empty sequence is the empty literal, a one-element sequence or choice is its element.
func normalize(n *Node) *Node {
	for i, k := range n.Kids {
		n.Kids[i] = normalize(k)
	}
	switch n.K {
	case KSeq:
		if len(n.Kids) == 0 {
			return &Node{K: KLit, ID: n.ID, Lit: ""}
		}
		if len(n.Kids) == 1 {
			return n.Kids[0]
		}
	case KAlt:
		if len(n.Kids) == 1 {
			return n.Kids[0]
		}
	}
	return n
}

// PrepareLR runs the real builder.PrepareGrammar to obtain leader/leftRecursive flags.
func PrepareLR(rules []*Rule) (have bool, err error) {
	ag := ToAstGrammar(rules)
	have, err = builder.PrepareGrammar(ag)
	if err != nil {
		return have, err
	}
	for i, r := range ag.Rules {
		rules[i].Leader = r.Leader
		rules[i].LeftRec = r.LeftRecursive
	}
	return have, nil
}

// GenCases produces the cases (one per input) for grammar number idx.
func GenCases(p *Profile, seed int64, idx int) []*Case {
	rules, blocks, g := GenGrammar(p, seed*1000003+int64(idx))
	hasStC := hasKind(rules, KStC)
	// choose a template variant compatible with the grammar
	var cands []Tmpl
	for _, t := range p.Tmpls {
		if hasStC && !t.HasState() {
			continue
		}
		cands = append(cands, t)
	}
	if len(cands) == 0 {
		return nil
	}
	t := cands[g.r.Intn(len(cands))]
	have, err := PrepareLR(rules)
	if err != nil {
		return nil // ErrNoLeader: rejected by pigeon even with the flag
	}
	if have && !t.LR {
		// pigeon rejects this grammar without -support-left-recursion; as a run-time
		// case it is only meaningful under a budget (kept: exercises MaxExpressions)
		for _, r := range rules {
			r.Leader, r.LeftRec = false, false
		}
	}
	ComputeParams(rules, blocks)
	for cid := 1; cid <= g.nextCid; cid++ {
		g.fillBlock(blocks[cid], t.HasState())
	}
	wf := WellFormed(rules)
	if have && t.LR && p.LR {
		// supported left recursion: termination is the property under test (C08);
		// a watchdog on the implementation side and fuel on the model side bound the run
		wf = wellFormedModuloLR(rules)
	}
	rmap := map[string]*Rule{}
	for _, r := range rules {
		rmap[r.Name] = r
	}
	var cases []*Case
	for i := 0; i < p.Inputs; i++ {
		o := Opts{Recover: !g.pct(p.NoRecover), AllowInv: g.pct(p.AllowInv), Memo: g.pct(p.MemoPct),
			Debug: g.pct(p.DebugPct), Stats: g.pct(p.StatsPct)}
		if g.pct(50) {
			o.File = "f.peg"
			if g.p.Errors > 0 && g.pct(30) {
				// names with characters that mean something to fmt, to paths and to the prefix syntax itself
				o.File = []string{"100%.txt", "a%20b c.peg", "d:e.peg", "%s%d%v", "sub dir/x.peg"}[g.r.Intn(5)]
			}
		}
		if g.pct(p.EntryPct) {
			o.Entry = fmt.Sprintf("R%d", g.r.Intn(len(rules)+1))
		}
		if !wf {
			o.MaxExpr = 10 + g.r.Intn(300)
		} else if have && t.LR {
			o.MaxExpr = 3000 // generous budget: normal parses finish, a runaway growth loop still ends
		} else if g.pct(p.BudgetPct) {
			o.MaxExpr = 1 + g.r.Intn(60)
		}
		c := &Case{ID: fmt.Sprintf("%s-%d-%d/%d", p.Name, seed, idx, i), Tmpl: t, Opts: o, Rules: rules, Blocks: blocks, WF: wf}
		c.Input = g.genInput(rules, rmap, o.Entry)
		if p.InitPct > 0 && t.HasState() && p.State && g.pct(p.InitPct) {
			// InitState options: a Cloner cell (which state blocks then mutate in place) and / or a plain value
			for _, k := range stateKeys {
				switch g.r.Intn(3) {
				case 0:
					c.Init = append(c.Init, InitKV{Key: k, Cell: true, Items: []int{7 + g.r.Intn(3)}})
				case 1:
					c.Init = append(c.Init, InitKV{Key: k, Imm: 1 + g.r.Intn(4)})
				}
			}
		}
		cases = append(cases, c)
	}
	return cases
}

// wellFormedModuloLR: like WellFormed but ignoring first-position cycles (handled by
// the left-recursion support); still requires no repetition over nullable bodies.
func wellFormedModuloLR(rules []*Rule) bool {
	a := &analysis{rules: map[string]*Rule{}, nullable: map[string]bool{}}
	for _, r := range rules {
		a.rules[r.Name] = r
	}
	for changed := true; changed; {
		changed = false
		for name, r := range a.rules {
			if !a.nullable[name] && a.nullableN(r.Expr) {
				a.nullable[name] = true
				changed = true
			}
		}
	}
	ok := true
	for _, r := range rules {
		walkNodes(r.Expr, func(n *Node) {
			if (n.K == KStar || n.K == KPlus) && a.nullableN(n.Kids[0]) {
				ok = false
			}
			if n.K == KThrow || n.K == KAnd || n.K == KNot {
				ok = false // keep LR termination claims to the plain shapes
			}
		})
	}
	return ok
}

var _ = utf8.RuneError

// ClassesOf returns the raw texts of the character classes of grammar idx.
func ClassesOf(p *Profile, seed int64, idx int) []string {
	rules, _, _ := GenGrammar(p, seed*1000003+int64(idx))
	var out []string
	for _, r := range rules {
		walkNodes(r.Expr, func(n *Node) {
			if n.K == KCls {
				out = append(out, n.Cls)
			}
		})
	}
	return out
}

// ---------- small-scope exhaustive enumeration ----------
// EnumExprs returns all expression trees up to the given depth over the leaves
// 'a', 'b', . and the operators seq/alt (binary), * + ? & !.
func EnumExprs(depth int) []*Node {
	leaves := func() []*Node {
		return []*Node{{K: KLit, Lit: "a"}, {K: KLit, Lit: "b"}, {K: KAny}}
	}
	if depth <= 1 {
		return leaves()
	}
	sub := EnumExprs(depth - 1)
	out := leaves()
	for _, k := range []Kind{KStar, KPlus, KOpt, KAnd, KNot} {
		for _, e := range sub {
			out = append(out, &Node{K: k, Kids: []*Node{e}})
		}
	}
	for _, k := range []Kind{KSeq, KAlt} {
		for _, a := range sub {
			for _, b := range sub {
				out = append(out, &Node{K: k, Kids: []*Node{a, b}})
			}
		}
	}
	return out
}

func cloneTree(n *Node, id *int) *Node {
	*id++
	c := *n
	c.ID = *id
	c.Kids = make([]*Node, len(n.Kids))
	for i, k := range n.Kids {
		c.Kids[i] = cloneTree(k, id)
	}
	return &c
}

// EnumInputs: all strings over {a,b} up to length n.
func EnumInputs(n int) [][]byte {
	out := [][]byte{{}}
	prev := [][]byte{{}}
	for l := 1; l <= n; l++ {
		var cur [][]byte
		for _, p := range prev {
			for _, ch := range []byte("ab") {
				cur = append(cur, append(append([]byte{}, p...), ch))
			}
		}
		out = append(out, cur...)
		prev = cur
	}
	return out
}

// EnumCases: the idx-th expression (stride/offset chosen by the caller) as a one-rule grammar on all inputs.
func EnumCases(exprs []*Node, idx int, inputs [][]byte, t Tmpl) []*Case {
	id := 0
	e := cloneTree(exprs[idx], &id)
	rules := []*Rule{{Name: "S", Expr: e}}
	wf := WellFormed(rules)
	var cs []*Case
	for i, in := range inputs {
		o := Opts{Recover: true}
		if !wf {
			o.MaxExpr = 200
		}
		cs = append(cs, &Case{ID: fmt.Sprintf("enum-%d/%d", idx, i), Tmpl: t, Opts: o, Rules: rules, Blocks: map[int]*Block{}, Input: in, WF: wf})
	}
	return cs
}
