// Package gen: intermediate representation of generated grammars (front-end level),
// conversion to the real ast.Grammar, lowering to run-time case descriptions (what
// builder.writeGrammar emits), PEG text rendering, and static analyses used by the
// generator (termination, parameter scopes).
package gen

import (
	"encoding/hex"
	"fmt"
	"strconv"
	"strings"
	"unicode"

	"github.com/mna/pigeon/ast"
	"github.com/mna/pigeon/builder"
)

type Kind int

const (
	KLit Kind = iota
	KCls
	KAny
	KSeq
	KAlt
	KStar
	KPlus
	KOpt
	KAnd
	KNot
	KLab
	KAct
	KAndC
	KNotC
	KStC
	KRef
	KRec
	KThrow
)

var kindNames = []string{"lit", "cls", "any", "seq", "alt", "star", "plus", "opt", "and", "not", "lab", "act", "andc", "notc", "stc", "ref", "rec", "throw"}

func (k Kind) String() string { return kindNames[k] }

type Node struct {
	K      Kind
	ID     int
	Kids   []*Node
	Lit    string // literal value (unlowered)
	IC     bool   // literal ignore-case
	Cls    string // raw class text, e.g. [a-c]i
	Label  string
	Cid    int
	Ref    string
	Labels []string // failure labels of a recovery expr; Label for throw
	Many   bool     // input derivation only: repeat this * several times
}

type Rule struct {
	Name, Display   string
	Expr            *Node
	Leader, LeftRec bool
}

type Cond struct {
	Kind string // always never textis offge statege argnil
	S    string
	N    int
}

type Sop struct {
	Kind string // set add push gapp
	K    string
	Z    int
}

type RItem struct {
	Kind string // text pos cid arg state const
	S    string
	Z    int
}

type Block struct {
	Cid      int
	Kind     Kind // KAct KAndC KNotC KStC
	Params   []string
	Ops      []Sop
	PanicC   Cond
	PanicMsg string
	ErrC     Cond
	ErrMsg   string
	RetKind  string // nil arg tuple
	RetArg   string
	RetItems []RItem
	Pred     Cond
}

type Tmpl struct{ Opt, GS, LR, BL bool }

func (t Tmpl) HasState() bool { return t.GS || !t.Opt }
func (t Tmpl) Name() string {
	b := func(x bool, s string) string {
		if x {
			return s
		}
		return ""
	}
	n := "h" + b(t.Opt, "O") + b(t.GS, "G") + b(t.LR, "L") + b(t.BL, "B")
	return n
}

type Opts struct {
	Memo, Debug, Stats, Recover, AllowInv bool
	MaxExpr                               int
	Entry, File                           string
}

// InitKV is one InitState option: a Cloner cell (Items) or a plain int (Imm)
type InitKV struct {
	Key   string
	Cell  bool
	Items []int
	Imm   int
}

type Case struct {
	Init   []InitKV // InitState options (state templates only)
	ID     string
	Tmpl   Tmpl
	Opts   Opts
	Rules  []*Rule
	Blocks map[int]*Block
	Input  []byte
	WF     bool // statically guaranteed to terminate without a budget
}

func hx(s string) string { return "x" + hex.EncodeToString([]byte(s)) }
func b01(b bool) string {
	if b {
		return "1"
	}
	return "0"
}

// ---------- conversion to the real AST ----------
func (n *Node) ToAst() ast.Expression {
	p := ast.Pos{}
	switch n.K {
	case KLit:
		l := ast.NewLitMatcher(p, n.Lit)
		l.IgnoreCase = n.IC
		return l
	case KCls:
		return ast.NewCharClassMatcher(p, n.Cls)
	case KAny:
		return ast.NewAnyMatcher(p, ".")
	case KSeq:
		s := ast.NewSeqExpr(p)
		for _, k := range n.Kids {
			s.Exprs = append(s.Exprs, k.ToAst())
		}
		return s
	case KAlt:
		s := ast.NewChoiceExpr(p)
		for _, k := range n.Kids {
			s.Alternatives = append(s.Alternatives, k.ToAst())
		}
		return s
	case KStar:
		e := ast.NewZeroOrMoreExpr(p)
		e.Expr = n.Kids[0].ToAst()
		return e
	case KPlus:
		e := ast.NewOneOrMoreExpr(p)
		e.Expr = n.Kids[0].ToAst()
		return e
	case KOpt:
		e := ast.NewZeroOrOneExpr(p)
		e.Expr = n.Kids[0].ToAst()
		return e
	case KAnd:
		e := ast.NewAndExpr(p)
		e.Expr = n.Kids[0].ToAst()
		return e
	case KNot:
		e := ast.NewNotExpr(p)
		e.Expr = n.Kids[0].ToAst()
		return e
	case KLab:
		e := ast.NewLabeledExpr(p)
		e.Label = ast.NewIdentifier(p, n.Label)
		e.Expr = n.Kids[0].ToAst()
		return e
	case KAct:
		e := ast.NewActionExpr(p)
		e.Expr = n.Kids[0].ToAst()
		e.Code = ast.NewCodeBlock(p, fmt.Sprintf("{ return blk(c, %d) }", n.Cid))
		return e
	case KAndC:
		e := ast.NewAndCodeExpr(p)
		e.Code = ast.NewCodeBlock(p, fmt.Sprintf("{ return pred(c, %d) }", n.Cid))
		return e
	case KNotC:
		e := ast.NewNotCodeExpr(p)
		e.Code = ast.NewCodeBlock(p, fmt.Sprintf("{ return pred(c, %d) }", n.Cid))
		return e
	case KStC:
		e := ast.NewStateCodeExpr(p)
		e.Code = ast.NewCodeBlock(p, fmt.Sprintf("{ return stt(c, %d) }", n.Cid))
		return e
	case KRef:
		e := ast.NewRuleRefExpr(p)
		e.Name = ast.NewIdentifier(p, n.Ref)
		return e
	case KRec:
		e := ast.NewRecoveryExpr(p)
		e.Expr = n.Kids[0].ToAst()
		e.RecoverExpr = n.Kids[1].ToAst()
		for _, l := range n.Labels {
			e.Labels = append(e.Labels, ast.FailureLabel(l))
		}
		return e
	case KThrow:
		e := ast.NewThrowExpr(p)
		e.Label = n.Label
		return e
	}
	panic("bad kind")
}

func ToAstGrammar(rules []*Rule) *ast.Grammar {
	g := ast.NewGrammar(ast.Pos{})
	for _, r := range rules {
		ar := ast.NewRule(ast.Pos{}, ast.NewIdentifier(ast.Pos{}, r.Name))
		if r.Display != "" {
			ar.DisplayName = ast.NewStringLit(ast.Pos{}, r.Display)
		}
		ar.Expr = r.Expr.ToAst()
		g.Rules = append(g.Rules, ar)
	}
	return g
}

// ---------- lowering (mirrors builder.writeExpr; cross-checked by PATH-S) ----------
func lowerRunes(s string, ic bool) []rune {
	if ic {
		s = strings.ToLower(s)
	}
	var rs []rune
	for _, r := range s {
		rs = append(rs, r)
	}
	return rs
}

func ints(rs []rune) string {
	parts := make([]string, len(rs))
	for i, r := range rs {
		parts[i] = strconv.Itoa(int(r))
	}
	return strings.Join(parts, " ")
}

func (n *Node) Sexp(t Tmpl) string {
	id := strconv.Itoa(n.ID)
	kids := func() string {
		parts := make([]string, len(n.Kids))
		for i, k := range n.Kids {
			parts[i] = k.Sexp(t)
		}
		return strings.Join(parts, " ")
	}
	switch n.K {
	case KLit:
		want := strconv.Quote(n.Lit)
		if n.IC {
			want += "i"
		}
		return fmt.Sprintf("(lit %s (%s) %s %s)", id, ints(lowerRunes(n.Lit, n.IC)), b01(n.IC), hx(want))
	case KCls:
		c := ast.NewCharClassMatcher(ast.Pos{}, n.Cls)
		chars := append([]rune(nil), c.Chars...)
		ranges := append([]rune(nil), c.Ranges...)
		if c.IgnoreCase {
			for i := range chars {
				chars[i] = unicode.ToLower(chars[i])
			}
			for i := range ranges {
				ranges[i] = unicode.ToLower(ranges[i])
			}
		}
		cls := make([]string, len(c.UnicodeClasses))
		for i, u := range c.UnicodeClasses {
			cls[i] = hx(u)
		}
		table := ""
		if t.BL {
			tb := builder.BasicLatinLookup(c.Chars, c.Ranges, c.UnicodeClasses, c.IgnoreCase)
			parts := make([]string, 128)
			for i := range tb {
				parts[i] = b01(tb[i])
			}
			table = " " + strings.Join(parts, " ")
		}
		return fmt.Sprintf("(cls %s %s (chars %s) (ranges %s) (classes %s) %s %s (table%s))", id, hx(n.Cls),
			ints(chars), ints(ranges), strings.Join(cls, " "), b01(c.IgnoreCase), b01(c.Inverted), table)
	case KAny:
		return fmt.Sprintf("(any %s)", id)
	case KSeq, KAlt:
		return fmt.Sprintf("(%s %s %s)", n.K, id, kids())
	case KStar, KPlus, KOpt, KAnd, KNot:
		return fmt.Sprintf("(%s %s %s)", n.K, id, kids())
	case KLab:
		return fmt.Sprintf("(lab %s %s %s)", id, hx(n.Label), kids())
	case KAct:
		return fmt.Sprintf("(act %s %d %s)", id, n.Cid, kids())
	case KAndC, KNotC, KStC:
		return fmt.Sprintf("(%s %s %d)", n.K, id, n.Cid)
	case KRef:
		return fmt.Sprintf("(ref %s %s)", id, hx(n.Ref))
	case KRec:
		ls := make([]string, len(n.Labels))
		for i, l := range n.Labels {
			ls[i] = hx(l)
		}
		return fmt.Sprintf("(rec %s %s %s)", id, kids(), strings.Join(ls, " "))
	case KThrow:
		return fmt.Sprintf("(throw %s %s)", id, hx(n.Label))
	}
	panic("bad kind")
}

func condSexp(c Cond) string {
	switch c.Kind {
	case "always", "never":
		return c.Kind
	case "textis":
		return fmt.Sprintf("(textis %s)", hx(c.S))
	case "offge":
		return fmt.Sprintf("(offge %d)", c.N)
	case "statege":
		return fmt.Sprintf("(statege %s %d)", hx(c.S), c.N)
	case "argnil":
		return fmt.Sprintf("(argnil %s)", hx(c.S))
	}
	panic("bad cond " + c.Kind)
}

func (b *Block) Sexp() string {
	ps := make([]string, len(b.Params))
	for i, p := range b.Params {
		ps[i] = hx(p)
	}
	ops := make([]string, len(b.Ops))
	for i, o := range b.Ops {
		ops[i] = fmt.Sprintf("(%s %s %d)", o.Kind, hx(o.K), o.Z)
	}
	ret := "nil"
	switch b.RetKind {
	case "arg":
		ret = fmt.Sprintf("(arg %s)", hx(b.RetArg))
	case "tuple":
		items := make([]string, len(b.RetItems))
		for i, it := range b.RetItems {
			switch it.Kind {
			case "text", "pos", "cid":
				items[i] = it.Kind
			case "const":
				items[i] = fmt.Sprintf("(const %d)", it.Z)
			default:
				items[i] = fmt.Sprintf("(%s %s)", it.Kind, hx(it.S))
			}
		}
		ret = "(tuple " + strings.Join(items, " ") + ")"
	}
	sp := func(s string) string {
		if s == "" {
			return ""
		}
		return " " + s
	}
	return fmt.Sprintf("(block %d (params%s) (ops%s) (panic %s %s) (err %s %s) (ret %s) (pred %s))", b.Cid,
		sp(strings.Join(ps, " ")), sp(strings.Join(ops, " ")), condSexp(b.PanicC), hx(b.PanicMsg),
		condSexp(b.ErrC), hx(b.ErrMsg), ret, condSexp(b.Pred))
}

func (c *Case) Sexp() string {
	var sb strings.Builder
	fmt.Fprintf(&sb, "(case %s (tmpl %s %s %s %s) (opts %s %s %s %s %s %d %s %s) (rules", c.ID,
		b01(c.Tmpl.Opt), b01(c.Tmpl.GS), b01(c.Tmpl.LR), b01(c.Tmpl.BL),
		b01(c.Opts.Memo), b01(c.Opts.Debug), b01(c.Opts.Stats), b01(c.Opts.Recover), b01(c.Opts.AllowInv),
		c.Opts.MaxExpr, hx(c.Opts.Entry), hx(c.Opts.File))
	for _, r := range c.Rules {
		fmt.Fprintf(&sb, " (rule %s %s %s %s %s)", hx(r.Name), hx(r.Display), b01(r.Leader), b01(r.LeftRec), r.Expr.Sexp(c.Tmpl))
	}
	sb.WriteString(") (blocks")
	// deterministic order
	maxCid := 0
	for cid := range c.Blocks {
		if cid > maxCid {
			maxCid = cid
		}
	}
	for cid := 0; cid <= maxCid; cid++ {
		if b, ok := c.Blocks[cid]; ok {
			sb.WriteString(" " + b.Sexp())
		}
	}
	sb.WriteString(")")
	if len(c.Init) > 0 {
		sb.WriteString(" (init")
		for _, kv := range c.Init {
			if kv.Cell {
				fmt.Fprintf(&sb, " (cell %s", hx(kv.Key))
				for _, z := range kv.Items {
					fmt.Fprintf(&sb, " %d", z)
				}
				sb.WriteString(")")
			} else {
				fmt.Fprintf(&sb, " (imm %s %d)", hx(kv.Key), kv.Imm)
			}
		}
		sb.WriteString(")")
	}
	fmt.Fprintf(&sb, " (input %s))", hx(string(c.Input)))
	return sb.String()
}

// ---------- PEG text rendering (for evidence, replay files and PATH-S/G) ----------
func quoteLit(s string, ic bool) string {
	q := strconv.Quote(s)
	if ic {
		q += "i"
	}
	return q
}

func (n *Node) Text(prec int) string {
	return n.text(prec, func(kind string, cid int) string { return fmt.Sprintf("{ /*%d*/ }", cid) })
}

// EmittedPEG renders the grammar of a case as a complete pigeon source whose code blocks call the host driver's
// e2eAct / e2ePred / e2eState with the labels the block receives: the text that goes through the real front-end
// and builder on the "emitted" path of the correspondence.
func (c *Case) EmittedPEG() string {
	code := func(kind string, cid int) string {
		var args []string
		if b, ok := c.Blocks[cid]; ok {
			for _, l := range b.Params {
				args = append(args, fmt.Sprintf(", argKV{%q, %s}", l, l))
			}
		}
		return fmt.Sprintf("{ return %s(c, %d%s) }", kind, cid, strings.Join(args, ""))
	}
	var sb strings.Builder
	sb.WriteString("{\npackage main\n}\n\n")
	for _, r := range c.Rules {
		sb.WriteString(r.Name)
		if r.Display != "" {
			sb.WriteString(" " + r.Display)
		}
		sb.WriteString(" <- " + r.Expr.text(0, code) + "\n")
	}
	return sb.String()
}

func (n *Node) text(prec int, code func(kind string, cid int) string) string {
	// precedence: 0 recovery, 1 choice, 2 action, 3 seq, 4 label, 5 prefix, 6 suffix, 7 primary
	wrap := func(p int, s string) string {
		if p < prec {
			return "(" + s + ")"
		}
		return s
	}
	switch n.K {
	case KLit:
		return quoteLit(n.Lit, n.IC)
	case KCls:
		return n.Cls
	case KAny:
		return "."
	case KSeq:
		parts := make([]string, len(n.Kids))
		for i, k := range n.Kids {
			parts[i] = k.text(4, code)
		}
		return wrap(3, strings.Join(parts, " "))
	case KAlt:
		parts := make([]string, len(n.Kids))
		for i, k := range n.Kids {
			parts[i] = k.text(2, code)
		}
		return wrap(1, strings.Join(parts, " / "))
	case KStar:
		return wrap(6, n.Kids[0].text(7, code)+"*")
	case KPlus:
		return wrap(6, n.Kids[0].text(7, code)+"+")
	case KOpt:
		return wrap(6, n.Kids[0].text(7, code)+"?")
	case KAnd:
		return wrap(5, "&"+n.Kids[0].text(6, code))
	case KNot:
		return wrap(5, "!"+n.Kids[0].text(6, code))
	case KLab:
		return wrap(4, n.Label+":"+n.Kids[0].text(5, code))
	case KAct:
		return wrap(2, n.Kids[0].text(3, code)+" "+code("e2eAct", n.Cid))
	case KAndC:
		return "&" + code("e2ePred", n.Cid)
	case KNotC:
		return "!" + code("e2eNPred", n.Cid)
	case KStC:
		return "#" + code("e2eState", n.Cid)
	case KRef:
		return n.Ref
	case KRec:
		return wrap(0, n.Kids[0].text(0, code)+" //{"+strings.Join(n.Labels, ",")+"} "+n.Kids[1].text(1, code))
	case KThrow:
		return wrap(4, "%{"+n.Label+"}") // ThrowExpr is an alternative of LabeledExpr in pigeon.peg
	}
	panic("bad kind")
}

func GrammarText(rules []*Rule) string {
	var sb strings.Builder
	for _, r := range rules {
		sb.WriteString(r.Name)
		if r.Display != "" {
			sb.WriteString(" " + r.Display)
		}
		sb.WriteString(" <- " + r.Expr.Text(0) + "\n")
	}
	return sb.String()
}

// ---------- scopes: which labels a code block receives (mirrors builder.writeExprCode) ----------
func ComputeParams(rules []*Rule, blocks map[int]*Block) {
	for _, r := range rules {
		stack := [][]string{nil}
		var walk func(n *Node)
		push := func() { stack = append(stack, nil) }
		pop := func() { stack = stack[:len(stack)-1] }
		setParams := func(cid int) {
			if b, ok := blocks[cid]; ok && b.Params == nil {
				b.Params = append([]string{}, stack[len(stack)-1]...)
			}
		}
		walk = func(n *Node) {
			switch n.K {
			case KAct:
				walk(n.Kids[0])
				setParams(n.Cid)
			case KAndC, KNotC, KStC:
				setParams(n.Cid)
			case KLab:
				stack[len(stack)-1] = append(stack[len(stack)-1], n.Label)
				push()
				walk(n.Kids[0])
				pop()
			case KAnd, KNot, KPlus, KStar, KOpt:
				push()
				walk(n.Kids[0])
				pop()
			case KAlt:
				for _, k := range n.Kids {
					push()
					walk(k)
					pop()
				}
			case KRec:
				push()
				walk(n.Kids[0])
				walk(n.Kids[1])
				pop()
			case KSeq:
				for _, k := range n.Kids {
					walk(k)
				}
			}
		}
		walk(r.Expr)
	}
}

// ---------- termination analysis (conservative): WF ⇒ every parse terminates ----------
type analysis struct {
	rules    map[string]*Rule
	nullable map[string]bool
	recExprs []*Node
	inThrow  bool
}

func (a *analysis) nullableN(n *Node) bool {
	switch n.K {
	case KLit:
		return n.Lit == "" || strings.ContainsRune(n.Lit, unicode.ReplacementChar) // "�" may match at EOF without consuming
	case KCls, KAny:
		return false
	case KSeq:
		for _, k := range n.Kids {
			if !a.nullableN(k) {
				return false
			}
		}
		return true
	case KAlt:
		for _, k := range n.Kids {
			if a.nullableN(k) {
				return true
			}
		}
		return false
	case KStar, KOpt, KAnd, KNot, KAndC, KNotC, KStC, KThrow:
		return true
	case KPlus, KLab, KAct:
		return a.nullableN(n.Kids[0])
	case KRef:
		return a.nullable[n.Ref]
	case KRec:
		return a.nullableN(n.Kids[0]) || a.nullableN(n.Kids[1])
	}
	return true
}

func (a *analysis) first(n *Node, out map[string]bool) {
	switch n.K {
	case KSeq:
		for _, k := range n.Kids {
			a.first(k, out)
			if !a.nullableN(k) {
				return
			}
		}
	case KAlt:
		for _, k := range n.Kids {
			a.first(k, out)
		}
	case KStar, KPlus, KOpt, KAnd, KNot, KLab, KAct:
		a.first(n.Kids[0], out)
	case KRef:
		out[n.Ref] = true
	case KRec:
		a.first(n.Kids[0], out)
		a.first(n.Kids[1], out)
	case KThrow:
		if a.inThrow {
			return // already expanding the recovery expressions
		}
		a.inThrow = true
		for _, rc := range a.recExprs {
			a.first(rc, out)
		}
		a.inThrow = false
	}
}

func walkNodes(n *Node, f func(*Node)) {
	f(n)
	for _, k := range n.Kids {
		walkNodes(k, f)
	}
}

// WellFormed reports whether every parse of the grammar terminates regardless of
// input: no repetition over a nullable body, no rule that can reach itself at the
// same position (through nullable prefixes, predicates, recovery expressions).
func WellFormed(rules []*Rule) bool {
	a := &analysis{rules: map[string]*Rule{}, nullable: map[string]bool{}}
	for _, r := range rules {
		a.rules[r.Name] = r // last wins, like the run-time rule table
		walkNodes(r.Expr, func(n *Node) {
			if n.K == KRec {
				a.recExprs = append(a.recExprs, n.Kids[1])
			}
		})
	}
	for changed := true; changed; {
		changed = false
		for name, r := range a.rules {
			if !a.nullable[name] && a.nullableN(r.Expr) {
				a.nullable[name] = true
				changed = true
			}
		}
	}
	ok := true
	for _, r := range rules {
		walkNodes(r.Expr, func(n *Node) {
			if (n.K == KStar || n.K == KPlus) && a.nullableN(n.Kids[0]) {
				ok = false
			}
		})
	}
	if !ok {
		return false
	}
	// first-graph cycles
	edges := map[string]map[string]bool{}
	for name, r := range a.rules {
		out := map[string]bool{}
		a.first(r.Expr, out)
		edges[name] = out
	}
	// transitive closure (tiny graphs)
	for range a.rules {
		for x, outs := range edges {
			for y := range outs {
				for z := range edges[y] {
					edges[x][z] = true
				}
			}
		}
	}
	for name := range a.rules {
		if edges[name][name] {
			return false
		}
	}
	return true
}

// ---------- front-end AST as an S-expression for the Gen model (node ids on flag-carrying kinds) ----------
func (n *Node) AstSexp() string {
	kids := func() string {
		parts := make([]string, len(n.Kids))
		for i, k := range n.Kids {
			parts[i] = k.AstSexp()
		}
		return strings.Join(parts, " ")
	}
	switch n.K {
	case KLit:
		return fmt.Sprintf("(lit %s %s)", hx(n.Lit), b01(n.IC))
	case KCls:
		c := ast.NewCharClassMatcher(ast.Pos{}, n.Cls)
		cls := make([]string, len(c.UnicodeClasses))
		for i, u := range c.UnicodeClasses {
			cls[i] = hx(u)
		}
		return fmt.Sprintf("(cls %s (chars %s) (ranges %s) (classes %s) %s %s)", hx(n.Cls), ints(c.Chars), ints(c.Ranges),
			strings.Join(cls, " "), b01(c.IgnoreCase), b01(c.Inverted))
	case KAny:
		return "(any)"
	case KSeq, KAlt:
		return fmt.Sprintf("(%s %d %s)", n.K, n.ID, kids())
	case KStar, KPlus, KOpt, KAnd, KNot:
		return fmt.Sprintf("(%s %s)", n.K, kids())
	case KLab:
		return fmt.Sprintf("(lab %s %s)", hx(n.Label), kids())
	case KAct:
		return fmt.Sprintf("(act %d %s %s)", n.ID, hx(fmt.Sprintf("{ return blk(c, %d) }", n.Cid)), kids())
	case KAndC, KNotC, KStC:
		return fmt.Sprintf("(%s %s)", n.K, hx(fmt.Sprintf("{ return blk(c, %d) }", n.Cid)))
	case KRef:
		return fmt.Sprintf("(ref %d %s)", n.ID, hx(n.Ref))
	case KRec:
		ls := make([]string, len(n.Labels))
		for i, l := range n.Labels {
			ls[i] = hx(l)
		}
		return fmt.Sprintf("(rec %d %s %s)", n.ID, kids(), strings.Join(ls, " "))
	case KThrow:
		return fmt.Sprintf("(throw %s)", hx(n.Label))
	}
	panic("bad kind")
}

func AstGrammarSexp(rules []*Rule) string {
	parts := make([]string, len(rules))
	for i, r := range rules {
		parts[i] = fmt.Sprintf("(rule %s %s %s)", hx(r.Name), hx(r.Display), r.Expr.AstSexp())
	}
	return "(ast " + strings.Join(parts, " ") + ")"
}
