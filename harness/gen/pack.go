package gen

import "fmt"

// ---------- packed small shapes: many small expressions as the rules of ONE grammar ----------
// Every rule is reached through the Entrypoint option, so one generated parser (one run of the real
// pigeon on the emitted path) covers all of them: each expression kind directly inside each other kind -
// where a lowering slip of the builder lives - and the small-scope enumeration of EnumExprs.

const packChunk = 60

type packer struct {
	id     int
	cid    int
	blocks map[int]*Block
}

func (p *packer) n(k Kind, kids ...*Node) *Node {
	p.id++
	return &Node{K: k, ID: p.id, Kids: kids}
}

func (p *packer) lit(s string, ic bool) *Node {
	n := p.n(KLit)
	n.Lit, n.IC = s, ic
	return n
}

func (p *packer) cls(raw string) *Node {
	n := p.n(KCls)
	n.Cls = raw
	return n
}

func (p *packer) block(k Kind, pred string) int {
	p.cid++
	b := &Block{Cid: p.cid, Kind: k, PanicC: Cond{Kind: "never"}, ErrC: Cond{Kind: "never"}, Pred: Cond{Kind: pred}, RetKind: "nil"}
	if k == KAct {
		b.RetKind = "tuple"
		b.RetItems = []RItem{{Kind: "cid"}, {Kind: "text"}, {Kind: "pos"}}
	}
	p.blocks[p.cid] = b
	return p.cid
}

// inner shapes: atoms and one-level expressions over the atom "a"
func (p *packer) inners() []func() *Node {
	a := func() *Node { return p.lit("a", false) }
	return []func() *Node{
		a,
		func() *Node { return p.lit("ab", false) },
		func() *Node { return p.lit("A", true) },
		func() *Node { return p.lit("", false) },
		func() *Node { return p.cls("[a-b]") },
		func() *Node { return p.cls("[^a]") },
		func() *Node { return p.n(KAny) },
		func() *Node { return p.n(KStar, a()) },
		func() *Node { return p.n(KPlus, a()) },
		func() *Node { return p.n(KOpt, a()) },
		func() *Node { return p.n(KAnd, a()) },
		func() *Node { return p.n(KNot, a()) },
		func() *Node { return p.n(KSeq, a(), p.lit("b", false)) },
		func() *Node { return p.n(KAlt, p.lit("ab", false), a()) },
		func() *Node { n := p.n(KLab, a()); n.Label = "x"; return n },
		func() *Node { n := p.n(KAct, a()); n.Cid = p.block(KAct, "always"); return n },
		func() *Node { n := p.n(KAndC); n.Cid = p.block(KAndC, "always"); return n },
		func() *Node { n := p.n(KNotC); n.Cid = p.block(KNotC, "always"); return n },
		func() *Node { n := p.n(KAndC); n.Cid = p.block(KAndC, "never"); return n },
		func() *Node { n := p.n(KRef); n.Ref = "Leaf"; return n },
		func() *Node { n := p.n(KRef); n.Ref = "Named"; return n },
		func() *Node { n := p.n(KThrow); n.Label = "e1"; return n },
		func() *Node {
			n := p.n(KRec, p.n(KSeq, a(), func() *Node { t := p.n(KThrow); t.Label = "e1"; return t }()), p.lit("b", false))
			n.Labels = []string{"e1"}
			return n
		},
	}
}

// outer shapes around an inner expression
func (p *packer) outers() []func(in *Node) *Node {
	return []func(in *Node) *Node{
		func(in *Node) *Node { return p.n(KStar, in) },
		func(in *Node) *Node { return p.n(KPlus, in) },
		func(in *Node) *Node { return p.n(KOpt, in) },
		func(in *Node) *Node { return p.n(KAnd, in) },
		func(in *Node) *Node { return p.n(KNot, in) },
		func(in *Node) *Node { return p.n(KSeq, in, p.lit("b", false)) },
		func(in *Node) *Node { return p.n(KSeq, p.lit("a", false), in) },
		func(in *Node) *Node { return p.n(KAlt, in, p.lit("b", false)) },
		func(in *Node) *Node { return p.n(KAlt, p.lit("b", false), in) },
		func(in *Node) *Node { n := p.n(KLab, in); n.Label = "y"; return n },
		func(in *Node) *Node { n := p.n(KAct, in); n.Cid = p.block(KAct, "always"); return n },
		func(in *Node) *Node {
			// a label next to the expression, read by an action over both
			l := p.n(KLab, in)
			l.Label = "z"
			n := p.n(KAct, p.n(KSeq, l, p.n(KOpt, p.lit("b", false))))
			n.Cid = p.block(KAct, "always")
			return n
		},
		func(in *Node) *Node {
			n := p.n(KRec, in, p.lit("b", false))
			n.Labels = []string{"e1", "e2"}
			return n
		},
		func(in *Node) *Node {
			n := p.n(KRec, p.n(KSeq, p.lit("a", false), func() *Node { t := p.n(KThrow); t.Label = "e2"; return t }()), in)
			n.Labels = []string{"e2"}
			return n
		},
	}
}

// PackCases builds one grammar per template variant: rules P<o>_<i> = outer o around inner i, then E<k> for the
// selected expressions of the small-scope enumeration (stride/offset as for the enum profile), and one case per
// rule and input with that rule as entrypoint.
func PackCases(seed int64, nEnum int, tmpls []Tmpl) []*Case {
	var out []*Case
	for ti, t := range tmpls {
		p := &packer{blocks: map[int]*Block{}}
		rules := []*Rule{
			{Name: "S", Expr: p.lit("a", false)},
			{Name: "Leaf", Expr: p.n(KPlus, p.lit("a", false))},
			{Name: "Named", Display: `"a name"`, Expr: p.n(KSeq, p.lit("a", false), p.n(KOpt, p.lit("b", false)))},
		}
		var entries []string
		wfOf := map[string]bool{}
		inn := p.inners()
		for oi, o := range p.outers() {
			for ii := range inn {
				name := fmt.Sprintf("P%d_%d", oi, ii)
				r := &Rule{Name: name, Expr: o(inn[ii]())}
				rules = append(rules, r)
				entries = append(entries, name)
				wfOf[name] = WellFormed([]*Rule{r, rules[1], rules[2]})
			}
		}
		// chained recovery operators that share labels: e //{..} r1 //{..} r2 (the front-end nests them leftwards)
		thr := func(l string) *Node { t := p.n(KThrow); t.Label = l; return t }
		rec := func(e, r *Node, ls ...string) *Node { n := p.n(KRec, e, r); n.Labels = ls; return n }
		for ci, e := range []*Node{
			rec(rec(p.n(KSeq, p.lit("a", false), thr("e1")), p.lit("x", false), "e1"), p.lit("b", false), "e1", "e2"),
			rec(rec(p.n(KSeq, p.lit("a", false), thr("e2")), p.lit("x", false), "e1"), p.lit("b", false), "e2", "e1"),
			rec(rec(rec(p.n(KSeq, p.lit("a", false), thr("e1")), p.lit("x", false), "e1", "e2"), p.lit("y", false), "e2"), p.lit("b", false), "e1"),
			rec(rec(p.n(KSeq, p.lit("a", false), thr("e2")), thr("e1"), "e2"), p.lit("b", false), "e1", "e2"),
			rec(p.n(KSeq, p.lit("a", false), rec(thr("e1"), p.lit("x", false), "e2"), p.lit("b", false)), p.lit("b", false), "e1"),
		} {
			name := fmt.Sprintf("C%d", ci)
			r := &Rule{Name: name, Expr: e}
			rules = append(rules, r)
			entries = append(entries, name)
			wfOf[name] = true
		}
		// label scopes: the same name bound twice, with and without another label in between, labels around groups,
		// predicates in the middle of a sequence, labels in alternatives and under repetitions
		lab := func(l string, e *Node) *Node { n := p.n(KLab, e); n.Label = l; return n }
		act := func(e *Node) *Node { n := p.n(KAct, e); n.Cid = p.block(KAct, "always"); return n }
		andc := func() *Node { n := p.n(KAndC); n.Cid = p.block(KAndC, "always"); return n }
		la, lb := func() *Node { return p.lit("a", false) }, func() *Node { return p.lit("b", false) }
		for li, e := range []*Node{
			act(p.n(KSeq, lab("x", la()), lab("y", lb()), lab("x", la()))),
			act(p.n(KSeq, lab("x", la()), lab("x", lb()), lab("y", la()))),
			act(p.n(KSeq, lab("x", la()), lab("y", lb()), lab("z", la()), lab("y", lb()))),
			p.n(KSeq, lab("x", la()), act(p.n(KSeq, lab("y", lb()), p.n(KOpt, la())))),
			act(p.n(KSeq, lab("x", la()), andc(), lab("y", lb()), andc())),
			act(lab("x", p.n(KSeq, la(), lab("y", lb())))),
			act(p.n(KSeq, p.n(KAlt, lab("x", la()), lab("y", lb())), lab("z", p.n(KOpt, la())))),
			act(p.n(KSeq, lab("x", p.n(KStar, la())), lab("y", p.n(KOpt, lab("x", lb()))))),
			act(p.n(KSeq, lab("y", la()), lab("x", lb()), p.n(KNot, lab("y", lb())), lab("y", p.n(KOpt, la())))),
		} {
			name := fmt.Sprintf("L%d", li)
			rules = append(rules, &Rule{Name: name, Expr: e})
			entries = append(entries, name)
			wfOf[name] = true
		}
		// an action around a single expression whose VALUE is a byte string narrower than the match: the text the outer
		// block sees is the input of its own match, not the value passed up
		retArg := func(e *Node, l string) *Node {
			n := p.n(KAct, e)
			n.Cid = p.block(KAct, "always")
			p.blocks[n.Cid].RetKind, p.blocks[n.Cid].RetArg, p.blocks[n.Cid].RetItems = "arg", l, nil
			return n
		}
		narrow := func() *Node { return retArg(p.n(KSeq, p.n(KOpt, la()), lab("x", lb()), p.n(KOpt, la())), "x") }
		rules = append(rules, &Rule{Name: "Narrow", Expr: narrow()})
		nref := func() *Node { r := p.n(KRef); r.Ref = "Narrow"; return r }
		for ti2, e := range []*Node{
			act(nref()),
			act(lab("y", nref())),
			act(narrow()),
			act(p.n(KOpt, nref())),
			act(p.n(KAlt, nref(), la())),
			act(act(nref())),
			retArg(lab("y", nref()), "y"),
		} {
			name := fmt.Sprintf("T%d", ti2)
			rules = append(rules, &Rule{Name: name, Expr: e})
			entries = append(entries, name)
			wfOf[name] = true
		}
		// a label bound again inside a predicate whose body then fails (or matches): the predicate has a scope of its own
		for pi, e := range []*Node{
			act(p.n(KSeq, lab("x", la()), p.n(KNot, p.n(KSeq, lab("x", lb()), p.lit("c", false))), lab("y", lb()))),
			act(p.n(KSeq, lab("x", la()), p.n(KAnd, lab("x", lb())), lab("y", lb()))),
			act(p.n(KSeq, lab("x", la()), p.n(KNot, p.n(KSeq, lab("y", lb()), p.lit("c", false))), lab("z", lb()))),
			act(p.n(KSeq, lab("x", la()), p.n(KOpt, p.n(KSeq, lab("x", lb()), p.lit("c", false))), lab("y", p.n(KOpt, lb())))),
			// a labeled expression is a scope of its own: the same name bound again directly inside it
			act(p.n(KSeq, lab("x", la()), lab("y", p.n(KSeq, lab("x", lb()), p.n(KOpt, la()))))),
			act(p.n(KSeq, lab("x", la()), lab("y", lab("x", lb())), lab("z", p.n(KOpt, la())))),
		} {
			name := fmt.Sprintf("Q%d", pi)
			rules = append(rules, &Rule{Name: name, Expr: e})
			entries = append(entries, name)
			wfOf[name] = true
		}
		// classes and literals under the i flag with runes that lower-case although they are not upper-case letters
		// (title case, Roman numerals, circled capitals), ranges with such ends, inverted
		ownInputs := map[string][][]byte{}
		foldIn := [][]byte{[]byte("ǅ"), []byte("ǆ"), []byte("Ǆ"), []byte("Ⓐ"), []byte("ⓐ"), []byte("Ⅷ"), []byte("ⅷ"), []byte("x"), []byte("X"), []byte("K"), []byte("k"), {}}
		for ki, raw := range []string{"[ǅx]i", "[Ⓐ-Ⓩ]i", "[^Ⅷ]i", "[Ⅰ-Ⅿ]i", "[xǅ-ǆ]i", "[ǅx]", "[^Ⓐ-Ⓩ]i"} {
			name := fmt.Sprintf("K%d", ki)
			rules = append(rules, &Rule{Name: name, Expr: p.cls(raw)})
			entries = append(entries, name)
			wfOf[name] = true
			ownInputs[name] = foldIn
		}
		for ki, l := range []string{"ǅ", "Ⅷx", "ⒶⒷ"} {
			name := fmt.Sprintf("KL%d", ki)
			rules = append(rules, &Rule{Name: name, Expr: p.lit(l, true)})
			entries = append(entries, name)
			wfOf[name] = true
			ownInputs[name] = append([][]byte{[]byte("ǆ"), []byte("ⅷx"), []byte("ⅷX"), []byte("ⓐⓑ"), []byte("Ⓐⓑ")}, foldIn...)
		}
		exprs := EnumExprs(3)
		stride := 1
		if nEnum > 0 && nEnum < len(exprs) {
			stride = len(exprs) / nEnum
		}
		for i := int(seed) % stride; i < len(exprs); i += stride {
			e := cloneTree(exprs[i], &p.id)
			if !WellFormed([]*Rule{{Name: "X", Expr: e}}) {
				continue // would need a budget: the enum profile runs those
			}
			name := fmt.Sprintf("E%d", i)
			rules = append(rules, &Rule{Name: name, Expr: e})
			entries = append(entries, name)
			wfOf[name] = true
		}
		ComputeParams(rules, p.blocks)
		for _, b := range p.blocks {
			if b.Kind == KAct && b.RetKind == "tuple" {
				for _, l := range b.Params {
					b.RetItems = append(b.RetItems, RItem{Kind: "arg", S: l})
				}
			}
		}
		inputs := [][]byte{{}, []byte("a"), []byte("b"), []byte("ab"), []byte("aa"), []byte("aab"), []byte("ba"), []byte("A"), []byte("abb"), []byte("aba"), []byte("abab")}
		// a case line carries its whole grammar: the rules are cut into grammars of at most packChunk entry rules
		// (the three base rules are in each)
		byName := map[string]*Rule{}
		for _, r := range rules {
			byName[r.Name] = r
		}
		for ch := 0; ch*packChunk < len(entries); ch++ {
			hi := (ch + 1) * packChunk
			if hi > len(entries) {
				hi = len(entries)
			}
			part := entries[ch*packChunk : hi]
			prules := []*Rule{rules[0], rules[1], rules[2], byName["Narrow"]}
			pblocks := map[int]*Block{}
			walkNodes(byName["Narrow"].Expr, func(n *Node) {
				if b, ok := p.blocks[n.Cid]; ok && n.K == KAct {
					pblocks[n.Cid] = b
				}
			})
			for _, en := range part {
				prules = append(prules, byName[en])
				walkNodes(byName[en].Expr, func(n *Node) {
					if b, ok := p.blocks[n.Cid]; ok && (n.K == KAct || n.K == KAndC || n.K == KNotC || n.K == KStC) {
						pblocks[n.Cid] = b
					}
				})
			}
			k := 0
			for _, en := range part {
				ins := inputs
				if own, ok := ownInputs[en]; ok {
					ins = own
				}
				for _, in := range ins {
					o := Opts{Recover: true, Entry: en}
					if !wfOf[en] {
						o.MaxExpr = 200 // a repetition of something that can match the empty string: runs under a budget
					}
					out = append(out, &Case{ID: fmt.Sprintf("pack-%d-%d-%d/%d", seed, ti, ch, k), Tmpl: t, Opts: o,
						Rules: prules, Blocks: pblocks, Input: in, WF: wfOf[en]})
					k++
				}
			}
		}
	}
	return out
}
