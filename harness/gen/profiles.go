package gen

func tmplsWhere(f func(Tmpl) bool) []Tmpl {
	var ts []Tmpl
	for _, t := range AllTmpls {
		if f(t) {
			ts = append(ts, t)
		}
	}
	return ts
}

// Profiles: one per property family.  Weights are tuned so that the construct the
// property is about is frequent and reached in interesting configurations.
func ProfileByName(name string) *Profile {
	p := BaseProfile(name)
	p.NoFFFDLit = name != "c01" && name != "utf8" && name != "base"
	switch name {
	case "base":
	case "utf8": // C17
		p.Invalid = 70
		p.AllowInv = 50
		p.W[KAny] = 20
		p.W[KCls] = 20
		p.MaxRules = 2
		p.NoStaleCtx = true
	case "c01": // PEG matching and value shapes
		p.NoStaleCtx = true
		p.MemoPct = 0
		p.W[KAlt] = 18
		p.W[KStar], p.W[KPlus], p.W[KOpt] = 8, 7, 8
		p.W[KAnd], p.W[KNot] = 9, 11
		p.EntryPct = 15
		p.Inputs = 5
	case "c02": // code-block context
		p.MemoPct = 0
		p.W[KAct] = 16
		p.W[KAndC], p.W[KNotC] = 6, 6
		p.W[KSeq] = 24
		p.State = true
		p.W[KStC] = 5
		p.Throw = true
		p.W[KRec], p.W[KThrow] = 3, 4
		p.Invalid = 15
	case "c05", "state": // state store
		p.State = true
		p.W[KStC] = 14
		p.W[KAlt] = 20
		p.W[KAnd], p.W[KNot] = 6, 6
		p.W[KAct] = 10
		p.MemoPct = 0
		p.NoStaleCtx = true
		p.InitPct = 40
		p.Tmpls = tmplsWhere(func(t Tmpl) bool { return t.HasState() })
	case "c06", "memo": // Memoize / Debug / Statistics
		p.MemoPct = 50
		p.DebugPct = 15
		p.StatsPct = 30
		p.MemoPred = 10
		p.NotShare = 8
		p.ScanPct = 35
		p.W[KOpt] = 12
		p.W[KRef] = 22
		p.W[KAlt] = 18
		p.NoStaleCtx = true
		p.BudgetPct = 0
		p.Tmpls = tmplsWhere(func(t Tmpl) bool { return !t.Opt && !t.LR })
	case "c08ns": // left recursion without state blocks (Memoize comparisons)
		p.LR = true
		p.MaxRules = 3
		p.Tmpls = tmplsWhere(func(t Tmpl) bool { return t.LR })
		p.MemoPct = 100
		p.NoStaleCtx = true
		p.Errors = 30
		p.ScanPct = 45
	case "c08", "lr": // left recursion
		p.LR = true
		p.MaxRules = 3
		p.Tmpls = tmplsWhere(func(t Tmpl) bool { return t.LR })
		p.MemoPct = 50
		p.NoStaleCtx = true
		// errors and state changes of the discarded last growth attempt must not be retained, and what follows
		// the left-recursive rule must see the state / error list it leaves behind
		p.State = true
		p.W[KStC] = 5
		p.Errors = 50
		p.ScanPct = 45
	case "c10": // -optimize-parser
		p.NoStaleCtx = true
		p.MemoPct = 0
		p.State = true
		p.W[KStC] = 5
		p.Errors = 15
		p.Throw = true
		p.W[KRec], p.W[KThrow] = 3, 4
		p.Tmpls = tmplsWhere(func(t Tmpl) bool { return !t.Opt })
	case "c11", "errors": // error contract
		p.Errors = 40
		p.Panics = 12
		p.NoRecover = 30
		p.State = true
		p.W[KStC] = 4
		p.W[KAct] = 14
		p.MemoPct = 0
		p.BadRefPct = 5
		p.NoStaleCtx = true
	case "c12": // farthest failure
		p.Blocks = false
		p.MemoPct = 0
		p.W[KNot] = 12
		p.W[KAnd] = 6
		p.W[KAlt] = 22
		p.W[KLit] = 36
		p.W[KCls] = 18
		p.Invalid = 0
		p.AllowInv = 100
		p.Inputs = 6
		p.UntilIdiom = 12
		p.JoinWords = 6
	case "c14", "throw": // throw / recover
		p.Throw = true
		p.W[KRec] = 12
		p.W[KThrow] = 14
		p.W[KRef] = 18
		p.MemoPct = 0
		p.NoStaleCtx = true
		p.ThrowIdiom = 50
	case "c16", "budget": // MaxExpressions
		p.BudgetPct = 60
		p.W[KStar] = 14
		p.W[KPlus] = 10
		p.MemoPct = 40
		p.NoStaleCtx = true
		p.State = true // state blocks count against the budget like every expression
		p.W[KStC] = 6
	case "class": // C15 / case folding
		p.W[KCls] = 60
		p.W[KLit] = 10
		p.IgnoreCase = 40
		p.FoldSafe = false
		p.MaxRules = 2
		p.Blocks = false
		p.MemoPct = 0
		p.Tmpls = tmplsWhere(func(t Tmpl) bool { return !t.BL }) // table vs general procedure is C15's business
	case "c07": // left-recursion detection: reference graphs with nullable prefixes and predicates
		p.TwoLR = 8
		p.MaxRules = 5
		p.MaxDepth = 3
		p.Blocks = false
		p.W[KRef] = 60
		p.W[KLit] = 14
		p.W[KCls] = 3
		p.W[KAny] = 2
		p.W[KOpt] = 14
		p.W[KStar] = 8
		p.W[KAnd], p.W[KNot] = 4, 4
		p.W[KSeq] = 30
		p.W[KAlt] = 16
		p.IgnoreCase = 0
		p.NonAscii = false
		p.Throw = true
		p.W[KRec], p.W[KThrow] = 5, 6
	case "c09": // -optimize-grammar: shared leaf rules, nested choices/sequences, literal/class mixes
		p.MaxRules = 5
		p.MemoPct = 0
		p.W[KRef] = 30
		p.W[KLit] = 34
		p.W[KCls] = 16
		p.W[KSeq] = 22
		p.W[KAlt] = 22
		p.W[KAct] = 10
		p.IgnoreCase = 25
		p.CharAlt = 30
		p.SharedLeaf = 25
		p.Splice = 25
		p.RuleLabels = true
		p.PredAct = 35
		p.W[KAnd], p.W[KNot] = 6, 6
		p.Throw = true // Walk handles recovery / throw nodes since fix 0c660c6
		p.W[KRec], p.W[KThrow] = 3, 3
		p.NoStaleCtx = true
		p.BudgetPct = 0
		p.EntryPct = 0
		p.Inputs = 5
		p.Tmpls = tmplsWhere(func(t Tmpl) bool { return !t.LR && !t.BL })
	case "c18": // concurrency: state-using grammars, many inputs per grammar
		p.State = true
		p.W[KStC] = 8
		p.Inputs = 8
		p.MemoPct = 40
		p.StatsPct = 35
		p.NoStaleCtx = true
	}
	return p
}
