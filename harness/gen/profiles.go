package gen

// Profiles: one per property family.  Weights are tuned so that the construct the
// property is about is frequent and reached in interesting configurations.
func ProfileByName(name string) *Profile {
	p := BaseProfile(name)
	switch name {
	case "base":
	case "utf8":
		p.Invalid = 70
		p.AllowInv = 50
		p.W[KAny] = 20
		p.W[KCls] = 20
		p.Blocks = true
		p.MaxRules = 2
	case "state":
		p.State = true
		p.W[KStC] = 14
		p.W[KAlt] = 20
		p.W[KAnd], p.W[KNot] = 6, 6
		p.MemoPct = 0
	case "errors":
		p.Errors = 35
		p.Panics = 12
		p.NoRecover = 30
		p.State = true
		p.W[KStC] = 4
	case "throw":
		p.Throw = true
		p.W[KRec] = 10
		p.W[KThrow] = 12
	case "lr":
		p.LR = true
		p.MaxRules = 3
		var ts []Tmpl
		for _, t := range AllTmpls {
			if t.LR {
				ts = append(ts, t)
			}
		}
		p.Tmpls = ts
		p.MemoPct = 50
	case "memo":
		p.MemoPct = 100
		p.W[KOpt] = 12
		p.W[KRef] = 20
		var ts []Tmpl
		for _, t := range AllTmpls {
			if !t.Opt {
				ts = append(ts, t)
			}
		}
		p.Tmpls = ts
	case "class":
		p.W[KCls] = 60
		p.W[KLit] = 10
		p.IgnoreCase = 40
		p.FoldSafe = false
		p.MaxRules = 2
	case "budget":
		p.BudgetPct = 60
		p.W[KStar] = 14
		p.W[KPlus] = 10
	}
	return p
}
