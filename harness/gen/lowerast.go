package gen

import (
	"fmt"
	"regexp"
	"strconv"
	"strings"
	"unicode"

	"github.com/mna/pigeon/ast"
	"github.com/mna/pigeon/builder"
)

// LowerAst lowers a real *ast.Grammar (e.g. after ast.Optimize) to the run-time rule
// S-expressions of a case, mirroring builder.writeGrammar/writeExpr.  Code blocks are
// recognised by the marker "blk(c, N)" that ToAst puts into their source.
type AstLowerer struct {
	T      Tmpl
	nextID int
	// Params per code block id as the builder would compute them on this AST
	Params map[int][]string
	// duplicate parameter names (the generated method would not compile)
	DupParams []string
}

var blkRe = regexp.MustCompile(`(?:blk|pred|stt)\(c, (\d+)\)`)

func cidOf(code *ast.CodeBlock) int {
	if code == nil {
		return 0
	}
	m := blkRe.FindStringSubmatch(code.Val)
	if m == nil {
		return 0
	}
	n, _ := strconv.Atoi(m[1])
	return n
}

func (l *AstLowerer) id() int { l.nextID++; return l.nextID }

func (l *AstLowerer) expr(e ast.Expression) string {
	id := l.id()
	switch x := e.(type) {
	case *ast.LitMatcher:
		want := strconv.Quote(x.Val)
		if x.IgnoreCase {
			want += "i"
		}
		return fmt.Sprintf("(lit %d (%s) %s %s)", id, ints(lowerRunes(x.Val, x.IgnoreCase)), b01(x.IgnoreCase), hx(want))
	case *ast.CharClassMatcher:
		chars := append([]rune(nil), x.Chars...)
		ranges := append([]rune(nil), x.Ranges...)
		if x.IgnoreCase {
			for i := range chars {
				chars[i] = unicode.ToLower(chars[i])
			}
			for i := range ranges {
				ranges[i] = unicode.ToLower(ranges[i])
			}
		}
		cls := make([]string, len(x.UnicodeClasses))
		for i, u := range x.UnicodeClasses {
			cls[i] = hx(u)
		}
		table := ""
		if l.T.BL {
			tb := builder.BasicLatinLookup(x.Chars, x.Ranges, x.UnicodeClasses, x.IgnoreCase)
			parts := make([]string, 128)
			for i := range tb {
				parts[i] = b01(tb[i])
			}
			table = " " + strings.Join(parts, " ")
		}
		return fmt.Sprintf("(cls %d %s (chars %s) (ranges %s) (classes %s) %s %s (table%s))", id, hx(x.Val),
			ints(chars), ints(ranges), strings.Join(cls, " "), b01(x.IgnoreCase), b01(x.Inverted), table)
	case *ast.AnyMatcher:
		return fmt.Sprintf("(any %d)", id)
	case *ast.SeqExpr:
		parts := make([]string, len(x.Exprs))
		for i, k := range x.Exprs {
			parts[i] = l.expr(k)
		}
		return fmt.Sprintf("(seq %d %s)", id, strings.Join(parts, " "))
	case *ast.ChoiceExpr:
		parts := make([]string, len(x.Alternatives))
		for i, k := range x.Alternatives {
			parts[i] = l.expr(k)
		}
		return fmt.Sprintf("(alt %d %s)", id, strings.Join(parts, " "))
	case *ast.ZeroOrMoreExpr:
		return fmt.Sprintf("(star %d %s)", id, l.expr(x.Expr))
	case *ast.OneOrMoreExpr:
		return fmt.Sprintf("(plus %d %s)", id, l.expr(x.Expr))
	case *ast.ZeroOrOneExpr:
		return fmt.Sprintf("(opt %d %s)", id, l.expr(x.Expr))
	case *ast.AndExpr:
		return fmt.Sprintf("(and %d %s)", id, l.expr(x.Expr))
	case *ast.NotExpr:
		return fmt.Sprintf("(not %d %s)", id, l.expr(x.Expr))
	case *ast.LabeledExpr:
		lab := ""
		if x.Label != nil {
			lab = x.Label.Val
		}
		return fmt.Sprintf("(lab %d %s %s)", id, hx(lab), l.expr(x.Expr))
	case *ast.ActionExpr:
		return fmt.Sprintf("(act %d %d %s)", id, cidOf(x.Code), l.expr(x.Expr))
	case *ast.AndCodeExpr:
		return fmt.Sprintf("(andc %d %d)", id, cidOf(x.Code))
	case *ast.NotCodeExpr:
		return fmt.Sprintf("(notc %d %d)", id, cidOf(x.Code))
	case *ast.StateCodeExpr:
		return fmt.Sprintf("(stc %d %d)", id, cidOf(x.Code))
	case *ast.RuleRefExpr:
		return fmt.Sprintf("(ref %d %s)", id, hx(x.Name.Val))
	case *ast.RecoveryExpr:
		ls := make([]string, len(x.Labels))
		for i, lb := range x.Labels {
			ls[i] = hx(string(lb))
		}
		return fmt.Sprintf("(rec %d %s %s %s)", id, l.expr(x.Expr), l.expr(x.RecoverExpr), strings.Join(ls, " "))
	case *ast.ThrowExpr:
		return fmt.Sprintf("(throw %d %s)", id, hx(x.Label))
	}
	panic(fmt.Sprintf("LowerAst: unknown expression %T", e))
}

// params mirrors builder.writeExprCode on the real AST
func (l *AstLowerer) params(e ast.Expression, stack *[][]string) {
	push := func() { *stack = append(*stack, nil) }
	pop := func() { *stack = (*stack)[:len(*stack)-1] }
	set := func(code *ast.CodeBlock) {
		cid := cidOf(code)
		if _, ok := l.Params[cid]; ok {
			return
		}
		top := (*stack)[len(*stack)-1]
		l.Params[cid] = append([]string{}, top...)
		seen := map[string]bool{}
		for _, p := range top {
			if seen[p] {
				l.DupParams = append(l.DupParams, fmt.Sprintf("block %d: duplicate parameter %s", cid, p))
			}
			seen[p] = true
		}
	}
	switch x := e.(type) {
	case *ast.ActionExpr:
		l.params(x.Expr, stack)
		set(x.Code)
	case *ast.AndCodeExpr:
		set(x.Code)
	case *ast.NotCodeExpr:
		set(x.Code)
	case *ast.StateCodeExpr:
		set(x.Code)
	case *ast.LabeledExpr:
		if x.Label != nil {
			(*stack)[len(*stack)-1] = append((*stack)[len(*stack)-1], x.Label.Val)
		}
		push()
		l.params(x.Expr, stack)
		pop()
	case *ast.AndExpr:
		push()
		l.params(x.Expr, stack)
		pop()
	case *ast.NotExpr:
		push()
		l.params(x.Expr, stack)
		pop()
	case *ast.OneOrMoreExpr:
		push()
		l.params(x.Expr, stack)
		pop()
	case *ast.ZeroOrMoreExpr:
		push()
		l.params(x.Expr, stack)
		pop()
	case *ast.ZeroOrOneExpr:
		push()
		l.params(x.Expr, stack)
		pop()
	case *ast.ChoiceExpr:
		for _, a := range x.Alternatives {
			push()
			l.params(a, stack)
			pop()
		}
	case *ast.RecoveryExpr:
		push()
		l.params(x.Expr, stack)
		l.params(x.RecoverExpr, stack)
		pop()
	case *ast.SeqExpr:
		for _, s := range x.Exprs {
			l.params(s, stack)
		}
	}
}

// Rules returns the "(rule ...)" S-expressions and fills Params.
func (l *AstLowerer) Rules(g *ast.Grammar, lrFlags map[string][2]bool) string {
	l.Params = map[int][]string{}
	parts := make([]string, 0, len(g.Rules))
	for _, r := range g.Rules {
		disp := ""
		if r.DisplayName != nil {
			disp = r.DisplayName.Val
		}
		fl := lrFlags[r.Name.Val]
		parts = append(parts, fmt.Sprintf("(rule %s %s %s %s %s)", hx(r.Name.Val), hx(disp), b01(fl[0]), b01(fl[1]), l.expr(r.Expr)))
		stack := [][]string{nil}
		l.params(r.Expr, &stack)
	}
	return strings.Join(parts, " ")
}
