package gen

// Front-end cases (C03, C20): a random grammar AST in the documented syntax, printed with a
// random concrete spelling and layout, together with the AST the text denotes in the dump format
// of the verif hook (verif_dump.go in /repo).  The expected dump is built from the abstract tree,
// never from the text, so it is an independent statement of "the AST the text denotes"; only the
// byte offsets of first tokens come from the printer (line and column are recomputed from the text).

import (
	"fmt"
	"math/rand"
	"strconv"
	"strings"
	"unicode/utf8"
)

type FKind int

const (
	FChoice FKind = iota
	FRecovery
	FAction
	FThrow
	FSeq
	FLabel
	FAnd
	FNot
	FOpt
	FStar
	FPlus
	FRef
	FStateCode
	FAndCode
	FNotCode
	FLit
	FClass
	FAny
)

type FItem struct { // one item of a character class
	Kind   int // 0 char, 1 range, 2 unicode class
	Lo, Hi rune
	Class  string
}

type FNode struct {
	K      FKind
	Kids   []*FNode
	Lit    string
	IC     bool
	Label  string
	Labels []string
	Code   string // with braces
	Ref    string
	Items  []FItem
	Inv    bool
	// filled by the printer
	Off int    // byte offset of the first token
	Raw string // class: raw text as written
}

type FRule struct {
	Name    string
	Display string // raw literal text including quotes, "" if none
	Expr    *FNode
	Off     int
}

type FGrammar struct {
	Init    string // code block text with braces, "" if none
	InitOff int
	Rules   []*FRule
}

type FrontOpts struct {
	Bootstrap  bool // restrict to the subset understood by the bootstrap front-end
	EscDash    bool // allow an escaped '-' (\x2d) between two class characters
	Compilable bool // well-typed code blocks, labels distinct inside a rule, defined references (C04)
	DigitNames bool // with Compilable: rule names may end in a digit
}

type fgen struct {
	r      *rand.Rand
	o      FrontOpts
	nrules int
	names  []string // rule names (Compilable)
	nlab   int      // labels used in the current rule (Compilable)
}

func (g *fgen) label() string {
	if g.o.Compilable {
		g.nlab++
		return fmt.Sprintf("l%d", g.nlab)
	}
	return fLabelNames[g.r.Intn(len(fLabelNames))]
}

func (g *fgen) refName() string {
	if g.o.Compilable {
		return g.names[g.r.Intn(len(g.names))]
	}
	return fmt.Sprintf("Rule%d", g.r.Intn(g.nrules))
}

func (g *fgen) pct(n int) bool { return g.r.Intn(100) < n }

var fLabelNames = []string{"x", "y", "val", "_a", "é1", "rest"}
var fFailLabels = []string{"e1", "ErrX", "l_2"}
var fLitPool = []string{"a", "b", "+", "ab", "", " ", "\n", "\t", "é", "\\", "\"", "'", "`", "←", "\U0001F600", "x{", "}", "/*", "//", "\x00", "\x7f", "i", "A", "Ab", "SELECT", "É", "ǅ", "İ", "\u212a", "aB\n", "\xe9", "\xfc\x80", "a\xffb", "\xc3"}
var fCodePool = []string{
	"{ return nil, nil }",
	"{\n\treturn string(c.text), nil\n}",
	"{ if true { return 1, nil }; return map[string]int{\"}\": 1}, nil }",
	"{ s := \"{{\"; _ = s; return `}` , nil }",
	"{ // a comment with } and {\n return nil, nil }",
	"{ /* } */ return '}', nil }",
	"{ return '\\'', nil }",
	"{}",
	"{ x := \"\\\"}\" ; return x, nil }",
	"{ return func() any { return struct{}{} }(), nil }",
}
// code blocks the hand-written bootstrap scanner understands: braces balanced as plain characters
var fCodePoolBoot = []string{
	"{ return nil, nil }",
	"{\r\n\treturn string(c.text), nil\r\n}", // a block of a file with CRLF line ends: the code text keeps them
	"{ return nil, nil // x\r\n}",
	"{\n\treturn string(c.text), nil\n}",
	"{}",
	"{ if true { return 1, nil }; return 2, nil }",
	"{ return func() any { return struct{}{} }(), nil }",
}

func (g *fgen) codeKind(k FKind) string {
	if !g.o.Compilable {
		return g.code()
	}
	switch k {
	case FAction:
		return []string{"{ return nil, nil }", "{\n\treturn string(c.text), nil\n}", "{ if len(c.text) > 1 { return c.pos.offset, nil }; return []any{}, nil }"}[g.r.Intn(3)]
	case FStateCode:
		return []string{"{ return nil }", "{ c.state[\"k\"] = 1; return nil }"}[g.r.Intn(2)]
	default:
		return []string{"{ return true, nil }", "{ return len(c.text) == 0, nil }"}[g.r.Intn(2)]
	}
}

func (g *fgen) code() string {
	if g.o.Bootstrap {
		return fCodePoolBoot[g.r.Intn(len(fCodePoolBoot))]
	}
	return fCodePool[g.r.Intn(len(fCodePool))]
}

var fClassChars = []rune{'a', 'b', 'z', 'A', '0', '9', '_', ' ', '+', '*', '/', '^', '.', 'é', 'ß', '←', '\U0001F600', '\n', '\t', ']', '\\', '[', '"', '\'', 'i', 'p', 'x'}
var fUniClasses = []string{"L", "N", "Lu", "Ll", "Nd", "Greek", "Latin", "White_Space", "Zs", "P", "Cc", "Han", "ASCII_Hex_Digit"}

func (g *fgen) genClass() *FNode {
	n := &FNode{K: FClass, IC: g.pct(25), Inv: g.pct(20)}
	cnt := g.r.Intn(5)
	for i := 0; i < cnt; i++ {
		switch x := g.r.Intn(10); {
		case x < 5:
			n.Items = append(n.Items, FItem{Kind: 0, Lo: fClassChars[g.r.Intn(len(fClassChars))]})
		case x < 8:
			lo := fClassChars[g.r.Intn(len(fClassChars))]
			hi := fClassChars[g.r.Intn(len(fClassChars))]
			n.Items = append(n.Items, FItem{Kind: 1, Lo: lo, Hi: hi})
		default:
			if g.o.Bootstrap {
				n.Items = append(n.Items, FItem{Kind: 0, Lo: 'q'})
			} else {
				n.Items = append(n.Items, FItem{Kind: 2, Class: fUniClasses[g.r.Intn(len(fUniClasses))]})
			}
		}
	}
	if g.pct(12) {
		// a hyphen as a plain member: first or last place
		if g.pct(50) {
			n.Items = append([]FItem{{Kind: 0, Lo: '-'}}, n.Items...)
		} else {
			n.Items = append(n.Items, FItem{Kind: 0, Lo: '-'})
		}
	}
	if g.pct(15) {
		// a hyphen right after a range is a plain member as well: [_a-z-9]
		for i, it := range n.Items {
			if it.Kind == 1 {
				rest := append([]FItem{{Kind: 0, Lo: '-'}}, n.Items[i+1:]...)
				n.Items = append(n.Items[:i+1:i+1], rest...)
				break
			}
		}
	}
	if g.o.EscDash && g.pct(10) && len(n.Items) >= 1 {
		n.Items = append(n.Items, FItem{Kind: 0, Lo: '-'}, FItem{Kind: 0, Lo: 'k'})
	}
	return n
}

func (g *fgen) genPrimary(depth int) *FNode {
	switch x := g.r.Intn(20); {
	case x < 6:
		return &FNode{K: FLit, Lit: fLitPool[g.r.Intn(len(fLitPool))], IC: g.pct(20)}
	case x < 10:
		return g.genClass()
	case x < 12:
		return &FNode{K: FAny}
	case x < 15:
		return &FNode{K: FRef, Ref: g.refName()}
	case x < 16:
		if g.o.Bootstrap {
			return &FNode{K: FAny}
		}
		return &FNode{K: FAndCode, Code: g.codeKind(FAndCode)}
	case x < 17:
		if g.o.Bootstrap {
			return &FNode{K: FAny}
		}
		return &FNode{K: FNotCode, Code: g.codeKind(FNotCode)}
	case x < 18:
		if g.o.Bootstrap {
			return &FNode{K: FAny}
		}
		return &FNode{K: FStateCode, Code: g.codeKind(FStateCode)}
	default:
		if depth < 4 {
			return g.genExpr(depth + 1) // printed in parentheses
		}
		return &FNode{K: FAny}
	}
}

func (g *fgen) genSuffixed(depth int) *FNode {
	p := g.genPrimary(depth)
	switch g.r.Intn(8) {
	case 0:
		return &FNode{K: FOpt, Kids: []*FNode{p}}
	case 1:
		return &FNode{K: FStar, Kids: []*FNode{p}}
	case 2:
		return &FNode{K: FPlus, Kids: []*FNode{p}}
	}
	return p
}

func (g *fgen) genPrefixed(depth int) *FNode {
	s := g.genSuffixed(depth)
	switch g.r.Intn(8) {
	case 0:
		return &FNode{K: FAnd, Kids: []*FNode{s}}
	case 1:
		return &FNode{K: FNot, Kids: []*FNode{s}}
	}
	return s
}

func (g *fgen) genLabeled(depth int) *FNode {
	if !g.o.Bootstrap && g.pct(6) {
		return &FNode{K: FThrow, Label: fFailLabels[g.r.Intn(len(fFailLabels))]}
	}
	p := g.genPrefixed(depth)
	if g.pct(25) {
		return &FNode{K: FLabel, Label: g.label(), Kids: []*FNode{p}}
	}
	return p
}

func (g *fgen) genSeq(depth int) *FNode {
	n := 1
	if g.pct(55) {
		n = 2 + g.r.Intn(3)
	}
	if n == 1 {
		return g.genLabeled(depth)
	}
	s := &FNode{K: FSeq}
	for i := 0; i < n; i++ {
		s.Kids = append(s.Kids, g.genLabeled(depth))
	}
	return s
}

func (g *fgen) genAction(depth int) *FNode {
	s := g.genSeq(depth)
	if g.pct(25) {
		return &FNode{K: FAction, Code: g.codeKind(FAction), Kids: []*FNode{s}}
	}
	return s
}

func (g *fgen) genChoice(depth int) *FNode {
	n := 1
	if g.pct(40) {
		n = 2 + g.r.Intn(2)
	}
	if n == 1 {
		return g.genAction(depth)
	}
	c := &FNode{K: FChoice}
	for i := 0; i < n; i++ {
		c.Kids = append(c.Kids, g.genAction(depth))
	}
	return c
}

func (g *fgen) genExpr(depth int) *FNode {
	e := g.genChoice(depth)
	if g.o.Bootstrap {
		return e
	}
	for g.pct(12) {
		ls := []string{fFailLabels[g.r.Intn(len(fFailLabels))]}
		if g.pct(30) {
			ls = append(ls, fFailLabels[g.r.Intn(len(fFailLabels))])
		}
		e = &FNode{K: FRecovery, Labels: ls, Kids: []*FNode{e, g.genChoice(depth)}}
	}
	return e
}

// GenFront generates grammar number idx.
func GenFront(seed int64, idx int, o FrontOpts) *FGrammar {
	g := &fgen{r: rand.New(rand.NewSource(seed*7919 + int64(idx))), o: o}
	g.nrules = 1 + g.r.Intn(4)
	gr := &FGrammar{}
	if o.Compilable {
		pool := []string{"Start", "Expr", "Term", "Factor", "Item"}
		if o.DigitNames {
			pool = []string{"A", "A1", "B", "B2", "A11"}
		}
		g.r.Shuffle(len(pool), func(i, j int) { pool[i], pool[j] = pool[j], pool[i] })
		g.names = pool[:g.nrules]
		gr.Init = "{\npackage main\n}"
		for i := 0; i < g.nrules; i++ {
			g.nlab = 0
			r := &FRule{Name: g.names[i], Expr: g.genExpr(0)}
			if g.pct(20) {
				r.Display = `"a rule"`
			}
			gr.Rules = append(gr.Rules, r)
		}
		return gr
	}
	if g.pct(60) {
		gr.Init = "{\npackage main\n\nvar m = map[string]string{\"{\": \"}\"}\n}"
		if o.Bootstrap {
			gr.Init = "{\npackage main\n\nvar m = map[string]string{}\n}"
		}
	}
	for i := 0; i < g.nrules; i++ {
		r := &FRule{Name: fmt.Sprintf("Rule%d", i), Expr: g.genExpr(0)}
		if i == 0 && !o.Bootstrap && g.pct(15) {
			// only labels are checked against the reserved words: a rule may be called like a Go keyword or predeclared name
			r.Name = []string{"type", "string", "int", "nil", "break", "error", "len", "go"}[g.r.Intn(8)]
		}
		if i == 1 && g.pct(50) {
			r.Name = "Règle_1"
			// keep references valid: they use RuleN names, an undefined reference is still syntactically fine
		}
		if g.pct(25) {
			r.Display = []string{`"a rule"`, `'r'`, "`raw name`", `"q\"uote"`}[g.r.Intn(4)]
		}
		gr.Rules = append(gr.Rules, r)
	}
	return gr
}

// ---------------------------------------------------------------- printing with layout
type fprinter struct {
	r  *rand.Rand
	sb strings.Builder
	o  FrontOpts
}

func (p *fprinter) pct(n int) bool { return p.r.Intn(100) < n }
func (p *fprinter) w(s string)    { p.sb.WriteString(s) }
func (p *fprinter) off() int      { return p.sb.Len() }

// layout inside a rule: whitespace, newlines, comments (the grammar's __)
func (p *fprinter) ws(min bool) {
	n := p.r.Intn(3)
	if min && n == 0 {
		n = 1
	}
	for i := 0; i < n; i++ {
		if p.o.Bootstrap {
			// the hand-written front-end is token based: blanks only inside a rule
			if p.pct(80) {
				p.w(" ")
			} else {
				p.w("\t")
			}
			continue
		}
		switch x := p.r.Intn(20); {
		case x < 12:
			p.w(" ")
		case x < 14:
			p.w("\t")
		case x < 16:
			p.w("\n")
		case x < 17:
			p.w("\r\n")
		case x < 18:
			// runs of stars before the closing slash, an empty comment, a brace inside
			p.w([]string{"/* c { */", "/** doc **/", "/***/", "/**/", "/* x ***/", "/****** t ******/", "/* a * b / c */"}[p.r.Intn(7)])
		case x < 19:
			p.w([]string{"/* two\nlines */", "/**\n * doc\n **/"}[p.r.Intn(2)])
		default:
			p.w("// line comment }\n")
		}
	}
}

func hexN(r rune, n int) string { return fmt.Sprintf("%0*x", n, r) }

// spell one character of a string literal delimited by q
func (p *fprinter) spellStrChar(r rune, q byte) string {
	must := r == rune(q) || r == '\\' || r == '\n'
	if q == '`' {
		return string(r)
	}
	choice := p.r.Intn(10)
	if must && choice >= 6 {
		choice = p.r.Intn(6)
	}
	switch {
	case choice == 0 && r < 0x100:
		return `\x` + hexN(r, 2)
	case choice == 1 && r < 0x10000 && !(r >= 0xd800 && r < 0xe000):
		return `\u` + hexN(r, 4)
	case choice == 2 && !(r >= 0xd800 && r < 0xe000):
		return `\U` + hexN(r, 8)
	case choice == 3 && r < 0x100:
		return fmt.Sprintf(`\%03o`, r)
	case choice <= 5 || must:
		switch r {
		case '\a':
			return `\a`
		case '\b':
			return `\b`
		case '\n':
			return `\n`
		case '\f':
			return `\f`
		case '\r':
			return `\r`
		case '\t':
			return `\t`
		case '\v':
			return `\v`
		case '\\':
			return `\\`
		case rune(q):
			return `\` + string(q)
		}
		if must {
			return `\u` + hexN(r, 4)
		}
	}
	return string(r)
}

func (p *fprinter) lit(n *FNode) {
	start := p.off()
	defer func() {
		raw := p.sb.String()[start:]
		if n.IC {
			raw = raw[:len(raw)-1]
		}
		n.Raw = raw
	}()
	if !utf8.ValidString(n.Lit) {
		// a value that is not UTF-8 can only be written with byte escapes (\xNN, \NNN): "\xe9" and '\xe9' denote the one
		// byte 0xE9, not the rune U+00E9
		q := byte('"')
		if len(n.Lit) == 1 && p.r.Intn(2) == 0 {
			q = '\''
		}
		p.w(string(q))
		for i := 0; i < len(n.Lit); i++ {
			b := n.Lit[i]
			switch {
			case b >= 0x80 && p.r.Intn(2) == 0:
				p.w(`\x` + hexN(rune(b), 2))
			case b >= 0x80:
				p.w(fmt.Sprintf(`\%03o`, b))
			default:
				p.w(p.spellStrChar(rune(b), q))
			}
		}
		p.w(string(q))
		if n.IC {
			p.w("i")
		}
		return
	}
	q := byte('"')
	rs := []rune(n.Lit)
	validUTF8Bytes := utf8.ValidString(n.Lit)
	switch x := p.r.Intn(10); {
	case x < 2 && len(rs) == 1:
		q = '\''
	case x < 4 && !strings.ContainsAny(n.Lit, "`\r") && validUTF8Bytes && !p.o.Bootstrap:
		q = '`'
	}
	p.w(string(q))
	for _, r := range rs {
		// \xNN and octal escapes denote bytes, not runes: only used below 0x80
		s := p.spellStrChar(r, q)
		if r >= 0x80 && (strings.HasPrefix(s, `\x`) || (len(s) == 4 && s[0] == '\\' && s[1] >= '0' && s[1] <= '7')) {
			s = string(r)
		}
		p.w(s)
	}
	p.w(string(q))
	if n.IC {
		p.w("i")
	}
}

func (p *fprinter) spellClassChar(r rune, escDash bool) string {
	must := r == ']' || r == '\\' || r == '\n'
	if r == '-' && escDash {
		return `\x2d`
	}
	choice := p.r.Intn(10)
	if must && choice >= 5 {
		choice = p.r.Intn(5)
	}
	switch {
	case choice == 0 && r < 0x80:
		return `\x` + hexN(r, 2)
	case choice == 1 && r < 0x10000:
		return `\u` + hexN(r, 4)
	case choice == 2:
		return `\U` + hexN(r, 8)
	case choice == 3 && r < 0x80:
		return fmt.Sprintf(`\%03o`, r)
	case choice == 4 || must:
		switch r {
		case '\n':
			return `\n`
		case '\t':
			return `\t`
		case '\\':
			return `\\`
		case ']':
			return `\]`
		}
		if must {
			return `\u` + hexN(r, 4)
		}
	}
	return string(r)
}

func (p *fprinter) class(n *FNode) {
	start := p.off()
	p.w("[")
	if n.Inv {
		p.w("^")
	}
	for i, it := range n.Items {
		switch it.Kind {
		case 0:
			esc := it.Lo == '-' && i > 0 && i < len(n.Items)-1 && n.Items[i-1].Kind != 1
			if it.Lo == '^' && i == 0 && !n.Inv {
				p.w(`\x5e`) // a leading ^ would invert
			} else {
				p.w(p.spellClassChar(it.Lo, esc))
			}
		case 1:
			lo, hi := p.spellClassChar(it.Lo, false), p.spellClassChar(it.Hi, false)
			if it.Lo == '^' && i == 0 && !n.Inv {
				lo = `\x5e`
			}
			p.w(lo + "-" + hi)
		case 2:
			if len(it.Class) == 1 && p.pct(50) {
				p.w(`\p` + it.Class)
			} else {
				p.w(`\p{` + it.Class + `}`)
			}
		}
	}
	p.w("]")
	if n.IC {
		p.w("i")
	}
	n.Raw = p.sb.String()[start:]
}

// precedence levels: 0 recovery, 1 choice, 2 action, 3 seq, 4 labeled, 5 prefixed, 6 suffixed, 7 primary
func flevel(k FKind) int {
	switch k {
	case FRecovery:
		return 0
	case FChoice:
		return 1
	case FAction:
		return 2
	case FSeq:
		return 3
	case FLabel, FThrow:
		return 4
	case FAnd, FNot:
		return 5
	case FOpt, FStar, FPlus:
		return 6
	}
	return 7
}

func (p *fprinter) expr(n *FNode, level int) {
	paren := flevel(n.K) < level || p.pct(4) // redundant parentheses at every level, also around the guarded expression of //{..} and a whole rule body
	if paren {
		p.w("(")
		p.ws(false)
		p.exprNoParen(n)
		p.ws(false)
		p.w(")")
		return
	}
	p.exprNoParen(n)
}

func (p *fprinter) exprNoParen(n *FNode) {
	n.Off = p.off()
	switch n.K {
	case FRecovery:
		// left-assoc chain: the guarded expression may itself be an unparenthesised recovery expression
		p.expr(n.Kids[0], 0)
		p.ws(false)
		p.w("//{")
		p.ws(false)
		for i, l := range n.Labels {
			if i > 0 {
				p.ws(false)
				p.w(",")
				p.ws(false)
			}
			p.w(l)
		}
		p.ws(false)
		p.w("}")
		p.ws(false)
		p.expr(n.Kids[1], 1)
	case FChoice:
		for i, k := range n.Kids {
			if i > 0 {
				p.ws(false)
				p.w("/ ") // a following comment would otherwise read "//..." and swallow the operator
				p.ws(false)
			}
			p.expr(k, 2)
		}
	case FAction:
		p.expr(n.Kids[0], 3)
		p.ws(false)
		p.w(n.Code)
	case FSeq:
		for i, k := range n.Kids {
			if i > 0 {
				p.ws(true)
			}
			p.expr(k, 4)
		}
	case FLabel:
		p.w(n.Label)
		p.ws(false)
		p.w(":")
		p.ws(false)
		p.expr(n.Kids[0], 5)
	case FThrow:
		p.w("%{" + n.Label + "}")
	case FAnd, FNot:
		if n.K == FAnd {
			p.w("&")
		} else {
			p.w("!")
		}
		p.ws(false)
		p.expr(n.Kids[0], 6)
	case FOpt, FStar, FPlus:
		p.expr(n.Kids[0], 7)
		p.ws(false)
		p.w(map[FKind]string{FOpt: "?", FStar: "*", FPlus: "+"}[n.K])
	case FRef:
		p.w(n.Ref)
	case FStateCode, FAndCode, FNotCode:
		p.w(map[FKind]string{FStateCode: "#", FAndCode: "&", FNotCode: "!"}[n.K])
		p.ws(false)
		p.w(n.Code)
	case FLit:
		p.lit(n)
	case FClass:
		p.class(n)
	case FAny:
		p.w(".")
	}
	// a parenthesised or plain first child: the node starts at its first token, which for the
	// composite kinds is the first token of the first child unless that child was parenthesised
}

// PrintFront prints the grammar with a layout drawn from seed; fills Off fields.
func PrintFront(g *FGrammar, seed int64, o FrontOpts) string {
	p := &fprinter{r: rand.New(rand.NewSource(seed)), o: o}
	if o.Bootstrap {
		if p.pct(30) {
			p.w("\n")
		}
	} else {
		p.ws(false)
	}
	if g.Init != "" {
		g.InitOff = p.off()
		p.w(g.Init)
		if o.Bootstrap {
			p.w("\n")
		} else if p.pct(50) {
			p.ws(false)
			p.w(";")
		} else {
			p.w(" \n")
		}
		p.ws(false)
	}
	ops := []string{"<-", "=", "←", "⟵"}
	for i, r := range g.Rules {
		r.Off = p.off()
		p.w(r.Name)
		p.ws(false)
		if r.Display != "" {
			p.w(r.Display)
			p.ws(false)
		}
		op := ops[p.r.Intn(len(ops))]
		if o.Bootstrap {
			op = ops[p.r.Intn(3)]
		}
		p.w(op)
		p.ws(false)
		if o.Bootstrap && p.pct(30) {
			p.w("\n")
		}
		p.expr(r.Expr, 0)
		last := i == len(g.Rules)-1
		if o.Bootstrap {
			if p.pct(30) {
				p.w(" ;")
			}
			if !last || p.pct(70) {
				p.w("\n")
				if p.pct(30) {
					p.w("\n")
				}
			}
			continue
		}
		switch x := p.r.Intn(10); {
		case x < 3:
			p.ws(false)
			p.w(";")
			p.ws(false)
		case x < 5 && last:
			p.ws(false) // end of file
		case x < 7:
			p.w(" /* same line */ // trailing\n")
			p.ws(false)
		default:
			p.w("\n")
			p.ws(false)
		}
	}
	return p.sb.String()
}

// ---------------------------------------------------------------- expected dump
func fpos(text string, off int, withPos bool) string {
	if !withPos {
		return ""
	}
	line, col := 1, 1
	if off < len(text) && text[off] == '\n' {
		// pigeon's position of a newline rune: already on the next line, column 0
		return fmt.Sprintf("@%d:0:%d ", 2+strings.Count(text[:off], "\n"), off)
	}
	pre := text[:off]
	if i := strings.LastIndexByte(pre, '\n'); i >= 0 {
		line = 1 + strings.Count(pre, "\n")
		col = 1 + utf8.RuneCountInString(pre[i+1:])
	} else {
		col = 1 + utf8.RuneCountInString(pre)
	}
	return fmt.Sprintf("@%d:%d:%d ", line, col, off)
}

// firstOff: offset of the first token of the node as the front-end positions it.
func firstOff(n *FNode) int { return n.Off }

// ExpectedDump renders the AST the text denotes in the hook's format.
func ExpectedDump(g *FGrammar, text string, withPos bool) string {
	var sb strings.Builder
	gpos := 0
	// the grammar node is positioned at the start of the text (Grammar <- __ ... matched from offset 0)
	fmt.Fprintf(&sb, "%sgrammar\n", fpos(text, gpos, withPos))
	if g.Init != "" {
		fmt.Fprintf(&sb, " %sinit %q\n", fpos(text, g.InitOff, withPos), g.Init)
	}
	for _, r := range g.Rules {
		dn := "-"
		if r.Display != "" {
			dn = fmt.Sprintf("%q", r.Display)
		}
		fmt.Fprintf(&sb, " %srule %s %s\n", fpos(text, r.Off, withPos), r.Name, dn)
		dumpF(&sb, r.Expr, 2, text, withPos)
	}
	return sb.String()
}

func ints32(rs []rune) string {
	p := make([]string, len(rs))
	for i, r := range rs {
		p[i] = strconv.Itoa(int(r))
	}
	return "[" + strings.Join(p, " ") + "]"
}

func dumpF(sb *strings.Builder, n *FNode, ind int, text string, withPos bool) {
	pad := strings.Repeat(" ", ind)
	p := fpos(text, n.Off, withPos)
	kids := func() {
		for _, k := range n.Kids {
			dumpF(sb, k, ind+1, text, withPos)
		}
	}
	switch n.K {
	case FChoice:
		fmt.Fprintf(sb, "%s%schoice %d\n", pad, p, len(n.Kids))
		kids()
	case FRecovery:
		fmt.Fprintf(sb, "%s%srecovery %s\n", pad, p, strings.Join(n.Labels, ","))
		kids()
	case FAction:
		fmt.Fprintf(sb, "%s%saction %q\n", pad, p, n.Code)
		kids()
	case FThrow:
		fmt.Fprintf(sb, "%s%sthrow %s\n", pad, p, n.Label)
	case FSeq:
		fmt.Fprintf(sb, "%s%sseq %d\n", pad, p, len(n.Kids))
		kids()
	case FLabel:
		fmt.Fprintf(sb, "%s%slabel %s\n", pad, p, n.Label)
		kids()
	case FAnd:
		fmt.Fprintf(sb, "%s%sand\n", pad, p)
		kids()
	case FNot:
		fmt.Fprintf(sb, "%s%snot\n", pad, p)
		kids()
	case FOpt:
		fmt.Fprintf(sb, "%s%sopt\n", pad, p)
		kids()
	case FStar:
		fmt.Fprintf(sb, "%s%sstar\n", pad, p)
		kids()
	case FPlus:
		fmt.Fprintf(sb, "%s%splus\n", pad, p)
		kids()
	case FRef:
		fmt.Fprintf(sb, "%s%sref %s\n", pad, p, n.Ref)
	case FStateCode:
		fmt.Fprintf(sb, "%s%sstatecode %q\n", pad, p, n.Code)
	case FAndCode:
		fmt.Fprintf(sb, "%s%sandcode %q\n", pad, p, n.Code)
	case FNotCode:
		fmt.Fprintf(sb, "%s%snotcode %q\n", pad, p, n.Code)
	case FLit:
		fmt.Fprintf(sb, "%s%slit %q %t\n", pad, p, n.Lit, n.IC)
	case FClass:
		var chars, ranges []rune
		classes := []string{}
		for _, it := range n.Items {
			switch it.Kind {
			case 0:
				chars = append(chars, it.Lo)
			case 1:
				ranges = append(ranges, it.Lo, it.Hi)
			case 2:
				classes = append(classes, it.Class)
			}
		}
		fmt.Fprintf(sb, "%s%sclass %q ic=%t inv=%t chars=%s ranges=%s classes=%q\n", pad, p, n.Raw, n.IC, n.Inv,
			ints32(chars), ints32(ranges), classes)
	case FAny:
		fmt.Fprintf(sb, "%s%sany\n", pad, p)
	}
}

// ClassItemsSexp: the items of every class of the grammar with the raw text written, for the
// model of CharClassMatcher.parse: "rawhex|ic|inv|chars|ranges|classes(hex, space separated)"
func ClassLines(g *FGrammar) []string {
	var out []string
	var walk func(n *FNode)
	walk = func(n *FNode) {
		if n.K == FClass {
			var chars, ranges []string
			var classes []string
			for _, it := range n.Items {
				switch it.Kind {
				case 0:
					chars = append(chars, strconv.Itoa(int(it.Lo)))
				case 1:
					ranges = append(ranges, strconv.Itoa(int(it.Lo)), strconv.Itoa(int(it.Hi)))
				case 2:
					classes = append(classes, fmt.Sprintf("%x", it.Class))
				}
			}
			b := func(x bool) string {
				if x {
					return "1"
				}
				return "0"
			}
			out = append(out, fmt.Sprintf("%x|%s|%s|%s|%s|%s", n.Raw, b(n.IC), b(n.Inv), strings.Join(chars, " "), strings.Join(ranges, " "), strings.Join(classes, " ")))
		}
		for _, k := range n.Kids {
			walk(k)
		}
	}
	for _, r := range g.Rules {
		walk(r.Expr)
	}
	return out
}

// ExpectedMethods lists, in the order the builder emits them, the parameter lists of the code-block
// methods: a block receives the labels of its own sequence that have been bound when it is reached
// (an action: all labels of its sequence); nested expressions (choice alternatives, labelled
// sub-expressions, predicates, repetitions, recovery pairs) open a scope of their own.
func ExpectedMethods(g *FGrammar) [][]string {
	var out [][]string
	var stack [][]string
	push := func() { stack = append(stack, nil) }
	pop := func() { stack = stack[:len(stack)-1] }
	cur := func() []string { return append([]string{}, stack[len(stack)-1]...) }
	var walk func(n *FNode)
	walk = func(n *FNode) {
		switch n.K {
		case FAction:
			walk(n.Kids[0])
			out = append(out, cur())
		case FAndCode, FNotCode, FStateCode:
			out = append(out, cur())
		case FLabel:
			stack[len(stack)-1] = append(stack[len(stack)-1], n.Label)
			push()
			walk(n.Kids[0])
			pop()
		case FAnd, FNot, FOpt, FStar, FPlus:
			push()
			walk(n.Kids[0])
			pop()
		case FChoice:
			for _, k := range n.Kids {
				push()
				walk(k)
				pop()
			}
		case FRecovery:
			push()
			walk(n.Kids[0])
			walk(n.Kids[1])
			pop()
		case FSeq:
			for _, k := range n.Kids {
				walk(k)
			}
		}
	}
	for _, r := range g.Rules {
		push()
		walk(r.Expr)
		pop()
	}
	return out
}

// LitLines: "rawtokenhex|valuehex" for every string literal of the grammar (raw token without the i suffix)
func LitLines(g *FGrammar) []string {
	var out []string
	var walk func(n *FNode)
	walk = func(n *FNode) {
		if n.K == FLit {
			out = append(out, fmt.Sprintf("%x|%x", n.Raw, n.Lit))
		}
		for _, k := range n.Kids {
			walk(k)
		}
	}
	for _, r := range g.Rules {
		walk(r.Expr)
	}
	return out
}
