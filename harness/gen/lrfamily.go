package gen

// LRFamily: a systematic family of small grammars for the left-recursion analysis: the rule A refers to itself
// (directly, or through B <- A "x") behind a prefix N that is or is not nullable, the whole wrapped in W:
//     A <- W( N A "!" ) / "n"        Nul <- "-"?     Nul2 <- Nul     NonNul <- "-"
// every wrapper kind x every kind of prefix, so that each NullableVisit / InitialNames case of the analysis is met
// with each way a prefix can be nullable.
func LRFamily() [][]*Rule {
	var out [][]*Rule
	id := 0
	cid := 0
	n := func(k Kind, kids ...*Node) *Node { id++; return &Node{K: k, ID: id, Kids: kids} }
	lit := func(s string) *Node { x := n(KLit); x.Lit = s; return x }
	ref := func(s string) *Node { x := n(KRef); x.Ref = s; return x }
	prefixes := []func() []*Node{
		func() []*Node { return nil },
		func() []*Node { return []*Node{ref("Nul")} },
		func() []*Node { return []*Node{ref("Nul2")} },
		func() []*Node { return []*Node{ref("NonNul")} },
		func() []*Node { return []*Node{n(KSeq, n(KOpt, lit("-")), n(KOpt, lit("+")))} },
		func() []*Node { return []*Node{n(KOpt, lit("-"))} },
		func() []*Node { return []*Node{n(KStar, lit("-"))} },
		func() []*Node { return []*Node{n(KPlus, n(KOpt, lit("-")))} },
		func() []*Node { return []*Node{n(KAnd, lit("-"))} },
		func() []*Node { return []*Node{n(KNot, lit("-"))} },
		func() []*Node { return []*Node{lit("")} },
		func() []*Node { return []*Node{lit("-")} },
		func() []*Node { x := n(KLab, ref("Nul")); x.Label = "x"; return []*Node{x} },
		func() []*Node { return []*Node{n(KAlt, lit("-"), ref("Nul"))} },
		func() []*Node { return []*Node{ref("Nul"), ref("Nul2"), n(KOpt, lit("+"))} },
		// a code block inside the prefix: an action over a nullable group, alone, labelled, and over a non-nullable one
		func() []*Node { cid++; x := n(KAct, n(KOpt, lit("-"))); x.Cid = cid; return []*Node{x} },
		func() []*Node {
			cid++
			x := n(KAct, n(KOpt, lit("-")))
			x.Cid = cid
			l := n(KLab, x)
			l.Label = "s"
			return []*Node{l}
		},
		func() []*Node { cid++; x := n(KAct, lit("-")); x.Cid = cid; return []*Node{x} },
		func() []*Node { cid++; x := n(KAct, ref("Nul")); x.Cid = cid; return []*Node{n(KOpt, lit("+")), x} },
	}
	wrappers := []func(e *Node) *Node{
		func(e *Node) *Node { return e },
		func(e *Node) *Node { return n(KStar, e) },
		func(e *Node) *Node { return n(KPlus, e) },
		func(e *Node) *Node { return n(KOpt, e) },
		func(e *Node) *Node { return n(KSeq, n(KAnd, e), lit("n")) },
		func(e *Node) *Node { return n(KSeq, n(KNot, e), lit("n")) },
		func(e *Node) *Node { x := n(KLab, e); x.Label = "y"; return x },
		func(e *Node) *Node { cid++; x := n(KAct, e); x.Cid = cid; return x },
		func(e *Node) *Node { return n(KSeq, n(KOpt, lit("+")), n(KPlus, e)) },
		func(e *Node) *Node { x := n(KRec, e, lit("r")); x.Labels = []string{"e1"}; return x },
		func(e *Node) *Node { return n(KAlt, lit("q"), e) },
		func(e *Node) *Node { return n(KPlus, n(KStar, e)) },
	}
	for _, w := range wrappers {
		for _, pf := range prefixes {
			for _, target := range []string{"A", "B"} {
				items := append(pf(), ref(target), lit("!"))
				body := w(n(KSeq, items...))
				rules := []*Rule{
					{Name: "A", Expr: n(KAlt, body, lit("n"))},
					{Name: "B", Expr: n(KSeq, ref("A"), lit("x"))},
					{Name: "Nul", Expr: n(KOpt, lit("-"))},
					{Name: "Nul2", Expr: ref("Nul")},
					{Name: "NonNul", Expr: lit("-")},
				}
				out = append(out, rules)
			}
		}
	}
	return out
}
