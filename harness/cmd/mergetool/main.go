// mergetool: flat choices of terminals through the real ast.Optimize (called from /repo's working tree).
// One line per choice or sequence:  C|S <alternatives / items as written> => <alternatives / items left by the optimizer>
// alternative:  L:<ic>:<runes>   C:<ic>:<inv>:<chars>:<ranges>:<classes, hex>   A
// (runes in decimal, comma separated; AST values, i.e. before the builder lower-cases them).
// A result that is not a choice (one alternative left, put in place of the choice) is printed as one alternative.
package main

import (
	"encoding/hex"
	"flag"
	"fmt"
	"math/rand"
	"strconv"
	"strings"

	"github.com/mna/pigeon/ast"
)

func runesStr(rs []rune) string {
	p := make([]string, len(rs))
	for i, r := range rs {
		p[i] = strconv.Itoa(int(r))
	}
	return strings.Join(p, ",")
}

func b01(b bool) string {
	if b {
		return "1"
	}
	return "0"
}

func show(e ast.Expression) string {
	switch x := e.(type) {
	case *ast.LitMatcher:
		return "L:" + b01(x.IgnoreCase) + ":" + runesStr([]rune(x.Val))
	case *ast.CharClassMatcher:
		cl := make([]string, len(x.UnicodeClasses))
		for i, c := range x.UnicodeClasses {
			cl[i] = hex.EncodeToString([]byte(c))
		}
		return "C:" + b01(x.IgnoreCase) + ":" + b01(x.Inverted) + ":" + runesStr(x.Chars) + ":" + runesStr(x.Ranges) + ":" + strings.Join(cl, ",")
	case *ast.AnyMatcher:
		return "A"
	}
	return fmt.Sprintf("?%T", e)
}

func showAll(e ast.Expression) string {
	if c, ok := e.(*ast.SeqExpr); ok {
		p := make([]string, len(c.Exprs))
		for i, a := range c.Exprs {
			p[i] = show(a)
		}
		return strings.Join(p, " ")
	}
	if c, ok := e.(*ast.ChoiceExpr); ok {
		p := make([]string, len(c.Alternatives))
		for i, a := range c.Alternatives {
			p[i] = show(a)
		}
		return strings.Join(p, " ")
	}
	return show(e)
}

var alpha = []string{"a", "b", "c", "A", "B", "0", "1", "+", "é", "K", "-", "]", "^"}
var classItems = []string{"a", "b", "c", "A", "B", "0", "1", "+", "é", "K", "a-c", "A-Z", "0-9", "b-x", "a-c", "Z-a", "\\pL", "\\p{Nd}", "\\p{Latin}", "\\pL", "\\]", "\\\\"}

func genAlt(r *rand.Rand, ic bool) ast.Expression {
	p := ast.Pos{}
	if r.Intn(10) == 0 {
		ic = !ic
	}
	switch x := r.Intn(20); {
	case x < 8: // one-rune literal
		l := ast.NewLitMatcher(p, alpha[r.Intn(len(alpha))])
		l.IgnoreCase = ic
		return l
	case x < 10: // longer or empty literal: never merged
		v := ""
		for k := []int{0, 2, 3}[r.Intn(3)]; k > 0; k-- {
			v += alpha[r.Intn(len(alpha))]
		}
		l := ast.NewLitMatcher(p, v)
		l.IgnoreCase = ic
		return l
	case x < 19:
		var sb strings.Builder
		sb.WriteString("[")
		if r.Intn(8) == 0 {
			sb.WriteString("^")
		}
		for k := r.Intn(5); k > 0; k-- {
			it := classItems[r.Intn(len(classItems))]
			if it == "-" || it == "^" || it == "]" {
				continue
			}
			sb.WriteString(it)
		}
		sb.WriteString("]")
		if ic {
			sb.WriteString("i")
		}
		return ast.NewCharClassMatcher(p, sb.String())
	}
	return ast.NewAnyMatcher(p, ".")
}

func main() {
	seed := flag.Int64("seed", 1, "seed")
	n := flag.Int("n", 500, "choices")
	flag.Parse()
	r := rand.New(rand.NewSource(*seed*7919 + 13))
	for i := 0; i < *n; i++ {
		p := ast.Pos{}
		ic := r.Intn(4) == 0
		var top ast.Expression
		kind := "C "
		if r.Intn(5) < 2 {
			// the items of a sequence: adjacent literals are concatenated
			kind = "S "
			sq := ast.NewSeqExpr(p)
			for k := 2 + r.Intn(6); k > 0; k-- {
				sq.Exprs = append(sq.Exprs, genAlt(r, ic))
			}
			top = sq
		} else {
			ch := ast.NewChoiceExpr(p)
			for k := 2 + r.Intn(6); k > 0; k-- {
				ch.Alternatives = append(ch.Alternatives, genAlt(r, ic))
			}
			top = ch
		}
		before := kind + showAll(top)
		g := ast.NewGrammar(p)
		ru := ast.NewRule(p, ast.NewIdentifier(p, "S"))
		ru.Expr = top
		g.Rules = append(g.Rules, ru)
		msg := func() (msg string) {
			defer func() {
				if e := recover(); e != nil {
					msg = fmt.Sprint(e)
				}
			}()
			ast.Optimize(g)
			return ""
		}()
		if msg != "" {
			fmt.Printf("%s => PANIC %s\n", before, strings.ReplaceAll(msg, "\n", " "))
			continue
		}
		fmt.Printf("%s => %s\n", before, showAll(g.Rules[0].Expr))
	}
}
