// bltool lists character classes (from generated grammars plus a fixed set of probes) with
// their parsed fields and the table computed by the real builder.BasicLatinLookup:
//   hexraw|chars|ranges|classes(hex)|ic|inv|tablebits|lowered chars|lowered ranges
package main

import (
	"encoding/hex"
	"flag"
	"fmt"
	"sort"
	"strconv"
	"strings"
	"unicode"

	"github.com/mna/pigeon/ast"
	"github.com/mna/pigeon/builder"

	"verifharness/gen"
)

var probes = []string{"[@-Z]i", `[\p{Lu}]i`, "[K]i", "[a-z]", "[a-z]i", "[A-Z]i", "[^a-c]", "[^a-c]i", `[\pL]`, `[\p{Ll}]i`,
	"[0-9a-fA-F]", "[Z-a]i", "[A-a]i", `[\p{Greek}a]i`, "[k]i", "[ß]i", `[\x00-\x7f]`, `[^\x00-\x7f]i`, "[]", "[^]", `[\]\\-]`,
	"[à-ÿ]i", "[J-L]i", `[\p{N}\p{White_Space}]`, "[_a-zA-Z0-9]", "[+\\-*/]",
	// boundary runes of the table: 0, 127 (last entry), 128 (first rune outside), as char, range start, range end, class member
	`[\x00]`, `[\x7f]`, `[\x80]`, `[^\x7f]`, `[\x7e-\x80]`, `[\x7f-é]`, `[\x00-\x00]`, `[^\x20-ÿ]`, `[\p{Cc}]`, `[^\p{Cc}]`, `[\x7f-\x7f]`, `[}-\x7f]`, `[\x00-\x01]`, `[\x80-ÿ]`, `[\p{Zs}\x7f]`}

func ints(rs []rune) string {
	p := make([]string, len(rs))
	for i, r := range rs {
		p[i] = strconv.Itoa(int(r))
	}
	return strings.Join(p, " ")
}

func main() {
	seed := flag.Int64("seed", 1, "seed")
	n := flag.Int("n", 200, "grammars to mine for classes")
	flag.Parse()
	// every Unicode class with a member below 128 (categories, properties, scripts): plain and inverted; the tables of
	// some (Pd, Pc, Ps, Pe, STerm, Other_Math, ..) reach Basic Latin only through a strided entry that ends far outside it
	for _, tabs := range []map[string]*unicode.RangeTable{unicode.Categories, unicode.Properties, unicode.Scripts} {
		names := make([]string, 0, len(tabs))
		for name, rt := range tabs {
			for r := rune(0); r < 128; r++ {
				if unicode.Is(rt, r) {
					names = append(names, name)
					break
				}
			}
		}
		sort.Strings(names)
		for _, name := range names {
			probes = append(probes, `[\p{`+name+`}]`, `[^\p{`+name+`}a-c]`)
		}
	}
	set := map[string]bool{}
	for _, p := range probes {
		set[p] = true
	}
	p := gen.ProfileByName("class")
	for i := 0; i < *n; i++ {
		for _, raw := range gen.ClassesOf(p, *seed, i) {
			set[raw] = true
		}
	}
	// probes first (the run-time comparison takes a prefix of the list), then the mined classes in sorted order
	raws := make([]string, 0, len(set))
	for r := range set {
		raws = append(raws, r)
	}
	sort.Strings(raws)
	isProbe := map[string]bool{}
	for _, p := range probes {
		isProbe[p] = true
	}
	ordered := append([]string(nil), probes...)
	for _, r := range raws {
		if !isProbe[r] {
			ordered = append(ordered, r)
		}
	}
	raws = ordered
	for _, raw := range raws {
		c := ast.NewCharClassMatcher(ast.Pos{}, raw)
		tb := builder.BasicLatinLookup(c.Chars, c.Ranges, c.UnicodeClasses, c.IgnoreCase)
		bits := make([]byte, 128)
		for i := range tb {
			bits[i] = '0'
			if tb[i] {
				bits[i] = '1'
			}
		}
		cls := make([]string, len(c.UnicodeClasses))
		for i, u := range c.UnicodeClasses {
			cls[i] = hex.EncodeToString([]byte(u))
		}
		b := func(x bool) string {
			if x {
				return "1"
			}
			return "0"
		}
		lc := append([]rune(nil), c.Chars...)
		lr := append([]rune(nil), c.Ranges...)
		if c.IgnoreCase {
			for i := range lc {
				lc[i] = unicode.ToLower(lc[i])
			}
			for i := range lr {
				lr[i] = unicode.ToLower(lr[i])
			}
		}
		fmt.Printf("%s|%s|%s|%s|%s|%s|%s|%s|%s\n", hex.EncodeToString([]byte(raw)), ints(c.Chars), ints(c.Ranges),
			strings.Join(cls, " "), b(c.IgnoreCase), b(c.Inverted), string(bits), ints(lc), ints(lr))
	}
}
