// bltool lists character classes (from generated grammars plus a fixed set of probes) with
// their parsed fields and the table computed by the real builder.BasicLatinLookup:
//   hexraw|chars|ranges|classes(hex)|ic|inv|tablebits|lowered chars|lowered ranges
package main

import (
	"encoding/hex"
	"flag"
	"fmt"
	"sort"
	"strconv"
	"strings"
	"unicode"

	"github.com/mna/pigeon/ast"
	"github.com/mna/pigeon/builder"

	"verifharness/gen"
)

var probes = []string{"[@-Z]i", `[\p{Lu}]i`, "[K]i", "[a-z]", "[a-z]i", "[A-Z]i", "[^a-c]", "[^a-c]i", `[\pL]`, `[\p{Ll}]i`,
	"[0-9a-fA-F]", "[Z-a]i", "[A-a]i", `[\p{Greek}a]i`, "[k]i", "[ß]i", `[\x00-\x7f]`, `[^\x00-\x7f]i`, "[]", "[^]", `[\]\\-]`,
	"[à-ÿ]i", "[J-L]i", `[\p{N}\p{White_Space}]`, "[_a-zA-Z0-9]", "[+\\-*/]"}

func ints(rs []rune) string {
	p := make([]string, len(rs))
	for i, r := range rs {
		p[i] = strconv.Itoa(int(r))
	}
	return strings.Join(p, " ")
}

func main() {
	seed := flag.Int64("seed", 1, "seed")
	n := flag.Int("n", 200, "grammars to mine for classes")
	flag.Parse()
	set := map[string]bool{}
	for _, p := range probes {
		set[p] = true
	}
	p := gen.ProfileByName("class")
	for i := 0; i < *n; i++ {
		for _, raw := range gen.ClassesOf(p, *seed, i) {
			set[raw] = true
		}
	}
	raws := make([]string, 0, len(set))
	for r := range set {
		raws = append(raws, r)
	}
	sort.Strings(raws)
	for _, raw := range raws {
		c := ast.NewCharClassMatcher(ast.Pos{}, raw)
		tb := builder.BasicLatinLookup(c.Chars, c.Ranges, c.UnicodeClasses, c.IgnoreCase)
		bits := make([]byte, 128)
		for i := range tb {
			bits[i] = '0'
			if tb[i] {
				bits[i] = '1'
			}
		}
		cls := make([]string, len(c.UnicodeClasses))
		for i, u := range c.UnicodeClasses {
			cls[i] = hex.EncodeToString([]byte(u))
		}
		b := func(x bool) string {
			if x {
				return "1"
			}
			return "0"
		}
		lc := append([]rune(nil), c.Chars...)
		lr := append([]rune(nil), c.Ranges...)
		if c.IgnoreCase {
			for i := range lc {
				lc[i] = unicode.ToLower(lc[i])
			}
			for i := range lr {
				lr[i] = unicode.ToLower(lr[i])
			}
		}
		fmt.Printf("%s|%s|%s|%s|%s|%s|%s|%s|%s\n", hex.EncodeToString([]byte(raw)), ints(c.Chars), ints(c.Ranges),
			strings.Join(cls, " "), b(c.IgnoreCase), b(c.Inverted), string(bits), ints(lc), ints(lr))
	}
}
