// tables dumps the behaviour of Go's unicode package needed by the model
// (ToLower/ToUpper/IsLower on the runes that can occur, range tables of all
// classes pigeon accepts) from the toolchain in use.
package main

import (
	"bufio"
	"fmt"
	"os"
	"sort"
	"unicode"
)

func main() {
	w := bufio.NewWriter(os.Stdout)
	defer w.Flush()
	for r := rune(0); r <= 0x10FFFF; r++ {
		if l := unicode.ToLower(r); l != r {
			fmt.Fprintf(w, "L %d %d\n", r, l)
		}
		if u := unicode.ToUpper(r); u != r {
			fmt.Fprintf(w, "U %d %d\n", r, u)
		}
		if unicode.IsLower(r) {
			fmt.Fprintf(w, "I %d\n", r)
		}
	}
	seen := map[string]bool{}
	dump := func(m map[string]*unicode.RangeTable) {
		names := make([]string, 0, len(m))
		for k := range m {
			names = append(names, k)
		}
		sort.Strings(names)
		for _, name := range names {
			if seen[name] {
				continue // rangeTable() looks in Categories, Properties, Scripts in this order
			}
			seen[name] = true
			rt := m[name]
			fmt.Fprintf(w, "C %s", name)
			emit := func(lo, hi, stride uint32) {
				if stride == 1 {
					fmt.Fprintf(w, " %d %d", lo, hi)
					return
				}
				for x := lo; x <= hi; x += stride {
					fmt.Fprintf(w, " %d %d", x, x)
				}
			}
			for _, r := range rt.R16 {
				emit(uint32(r.Lo), uint32(r.Hi), uint32(r.Stride))
			}
			for _, r := range rt.R32 {
				emit(r.Lo, r.Hi, r.Stride)
			}
			fmt.Fprintln(w)
		}
	}
	dump(unicode.Categories)
	dump(unicode.Properties)
	dump(unicode.Scripts)
}
