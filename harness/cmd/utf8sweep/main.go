// utf8sweep prints "hex rune width" for utf8.DecodeRune over: all 1- and 2-byte
// strings (exhaustive), and a structured sweep of 3- and 4-byte strings (every lead
// byte x boundary second bytes x boundary continuation bytes).
package main

import (
	"bufio"
	"encoding/hex"
	"fmt"
	"os"
	"unicode/utf8"
)

func main() {
	w := bufio.NewWriter(os.Stdout)
	defer w.Flush()
	emit := func(b []byte) {
		r, n := utf8.DecodeRune(b)
		fmt.Fprintf(w, "%s %d %d\n", hex.EncodeToString(b), r, n)
	}
	emit(nil)
	for a := 0; a < 256; a++ {
		emit([]byte{byte(a)})
		for b := 0; b < 256; b++ {
			emit([]byte{byte(a), byte(b)})
		}
	}
	bnd := []int{0x00, 0x7f, 0x80, 0x8f, 0x90, 0x9f, 0xa0, 0xbf, 0xc0, 0xc2, 0xe0, 0xed, 0xf0, 0xf4, 0xff}
	for a := 0xc0; a < 256; a++ {
		for _, b := range bnd {
			for _, c := range bnd {
				emit([]byte{byte(a), byte(b), byte(c)})
				for _, d := range bnd {
					emit([]byte{byte(a), byte(b), byte(c), byte(d)})
					emit([]byte{byte(a), byte(b), byte(c), byte(d), 'x'})
				}
			}
		}
	}
}
