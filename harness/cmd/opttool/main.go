// opttool: for generated grammars, the run-time cases of the grammar as written and of the
// grammar after the real ast.Optimize (called from /repo's working tree), on the same inputs.
//   -out cases file; -info per-grammar information (optimizer panic, duplicate params, texts)
package main

import (
	"bufio"
	"encoding/json"
	"flag"
	"fmt"
	"os"
	"sort"
	"strings"

	"github.com/mna/pigeon/ast"

	"verifharness/gen"
)

type info struct {
	ID        string   `json:"id"`
	Peg       string   `json:"peg"`
	Entry     []string `json:"entrypoints"`
	Panic     string   `json:"optimizer_panic,omitempty"`
	DupParams []string `json:"dup_params,omitempty"`
	OptRules  int      `json:"rules_after"`
	Rules     int      `json:"rules_before"`
}

func optimize(g *ast.Grammar, eps []string) (msg string) {
	defer func() {
		if e := recover(); e != nil {
			msg = fmt.Sprint(e)
		}
	}()
	ast.Optimize(g, eps...)
	return ""
}

func blocksSexp(blocks map[int]*gen.Block, params map[int][]string) string {
	ids := make([]int, 0, len(blocks))
	for id := range blocks {
		ids = append(ids, id)
	}
	sort.Ints(ids)
	parts := make([]string, 0, len(ids))
	for _, id := range ids {
		b := *blocks[id]
		if p, ok := params[id]; ok {
			b.Params = p
		}
		parts = append(parts, b.Sexp())
	}
	return strings.Join(parts, " ")
}

func main() {
	seed := flag.Int64("seed", 1, "seed")
	n := flag.Int("n", 100, "grammars")
	out := flag.String("out", "", "cases file")
	inf := flag.String("info", "", "info file (json lines)")
	flag.Parse()
	fo, _ := os.Create(*out)
	w := bufio.NewWriter(fo)
	fi, _ := os.Create(*inf)
	wi := bufio.NewWriter(fi)
	p := gen.ProfileByName("c09")
	for i := 0; i < *n; i++ {
		cs := gen.GenCases(p, *seed, i)
		if len(cs) == 0 {
			continue
		}
		c0 := cs[0]
		if !c0.WF {
			continue // only grammars whose parses terminate without a budget
		}
		// alternate entrypoints: a random subset of the rules (deterministic from the grammar)
		var eps []string
		for k, r := range c0.Rules {
			if k > 0 && (k+i)%3 == 0 {
				eps = append(eps, r.Name)
			}
		}
		gid := strings.SplitN(c0.ID, "/", 2)[0]
		orig := gen.ToAstGrammar(c0.Rules)
		lo := &gen.AstLowerer{T: c0.Tmpl}
		origRules := lo.Rules(orig, nil)
		opt := gen.ToAstGrammar(c0.Rules)
		pmsg := optimize(opt, eps)
		nfo := info{ID: gid, Peg: gen.GrammarText(c0.Rules), Entry: eps, Panic: pmsg, Rules: len(orig.Rules)}
		if pmsg == "" {
			lp := &gen.AstLowerer{T: c0.Tmpl}
			optRules := lp.Rules(opt, nil)
			nfo.DupParams = lp.DupParams
			nfo.OptRules = len(opt.Rules)
			entries := append([]string{""}, eps...)
			for _, c := range cs {
				for ei, en := range entries {
					for _, variant := range []struct {
						tag, rules string
						params     map[int][]string
					}{{"orig", origRules, lo.Params}, {"opt", optRules, lp.Params}} {
						fmt.Fprintf(w, "(case %s.e%d~%s (tmpl %s) (opts 0 0 0 1 %s 0 %s %s) (rules %s) (blocks %s) (input %s))\n",
							c.ID, ei, variant.tag, tmplBits(c.Tmpl), b01(c.Opts.AllowInv), hx(en), hx(c.Opts.File),
							variant.rules, blocksSexp(c.Blocks, variant.params), hx(string(c.Input)))
					}
				}
			}
		}
		js, _ := json.Marshal(nfo)
		fmt.Fprintln(wi, string(js))
	}
	w.Flush()
	wi.Flush()
}

func b01(b bool) string {
	if b {
		return "1"
	}
	return "0"
}
func hx(s string) string { return "x" + fmt.Sprintf("%x", s) }
func tmplBits(t gen.Tmpl) string {
	return b01(t.Opt) + " " + b01(t.GS) + " " + b01(t.LR) + " " + b01(t.BL)
}
