// seqbuild: "repeated builds inside one process" (C19).  Generated grammars are built with the real
// builder.BuildParser (from /repo's working tree), either one grammar per process (-only i) or all of them one after
// the other inside this process, in a shuffled order and each one twice; every build prints
//   <grammar index> <flag set> <sha256 of the emitted text>
// A build is a function of the grammar and the flags: the digest of grammar i must not depend on what was built before.
package main

import (
	"bytes"
	"crypto/sha256"
	"encoding/hex"
	"flag"
	"fmt"
	"math/rand"

	"github.com/mna/pigeon/ast"
	"github.com/mna/pigeon/builder"

	"verifharness/gen"
)

func flagsOf(i int) (string, []builder.Option) {
	// two flag sets only, so that many grammars share one
	if i%2 == 0 {
		return "plain", nil
	}
	return "optimized", []builder.Option{builder.Optimize(true), builder.BasicLatinLookupTable(true)}
}

func build(rules []*gen.Rule, i int, optimizeGrammar bool) string {
	name, opts := flagsOf(i)
	g := gen.ToAstGrammar(rules)
	defer func() {
		if e := recover(); e != nil {
			fmt.Printf("%d %s panic:%v\n", i, name, e)
		}
	}()
	if optimizeGrammar {
		ast.Optimize(g)
	}
	var buf bytes.Buffer
	err := builder.BuildParser(&buf, g, opts...)
	sum := sha256.Sum256(buf.Bytes())
	res := name + " " + hex.EncodeToString(sum[:8])
	if err != nil {
		res += " err:" + err.Error()
	}
	return res
}

func main() {
	seed := flag.Int64("seed", 1, "seed")
	n := flag.Int("n", 12, "grammars")
	only := flag.Int("only", -1, "build this grammar only")
	flag.Parse()
	var gs [][]*gen.Rule
	for _, prof := range []string{"c09", "class"} {
		p := gen.ProfileByName(prof)
		for i := 0; len(gs) < *n*(1+len(gs)/(*n)) && i < 10**n; i++ {
			cs := gen.GenCases(p, *seed, i)
			if len(cs) == 0 || !cs[0].WF {
				continue
			}
			gs = append(gs, cs[0].Rules)
			if len(gs)%*n == 0 {
				break
			}
		}
	}
	// fixed members: with and without Unicode classes under each flag set (what the run-time text includes depends on them)
	id := 1000
	mk := func(k gen.Kind, kids ...*gen.Node) *gen.Node { id++; return &gen.Node{K: k, ID: id, Kids: kids} }
	cls := func(c string) *gen.Node { x := mk(gen.KCls); x.Cls = c; return x }
	lit := func(v string) *gen.Node { x := mk(gen.KLit); x.Lit = v; return x }
	for _, body := range []*gen.Node{
		mk(gen.KSeq, cls(`[\p{L}]`), lit("a")), mk(gen.KSeq, lit("a"), cls("[b]")),
		mk(gen.KSeq, lit("a"), cls("[b]")), mk(gen.KSeq, cls(`[\pN_]`), lit("a")),
		mk(gen.KSeq, cls(`[^\p{Greek}]`), mk(gen.KStar, lit("q"))), mk(gen.KAlt, lit("x"), mk(gen.KAny)),
	} {
		gs = append(gs, []*gen.Rule{{Name: "S", Expr: body}})
	}
	if *only >= 0 {
		if *only < len(gs) {
			fmt.Printf("%d %s\n", *only, build(gs[*only], *only, (*only/2)%2 == 0))
		}
		return
	}
	r := rand.New(rand.NewSource(*seed))
	order := r.Perm(len(gs))
	order = append(order, r.Perm(len(gs))...)
	for _, i := range order {
		fmt.Printf("%d %s\n", i, build(gs[i], i, (i/2)%2 == 0))
	}
}
