// preptool: generated grammars -> front-end AST (S-expression for the Gen model) together with
// what the real builder.PrepareGrammar decides over repeated runs (map iteration order varies).
//   ID|<ast sexp>|<distinct outcomes, ';'-separated>|<peg text, \n as \x1f>
package main

import (
	"flag"
	"fmt"
	"sort"
	"strings"

	"github.com/mna/pigeon/builder"

	"verifharness/gen"
)

func outcome(rules []*gen.Rule) string {
	ag := gen.ToAstGrammar(rules)
	have, err := builder.PrepareGrammar(ag)
	if err != nil {
		msg := "err"
		if strings.Contains(err.Error(), "no leadership candidate") {
			msg = "noleader"
		}
		return msg
	}
	var lrs, leaders []string
	for _, r := range ag.Rules {
		if r.LeftRecursive {
			lrs = append(lrs, r.Name.Val)
		}
		if r.Leader {
			leaders = append(leaders, r.Name.Val)
		}
	}
	sort.Strings(lrs)
	sort.Strings(leaders)
	h := "0"
	if have {
		h = "1"
	}
	return fmt.Sprintf("ok have=%s lr=%s leaders=%s", h, strings.Join(lrs, ","), strings.Join(leaders, ","))
}

func main() {
	profile := flag.String("profile", "c07", "profile")
	seed := flag.Int64("seed", 1, "seed")
	n := flag.Int("n", 200, "grammars")
	runs := flag.Int("runs", 24, "repetitions of PrepareGrammar per grammar")
	flag.Parse()
	p := gen.ProfileByName(*profile)
	fam := gen.LRFamily()
	for i := -len(fam); i < *n; i++ {
		var rules []*gen.Rule
		if i < 0 {
			rules = fam[-i-1] // the systematic family first, then the random grammars
		} else {
			rules, _, _ = gen.GenGrammar(p, *seed*1000003+int64(i))
		}
		set := map[string]bool{}
		for k := 0; k < *runs; k++ {
			set[outcome(rules)] = true
		}
		outs := make([]string, 0, len(set))
		for o := range set {
			outs = append(outs, o)
		}
		sort.Strings(outs)
		id := fmt.Sprintf("%s-%d-%d", *profile, *seed, i)
		if i < 0 {
			id = fmt.Sprintf("%s-fam-%d", *profile, -i-1)
		}
		fmt.Printf("%s|%s|%s|%s\n", id, gen.AstGrammarSexp(rules), strings.Join(outs, ";"),
			strings.ReplaceAll(gen.GrammarText(rules), "\n", "\x1f"))
	}
}
