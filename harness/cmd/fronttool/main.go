// fronttool prints front-end cases: one JSON object per line with the grammar text (two layouts of
// the same abstract grammar), the dump of the AST each text denotes, and the classes it contains.
package main

import (
	"encoding/json"
	"flag"
	"fmt"
	"os"

	"verifharness/gen"
)

type out struct {
	ID       string   `json:"id"`
	Text     string   `json:"text"`
	Expected string   `json:"expected"`
	NoPos    string   `json:"nopos"`
	Text2    string   `json:"text2"`
	NoPos2   string   `json:"nopos2"`
	Classes  []string `json:"classes"`
	Lits     []string `json:"lits"`
	Methods  [][]string `json:"methods"`
	Rules    []string `json:"rules"`
}

func main() {
	seed := flag.Int64("seed", 1, "seed")
	n := flag.Int("n", 100, "grammars")
	boot := flag.Bool("bootstrap", false, "bootstrap subset")
	escdash := flag.Bool("escdash", false, "allow an escaped hyphen between class characters")
	compilable := flag.Bool("compilable", false, "well-typed code blocks, labels distinct inside a rule, defined references")
	digits := flag.Bool("digitnames", false, "with -compilable: rule names may end in a digit")
	flag.Parse()
	enc := json.NewEncoder(os.Stdout)
	o := gen.FrontOpts{Bootstrap: *boot, EscDash: *escdash, Compilable: *compilable, DigitNames: *digits}
	for i := 0; i < *n; i++ {
		g := gen.GenFront(*seed, i, o)
		t1 := gen.PrintFront(g, *seed*31+int64(i), o)
		e := gen.ExpectedDump(g, t1, true)
		np := gen.ExpectedDump(g, t1, false)
		cl := []string{}
		for _, r := range gen.ClassLines(g) {
			cl = append(cl, r)
		}
		lits := gen.LitLines(g)
		t2 := gen.PrintFront(g, *seed*37+int64(i)+1000003, o)
		np2 := gen.ExpectedDump(g, t2, false)
		enc.Encode(out{ID: fmt.Sprintf("f%d-%d", *seed, i), Text: t1, Expected: e, NoPos: np, Text2: t2, NoPos2: np2, Classes: cl, Lits: lits, Methods: gen.ExpectedMethods(g), Rules: ruleNames(g)})
	}
}

func ruleNames(g *gen.FGrammar) []string {
	var out []string
	for _, r := range g.Rules {
		out = append(out, r.Name)
	}
	return out
}
