// gen writes run-time case files for the correspondence check.
package main

import (
	"bufio"
	"flag"
	"fmt"
	"os"
	"path/filepath"
	"strings"

	"verifharness/gen"
)

func main() {
	profile := flag.String("profile", "base", "generator profile")
	seed := flag.Int64("seed", 1, "seed")
	n := flag.Int("n", 100, "number of grammars")
	out := flag.String("out", "", "output case file")
	pretty := flag.String("pretty", "", "optional file: PEG text of every grammar, for humans")
	emit := flag.String("emit", "", "optional directory: one complete pigeon source per grammar (<id>.peg) for the emitted path")
	flag.Parse()
	emitPEG := func(c *gen.Case) {
		if *emit != "" {
			id := c.ID
			if i := strings.IndexByte(id, '/'); i >= 0 {
				id = id[:i]
			}
			os.WriteFile(filepath.Join(*emit, id+".peg"), []byte(c.EmittedPEG()), 0o644)
		}
	}
	f, err := os.Create(*out)
	if err != nil {
		fmt.Fprintln(os.Stderr, err)
		os.Exit(2)
	}
	w := bufio.NewWriter(f)
	var pw *bufio.Writer
	if *pretty != "" {
		pf, err := os.Create(*pretty)
		if err != nil {
			fmt.Fprintln(os.Stderr, err)
			os.Exit(2)
		}
		defer pf.Close()
		pw = bufio.NewWriter(pf)
		defer pw.Flush()
	}
	if *profile == "enum" {
		// small-scope exhaustive enumeration: -n bounds the number of expressions (0 = all), the seed picks the stride offset
		exprs := gen.EnumExprs(3)
		inputs := gen.EnumInputs(3)
		total := len(exprs)
		stride := 1
		if *n > 0 && *n < total {
			stride = total / *n
		}
		cases := 0
		k := 0
		for i := int(*seed) % stride; i < total; i += stride {
			t := gen.AllTmpls[k%len(gen.AllTmpls)]
			k++
			for j, c := range gen.EnumCases(exprs, i, inputs, t) {
				fmt.Fprintln(w, c.Sexp())
				cases++
				if pw != nil && j == 0 {
					fmt.Fprintf(pw, "## %s tmpl=%s wf=%v\n%s", c.ID, c.Tmpl.Name(), c.WF, gen.GrammarText(c.Rules))
				}
				if j == 0 {
					emitPEG(c)
				}
			}
		}
		w.Flush()
		f.Close()
		fmt.Fprintf(os.Stderr, "gen: enumeration of %d expressions (stride %d), %d cases\n", total, stride, cases)
		return
	}
	if *profile == "pack" {
		// many small shapes as the rules of one grammar per template variant (entrypoint = the rule): -n bounds the
		// number of enumerated expressions taken in (0 = all)
		cs := gen.PackCases(*seed, *n, []gen.Tmpl{{}, {Opt: true}})
		for j, c := range cs {
			fmt.Fprintln(w, c.Sexp())
			if j == 0 || &cs[j-1].Rules[len(cs[j-1].Rules)-1] != &c.Rules[len(c.Rules)-1] && cs[j-1].Rules[len(cs[j-1].Rules)-1] != c.Rules[len(c.Rules)-1] {
				if pw != nil {
					fmt.Fprintf(pw, "## %s tmpl=%s wf=%v\n%s", c.ID, c.Tmpl.Name(), c.WF, gen.GrammarText(c.Rules))
				}
				emitPEG(c)
			}
		}
		w.Flush()
		f.Close()
		fmt.Fprintf(os.Stderr, "gen: packed grammar, %d cases\n", len(cs))
		return
	}
	p := gen.ProfileByName(*profile)
	cases := 0
	for i := 0; i < *n; i++ {
		cs := gen.GenCases(p, *seed, i)
		for j, c := range cs {
			fmt.Fprintln(w, c.Sexp())
			cases++
			if pw != nil && j == 0 {
				fmt.Fprintf(pw, "## %s tmpl=%s wf=%v\n%s", c.ID, c.Tmpl.Name(), c.WF, gen.GrammarText(c.Rules))
			}
			if j == 0 {
				emitPEG(c)
			}
		}
	}
	w.Flush()
	f.Close()
	fmt.Fprintf(os.Stderr, "gen: %d grammars, %d cases\n", *n, cases)
}
