// boottool parses grammar texts (JSON lines with a "text" field, as printed by fronttool) with the
// hand-written bootstrap front-end (bootstrap.Parser) and prints {"id", "ok", "err", "dump"} lines;
// the dump is the same position-free AST text the verif hook prints for the generated front-end.
package main

import (
	"bufio"
	"encoding/json"
	"os"
	"strings"

	"github.com/mna/pigeon/bootstrap"

	"verifharness/astdump"
)

type in struct {
	ID   string `json:"id"`
	Text string `json:"text"`
}

type out struct {
	ID   string `json:"id"`
	OK   bool   `json:"ok"`
	Err  string `json:"err"`
	Dump string `json:"dump"`
}

func main() {
	sc := bufio.NewScanner(os.Stdin)
	sc.Buffer(make([]byte, 1<<20), 1<<26)
	enc := json.NewEncoder(os.Stdout)
	for sc.Scan() {
		var d in
		if json.Unmarshal(sc.Bytes(), &d) != nil {
			continue
		}
		o := out{ID: d.ID}
		func() {
			defer func() {
				if r := recover(); r != nil {
					o.Err = "panic"
				}
			}()
			g, err := bootstrap.NewParser().Parse("", strings.NewReader(d.Text))
			if err != nil {
				o.Err = err.Error()
				return
			}
			var sb strings.Builder
			astdump.VerifDumpGrammar(&sb, g, false)
			o.OK = true
			o.Dump = sb.String()
		}()
		enc.Encode(o)
	}
}
