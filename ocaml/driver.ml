(* Correspondence driver: reads case files (S-expressions, see DESIGN.md appendix A),
   runs the extracted Gallina model (Model.parse) and prints one observation line per
   case in the canonical format shared with the Go host driver. *)
open Model

(* ---------- conversions between OCaml ints and extracted numbers ---------- *)
let rec nat_of_int n = if n <= 0 then O else S (nat_of_int (n - 1))
let rec int_of_nat = function O -> 0 | S n -> 1 + int_of_nat n
let rec pos_of_int n =
  if n <= 1 then XH else if n land 1 = 0 then XO (pos_of_int (n lsr 1)) else XI (pos_of_int (n lsr 1))
let rec int_of_pos = function XH -> 1 | XO p -> 2 * int_of_pos p | XI p -> 2 * int_of_pos p + 1
let n_of_int n = if n = 0 then N0 else Npos (pos_of_int n)
let int_of_n = function N0 -> 0 | Npos p -> int_of_pos p
let z_of_int n = if n = 0 then Z0 else if n > 0 then Zpos (pos_of_int n) else Zneg (pos_of_int (-n))
let int_of_z = function Z0 -> 0 | Zpos p -> int_of_pos p | Zneg p -> - (int_of_pos p)

let bytes_of_str (s : String.t) : n list =
  List.init (String.length s) (fun i -> n_of_int (Char.code s.[i]))
let str_of_bytes (b : n list) : String.t =
  let buf = Buffer.create 16 in
  List.iter (fun x -> Buffer.add_char buf (Char.chr ((int_of_n x) land 255))) b;
  Buffer.contents buf

let hex_of_str s =
  let buf = Buffer.create (2 * String.length s) in
  String.iter (fun ch -> Buffer.add_string buf (Printf.sprintf "%02x" (Char.code ch))) s;
  Buffer.contents buf
let hex_of_bytes b = hex_of_str (str_of_bytes b)

(* ---------- S-expressions ---------- *)
type sexp = A of String.t | L of sexp list

let parse_sexps (s : String.t) : sexp list =
  let n = String.length s in
  let pos = ref 0 in
  let rec skip () =
    while !pos < n && (s.[!pos] = ' ' || s.[!pos] = '\n' || s.[!pos] = '\t' || s.[!pos] = '\r') do incr pos done
  and one () =
    skip ();
    if !pos >= n then failwith "sexp: eof"
    else if s.[!pos] = '(' then begin
      incr pos;
      let items = ref [] in
      let fin = ref false in
      while not !fin do
        skip ();
        if !pos >= n then failwith "sexp: unterminated"
        else if s.[!pos] = ')' then (incr pos; fin := true)
        else items := one () :: !items
      done;
      L (List.rev !items)
    end else begin
      let st = !pos in
      while !pos < n && not (s.[!pos] = ' ' || s.[!pos] = '\n' || s.[!pos] = '\t' || s.[!pos] = '\r'
                             || s.[!pos] = '(' || s.[!pos] = ')') do incr pos done;
      A (String.sub s st (!pos - st))
    end
  in
  let res = ref [] in
  skip ();
  while !pos < n do
    res := one () :: !res;
    skip ()
  done;
  List.rev !res

let unhex (a : String.t) : String.t =
  (* atoms for strings are "x" followed by hex digits *)
  if String.length a = 0 || a.[0] <> 'x' then failwith ("bad hex atom " ^ a);
  let h = String.sub a 1 (String.length a - 1) in
  let len = String.length h / 2 in
  String.init len (fun i -> Char.chr (int_of_string ("0x" ^ String.sub h (2 * i) 2)))

let hexb = function A a -> bytes_of_str (unhex a) | _ -> failwith "expected hex atom"
let int_a = function A a -> int_of_string a | _ -> failwith "expected int atom"
let bool_a x = int_a x <> 0

(* ---------- case decoding ---------- *)
let rec expr_of = function
  | L [A "lit"; n; L runes; ic; want] ->
      ELit (n_of_int (int_a n), List.map (fun r -> z_of_int (int_a r)) runes, bool_a ic, hexb want)
  | L [A "cls"; n; v; L (A "chars" :: cs); L (A "ranges" :: rs); L (A "classes" :: cls); ic; inv; L (A "table" :: tb)] ->
      ECls (n_of_int (int_a n), hexb v,
            List.map (fun r -> z_of_int (int_a r)) cs,
            List.map (fun r -> z_of_int (int_a r)) rs,
            List.map hexb cls, bool_a ic, bool_a inv, List.map bool_a tb)
  | L [A "any"; n] -> EAny (n_of_int (int_a n))
  | L (A "seq" :: n :: es) -> ESeq (n_of_int (int_a n), List.map expr_of es)
  | L (A "alt" :: n :: es) -> EAlt (n_of_int (int_a n), List.map expr_of es)
  | L [A "star"; n; e] -> EStar (n_of_int (int_a n), expr_of e)
  | L [A "plus"; n; e] -> EPlus (n_of_int (int_a n), expr_of e)
  | L [A "opt"; n; e] -> EOpt (n_of_int (int_a n), expr_of e)
  | L [A "and"; n; e] -> EAnd (n_of_int (int_a n), expr_of e)
  | L [A "not"; n; e] -> ENot (n_of_int (int_a n), expr_of e)
  | L [A "lab"; n; l; e] -> ELab (n_of_int (int_a n), hexb l, expr_of e)
  | L [A "act"; n; c; e] -> EAct (n_of_int (int_a n), n_of_int (int_a c), expr_of e)
  | L [A "andc"; n; c] -> EAndC (n_of_int (int_a n), n_of_int (int_a c))
  | L [A "notc"; n; c] -> ENotC (n_of_int (int_a n), n_of_int (int_a c))
  | L [A "stc"; n; c] -> EStC (n_of_int (int_a n), n_of_int (int_a c))
  | L [A "ref"; n; r] -> ERef (n_of_int (int_a n), hexb r)
  | L (A "rec" :: n :: e :: rc :: ls) -> ERec (n_of_int (int_a n), expr_of e, expr_of rc, List.map hexb ls)
  | L [A "throw"; n; l] -> EThrow (n_of_int (int_a n), hexb l)
  | _ -> failwith "bad expr"

let cond_of = function
  | A "always" -> CAlways
  | A "never" -> CNever
  | L [A "textis"; b] -> CTextIs (hexb b)
  | L [A "offge"; n] -> COffGe (nat_of_int (int_a n))
  | L [A "statege"; k; z] -> CStateGe (hexb k, z_of_int (int_a z))
  | L [A "argnil"; l] -> CArgNil (hexb l)
  | _ -> failwith "bad cond"

let sop_of = function
  | L [A "set"; k; z] -> SSet (hexb k, z_of_int (int_a z))
  | L [A "add"; k; z] -> SAdd (hexb k, z_of_int (int_a z))
  | L [A "push"; k; z] -> SPush (hexb k, z_of_int (int_a z))
  | L [A "gapp"; k; z] -> GApp (hexb k, z_of_int (int_a z))
  | _ -> failwith "bad sop"

let ritem_of = function
  | A "text" -> IText
  | A "pos" -> IPos
  | A "cid" -> ICid
  | L [A "arg"; l] -> IArg (hexb l)
  | L [A "state"; k] -> IState (hexb k)
  | L [A "const"; z] -> IConst (z_of_int (int_a z))
  | _ -> failwith "bad ritem"

let rspec_of = function
  | A "nil" -> RNil
  | L [A "arg"; l] -> RArg (hexb l)
  | L (A "tuple" :: items) -> RTuple (List.map ritem_of items)
  | _ -> failwith "bad rspec"

let block_of = function
  | L [A "block"; c; L (A "params" :: ps); L (A "ops" :: ops); L [A "panic"; pc; pm];
       L [A "err"; ec; em]; L [A "ret"; r]; L [A "pred"; pr]] ->
      (n_of_int (int_a c),
       { b_params = List.map hexb ps; b_ops = List.map sop_of ops;
         b_panic = cond_of pc; b_panic_msg = hexb pm;
         b_err = cond_of ec; b_err_msg = hexb em;
         b_ret = rspec_of r; b_pred = cond_of pr })
  | _ -> failwith "bad block"

let rule_of = function
  | L [A "rule"; nm; dn; leader; lr; e] ->
      { r_name = hexb nm; r_display = hexb dn; r_expr = expr_of e;
        r_leader = bool_a leader; r_leftrec = bool_a lr }
  | _ -> failwith "bad rule"

(* ---------- Unicode tables (dumped from the Go toolchain by the harness) ---------- *)
let tbl_lower : (int, int) Hashtbl.t = Hashtbl.create 4096
let tbl_upper : (int, int) Hashtbl.t = Hashtbl.create 4096
let tbl_islower : (int, bool) Hashtbl.t = Hashtbl.create 4096
let tbl_class : (String.t, (int * int) array) Hashtbl.t = Hashtbl.create 64

let load_tables (path : String.t) =
  let ic = open_in path in
  (try
     while true do
       let line = input_line ic in
       match String.split_on_char ' ' line with
       | ["L"; a; b] -> Hashtbl.replace tbl_lower (int_of_string a) (int_of_string b)
       | ["U"; a; b] -> Hashtbl.replace tbl_upper (int_of_string a) (int_of_string b)
       | ["I"; a] -> Hashtbl.replace tbl_islower (int_of_string a) true
       | "C" :: name :: ranges ->
           let rec pairs = function
             | a :: b :: r -> (int_of_string a, int_of_string b) :: pairs r
             | _ -> [] in
           Hashtbl.replace tbl_class name (Array.of_list (pairs ranges))
       | _ -> ()
     done
   with End_of_file -> ());
  close_in ic

let ulib : ulib =
  { to_lower = (fun r -> let i = int_of_z r in
                 match Hashtbl.find_opt tbl_lower i with Some x -> z_of_int x | None -> r);
    to_upper = (fun r -> let i = int_of_z r in
                 match Hashtbl.find_opt tbl_upper i with Some x -> z_of_int x | None -> r);
    is_lower = (fun r -> Hashtbl.mem tbl_islower (int_of_z r));
    in_class = (fun name r ->
        let i = int_of_z r in
        match Hashtbl.find_opt tbl_class (str_of_bytes name) with
        | None -> false
        | Some arr -> Array.exists (fun (lo, hi) -> lo <= i && i <= hi) arr) }

(* ---------- rendering ---------- *)
let rec show_val = function
  | VNil -> "nil"
  | VBytes b -> "b" ^ hex_of_bytes b
  | VList l -> "[" ^ String.concat "," (List.map show_val l) ^ "]"
  | VInt z -> "i" ^ string_of_int (int_of_z z)
  | VStr s -> "s" ^ hex_of_bytes s

let show_pos (p : position) =
  Printf.sprintf "%d.%d.%d" (int_of_nat p.line) (int_of_nat p.col) (int_of_nat p.offset)

let show_sval = function
  | SImm z -> "i" ^ string_of_int (int_of_z z)
  | SCell l -> "c[" ^ String.concat "," (List.map (fun z -> string_of_int (int_of_z z)) l) ^ "]"

let show_store (st : store) =
  let items = List.map (fun (k, v) -> (hex_of_bytes k, show_sval v)) st in
  let items = List.sort compare items in
  "{" ^ String.concat "," (List.map (fun (k, v) -> k ^ "=" ^ v) items) ^ "}"

let show_gstore (gs : gstore) =
  let items = List.map (fun (k, l) ->
      (hex_of_bytes k, "[" ^ String.concat "," (List.map (fun z -> string_of_int (int_of_z z)) l) ^ "]")) gs in
  let items = List.sort compare items in
  "{" ^ String.concat "," (List.map (fun (k, v) -> k ^ "=" ^ v) items) ^ "}"

let show_kind = function KAct -> "A" | KAnd -> "P" | KNot -> "N" | KState -> "S"

let show_event (e : event) =
  let x = e.ev_ctx in
  Printf.sprintf "%s%d:t=%s:p=%s:a=(%s):st=%s:gs=%s"
    (show_kind e.ev_kind) (int_of_n e.ev_cid) (hex_of_bytes x.c_text) (show_pos x.c_pos)
    (String.concat "," (List.map (fun (l, v) -> hex_of_bytes l ^ "=" ^ show_val v) x.c_args))
    (show_store x.c_state) (show_gstore x.c_gstore)

let show_final (s : pstate) =
  Printf.sprintf "cnt=%d\tst=%s\tmaxfail=%s:%s:[%s]\tgs=%s\ttrace=%s"
    (int_of_n s.exprCnt) (show_store s.st)
    (show_pos s.maxFailPos) (if s.maxFailInvert then "1" else "0")
    (String.concat "," (List.map hex_of_bytes s.maxFailExpected))
    (show_gstore s.gs)
    (String.concat ";" (List.rev_map show_event s.trace))

let show_outcome (id : String.t) (o : outcome) =
  match o with
  | Returned (v, errs, s) ->
      Printf.sprintf "%s\tout=ret\tval=%s\terrs=%s\t%s" id (show_val v)
        (String.concat "," (List.map (fun e -> hex_of_bytes (perr_string e)) errs))
        (show_final s)
  | Panicked (pv, s) ->
      Printf.sprintf "%s\tout=panic:%s\tval=nil\terrs=\t%s" id (hex_of_bytes pv) (show_final s)
  | Diverged -> Printf.sprintf "%s\tout=diverged" id

let show_ref (cfg : cfg) (id : String.t) (o : routcome) =
  let fin (m : rmu) =
    let ts = relevant_terms m.u_log in
    Printf.sprintf "cnt=%d\tmaxfail=%s:0:[%s]\tgs=%s\ttrace=%s"
      (int_of_n m.u_cnt) (show_pos (far_pos ts))
      (String.concat "," (List.map hex_of_bytes (far_expected ts)))
      (show_gstore m.u_gs)
      (String.concat ";" (List.rev_map show_event (blocks_of_log m.u_log))) in
  match o with
  | RReturned (v, errs, m) ->
      Printf.sprintf "%s\tout=ret\tval=%s\terrs=%s\t%s" id (show_val v)
        (String.concat "," (List.map (fun e -> hex_of_bytes (perr_string e)) errs)) (fin m)
  | RPanicked (pv, m) -> Printf.sprintf "%s\tout=panic:%s\tval=nil\terrs=\t%s" id (hex_of_bytes pv) (fin m)
  | RDiverged -> Printf.sprintf "%s\tout=diverged" id

let ref_mode = ref false
let lrspec_mode = ref false

(* ---------- main ---------- *)
exception Case_timeout
let case_limit = ref 15.0
let () = Sys.set_signal Sys.sigalrm (Sys.Signal_handle (fun _ -> raise Case_timeout))
let quirks = ref faithful
let set_quirks (b : String.t) =
  let g i = String.length b > i && b.[i] = '1' in
  quirks := { q_lit_eof = g 0; q_stale_ctx = g 1; q_recover_scope = g 2; q_memo_nocharge = g 3; q_memo_label = (String.length b <= 4 || b.[4] = '1'); q_lr_memo_state = (String.length b <= 5 || b.[5] = '1'); q_memo_expected = (String.length b <= 6 || b.[6] = '1') }

let init_of (items : sexp list) : (n list * sval) list =
  List.map (function
    | L (A "cell" :: k :: zs) -> (hexb k, SCell (List.map (fun z -> z_of_int (int_a z)) zs))
    | L [A "imm"; k; z] -> (hexb k, SImm (z_of_int (int_a z)))
    | _ -> failwith "bad init entry") items

let rec run_case (fuel : int) (sx : sexp) : String.t =
  run_case_init fuel sx []
and run_case_init (fuel : int) (sx : sexp) (init0 : (n list * sval) list) : String.t =
  match sx with
  | L [A "case"; id; tmpl; opts; rules; blocks; L (A "init" :: items); input] ->
      run_case_init fuel (L [A "case"; id; tmpl; opts; rules; blocks; input]) (init_of items)
  | L [A "case"; A id;
       L [A "tmpl"; opt; gs; lr; bl];
       L [A "opts"; memo; dbg; stats; recov; allowinv; maxexpr; entry; file];
       L (A "rules" :: rules);
       L (A "blocks" :: blocks);
       L [A "input"; inp]] ->
      let cfg = {
        cQ = !quirks;
        cU = ulib;
        cT = { t_optimize = bool_a opt; t_globalstate = bool_a gs; t_leftrec = bool_a lr; t_basiclatin = bool_a bl };
        cO = { o_memoize = bool_a memo; o_debug = bool_a dbg; o_stats = bool_a stats; o_recover = bool_a recov;
               o_allowinvalid = bool_a allowinv; o_maxexpr = n_of_int (int_a maxexpr);
               o_entry = hexb entry; o_filename = hexb file; o_initstate = init0 };
        cData = hexb inp;
        cG = List.map rule_of rules;
        cE = env_of_blocks (List.map block_of blocks) } in
      if !lrspec_mode then begin
        (* lrform=1: every rule the analysis flagged left-recursive has the form A <- A a.. / b.. (or is an alias A <- B) *)
        let r = rd cfg in
        let form = List.for_all (fun (ru : rule) ->
          (not ru.r_leftrec) || (match lr_shape r ru with Some _ -> true | None -> (match ru.r_expr with ERef _ -> true | _ -> false))) r.rG in
        show_ref cfg id (lrparse r (nat_of_int fuel)) ^ (if form then "\tlrform=1" else "\tlrform=0")
      end
      else if !ref_mode then show_ref cfg id (rparse (rd cfg) (nat_of_int fuel))
      else show_outcome id (parse cfg (nat_of_int fuel))
  | _ -> failwith "bad case"

let read_file path =
  let ic = open_in_bin path in
  let n = in_channel_length ic in
  let s = really_input_string ic n in
  close_in ic; s

let decode_mode path =
  let ic = open_in path in
  (try
     while true do
       let line = input_line ic in
       let h = (match String.index_opt line ' ' with Some i -> String.sub line 0 i | None -> line) in
       let (r, w) = decode (bytes_of_str (unhex ("x" ^ h))) in
       Printf.printf "%s %d %d\n" h (int_of_z r) (int_of_nat w)
     done
   with End_of_file -> ());
  close_in ic

(* -cls: lines of hex raw class text; prints the model's reading under both settings of esc_is_char:
   "rawhex|<q=false>|<q=true>" with each reading "chars;ranges;classes(hex,comma);ic;inv" or "none" *)
let cls_mode path =
  let ic = open_in path in
  let rec runes (b : n list) = match b with [] -> [] | _ ->
    let (r, w) = decode b in
    let w = max 1 (int_of_nat w) in
    let rec drop k l = if k = 0 then l else match l with [] -> [] | _ :: t -> drop (k - 1) t in
    r :: runes (drop w b) in
  let rec enc_rune r =    (* class names are ASCII identifiers *)
    Printf.sprintf "%02x" (int_of_z r) in
  let show q raw =
    match parse_class q raw with
    | None -> "none"
    | Some k ->
        let ints l = String.concat " " (List.map (fun z -> string_of_int (int_of_z z)) l) in
        Printf.sprintf "%s;%s;%s;%d;%d" (ints k.k_chars) (ints k.k_ranges)
          (String.concat "," (List.map (fun nm -> String.concat "" (List.map enc_rune nm)) k.k_classes))
          (if k.k_ic then 1 else 0) (if k.k_inv then 1 else 0) in
  (try
     while true do
       let line = input_line ic in
       let raw = runes (bytes_of_str (unhex ("x" ^ line))) in
       Printf.printf "%s|%s|%s\n" line (show false raw) (show true raw)
     done
   with End_of_file -> ());
  close_in ic

(* -merge FILE: the model of the optimizer's terminal-merging pass on the choices mergetool printed
   (left of "=>"); prints the alternatives left, in mergetool's format *)
let merge_mode path =
  let ic = open_in path in
  let split c s = if s = "" then [] else String.split_on_char c s in
  let zs s = List.map (fun x -> z_of_int (int_of_string x)) (split ',' s) in
  let ints l = String.concat "," (List.map (fun z -> string_of_int (int_of_z z)) l) in
  let hexb (b : n list) = String.concat "" (List.map (fun x -> Printf.sprintf "%02x" (int_of_n x)) b) in
  let alt_of s =
    match String.split_on_char ':' s with
    | ["A"] -> MAny
    | ["L"; ic; rs] -> MLit (zs rs, ic = "1")
    | ["C"; ic; inv; cs; rs; ks] ->
        MCls (zs cs, zs rs, List.map (fun h -> bytes_of_str (unhex ("x" ^ h))) (split ',' ks), ic = "1", inv = "1")
    | _ -> failwith ("bad alternative " ^ s) in
  let show = function
    | MAny -> "A"
    | MLit (rs, ic) -> Printf.sprintf "L:%d:%s" (if ic then 1 else 0) (ints rs)
    | MCls (cs, rs, ks, ic, inv) ->
        Printf.sprintf "C:%d:%d:%s:%s:%s" (if ic then 1 else 0) (if inv then 1 else 0) (ints cs) (ints rs)
          (String.concat "," (List.map hexb ks)) in
  (try
     while true do
       let line = input_line ic in
       let lhs =
         let n = String.length line in
         let rec find i = if i + 4 > n then n else if String.sub line i 4 = " => " then i else find (i + 1) in
         String.sub line 0 (find 0) in
       let is_seq = String.length lhs >= 2 && String.sub lhs 0 2 = "S " in
       let lhs = if String.length lhs >= 2 && (String.sub lhs 0 2 = "S " || String.sub lhs 0 2 = "C ") then String.sub lhs 2 (String.length lhs - 2) else lhs in
       let line = if String.length line >= 2 && (String.sub line 0 2 = "S " || String.sub line 0 2 = "C ") then String.sub line 2 (String.length line - 2) else line in
       if is_seq then begin
         (* the items of a sequence: literals, everything else by its place *)
         let strs = Array.of_list (split ' ' lhs) in
         let items = List.mapi (fun i s -> match alt_of s with MLit (rs, ic) -> ILit (rs, ic) | _ -> IOther (nat_of_int i)) (Array.to_list strs) in
         let out = String.concat " " (List.map (function
           | ILit (rs, ic) -> show (MLit (rs, ic))
           | IOther k -> show (cleanup (alt_of strs.(int_of_nat k)))) (optimize_seq items)) in
         let n = String.length line and k = String.length lhs in
         let rhs = if k + 4 <= n then String.sub line (k + 4) (n - k - 4) else out in
         if rhs = out || (String.length rhs >= 5 && String.sub rhs 0 5 = "PANIC") then print_endline out
         else begin
           (* the real optimizer left something else: look for an input the two sequences treat differently *)
           let written = List.map alt_of (Array.to_list strs) and real = List.map alt_of (split ' ' rhs) in
           let lower a = lower_alt ulib a in
           let rec sem l inp = match l with
             | [] -> 0
             | a :: rest ->
                 let k = (match lower a, inp with
                   | MAny, _ :: _ -> 1
                   | MAny, [] -> -1
                   | MCls (cs, rs, ks, ic, inv), r :: _ -> if class_decide ulib cs rs ks ic inv r then 1 else -1
                   | MCls _, [] -> -1
                   | MLit (ws, ic), _ ->
                       let rec pre ws inp = match ws, inp with
                         | [], _ -> true
                         | w :: ws', r :: inp' -> int_of_z (if ic then ulib.to_lower r else r) = int_of_z w && pre ws' inp'
                         | _ :: _, [] -> false in
                       if pre ws inp then List.length ws else -1) in
                 if k < 0 then -1 else
                   let rec drop k l = if k = 0 then l else match l with [] -> [] | _ :: t -> drop (k - 1) t in
                   let r = sem rest (drop k inp) in if r < 0 then -1 else k + r in
           let pool = List.map z_of_int [97; 98; 99; 65; 66; 48; 49; 43; 233; 75; 45; 93; 94; 120; 0; 955] in
           (* an input the sequence matches, when the pool has runes for its classes *)
           let rec witness l = match l with
             | [] -> Some []
             | a :: rest ->
                 (match witness rest with
                  | None -> None
                  | Some tail ->
                      (match lower a with
                       | MAny -> Some (z_of_int 120 :: tail)
                       | MLit (ws, _) -> Some (ws @ tail)
                       | MCls (cs, rs, ks, ic, inv) ->
                           (match List.filter (fun r -> class_decide ulib cs rs ks ic inv r) pool with
                            | r :: _ -> Some (r :: tail)
                            | [] -> None))) in
           let cands = List.filter_map (fun x -> x) [witness written; witness real] in
           let cands = cands @ List.map (fun c -> List.map ulib.to_upper c) cands in
           let bad = List.filter (fun inp -> sem written inp <> sem real inp) cands in
           Printf.printf "%s\tMISMATCH\t%s\n" out (match bad with [] -> "none" | inp :: _ -> "runes:" ^ ints inp)
         end
       end else
       let alts = List.map alt_of (split ' ' lhs) in
       let out = String.concat " " (List.map show (optimize_choice alts)) in
       let n = String.length line and k = String.length lhs in
       let rhs = if k + 4 <= n then String.sub line (k + 4) (n - k - 4) else out in
       if rhs = out || (String.length rhs >= 5 && String.sub rhs 0 5 = "PANIC") then print_endline out
       else begin
         (* the real optimizer left something else: look for a rune on which its alternatives and the written ones differ.
            What a choice does on one rune: the alternatives that are not one-rune terminals it tries, in order, before the
            first one-rune terminal that accepts the rune. *)
         let real = List.map alt_of (split ' ' rhs) in
         let lower a = lower_alt ulib a in
         (* what the choice does on an input (a list of runes): the number of runes the first matching alternative consumes *)
         let sem l inp =
           let rec go = function
             | [] -> -1
             | a :: rest ->
                 (match lower a, inp with
                  | MAny, _ :: _ -> 1
                  | MAny, [] -> go rest
                  | MCls (cs, rs, ks, ic, inv), r :: _ -> if class_decide ulib cs rs ks ic inv r then 1 else go rest
                  | MCls _, [] -> go rest
                  | MLit (ws, ic), _ ->
                      let rec pre ws inp = match ws, inp with
                        | [], _ -> true
                        | w :: ws', r :: inp' -> int_of_z (if ic then ulib.to_lower r else r) = int_of_z w && pre ws' inp'
                        | _ :: _, [] -> false in
                      if pre ws inp then List.length ws else go rest) in
           go l in
         let probes =
           let base = List.concat_map (function
             | MLit (rs, _) -> rs
             | MCls (cs, rs, _, _, _) -> cs @ rs
             | MAny -> []) (alts @ real) in
           let around z = let i = int_of_z z in [i - 1; i; i + 1; int_of_z (ulib.to_lower z); int_of_z (ulib.to_upper z)] in
           let runes = List.sort_uniq compare (List.filter (fun i -> i >= 0) (List.concat_map around base @ [0; 48; 65; 97; 127; 128; 233; 955; 8490])) in
           let lits = List.concat_map (function MLit (rs, _) when List.length rs <> 1 -> [rs; List.map ulib.to_upper rs; List.map ulib.to_lower rs] | _ -> []) (alts @ real) in
           [] :: List.map (fun i -> [z_of_int i]) runes @ lits in
         let bad = List.filter (fun inp -> sem alts inp <> sem real inp) probes in
         Printf.printf "%s\tMISMATCH\t%s\n" out (match bad with [] -> "none" | inp :: _ -> "runes:" ^ ints inp)
       end
     done
   with End_of_file -> ());
  close_in ic

(* -embed SRC -var NAME: the model of static_code_generator; writes the generated file to stdout and
   reports on stderr whether the theorem's hypothesis holds and the value of the constant's length *)
let embed_mode path var =
  let ic = open_in_bin path in
  let n = in_channel_length ic in
  let s = really_input_string ic n in
  close_in ic;
  let src = bytes_of_str s in
  let out = embed src (bytes_of_str var) in
  print_string (str_of_bytes out);
  let k = join_lines (kept src) in
  Printf.eprintf "kept_has_backquote=%b kept_has_cr=%b kept_bytes=%d\n" (has (n_of_int 96) k) (has (n_of_int 13) k) (List.length k);
  (match raw_string_value out with
   | Some v -> Printf.eprintf "constant_value_bytes=%d\n" (List.length v)
   | None -> Printf.eprintf "constant_value=none\n")

(* -pool FILE: lines "t op args | ..." (as printed by the host driver's -pooltest); replays the steps on the
   model (Pool.step, the pool's choice taken from the op's argument) and prints what each of the three parsers
   observes after every step in the host driver's format; SPECDIFF if Pool.view and the one-parser spec differ *)
let pool_mode path =
  let ic = open_in path in
  let show_map (m : (n * n) list) =
    let l = List.sort compare (List.map (fun (k, v) -> (int_of_n k, int_of_n v)) m) in
    "{" ^ String.concat "," (List.map (fun (k, v) -> Printf.sprintf "%d=%d" k v) l) ^ "}" in
  let show_view = function
    | None -> "none"
    | Some s -> show_map s.scur ^ "[" ^ String.concat "" (List.map show_map s.ssaved) ^ "]" in
  let w = ref Model.init in
  let spec = Array.make 3 None in
  (try
     while true do
       let line = input_line ic in
       if line <> "nostate" then begin
         let head = (match String.index_opt line '|' with Some i -> String.sub line 0 i | None -> line) in
         let toks = List.filter (fun x -> x <> "") (String.split_on_char ' ' head) in
         let t = int_of_string (List.hd toks) in
         let o = (match List.tl toks with
           | ["start"] -> OStart
           | ["set"; k; v] -> OSet (n_of_int (int_of_string k), n_of_int (int_of_string v))
           | ["clone"; i] -> let i = int_of_string i in OClone (if i = 2 then None else Some (nat_of_int i))
           | ["restore"] -> ORestore
           | ["drop"] -> ODrop
           | ["gc"; i] -> OGc (nat_of_int (int_of_string i))
           | _ -> failwith ("bad pool op: " ^ head)) in
         w := Model.step !w (nat_of_int t, o);
         (match o with OGc _ -> () | _ -> spec.(t) <- sstep spec.(t) o);
         let views = List.init 3 (fun j -> Model.view !w (nat_of_int j)) in
         let ok = List.for_all2 (fun v j -> v = spec.(j)) views [0; 1; 2] in
         Printf.printf "%s|%s%s\n" head
           (String.concat "" (List.mapi (fun j v -> Printf.sprintf " t%d=%s" j (show_view v)) views))
           (if ok then "" else " SPECDIFF")
       end
     done
   with End_of_file -> ());
  close_in ic

(* -unq FILE: lines of hex raw literal tokens; prints "rawhex|valuehex" per the model of the literal reader, or "rawhex|none" *)
let unq_mode path =
  let ic = open_in path in
  let rec runes (b : n list) = match b with [] -> [] | _ ->
    let (r, w) = decode b in
    let w = max 1 (int_of_nat w) in
    let rec drop k l = if k = 0 then l else match l with [] -> [] | _ :: t -> drop (k - 1) t in
    r :: runes (drop w b) in
  (try
     while true do
       let line = input_line ic in
       let raw = runes (bytes_of_str (unhex ("x" ^ line))) in
       (match unquote raw with
        | Some v -> Printf.printf "%s|%s\n" line (hex_of_bytes v)
        | None -> Printf.printf "%s|none\n" line)
     done
   with End_of_file -> ());
  close_in ic

(* -exit FILE: lines of 12 bits (flags_ok help one_arg input_ok parse_ok entry_ok nobuild output_ok build_ok
   format_ok write_ok close_ok); prints the exit status the model of main.go assigns *)
let exit_mode path =
  let ic = open_in path in
  (try
     while true do
       let l = input_line ic in
       if String.length l >= 12 then begin
         let b i = l.[i] = '1' in
         let s = { s_flags_ok = b 0; s_help = b 1; s_one_arg = b 2; s_input_ok = b 3; s_parse_ok = b 4; s_entry_ok = b 5;
                   s_nobuild = b 6; s_output_ok = b 7; s_build_ok = b 8; s_format_ok = b 9; s_write_ok = b 10; s_close_ok = b 11 } in
         Printf.printf "%s %d\n" l (int_of_n (exit_code s))
       end
     done
   with End_of_file -> ());
  close_in ic

(* ---------- front-end AST (Gen model) ---------- *)
let rec aexpr_of = function
  | L [A "lit"; v; ic] -> ALit (hexb v, bool_a ic)
  | L [A "cls"; raw; L (A "chars" :: cs); L (A "ranges" :: rs); L (A "classes" :: cls); ic; inv] ->
      ACls (hexb raw, List.map (fun r -> z_of_int (int_a r)) cs, List.map (fun r -> z_of_int (int_a r)) rs,
            List.map hexb cls, bool_a ic, bool_a inv)
  | L [A "any"] -> AAny
  | L (A "seq" :: n :: es) -> ASeq (n_of_int (int_a n), List.map aexpr_of es)
  | L (A "alt" :: n :: es) -> AAlt (n_of_int (int_a n), List.map aexpr_of es)
  | L [A "star"; e] -> AStar (aexpr_of e)
  | L [A "plus"; e] -> APlus (aexpr_of e)
  | L [A "opt"; e] -> AOpt (aexpr_of e)
  | L [A "and"; e] -> AAnd (aexpr_of e)
  | L [A "not"; e] -> ANot (aexpr_of e)
  | L [A "lab"; l; e] -> ALab (hexb l, aexpr_of e)
  | L [A "act"; n; c; e] -> AAct (n_of_int (int_a n), hexb c, aexpr_of e)
  | L [A "andc"; c] -> AAndC (hexb c)
  | L [A "notc"; c] -> ANotC (hexb c)
  | L [A "stc"; c] -> AStC (hexb c)
  | L [A "ref"; n; r] -> ARef (n_of_int (int_a n), hexb r)
  | L (A "rec" :: n :: e :: rc :: ls) -> ARec (n_of_int (int_a n), aexpr_of e, aexpr_of rc, List.map hexb ls)
  | L [A "throw"; l] -> AThrow (hexb l)
  | _ -> failwith "bad aexpr"

let agrammar_of = function
  | L (A "ast" :: rules) ->
      List.map (function
          | L [A "rule"; nm; dn; e] -> { a_name = hexb nm; a_display = hexb dn; a_expr = aexpr_of e }
          | _ -> failwith "bad arule") rules
  | _ -> failwith "bad ast"

let pq = ref { pq_inner = false; pq_pred = false; pq_short = true }   (* faithful: after fix 46465c9 the flags below ? * + are computed *)
let set_pq (b : String.t) = pq := { pq_inner = (String.length b > 0 && b.[0] = '1'); pq_pred = (String.length b > 1 && b.[1] = '1'); pq_short = (String.length b > 2 && b.[2] = '1') }

let rec perms = function
  | [] -> [[]]
  | l -> List.concat_map (fun x -> List.map (fun p -> x :: p) (perms (List.filter (fun y -> y != x) l))) l

let show_prep = function
  | PrepNoLeader -> "noleader"
  | PrepOk (have, lrs, leaders) ->
      let names l = String.concat "," (List.sort_uniq compare (List.map str_of_bytes l)) in
      Printf.sprintf "ok have=%s lr=%s leaders=%s" (if have then "1" else "0") (names lrs) (names leaders)

(* -prep: lines "ID|<ast sexp>|..."; prints ID|model outcomes over all iteration orders|spec verdicts *)
let prep_mode path =
  let ic = open_in path in
  (try
     while true do
       let line = input_line ic in
       match String.split_on_char '|' line with
       | id :: ast :: _ ->
           (match parse_sexps ast with
            | [sx] ->
                let g = agrammar_of sx in
                let names = List.sort_uniq compare (List.map (fun r -> r.a_name) g) in
                let ps = if List.length names <= 5 then perms names
                  else List.init 200 (fun _ -> List.map snd (List.sort compare (List.map (fun x -> (Random.bits (), x)) names))) in
                let fuel = nat_of_int 2000 in
                let outs = List.sort_uniq compare (List.map (fun p -> show_prep (prepare !pq g fuel p)) ps) in
                let b x = if x then "1" else "0" in
                Printf.printf "%s|%s|nopred=%s pred=%s throw=%s|lr_nopred=%s\n" id (String.concat ";" outs)
                  (b (lr_cycle g false false)) (b (lr_cycle g true false)) (b (lr_cycle g true true))
                  (String.concat "," (List.sort compare (List.map str_of_bytes (lr_rules g false false))))
            | _ -> ())
       | _ -> ()
     done
   with End_of_file -> ());
  close_in ic

(* -bl: lines "hexraw|chars|ranges|classes|ic|inv"; prints the model's Basic-Latin table and
   whether it agrees with the general matching procedure on all 128 runes *)
let bl_mode path =
  let ic = open_in path in
  (try
     while true do
       let line = input_line ic in
       match String.split_on_char '|' line with
       | raw :: chars :: ranges :: classes :: icf :: invf :: _ ->
           let ints s = List.filter_map (fun x -> if x = "" then None else Some (z_of_int (int_of_string x))) (String.split_on_char ' ' s) in
           let cls = List.filter_map (fun x -> if x = "" then None else Some (bytes_of_str (unhex ("x" ^ x)))) (String.split_on_char ' ' classes) in
           let t = basic_latin ulib (ints chars) (ints ranges) cls (icf = "1") in
           let ok = table_agrees_b ulib (ints chars) (ints ranges) cls (icf = "1") (invf = "1") in
           let slow = List.init 128 (fun i -> slow_decide ulib (ints chars) (ints ranges) cls (icf = "1") (invf = "1") (z_of_int i)) in
           let bits l = String.concat "" (List.map (fun b -> if b then "1" else "0") l) in
           Printf.printf "%s %s %d %s\n" raw (bits t) (if ok then 1 else 0) (bits slow)
       | _ -> ()
     done
   with End_of_file -> ());
  close_in ic

let () =
  let tables = ref "" and cases = ref "" and fuel = ref 4000 and dec = ref "" and bl = ref "" and prep = ref "" and cls = ref "" and emb = ref "" and var = ref "staticCode" and poolf = ref "" and exitf = ref "" and unqf = ref "" and mergef = ref "" in
  Arg.parse [ ("-tables", Arg.Set_string tables, "unicode tables file");
              ("-cases", Arg.Set_string cases, "case file");
              ("-pq", Arg.String set_pq, "analysis quirks, 2 bits: nullable_inner pred_first (default 01 = current tree: nullable_inner repaired by fix 46465c9)");
              ("-prep", Arg.Set_string prep, "file of grammars: PrepareGrammar model over all iteration orders + LRSpec");
              ("-cls", Arg.Set_string cls, "file of hex class texts: the model of ast.CharClassMatcher.parse under both escape settings");
              ("-unq", Arg.Set_string unqf, "file of hex raw literal tokens: the model of the literal reader (strconv.Unquote)");
              ("-exit", Arg.Set_string exitf, "file of stage outcomes: exit status per the model of main.go");
              ("-pool", Arg.Set_string poolf, "file of state-store steps: replay on the Pool model and print the views");
              ("-embed", Arg.Set_string emb, "source file: print the file static_code_generator writes for it (model)");
              ("-var", Arg.Set_string var, "variable name for -embed");
              ("-bl", Arg.Set_string bl, "file of classes: print Basic-Latin tables of the model");
              ("-merge", Arg.Set_string mergef, "file of choices (mergetool format): print what the model of the merging pass leaves");
              ("-decode", Arg.Set_string dec, "file of hex strings: print decode results");
              ("-quirks", Arg.String set_quirks, "7 bits: lit_eof stale_ctx recover_scope memo_nocharge memo_label lr_memo_state memo_expected (default 1111111 = faithful)");
              ("-lrspec", Arg.Set lrspec_mode, "evaluate the specification with left-recursive rules read as iterations (Spec.LRIter)");
              ("-ref", Arg.Set ref_mode, "evaluate the specification (Ref) instead of the implementation model");
              ("-limit", Arg.Set_float case_limit, "seconds allowed per case (default 15)");
              ("-fuel", Arg.Set_int fuel, "fuel") ] (fun _ -> ()) "driver";
  if !dec <> "" then (decode_mode !dec; exit 0);
  if !cls <> "" then (cls_mode !cls; exit 0);
  if !emb <> "" then (embed_mode !emb !var; exit 0);
  if !poolf <> "" then (pool_mode !poolf; exit 0);
  if !exitf <> "" then (exit_mode !exitf; exit 0);
  if !unqf <> "" then (unq_mode !unqf; exit 0);
  if !tables <> "" then load_tables !tables;
  if !mergef <> "" then (merge_mode !mergef; exit 0);
  if !bl <> "" then (bl_mode !bl; exit 0);
  if !prep <> "" then (Random.init 7; prep_mode !prep; exit 0);
  if !tables <> "" then load_tables !tables;
  let ic = open_in_bin !cases in
  (try
     while true do
       let line = input_line ic in
       if String.length line > 0 && line.[0] = '(' then begin
         match parse_sexps line with
         | [sx] ->
             (* the fuel of the model bounds depth, not work: a per-case time limit keeps exponential cases from
                stalling a run; they are reported as model-timeout and left out of every comparison *)
             let id = (match sx with L (A "case" :: A id :: _) -> id | _ -> "?") in
             ignore (Unix.setitimer Unix.ITIMER_REAL { Unix.it_interval = 0.0; Unix.it_value = !case_limit });
             (try print_endline (run_case !fuel sx)
              with Stack_overflow -> print_endline (id ^ "\tout=model-stack-overflow")
                 | Case_timeout -> print_endline (id ^ "\tout=model-timeout")
                 | Failure m -> print_endline (id ^ "\tout=model-failure:" ^ m));
             ignore (Unix.setitimer Unix.ITIMER_REAL { Unix.it_interval = 0.0; Unix.it_value = 0.0 })
         | _ -> ()
       end
     done
   with End_of_file -> ());
  close_in ic
