(* C11 - Error contract: typed, positioned, accumulated errors; panics are contained. *)
From PV Require Import Lib.Base Lib.Utf8 Syntax.RGrammar Syntax.Code Model.PState Spec.Pos Model.Runtime
  Spec.Ref Spec.RefParse Proofs.Inv Proofs.InvStep Proofs.Sim Proofs.SimFinal Proofs.TopLevel Proofs.Corollaries.

(* recorded errors are never lost: failure, backtracking, memo hits and the growing
   loop of left recursion only ever extend the list present on entry *)
Theorem C11_errors_accumulate : forall c fuel e s,
  I c s ->
  match parseExprWrap c fuel e s with
  | Ok _ s' | Panic _ s' => exists l, errs s' = errs s ++ l
  | OutOfFuel => True
  end.
Proof. exact errors_only_grow. Qed.
Print Assumptions C11_errors_accumulate.

(* the returned list = the specification's: every error a code block returns is recorded
   at the position of its match with file, line:col (offset) and rule prefix, parsing
   continues, value and errors can be returned together *)
Theorem C11_errors_are_ref_errors : forall c,
  state_ok c -> o_memoize (cO c) = false -> G_wf c -> stale_ok c -> t_leftrec (cT c) = false ->
  forall fuel, obs_equiv (parse c fuel) (rparse c fuel).
Proof. exact parse_refines_rparse. Qed.
Print Assumptions C11_errors_are_ref_errors.

(* identical messages are reported once, the first occurrence is kept, nothing else is dropped *)
Theorem C11_dedupe : forall l,
  NoDup (map perr_string (dedupe l)) /\
  (forall e, In e (dedupe l) -> In e l) /\
  (forall e, In e l -> In (perr_string e) (map perr_string (dedupe l))).
Proof. exact dedupe_spec. Qed.
Print Assumptions C11_dedupe.

Theorem C11_dedupe_keeps_first : forall x l, exists l', dedupe (x :: l) = x :: l'.
Proof. exact dedupe_keeps_first. Qed.
Print Assumptions C11_dedupe_keeps_first.

(* Recover(true): a panic never escapes, it becomes the final error with a nil value;
   Recover(false): it propagates *)
Theorem C11_panic_contained : forall c fuel r en pv s',
  cG c <> [] -> entry_name c = Some en -> find_rule en (cG c) = Some r ->
  parseRuleWrap c (parseExprWrap c fuel) fuel r (read c (init_state c)) = Panic pv s' ->
  parse c fuel =
    if o_recover (cO c)
    then Returned VNil (dedupe (errs s' ++ [mkPerr pv (sp_pos (pt s')) (err_prefix c (sp_pos (pt s')) s') []])) (addErr c pv s')
    else Panicked pv s'.
Proof. exact parse_panic_contained. Qed.
Print Assumptions C11_panic_contained.
