(* C09: -optimize-grammar preserves the language and what actions see.
   Proved: the local rewrites of the optimizer are laws of the specification's combinators, for every
   evaluator that treats the nested node as Ref defines it (so for Ref at any fuel):
   - a choice nested in a choice can be flattened: the outcome is identical, value included;
   - a sequence nested in a sequence can be flattened: position, state, scope and the whole log
     (hence every action's text, pos and labels) are identical, the value is only regrouped;
   - two adjacent literals with the same i flag succeed exactly when their concatenation does, and
     end at the same position.
   Not proved: that ast.Optimize is a composition of such rewrites (and of inlining and class merging);
   that is decided on every run by executing the real optimizer and comparing the unoptimized and the
   optimized grammar under Ref, the model and real parsers (C09_whole_optimizer_partial, DESIGN.md). *)
From PV Require Import Lib.Base Lib.Utf8 Syntax.RGrammar Syntax.Code Model.PState Spec.Pos Model.Runtime Spec.Ref Proofs.OptLaws
  Proofs.RefMono Proofs.CntInsens Proofs.RefOptLaws Proofs.RefSeqLaw.

Theorem C09_choice_in_choice_flattens : forall ev H R inv n a b d sc g m,
  (forall g0 m0, ev H R inv (EAlt n b) [] g0 m0 = ralt ev H R inv b [] g0 m0) ->
  ralt ev H R inv (a ++ EAlt n b :: d) sc g m = ralt ev H R inv (a ++ b ++ d) sc g m.
Proof. exact choice_in_choice_flattens. Qed.
Print Assumptions C09_choice_in_choice_flattens.

Theorem C09_sequence_in_sequence_flattens : forall ev H R inv n a b d sc g m,
  (forall sc0 g0 m0, ev H R inv (ESeq n b) sc0 g0 m0 = rseq ev H R inv b [] sc0 g0 m0) ->
  same_upto_grouping (rseq ev H R inv (a ++ ESeq n b :: d) [] sc g m) (rseq ev H R inv (a ++ b ++ d) [] sc g m).
Proof. exact sequence_in_sequence_flattens. Qed.
Print Assumptions C09_sequence_in_sequence_flattens.

Theorem C09_adjacent_literals_concatenate : forall c ev H R inv lf n1 n2 n rs1 rs2 ic w1 w2 w sc g m,
  (forall nn rs ww sc0 g0 m0, ev H R inv (ELit nn rs ic ww) sc0 g0 m0 = reval_body c ev lf H R inv (ELit nn rs ic ww) sc0 g0 m0) ->
  same_extent (rseq ev H R inv [ELit n1 rs1 ic w1; ELit n2 rs2 ic w2] [] sc g m)
              (reval_body c ev lf H R inv (ELit n (rs1 ++ rs2) ic w) sc g m).
Proof. exact adjacent_literals_concatenate. Qed.
Print Assumptions C09_adjacent_literals_concatenate.

(* the hypotheses are unfolding equations of Ref itself: reval (S f) evaluates a nested choice as the choice of its
   alternatives evaluated by reval f, after counting one expression.  Carrying the laws over to reval at a fixed
   fuel therefore needs monotonicity of reval in its fuel and tolerance of the counter, which is not proved here:
   the laws are about fuel-free evaluators; their use for the real optimizer is validated by execution. *)
Example C09_hypothesis_met_by_Ref : forall c f H R inv n b g m,
  o_maxexpr (rO c) = 0%N ->
  exists m', reval c (S f) H R inv (EAlt n b) [] g m = ralt (reval c f) H R inv b [] g m'.
Proof.
  intros c f H R inv n b g m Hb. cbn [reval]. unfold over_budget. rewrite Hb. cbn [N.eqb negb andb].
  eexists. reflexivity.
Qed.

(* ... and that carrying-over is done for the choice law: for Ref itself, at every fuel at which the nested form is
   defined and without an expression budget, flattening a nested choice changes nothing but the expression counter
   (same outcome, value, position, state, scope, log and global store).  Ingredients: fuel monotonicity of reval
   (RefMono.reval_mono) and insensitivity to the counter (CntInsens.counter_is_bookkeeping). *)
Theorem C09_ref_choice_in_choice_flattens : forall c, o_maxexpr (rO c) = 0%N ->
  forall f H R inv n n' a b d sc g m,
    reval c (S (S f)) H R inv (EAlt n (a ++ EAlt n' b :: d)) sc g m <> ROut ->
    rsim (reval c (S (S f)) H R inv (EAlt n (a ++ EAlt n' b :: d)) sc g m)
         (reval c (S (S f)) H R inv (EAlt n (a ++ b ++ d)) sc g m).
Proof. exact ref_choice_in_choice_flattens. Qed.
Print Assumptions C09_ref_choice_in_choice_flattens.

Theorem C09_ref_fuel_is_only_a_bound : forall c f f' H R inv e sc g m, f <= f' ->
  reval c f H R inv e sc g m <> ROut -> reval c f' H R inv e sc g m = reval c f H R inv e sc g m.
Proof. exact reval_mono_le. Qed.
Print Assumptions C09_ref_fuel_is_only_a_bound.

(* the sequence law for Ref itself: position, state, scope, log and global store are identical, the counter aside;
   the value is regrouped only *)
Theorem C09_ref_sequence_in_sequence_flattens : forall c, o_maxexpr (rO c) = 0%N ->
  forall f H R inv n n' a b d sc g m,
    reval c (S (S f)) H R inv (ESeq n (a ++ ESeq n' b :: d)) sc g m <> ROut ->
    rsimg (reval c (S (S f)) H R inv (ESeq n (a ++ ESeq n' b :: d)) sc g m)
          (reval c (S (S f)) H R inv (ESeq n (a ++ b ++ d)) sc g m).
Proof. exact ref_sequence_in_sequence_flattens. Qed.
Print Assumptions C09_ref_sequence_in_sequence_flattens.

(* ---- a whole pass of the optimizer, modelled (Model/OptMerge.v; the check runs the model against the real
   ast.Optimize on generated choices and compares the alternatives left, syntactically) ----
   For every flat choice of alternatives (one-rune literals, classes with even-length range lists - what the class
   reader produces -, the any matcher, longer or empty literals), whatever expressions the builder emits for the
   alternatives as written (L) and for the alternatives the pass leaves (L'): under Ref the two choices give the same
   success/failure, value, end position and state and the same scope, from every position of every input, with every
   history. *)
From PV Require Import Proofs.Determinacy Model.OptMerge Proofs.OptMergeProofs.

Theorem C09_merge_pass_preserves_choice : forall (c : rdata),
  o_maxexpr (rO c) = 0%N ->
  (forall id x y, ctx_eq x y -> out_eq (ce_act (rE c) id x) (ce_act (rE c) id y)) ->
  (forall id x y, ctx_eq x y -> out_eq (ce_pred (rE c) id x) (ce_pred (rE c) id y)) ->
  (forall id x y, ctx_eq x y -> out_eq (ce_state (rE c) id x) (ce_state (rE c) id y)) ->
  forall l L L',
    Forall wf_alt l -> Forall2 (denotes c) l L -> Forall2 (denotes c) (optimize_choice l) L' ->
    forall f H R inv n n' sc g m,
      res_eq (reval c (S (S f)) H R inv (EAlt n L) sc g m) (reval c (S (S f)) H R inv (EAlt n' L') sc g m).
Proof. intros c Hb Ha Hp Hs. exact (merge_pass_preserves_choice c Hb Ha Hp Hs). Qed.
Print Assumptions C09_merge_pass_preserves_choice.

(* when the pass leaves one alternative the optimizer puts it in the place of the choice *)
Theorem C09_single_alternative_replaces_choice : forall (c : rdata),
  o_maxexpr (rO c) = 0%N ->
  forall a e ok, denotes c a e -> ok_of c a = Some ok ->
  forall f H R inv n sc g m,
    res_eq (reval c (S (S f)) H R inv (EAlt n [e]) sc g m) (reval c (S f) H R inv e sc g m).
Proof. intros c Hb. exact (single_alternative c Hb). Qed.
Print Assumptions C09_single_alternative_replaces_choice.

(* the class algebra the pass relies on, for every class and rune *)
Theorem C09_class_union : forall u c0 r0 k0 c1 r1 k1 ic cur, Nat.even (length r0) = true ->
  class_decide u (c0 ++ c1) (r0 ++ r1) (k0 ++ k1) ic false cur =
  class_decide u c0 r0 k0 ic false cur || class_decide u c1 r1 k1 ic false cur.
Proof. exact class_decide_app. Qed.
Print Assumptions C09_class_union.

(* non-vacuity: "a" / [b0-9] / "c"i / [x] / [x] is merged to [ba0-9] / "c"i / [x] (two runs, then cleanup) *)
Example C09_merge_example :
  optimize_choice [MLit [97%Z] false; MCls [98%Z] [48%Z; 57%Z] [] false false; MLit [99%Z] true;
                   MCls [120%Z] [] [] false false; MCls [120%Z] [] [] false false]
  = [MCls [98%Z; 97%Z] [48%Z; 57%Z] [] false false; MLit [99%Z] true; MCls [120%Z] [] [] false false]
  /\ Forall wf_alt [MLit [97%Z] false; MCls [98%Z] [48%Z; 57%Z] [] false false; MLit [99%Z] true;
                    MCls [120%Z] [] [] false false; MCls [120%Z] [] [] false false].
Proof. split; [vm_compute; reflexivity | repeat constructor]. Qed.

(* ---- the literal-concatenating pass over the items of a sequence (Model/OptMerge.v: spass; the check compares it
   with the real ast.Optimize, syntactically) ----
   For every sequence of items - literals and any other expressions [others k] - whatever expressions the builder
   emits for the literals as written (L) and as left by the pass (L'): under Ref the two sequences succeed or fail
   alike, end at the same position and state with the same label scope, and their values are equal up to joining
   adjacent matched texts ([text_of]: the leaves of the value with neighbouring byte strings concatenated) - the
   "regrouping" the property allows for action-less groups. *)
From PV Require Import Proofs.OptSeqProofs.

Theorem C09_concat_pass_preserves_sequence : forall (c : rdata),
  o_maxexpr (rO c) = 0%N ->
  (forall id x y, ctx_eq x y -> out_eq (ce_act (rE c) id x) (ce_act (rE c) id y)) ->
  (forall id x y, ctx_eq x y -> out_eq (ce_pred (rE c) id x) (ce_pred (rE c) id y)) ->
  (forall id x y, ctx_eq x y -> out_eq (ce_state (rE c) id x) (ce_state (rE c) id y)) ->
  forall (others : nat -> expr) l L L',
    Forall2 (sdenotes c others) l L -> Forall2 (sdenotes c others) (optimize_seq l) L' ->
    forall f H R inv n n' sc g m,
      sres_eq (reval c (S (S f)) H R inv (ESeq n L) sc g m) (reval c (S (S f)) H R inv (ESeq n' L') sc g m).
Proof. intros c Hb Ha Hp Hs. exact (concat_pass_preserves_sequence c Hb Ha Hp Hs). Qed.
Print Assumptions C09_concat_pass_preserves_sequence.

(* a sequence left with one item is replaced by the item: same outcome, the value loses one level of grouping *)
Theorem C09_single_item_replaces_sequence : forall (c : rdata),
  o_maxexpr (rO c) = 0%N ->
  (forall id x y, ctx_eq x y -> out_eq (ce_act (rE c) id x) (ce_act (rE c) id y)) ->
  (forall id x y, ctx_eq x y -> out_eq (ce_pred (rE c) id x) (ce_pred (rE c) id y)) ->
  (forall id x y, ctx_eq x y -> out_eq (ce_state (rE c) id x) (ce_state (rE c) id y)) ->
  forall e f H R inv n sc g m,
    sres_eq (reval c (S (S f)) H R inv (ESeq n [e]) sc g m) (reval c (S f) H R inv e sc g m).
Proof. intros c Hb Ha Hp Hs. exact (single_item c Hb Ha Hp Hs). Qed.
Print Assumptions C09_single_item_replaces_sequence.

(* cleanupCharClassMatcher: dropping repeated characters, ranges and Unicode classes changes no decision
   (f = what the builder does to the members afterwards: lower-casing under the i flag, or nothing) *)
Theorem C09_class_cleanup : forall u cs rs ks ic inv (f : rune -> rune) cur,
  class_decide u (map f (dedupe_z [] cs)) (map f (dedupe_pairs [] rs)) (dedupe_b [] ks) ic inv cur =
  class_decide u (map f cs) (map f rs) ks ic inv cur.
Proof. exact class_decide_cleanup. Qed.
Print Assumptions C09_class_cleanup.

(* non-vacuity: "a" "b"i "c"i x "d" "e" "f"  =>  "a" "bc"i x "de" "f"  =>  "a" "bc"i x "def" *)
Example C09_concat_example :
  optimize_seq [ILit [97%Z] false; ILit [98%Z] true; ILit [99%Z] true; IOther 3; ILit [100%Z] false; ILit [101%Z] false; ILit [102%Z] false]
  = [ILit [97%Z] false; ILit [98%Z; 99%Z] true; IOther 3; ILit [100%Z; 101%Z; 102%Z] false].
Proof. vm_compute. reflexivity. Qed.
