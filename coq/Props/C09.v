(* placeholder: see DESIGN.md; theorems for C09 are added below as they are proved *)
