(* C09: -optimize-grammar preserves the language and what actions see.
   Proved: the local rewrites of the optimizer are laws of the specification's combinators, for every
   evaluator that treats the nested node as Ref defines it (so for Ref at any fuel):
   - a choice nested in a choice can be flattened: the outcome is identical, value included;
   - a sequence nested in a sequence can be flattened: position, state, scope and the whole log
     (hence every action's text, pos and labels) are identical, the value is only regrouped;
   - two adjacent literals with the same i flag succeed exactly when their concatenation does, and
     end at the same position.
   Not proved: that ast.Optimize is a composition of such rewrites (and of inlining and class merging);
   that is decided on every run by executing the real optimizer and comparing the unoptimized and the
   optimized grammar under Ref, the model and real parsers (C09_whole_optimizer_partial, DESIGN.md). *)
From PV Require Import Lib.Base Lib.Utf8 Syntax.RGrammar Syntax.Code Model.PState Spec.Pos Model.Runtime Spec.Ref Proofs.OptLaws
  Proofs.RefMono Proofs.CntInsens Proofs.RefOptLaws Proofs.RefSeqLaw.

Theorem C09_choice_in_choice_flattens : forall ev H R inv n a b d sc g m,
  (forall g0 m0, ev H R inv (EAlt n b) [] g0 m0 = ralt ev H R inv b [] g0 m0) ->
  ralt ev H R inv (a ++ EAlt n b :: d) sc g m = ralt ev H R inv (a ++ b ++ d) sc g m.
Proof. exact choice_in_choice_flattens. Qed.
Print Assumptions C09_choice_in_choice_flattens.

Theorem C09_sequence_in_sequence_flattens : forall ev H R inv n a b d sc g m,
  (forall sc0 g0 m0, ev H R inv (ESeq n b) sc0 g0 m0 = rseq ev H R inv b [] sc0 g0 m0) ->
  same_upto_grouping (rseq ev H R inv (a ++ ESeq n b :: d) [] sc g m) (rseq ev H R inv (a ++ b ++ d) [] sc g m).
Proof. exact sequence_in_sequence_flattens. Qed.
Print Assumptions C09_sequence_in_sequence_flattens.

Theorem C09_adjacent_literals_concatenate : forall c ev H R inv lf n1 n2 n rs1 rs2 ic w1 w2 w sc g m,
  (forall nn rs ww sc0 g0 m0, ev H R inv (ELit nn rs ic ww) sc0 g0 m0 = reval_body c ev lf H R inv (ELit nn rs ic ww) sc0 g0 m0) ->
  same_extent (rseq ev H R inv [ELit n1 rs1 ic w1; ELit n2 rs2 ic w2] [] sc g m)
              (reval_body c ev lf H R inv (ELit n (rs1 ++ rs2) ic w) sc g m).
Proof. exact adjacent_literals_concatenate. Qed.
Print Assumptions C09_adjacent_literals_concatenate.

(* the hypotheses are unfolding equations of Ref itself: reval (S f) evaluates a nested choice as the choice of its
   alternatives evaluated by reval f, after counting one expression.  Carrying the laws over to reval at a fixed
   fuel therefore needs monotonicity of reval in its fuel and tolerance of the counter, which is not proved here:
   the laws are about fuel-free evaluators; their use for the real optimizer is validated by execution. *)
Example C09_hypothesis_met_by_Ref : forall c f H R inv n b g m,
  o_maxexpr (rO c) = 0%N ->
  exists m', reval c (S f) H R inv (EAlt n b) [] g m = ralt (reval c f) H R inv b [] g m'.
Proof.
  intros c f H R inv n b g m Hb. cbn [reval]. unfold over_budget. rewrite Hb. cbn [N.eqb negb andb].
  eexists. reflexivity.
Qed.

(* ... and that carrying-over is done for the choice law: for Ref itself, at every fuel at which the nested form is
   defined and without an expression budget, flattening a nested choice changes nothing but the expression counter
   (same outcome, value, position, state, scope, log and global store).  Ingredients: fuel monotonicity of reval
   (RefMono.reval_mono) and insensitivity to the counter (CntInsens.counter_is_bookkeeping). *)
Theorem C09_ref_choice_in_choice_flattens : forall c, o_maxexpr (rO c) = 0%N ->
  forall f H R inv n n' a b d sc g m,
    reval c (S (S f)) H R inv (EAlt n (a ++ EAlt n' b :: d)) sc g m <> ROut ->
    rsim (reval c (S (S f)) H R inv (EAlt n (a ++ EAlt n' b :: d)) sc g m)
         (reval c (S (S f)) H R inv (EAlt n (a ++ b ++ d)) sc g m).
Proof. exact ref_choice_in_choice_flattens. Qed.
Print Assumptions C09_ref_choice_in_choice_flattens.

Theorem C09_ref_fuel_is_only_a_bound : forall c f f' H R inv e sc g m, f <= f' ->
  reval c f H R inv e sc g m <> ROut -> reval c f' H R inv e sc g m = reval c f H R inv e sc g m.
Proof. exact reval_mono_le. Qed.
Print Assumptions C09_ref_fuel_is_only_a_bound.

(* the sequence law for Ref itself: position, state, scope, log and global store are identical, the counter aside;
   the value is regrouped only *)
Theorem C09_ref_sequence_in_sequence_flattens : forall c, o_maxexpr (rO c) = 0%N ->
  forall f H R inv n n' a b d sc g m,
    reval c (S (S f)) H R inv (ESeq n (a ++ ESeq n' b :: d)) sc g m <> ROut ->
    rsimg (reval c (S (S f)) H R inv (ESeq n (a ++ ESeq n' b :: d)) sc g m)
          (reval c (S (S f)) H R inv (ESeq n (a ++ b ++ d)) sc g m).
Proof. exact ref_sequence_in_sequence_flattens. Qed.
Print Assumptions C09_ref_sequence_in_sequence_flattens.
