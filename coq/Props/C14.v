(* C14 - Throw and recover follow the labelled-failure semantics. *)
From PV Require Import Lib.Base Lib.Utf8 Syntax.RGrammar Syntax.Code Model.PState Spec.Pos Model.Runtime
  Spec.Ref Spec.RefParse Proofs.Inv Proofs.InvStep Proofs.Sim Proofs.SimFinal Proofs.TopLevel
  Proofs.Corollaries Proofs.RefLaws.

(* the specification says what the property says ... *)
Theorem C14_innermost_handler_first : forall ev H R inv l ls rc hs sc g m v g' sc' m',
  mem_bytes l ls = true -> ev H R inv rc [] g m = ROk v g' sc' m' ->
  rthrow ev H R inv l ((ls, rc) :: hs) sc g m = ROk v g' sc m'.
Proof. exact throw_innermost. Qed.
Print Assumptions C14_innermost_handler_first.

Theorem C14_fallthrough : forall ev H R inv l ls rc hs sc g m m',
  mem_bytes l ls = true -> ev H R inv rc [] g m = RFail m' ->
  rthrow ev H R inv l ((ls, rc) :: hs) sc g m = rthrow ev H R inv l hs sc g m'.
Proof. exact throw_fallthrough. Qed.
Print Assumptions C14_fallthrough.

Theorem C14_other_labels_skipped : forall ev H R inv l ls rc hs sc g m,
  mem_bytes l ls = false ->
  rthrow ev H R inv l ((ls, rc) :: hs) sc g m = rthrow ev H R inv l hs sc g m.
Proof. exact throw_skips_other_labels. Qed.
Print Assumptions C14_other_labels_skipped.

Theorem C14_unhandled_is_failure : forall ev H R inv l sc g m, rthrow ev H R inv l [] sc g m = RFail m.
Proof. exact throw_unhandled. Qed.
Print Assumptions C14_unhandled_is_failure.

Theorem C14_handlers_in_force_while_guarded : forall (c : rdata) ev n H R inv nid e rc ls sc g m,
  reval_body c ev n H R inv (ERec nid e rc ls) sc g m = ev ((ls, rc) :: H) R inv e sc g m.
Proof. exact rec_scopes_handler. Qed.
Print Assumptions C14_handlers_in_force_while_guarded.

(* ... and the recoveryStack push/pop discipline of the implementation refines it:
   part of the simulation relation is  rcvstack s = H  at every call *)
Theorem C14_recovery_stack_refines_handlers : forall c,
  state_ok c -> o_memoize (cO c) = false -> G_wf c -> stale_ok c -> t_leftrec (cT c) = false ->
  forall fuel, sim_spec c (parseExprWrap c fuel) (reval c fuel).
Proof. exact impl_refines_ref. Qed.
Print Assumptions C14_recovery_stack_refines_handlers.

(* handlers are popped on success and on failure alike *)
Theorem C14_recovery_stack_balanced : forall c fuel e s r s',
  I c s -> parseExprWrap c fuel e s = Ok r s' -> rcvstack s' = rcvstack s.
Proof. intros c fuel e s r s' HI E. apply (stacks_balanced c fuel e s r s' HI E). Qed.
Print Assumptions C14_recovery_stack_balanced.
