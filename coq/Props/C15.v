(* C15 - -optimize-basic-latin is a pure optimisation of character classes. *)
From PV Require Import Lib.Base Lib.Utf8 Syntax.RGrammar Syntax.Code Model.PState Spec.Pos Model.Runtime Model.Lower
  Proofs.LatinProofs Proofs.LatinRefuted.
Local Open Scope Z_scope.

(* For every class without the i flag - any characters, ranges, Unicode classes, ^ - and every
   Unicode library: the precomputed decision of each of the 128 Basic Latin runes equals the
   decision of the general matching procedure. *)
Theorem C15_table_equals_general_procedure_without_i : forall u chars ranges classes inv r,
  0 <= r < 128 ->
  table_decide (basic_latin u chars ranges classes false) inv r = slow_decide u chars ranges classes false inv r.
Proof. exact table_eq_slow_nofold. Qed.
Print Assumptions C15_table_equals_general_procedure_without_i.

(* For any class (also with i) the exhaustive comparison over the 128 runes is a decision
   procedure for the property: it is what the check runs on every class of a run. *)
Theorem C15_exhaustive_check_decides : forall u chars ranges classes ic inv,
  table_agrees_b u chars ranges classes ic inv = true <->
  forall r, 0 <= r < 128 ->
    table_decide (basic_latin u chars ranges classes ic) inv r = slow_decide u chars ranges classes ic inv r.
Proof. exact table_agrees_b_spec. Qed.
Print Assumptions C15_exhaustive_check_decides.

(* Non-ASCII runes and invalid bytes (U+FFFD, width 1) never use the table *)
Theorem C15_nonascii_same_path : forall c cv chars ranges classes ic inv table s,
  128 <= sp_rn (pt s) ->
  parseCharClassMatcher c cv chars ranges classes ic inv table s =
  (if is_eof s then cls_fail cv (pt s) s
   else if class_decide (cU c) chars ranges classes ic inv (sp_rn (pt s))
        then cls_match c cv (pt s) s else cls_fail cv (pt s) s).
Proof. exact nonascii_same_path. Qed.
Print Assumptions C15_nonascii_same_path.

(* With the i flag the full statement is false of the faithful model: witnesses. *)
Theorem C15_refuted_range : exists r, 0 <= r < 128 /\
  table_decide (basic_latin toy_ulib [] [64; 90] [] true) false r <> slow_decide toy_ulib [] [64; 90] [] true false r.
Proof. exact refuted_range. Qed.
Print Assumptions C15_refuted_range.

Theorem C15_refuted_class : exists r, 0 <= r < 128 /\
  table_decide (basic_latin toy_ulib [] [] [[76%N; 117%N]] true) false r <> slow_decide toy_ulib [] [] [[76%N; 117%N]] true false r.
Proof. exact refuted_class. Qed.
Print Assumptions C15_refuted_class.

Theorem C15_refuted_kelvin : exists r, 0 <= r < 128 /\
  table_decide (basic_latin toy_ulib [8490] [] [] true) false r <> slow_decide toy_ulib [8490] [] [] true false r.
Proof. exact refuted_kelvin. Qed.
Print Assumptions C15_refuted_kelvin.
