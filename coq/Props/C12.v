(* C12 - A failed parse reports the farthest failure position and the exact expected set. *)
From PV Require Import Lib.Base Lib.Utf8 Syntax.RGrammar Syntax.Code Model.PState Spec.Pos Model.Runtime
  Spec.Ref Spec.RefParse Proofs.Inv Proofs.InvStep Proofs.Sim Proofs.SimStep Proofs.SimFinal Proofs.FailProofs
  Proofs.TopLevel Proofs.Corollaries.

(* the incremental bookkeeping of failAt (compare with maxFailPos, truncate on advance,
   toggle under !) computes the batch definition over all terminal attempts: position =
   that of the first attempt at the greatest offset (1:1 when it is offset 0), expected =
   the attempts at that offset, "!"-prefixed when made inside a negative predicate *)
Theorem C12_incremental_is_batch : forall ts, mf_fold ts = (far_pos ts, far_expected ts).
Proof. exact mf_fold_far. Qed.
Print Assumptions C12_incremental_is_batch.

(* every failAt call of a run is one logged terminal attempt of the specification *)
Theorem C12_failAt_is_log : forall c matched pos want s sc g m H R inv,
  Sim c s sc g m H R inv ->
  Sim c (failAt matched pos want s) sc g (log (RTerm pos want matched inv) m) H R inv.
Proof. exact Sim_failAt. Qed.
Print Assumptions C12_failAt_is_log.

(* hence the single "no match found" error of a failed parse is the specification's:
   sorted, duplicate-free expected list, EOF last (rparse / no_match_perr) *)
Theorem C12_report_is_ref_report : forall c,
  state_ok c -> o_memoize (cO c) = false -> G_wf c -> stale_ok c -> t_leftrec (cT c) = false ->
  forall fuel, obs_equiv (parse c fuel) (rparse c fuel).
Proof. exact parse_refines_rparse. Qed.
Print Assumptions C12_report_is_ref_report.

(* the farthest position never moves backwards during a parse *)
Theorem C12_farthest_monotone : forall c fuel e s r s',
  I c s -> parseExprWrap c fuel e s = Ok r s' -> offset (maxFailPos s) <= offset (maxFailPos s').
Proof.
  intros c fuel e s r s' HI E. pose proof (parseExprWrap_inv c fuel e s HI) as Hs. rewrite E in Hs.
  destruct r. destruct Hs as (_ & [_ _ _ M4] & _). exact M4.
Qed.
Print Assumptions C12_farthest_monotone.
