(* C08: placeholder while the check is under construction *)
