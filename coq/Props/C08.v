(* C08: left-recursive rules parse as the left-associative iteration they denote.
   Specification: Spec/LRIter.v (lreval / lrparse): a rule A <- A a1 / .. / A an / b1 / .. / bm, the
   recursive reference possibly through one alias rule, is the iteration (b1/../bm)(a1/../an)* with
   the recursive reference standing for the left-nested result so far.
   Proved here about the model of the run-time:
   - what the last, non-extending growth attempt did to the error list and to the state store is not
     retained, whatever the rule body did (any wrap, any rule, any state);
   - the full statement "the run-time computes the iteration" is FALSE of the faithful model when the
     cycle is entered through a rule that is not its leader: witness below (known finding
     C08-LEADER-NOT-ENTRY), and true on the same grammar once the entered rule is the leader.
   The statement for the remaining shapes is decided by execution against lrparse (see DESIGN.md):
   it is not proved (C08_iteration_partial). *)
From PV Require Import Lib.Base Lib.Utf8 Syntax.RGrammar Syntax.Code Model.PState Spec.Pos Model.Runtime
  Spec.Ref Spec.RefParse Spec.LRIter Proofs.LRProofs Proofs.LRRefuted.

Theorem C08_last_attempt_not_retained :
  forall (c : cfg) (wrap : expr -> M (val * bool)) n r sm depth last lastErrs s v b s2,
    parseRule wrap r (attempt_start c r sm last s) = Ok (v, b) s2 ->
    not_extending depth last b s2 ->
    exists s3,
      leader_loop c wrap (S n) r sm depth last lastErrs s = Ok last s3 /\
      errs s3 = lastErrs /\
      (has_state (cT c) = true -> st s3 = st s) /\
      gs s3 = gs s2 /\ trace s3 = trace s2.
Proof. exact last_attempt_not_retained. Qed.
Print Assumptions C08_last_attempt_not_retained.

(* Start <- Sum ; Sum <- Lhs "+" P / P ; Lhs <- Sum ; P <- "1"  on "1+1" *)
Theorem C08_iteration_refuted_when_entered_through_non_leader :
  rvalue_of (lrparse (rd (cfg_entry false)) 200) = Some whole /\
  value_of (parse (cfg_entry false) 200) = Some (VBytes [49%N]) /\
  value_of (parse (cfg_entry true) 200) = Some whole.
Proof. exact (conj spec_parses_whole (conj impl_stops_short impl_with_entered_leader)). Qed.
Print Assumptions C08_iteration_refuted_when_entered_through_non_leader.
