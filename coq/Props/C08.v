(* C08: left-recursive rules parse as the left-associative iteration they denote.
   Specification: Spec/LRIter.v (lreval / lrparse): a rule A <- A a1 / .. / A an / b1 / .. / bm, the
   recursive reference possibly through one alias rule, is the iteration (b1/../bm)(a1/../an)* with
   the recursive reference standing for the left-nested result so far.
   Proved here about the model of the run-time:
   - termination of the growing loop: at most |input| + 2 rounds, whatever the rule body does (C08_growth_terminates);
   - what the last, non-extending growth attempt did to the error list and to the state store is not
     retained, whatever the rule body did (any wrap, any rule, any state);
   - the full statement "the run-time computes the iteration" is FALSE of the faithful model when the
     cycle is entered through a rule that is not its leader: witness below (known finding
     C08-LEADER-NOT-ENTRY), and true on the same grammar once the entered rule is the leader.
   The statement for the remaining shapes is decided by execution against lrparse (see DESIGN.md):
   it is not proved (C08_iteration_partial). *)
From PV Require Import Lib.Base Lib.Utf8 Syntax.RGrammar Syntax.Code Model.PState Spec.Pos Model.Runtime
  Spec.Ref Spec.RefParse Spec.LRIter Proofs.ReadProofs Proofs.Inv Proofs.Corollaries Proofs.LRProofs Proofs.LRRefuted.

Theorem C08_last_attempt_not_retained :
  forall (c : cfg) (wrap : expr -> M (val * bool)) n r sm depth last lastErrs s v b s2,
    parseRule wrap r (attempt_start c r sm last s) = Ok (v, b) s2 ->
    not_extending depth last b s2 ->
    exists s3,
      leader_loop c wrap (S n) r sm depth last lastErrs s = Ok last s3 /\
      errs s3 = lastErrs /\
      (has_state (cT c) = true -> st s3 = st s) /\
      gs s3 = gs s2 /\ trace s3 = trace s2.
Proof. exact last_attempt_not_retained. Qed.
Print Assumptions C08_last_attempt_not_retained.

(* "parsing terminates": the growing loop of a leader needs at most |input| + 2 rounds, whatever the rule body does -
   after the first round a further round is started only if the last one ended strictly farther, and ends stay within
   the input (invariant of the run-time model).  So when the body of the rule never runs out of fuel, the loop does not
   either, for every state satisfying the invariant, every grammar, with and without Memoize. *)
Theorem C08_growth_terminates : forall (c : cfg) fuel n r s,
  I c s ->
  (forall s', parseRule (parseExprWrap c fuel) r s' <> OutOfFuel) ->
  length (cData c) + 2 <= n ->
  parseRuleRecursiveLeader c (parseExprWrap c fuel) n r s <> OutOfFuel.
Proof. exact growth_terminates. Qed.
Print Assumptions C08_growth_terminates.

(* Start <- Sum ; Sum <- Lhs "+" P / P ; Lhs <- Sum ; P <- "1"  on "1+1" *)
Theorem C08_iteration_refuted_when_entered_through_non_leader :
  rvalue_of (lrparse (rd (cfg_entry false)) 200) = Some whole /\
  value_of (parse (cfg_entry false) 200) = Some (VBytes [49%N]) /\
  value_of (parse (cfg_entry true) 200) = Some whole.
Proof. exact (conj spec_parses_whole (conj impl_stops_short impl_with_entered_leader)). Qed.
Print Assumptions C08_iteration_refuted_when_entered_through_non_leader.
