(* C18: concurrent parses with one generated package are isolated - the part a theorem can carry:
   the bookkeeping of state maps shared through the package-level pool.  For every history (any
   interleaving of any number of parsers starting, writing their state, cloning it for backtracking,
   restoring or dropping a clone, and of the pool dropping items) and whatever map the pool hands
   out at each clone, a parser observes exactly what it observes when it runs alone.
   The Go memory model (data races proper) is outside a Gallina model: the race detector runs in the
   correspondence check, see DESIGN.md. *)
From PV Require Import Lib.Base Model.Pool Proofs.PoolProofs.

Theorem C18_each_parser_sees_what_it_sees_alone : forall (h : list (tid * op)) (t : tid),
  view (run h init) t = srun (mine t h).
Proof. exact isolation. Qed.
Print Assumptions C18_each_parser_sees_what_it_sees_alone.

(* "Discard clears a map before returning it to the pool": every pooled map is empty, always *)
Theorem C18_pooled_maps_are_empty : forall (h : list (tid * op)) (a : addr),
  In a (pool (run h init)) -> heap (run h init) a = [].
Proof. exact pool_maps_empty. Qed.
Print Assumptions C18_pooled_maps_are_empty.

(* a history in which two parsers interleave and the second one is handed the map the first one discarded *)
Example C18_nontrivial_history :
  let h := [(0, OStart); (1, OStart); (0, OSet 1%N 7%N); (0, OClone None); (0, OSet 1%N 8%N); (0, ORestore);
            (1, OSet 2%N 5%N); (1, OClone (Some 0)); (1, OSet 2%N 6%N); (0, OSet 3%N 9%N); (1, ORestore)] in
  pool (run h init) <> [] /\
  view (run h init) 0 = Some (mkS [(1, 7); (3, 9)]%N []) /\
  view (run h init) 1 = Some (mkS [(2, 5)]%N []).
Proof. vm_compute. repeat split; try reflexivity. discriminate. Qed.
