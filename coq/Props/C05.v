(* C05 - Backtracking rolls back the state store; globalStore is never rolled back. *)
From PV Require Import Lib.Base Lib.Utf8 Syntax.RGrammar Syntax.Code Model.PState Spec.Pos Model.Runtime
  Spec.Ref Spec.RefParse Proofs.Inv Proofs.InvStep Proofs.Sim Proofs.SimFinal Proofs.TopLevel
  Proofs.Corollaries Proofs.RefLaws.

(* whenever an expression fails, the store is the store before it started: all 18
   kinds, every template with a store, Memoize on or off, with left recursion *)
Theorem C05_fail_restores_state : forall c fuel e s v s',
  I c s -> has_state (cT c) = true -> parseExprWrap c fuel e s = Ok (v, false) s' -> st s' = st s.
Proof. intros c fuel e s v s' HI Hh E. destruct (fail_consumes_nothing c fuel e s v s' HI E) as [_ H]. auto. Qed.
Print Assumptions C05_fail_restores_state.

(* the store seen by every code block, and the globalStore, are those of the
   value-passing specification (where nothing is ever rolled back because state is
   passed by value and globalStore is threaded through failures) *)
Theorem C05_stores_refine_ref : forall c,
  state_ok c -> o_memoize (cO c) = false -> G_wf c -> stale_ok c -> t_leftrec (cT c) = false ->
  forall fuel, obs_equiv (parse c fuel) (rparse c fuel).
Proof. exact parse_refines_rparse. Qed.
Print Assumptions C05_stores_refine_ref.

(* specification: predicates leave the store as it was, actions' writes are discarded,
   state blocks' writes persist *)
Theorem C05_ref_predicates_restore : forall (c : rdata) ev n H R inv nid e sc g m v g' sc' m',
  (reval_body c ev n H R inv (EAnd nid e) sc g m = ROk v g' sc' m' -> g' = g) /\
  (reval_body c ev n H R inv (ENot nid e) sc g m = ROk v g' sc' m' -> g' = g).
Proof.
  intros. split; intros E; [apply and_consumes_nothing in E | apply not_consumes_nothing in E]; apply E.
Qed.
Print Assumptions C05_ref_predicates_restore.

Theorem C05_ref_state_block_persists : forall (c : rdata) ev n H R inv nid id sc g m,
  let x := block_ctx_ref c id [] (pos_of (rData c) (g_off g)) sc g m in
  forall r err st' gs', ce_state (rE c) id x = CbRet r err st' gs' ->
  exists m2, reval_body c ev n H R inv (EStC nid id) sc g m = ROk VNil (mkSig (g_off g) st') sc m2.
Proof. exact stc_keeps_state. Qed.
Print Assumptions C05_ref_state_block_persists.

Theorem C05_ref_action_writes_discarded : forall (c : rdata) ev n H R inv nid id e sc g m g1 sc1 m1 v0,
  ev H R inv e sc g m = ROk v0 g1 sc1 m1 ->
  let x := block_ctx_ref c id (slice c (g_off g) (g_off g1)) (pos_of (rData c) (g_off g)) sc1 g1 m1 in
  match ce_act (rE c) id x with
  | CbRet r err st' gs' =>
      exists m2, reval_body c ev n H R inv (EAct nid id e) sc g m = ROk r g1 sc1 m2 /\ u_gs m2 = gs'
  | CbPanic pv st' gs' =>
      exists m2, reval_body c ev n H R inv (EAct nid id e) sc g m = RPanic pv m2 (pos_of (rData c) (g_off g1)) R
  end.
Proof. exact act_context. Qed.
Print Assumptions C05_ref_action_writes_discarded.
