(* C07 - Left recursion is detected: rejected by default, never silently accepted. *)
From PV Require Import Lib.Base Syntax.RGrammar Syntax.Ast Model.Prepare Spec.LRRel Proofs.PrepareProofs Proofs.PrepareRefuted.
From Coq Require Import Relations.Relation_Operators.

(* No false rejection: whatever PrepareGrammar reports - a left-recursive rule, or the
   absence of a leader - is a cycle of the specification (a rule reaching itself at the same
   position through nullable prefixes; predicates count iff the analysis looks into them),
   for every iteration order of the rules map, every setting of the analysis quirks.
   Contrapositive: a grammar with no such cycle is accepted. *)
Theorem C07_reports_only_real_cycles : forall q g, ids_unique g -> forall fuel ord,
  (match prepare q g fuel ord with PrepOk true _ _ | PrepNoLeader => True | PrepOk false _ _ => False end) ->
  lr_cycle_rel g (negb (pq_pred q)).
Proof. exact prepare_reports_only_real_cycles. Qed.
Print Assumptions C07_reports_only_real_cycles.

Theorem C07_cycle_free_grammars_are_accepted : forall q g, ids_unique g ->
  ~ lr_cycle_rel g (negb (pq_pred q)) -> forall fuel ord, prepare q g fuel ord = PrepOk false [] [].
Proof. exact no_cycle_order_free. Qed.
Print Assumptions C07_cycle_free_grammars_are_accepted.

(* The other direction (every cycle is reported) is FALSE of the pinned tree: *)
(* - across a nullable prefix inside ?, * or +  (found by this machinery; repaired by a fix: commit) *)
Theorem C07_refuted_nullable_inner :
  lr_cycle_rel g_inner false /\
  forall ord, In ord [[nA; nB]; [nB; nA]] -> prepare pinned g_inner 100 ord = PrepOk false [] [].
Proof. exact (conj g_inner_cycle g_inner_accepted). Qed.
Print Assumptions C07_refuted_nullable_inner.

Theorem C07_nullable_inner_repaired : prepare (mkPq false true true) g_inner 100 [nA; nB] = PrepOk true [nA] [nA].
Proof. exact g_inner_repaired. Qed.
Print Assumptions C07_nullable_inner_repaired.

(* - through a lookahead predicate *)
Theorem C07_refuted_pred :
  lr_cycle_rel g_pred true /\ prepare pinned g_pred 100 [nA] = PrepOk false [] [].
Proof. exact (conj g_pred_cycle g_pred_accepted). Qed.
Print Assumptions C07_refuted_pred.
