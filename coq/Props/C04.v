(* C04: every accepted grammar yields Go code that compiles - the part a theorem can carry: the
   naming of code-block methods.  A code block becomes the method "on<Rule><index>"; two blocks get
   the same name only if they are the same (rule, index) pair - provided no rule name ends in a
   digit.  With a rule name ending in a digit the statement is false (witness), which is a genuine
   defect of the generator: the emitted file declares a method twice and does not compile.
   Compilation, vet and package initialisation of emitted files, and the parameters of each method,
   are decided by execution (DESIGN.md). *)
From PV Require Import Lib.Base Model.Methods Proofs.MethodsProofs.
From Coq Require Import String.
Local Open Scope string_scope.
Local Open Scope list_scope.

Theorem C04_method_names_distinct :
  forall (itoa : nat -> bytes),
    (forall a b, itoa a = itoa b -> a = b) -> (forall a, forallb is_digit (itoa a) = true) ->
    forall r1 r2 i1 i2,
      no_trailing_digit r1 = true -> no_trailing_digit r2 = true ->
      func_name itoa r1 i1 = func_name itoa r2 i2 -> r1 = r2 /\ i1 = i2.
Proof. exact func_name_injective. Qed.
Print Assumptions C04_method_names_distinct.

Theorem C04_method_names_refuted_for_trailing_digits :
  func_name dec_nat (bytes_of_string "A") 11 = func_name dec_nat (bytes_of_string "A1") 1.
Proof. exact func_name_collision. Qed.
Print Assumptions C04_method_names_refuted_for_trailing_digits.
