(* C10 - -optimize-parser output is observationally equivalent to the standard parser. *)
From PV Require Import Lib.Base Lib.Utf8 Syntax.RGrammar Syntax.Code Model.PState Spec.Pos Model.Runtime
  Spec.Ref Spec.RefParse Proofs.Inv Proofs.Sim Proofs.TopLevel Proofs.Variants.

(* For default run-time options (Memoize off) and a grammar without left-recursive rules:
   the parser generated with -optimize-parser and the one generated without it (any two
   template flag sets, in fact: Optimize, GlobalState, BasicLatinLookupTable) return the same
   value, the same error list, the same globalStore and count the same expressions.
   hyps covers: a state store, or no store and blocks that never touch state (what the Go
   compiler enforces when the store is removed); Basic-Latin tables agreeing with the
   general procedure when used; the quirk conditions of C01. *)
Theorem C10_optimize_equiv : forall c t1 t2,
  hyps (with_tmpl t1 c) -> hyps (with_tmpl t2 c) ->
  forall fuel, same_result (parse (with_tmpl t1 c) fuel) (parse (with_tmpl t2 c) fuel).
Proof. exact tmpl_variants_agree. Qed.
Print Assumptions C10_optimize_equiv.

(* both refine the same specification, which cannot see template flags by construction
   (Ref is defined over rdata: input, Unicode library, options, grammar, code blocks) *)
Theorem C10_spec_ignores_template : forall t c, rd (with_tmpl t c) = rd c.
Proof. exact rd_with_tmpl. Qed.
Print Assumptions C10_spec_ignores_template.

Theorem C10_each_variant_refines_ref : forall c,
  state_ok c -> o_memoize (cO c) = false -> G_wf c -> stale_ok c -> t_leftrec (cT c) = false ->
  forall fuel, obs_equiv (parse c fuel) (rparse c fuel).
Proof. exact parse_refines_rparse. Qed.
Print Assumptions C10_each_variant_refines_ref.
