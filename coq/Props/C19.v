(* C19 - Generation is deterministic. *)
From PV Require Import Lib.Base Syntax.RGrammar Syntax.Ast Model.Prepare Spec.LRRel Proofs.PrepareProofs Proofs.PrepareRefuted.

(* For a grammar without a left-recursive cycle the analysis result is the same - no flags
   at all - for every iteration order of the rules map (every order of ComputeNullables). *)
Theorem C19_cycle_free_order_independent : forall q g, ids_unique g ->
  ~ lr_cycle_rel g (negb (pq_pred q)) ->
  forall fuel ord1 ord2, prepare q g fuel ord1 = prepare q g fuel ord2.
Proof.
  intros q g Hu Hn fuel ord1 ord2.
  rewrite (no_cycle_order_free q g Hu Hn fuel ord1), (no_cycle_order_free q g Hu Hn fuel ord2). reflexivity.
Qed.
Print Assumptions C19_cycle_free_order_independent.

(* With left recursion the full statement is false of the pinned tree: the leader moves
   with the iteration order. *)
Theorem C19_refuted_nullable_order :
  prepare pinned g_order 100 [nS; nZ; nM] <> prepare pinned g_order 100 [nS; nM; nZ].
Proof. exact g_order_depends. Qed.
Print Assumptions C19_refuted_nullable_order.
