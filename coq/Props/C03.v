(* C03: the grammar front-end builds the AST the text denotes - the part carried by a theorem:
   the reader of character classes (ast.CharClassMatcher.parse) returns exactly the members,
   ranges and Unicode classes that a class text denotes, in order, with its i and ^ flags, for
   every spelling of every member.  The rest of the front-end (layout, operators, binding
   strength, positions, literals) is decided by the correspondence check against the denoted AST. *)
From PV Require Import Lib.Base Lib.Utf8 Model.Front Model.FrontLit Proofs.FrontProofs Proofs.FrontLitProofs.
Local Open Scope Z_scope.

(* every class text print_class can produce (all member spellings: raw, \], single-character
   escapes, \xNN, \uNNNN, \UNNNNNNNN, \NNN; \pX and \p{Name}; ranges; ^ and i) is read back as the
   class it denotes, when an escaped rune is never the range operator (the grammar's reading);
   a raw '-' may be a member where the syntax makes it one: first, right after a range, or last *)
Theorem C03_class_reader_recovers_denoted_class : forall items ic inv,
  forallb item_ok items = true -> dash_ok true items = true -> lead_ok items inv = true ->
  parse_class true (print_class items ic inv) =
  Some (mkClass (denote_chars items) (denote_ranges items) (denote_classes items) ic inv).
Proof. exact parse_print_class. Qed.
Print Assumptions C03_class_reader_recovers_denoted_class.

(* the hypotheses are satisfiable by a class using every kind of member and spelling,
   including an escaped hyphen between two members *)
Example C03_hypotheses_inhabited :
  let items := [IChar 45 SRaw; IChar 97 SRaw; IChar 45 SHex; IChar 122 SU4; IRange 48 SOct 57 SU8; IChar 45 SRaw; IUni [76; 117] true; IUni [78] false; IChar 93 SEsc; IChar 10 SEsc; IChar 45 SRaw] in
  forallb item_ok items = true /\ dash_ok true items = true /\ lead_ok items false = true /\
  parse_class true (print_class items true false) =
    Some (mkClass [45; 97; 45; 122; 45; 93; 10; 45] [48; 57] [[76; 117]; [78]] true false).
Proof. vm_compute. repeat split; reflexivity. Qed.

(* the reading that forgets which runes were escaped (the pinned tree) is refuted:
   [a\x2dz] denotes the three members a, -, z and is read as the range a-z *)
Theorem C03_escaped_hyphen_refuted :
  exists items, forallb item_ok items = true /\ dash_ok true items = true /\ lead_ok items false = true /\
    parse_class false (print_class items false false) <>
    Some (mkClass (denote_chars items) (denote_ranges items) (denote_classes items) false false).
Proof. exists [IChar 97 SRaw; IChar 45 SHex; IChar 122 SRaw]. vm_compute. repeat split; try reflexivity. discriminate. Qed.
Print Assumptions C03_escaped_hyphen_refuted.

(* string literals: every double- or single-quoted token the printer can produce - each element a rune written raw,
   as a single-character escape, as \uNNNN or \UNNNNNNNN, or a byte written \xNN or \NNN - is unquoted to
   the bytes it denotes (runes in UTF-8, byte escapes as themselves) *)
Theorem C03_literal_reader_recovers_denoted_bytes : forall q es,
  (q =? r_dquote)%Z || (q =? r_squote)%Z = true -> forallb (lelem_ok q) es = true ->
  unquote (print_string q es) = Some (concat (map denote_lelem es)).
Proof. exact unquote_print_string. Qed.
Print Assumptions C03_literal_reader_recovers_denoted_bytes.

Example C03_literal_hypotheses_inhabited :
  let es := [LRune 97 LRaw; LRune 10 LEsc; LRune 34 LEsc; LRune 233 LU4; LRune 128512 LU8; LByteHex 255; LByteOct 7; LRune 92 LEsc]%Z in
  forallb (lelem_ok r_dquote) es = true /\
  unquote (print_string r_dquote es) = Some [97; 10; 34; 195; 169; 240; 159; 152; 128; 255; 7; 92]%N.
Proof. vm_compute. split; reflexivity. Qed.
