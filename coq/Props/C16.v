(* C16 - MaxExpressions bounds every parse. *)
From PV Require Import Lib.Base Lib.Utf8 Syntax.RGrammar Syntax.Code Model.PState Spec.Pos Model.Runtime
  Spec.Ref Spec.RefParse Proofs.Inv Proofs.InvStep Proofs.Sim Proofs.SimFinal Proofs.TopLevel Proofs.Corollaries.

(* with MaxExpressions(n), n > 0, no reachable state has counted more than n expressions
   except the one in which the budget panic is raised (n + 1) *)
Theorem C16_budget_respected : forall c fuel e s,
  I c s -> o_maxexpr (cO c) <> 0%N ->
  match parseExprWrap c fuel e s with
  | Ok _ s' => (exprCnt s' <= o_maxexpr (cO c))%N
  | Panic _ s' => (exprCnt s' <= o_maxexpr (cO c) + 1)%N
  | OutOfFuel => True
  end.
Proof. exact budget_respected. Qed.
Print Assumptions C16_budget_respected.

Theorem C16_parse_budget : forall c fuel s',
  o_maxexpr (cO c) <> 0%N -> final_state (parse c fuel) = Some s' ->
  (exprCnt s' <= o_maxexpr (cO c) + 1)%N.
Proof. exact parse_budget. Qed.
Print Assumptions C16_parse_budget.

(* exhaustion is reported through the panic path: with Recover(true) it is the final
   error and the value is nil, with Recover(false) the panic reaches the caller *)
Theorem C16_exhaustion_reported : forall c fuel r en pv s',
  cG c <> [] -> entry_name c = Some en -> find_rule en (cG c) = Some r ->
  parseRuleWrap c (parseExprWrap c fuel) fuel r (read c (init_state c)) = Panic pv s' ->
  parse c fuel =
    if o_recover (cO c)
    then Returned VNil (dedupe (errs s' ++ [mkPerr pv (sp_pos (pt s')) (err_prefix c (sp_pos (pt s')) s') []])) (addErr c pv s')
    else Panicked pv s'.
Proof. exact parse_panic_contained. Qed.
Print Assumptions C16_exhaustion_reported.

(* with a budget that is not exhausted the result is that of the specification, whose
   counter is the same counter *)
Theorem C16_same_as_ref_under_budget : forall c,
  state_ok c -> o_memoize (cO c) = false -> G_wf c -> stale_ok c -> t_leftrec (cT c) = false ->
  forall fuel, obs_equiv (parse c fuel) (rparse c fuel).
Proof. exact parse_refines_rparse. Qed.
Print Assumptions C16_same_as_ref_under_budget.
