(* C06: Memoize, Debug and Statistics never change results.
   - The principle that makes remembering a result sound is a theorem of the specification: with
     code blocks that look only at text, pos, their labels and the state store, and without an
     expression budget, the outcome of an expression (success/failure, value, end position and
     state, label scope) does not depend on anything evaluated before.
   - The full statement "parse with Memoize(true) = parse with default options" is FALSE of the
     faithful model: a memo hit on a label-binding expression skips the binding (known finding
     C06-MEMO-LABEL); the witness also shows the equivalence restored when such results are not
     memoised.
   - "Memoize bounds the work": in the model of the standard parser (no -optimize-parser, no left-recursion
     support), with Memoize(true) every evaluated expression stores exactly one result in the memo table and a
     hit evaluates nothing, so the number of evaluated expressions IS the number of stored results
     (C06_evaluations_are_stored_results, every grammar, every input).  When no (offset, expression) pair is stored
     twice the count is therefore at most |expressions| x (|input| + 1) (C06_linear_bound_nodup_partial; stored
     offsets lie within the input by the invariant of the run-time model).  What is missing for the full statement:
     that a grammar without left recursion never stores a pair twice (no re-entry at one offset); it is decided on
     the implementation by the C06 check (evaluated expressions <= expressions x (|input| + 1), each action at most
     once per start position).
     For the remaining grammars the statement and the Debug / Statistics options (outside
     the model) are decided by execution (DESIGN.md). *)
From PV Require Import Lib.Base Lib.Utf8 Syntax.RGrammar Syntax.Code Model.PState Spec.Pos Model.Runtime
  Spec.Ref Spec.RefParse Proofs.Determinacy Proofs.MemoRefuted Proofs.MemoCount.

Theorem C06_outcome_does_not_depend_on_history :
  forall (c : rdata), o_maxexpr (rO c) = 0%N ->
    (forall id x y, ctx_eq x y -> out_eq (ce_act (rE c) id x) (ce_act (rE c) id y)) ->
    (forall id x y, ctx_eq x y -> out_eq (ce_pred (rE c) id x) (ce_pred (rE c) id y)) ->
    (forall id x y, ctx_eq x y -> out_eq (ce_state (rE c) id x) (ce_state (rE c) id y)) ->
    forall fuel H R inv e sc g m1 m2,
      res_eq (reval c fuel H R inv e sc g m1) (reval c fuel H R inv e sc g m2).
Proof. intros c Hb Ha Hp Hs fuel. exact (outcome_is_history_independent c Hb Ha Hp Hs fuel). Qed.
Print Assumptions C06_outcome_does_not_depend_on_history.

(* the hypotheses are met by the code blocks of the correspondence harness's DSL whenever they do not
   read the global store: here the witness environment *)
Example C06_hypotheses_inhabited :
  forall id x y, ctx_eq x y -> out_eq (ce_act env_x id x) (ce_act env_x id y).
Proof. intros id x y (H1 & H2 & H3 & H4). cbn. rewrite H3, H4. auto. Qed.

(* S <- R "z" / "a" R ; R <- Q x:A {x} ; Q <- "a"? ; A <- "b"  on "ab" *)
Theorem C06_memoize_refuted_on_labels :
  rvalue_of (rparse (rd (cfg_memo faithful false)) 100) = Some expected /\
  value_of (parse (cfg_memo faithful false) 100) = Some expected /\
  value_of (parse (cfg_memo faithful true) 100) = Some (VList [VBytes [97%N]; VNil]) /\
  value_of (parse (cfg_memo no_label_memo true) 100) = Some expected.
Proof. exact (conj spec_value (conj default_options_value (conj memoize_changes_value memoize_without_label_memo))). Qed.
Print Assumptions C06_memoize_refuted_on_labels.

(* An observation OUTSIDE the statement of C06 (which speaks of success/failure, value and code-block errors, not of
   the text of the final "no match found" report): a result computed inside a ! predicate and reused outside it (or
   the reverse) changes the expected set.  S <- !A "x" / A ; A <- "a"  on "b": [no match found, expected: "a" or "x"]
   by the specification and with default options, [.. expected: "x"] with Memoize(true); not using the table inside !
   (model switch q_memo_expected) restores the equality.  Kept so that the model documents what the code does. *)
Theorem C06_observation_memoize_changes_expected_set :
  rerrors_of (rparse (rd (cfg_exp faithful false)) 100) = both_expected /\
  errors_of (parse (cfg_exp faithful false) 100) = both_expected /\
  errors_of (parse (cfg_exp faithful true) 100) = only_x /\
  errors_of (parse (cfg_exp no_expected_memo true) 100) = both_expected /\
  both_expected <> only_x.
Proof. exact (conj exp_spec (conj exp_default (conj exp_memoize (conj exp_memoize_repaired exp_differ)))). Qed.
Print Assumptions C06_observation_memoize_changes_expected_set.

(* ---- Memoize bounds the work ---- *)
Theorem C06_evaluations_are_stored_results : forall (c : cfg),
  o_memoize (cO c) = true -> t_optimize (cT c) = false -> t_leftrec (cT c) = false ->
  q_memo_nocharge (cQ c) = true -> q_memo_label (cQ c) = true -> q_memo_expected (cQ c) = true ->
  o_maxexpr (cO c) = 0%N ->
  forall fuel v errors final, did_not_panic c fuel ->
    parse c fuel = Returned v errors final -> exprCnt final = stored (memo final).
Proof. exact evaluations_are_stored_results. Qed.
Print Assumptions C06_evaluations_are_stored_results.

(* with Recover(false) a panic is not a return, so the hypothesis on panics goes away *)
Theorem C06_evaluations_are_stored_results_without_recover : forall (c : cfg),
  o_memoize (cO c) = true -> t_optimize (cT c) = false -> t_leftrec (cT c) = false ->
  q_memo_nocharge (cQ c) = true -> q_memo_label (cQ c) = true -> q_memo_expected (cQ c) = true ->
  o_maxexpr (cO c) = 0%N -> o_recover (cO c) = false ->
  forall fuel v errors final,
    parse c fuel = Returned v errors final -> exprCnt final = stored (memo final).
Proof. intros c H1 H2 H3 H4 H5 H6 H7 H8 fuel v errors final. exact (evaluations_are_stored_results_without_recover c H1 H2 H3 H4 H5 H6 H7 fuel v errors final H8). Qed.
Print Assumptions C06_evaluations_are_stored_results_without_recover.

Theorem C06_linear_bound_partial : forall (c : cfg),
  o_memoize (cO c) = true -> t_optimize (cT c) = false -> t_leftrec (cT c) = false ->
  q_memo_nocharge (cQ c) = true -> q_memo_label (cQ c) = true -> q_memo_expected (cQ c) = true ->
  o_maxexpr (cO c) = 0%N ->
  forall fuel v errors final (offs : list nat) (ids : list nid), did_not_panic c fuel ->
    parse c fuel = Returned v errors final ->
    NoDup (expr_keys (memo final)) ->
    incl (expr_keys (memo final)) (list_prod offs ids) ->
    (exprCnt final <= N.of_nat (length offs) * N.of_nat (length ids))%N.
Proof. exact linear_bound_partial. Qed.
Print Assumptions C06_linear_bound_partial.

(* the same with the offsets discharged by the invariant of the run-time model (stored offsets lie within the input):
   at most (number of expressions) x (input length + 1) evaluations, provided no pair is stored twice *)
Theorem C06_linear_bound_nodup_partial : forall (c : cfg),
  o_memoize (cO c) = true -> t_optimize (cT c) = false -> t_leftrec (cT c) = false ->
  q_memo_nocharge (cQ c) = true -> q_memo_label (cQ c) = true -> q_memo_expected (cQ c) = true ->
  o_maxexpr (cO c) = 0%N ->
  forall fuel v errors final (ids : list nid), did_not_panic c fuel ->
    parse c fuel = Returned v errors final ->
    NoDup (expr_keys (memo final)) ->
    (forall o n, In (o, n) (expr_keys (memo final)) -> In n ids) ->
    (exprCnt final <= N.of_nat (length ids) * (N.of_nat (length (cData c)) + 1))%N.
Proof. exact linear_bound_nodup. Qed.
Print Assumptions C06_linear_bound_nodup_partial.

(* the hypotheses are met by the grammar of the memo witness on "ab": 20 evaluations, 20 distinct pairs among
   3 offsets x 15 expressions *)
Example C06_bound_hypotheses_inhabited :
  did_not_panic (cfg_memo faithful true) 100 /\
  exists v errs final, parse (cfg_memo faithful true) 100 = Returned v errs final /\
    NoDup (expr_keys (memo final)) /\
    incl (expr_keys (memo final)) (list_prod (seq 0 3) example_ids) /\
    exprCnt final = 20%N.
Proof. exact (conj example_no_panic example_bound_hypotheses). Qed.
