(* C06: Memoize, Debug and Statistics never change results.
   - The principle that makes remembering a result sound is a theorem of the specification: with
     code blocks that look only at text, pos, their labels and the state store, and without an
     expression budget, the outcome of an expression (success/failure, value, end position and
     state, label scope) does not depend on anything evaluated before.
   - The full statement "parse with Memoize(true) = parse with default options" is FALSE of the
     faithful model: a memo hit on a label-binding expression skips the binding (known finding
     C06-MEMO-LABEL); the witness also shows the equivalence restored when such results are not
     memoised.
     For the remaining grammars the statement, the Debug / Statistics options (outside
     the model) and the bound on evaluated expressions are decided by execution (DESIGN.md). *)
From PV Require Import Lib.Base Lib.Utf8 Syntax.RGrammar Syntax.Code Model.PState Spec.Pos Model.Runtime
  Spec.Ref Spec.RefParse Proofs.Determinacy Proofs.MemoRefuted.

Theorem C06_outcome_does_not_depend_on_history :
  forall (c : rdata), o_maxexpr (rO c) = 0%N ->
    (forall id x y, ctx_eq x y -> out_eq (ce_act (rE c) id x) (ce_act (rE c) id y)) ->
    (forall id x y, ctx_eq x y -> out_eq (ce_pred (rE c) id x) (ce_pred (rE c) id y)) ->
    (forall id x y, ctx_eq x y -> out_eq (ce_state (rE c) id x) (ce_state (rE c) id y)) ->
    forall fuel H R inv e sc g m1 m2,
      res_eq (reval c fuel H R inv e sc g m1) (reval c fuel H R inv e sc g m2).
Proof. intros c Hb Ha Hp Hs fuel. exact (outcome_is_history_independent c Hb Ha Hp Hs fuel). Qed.
Print Assumptions C06_outcome_does_not_depend_on_history.

(* the hypotheses are met by the code blocks of the correspondence harness's DSL whenever they do not
   read the global store: here the witness environment *)
Example C06_hypotheses_inhabited :
  forall id x y, ctx_eq x y -> out_eq (ce_act env_x id x) (ce_act env_x id y).
Proof. intros id x y (H1 & H2 & H3 & H4). cbn. rewrite H3, H4. auto. Qed.

(* S <- R "z" / "a" R ; R <- Q x:A {x} ; Q <- "a"? ; A <- "b"  on "ab" *)
Theorem C06_memoize_refuted_on_labels :
  rvalue_of (rparse (rd (cfg_memo faithful false)) 100) = Some expected /\
  value_of (parse (cfg_memo faithful false) 100) = Some expected /\
  value_of (parse (cfg_memo faithful true) 100) = Some (VList [VBytes [97%N]; VNil]) /\
  value_of (parse (cfg_memo no_label_memo true) 100) = Some expected.
Proof. exact (conj spec_value (conj default_options_value (conj memoize_changes_value memoize_without_label_memo))). Qed.
Print Assumptions C06_memoize_refuted_on_labels.

(* An observation OUTSIDE the statement of C06 (which speaks of success/failure, value and code-block errors, not of
   the text of the final "no match found" report): a result computed inside a ! predicate and reused outside it (or
   the reverse) changes the expected set.  S <- !A "x" / A ; A <- "a"  on "b": [no match found, expected: "a" or "x"]
   by the specification and with default options, [.. expected: "x"] with Memoize(true); not using the table inside !
   (model switch q_memo_expected) restores the equality.  Kept so that the model documents what the code does. *)
Theorem C06_observation_memoize_changes_expected_set :
  rerrors_of (rparse (rd (cfg_exp faithful false)) 100) = both_expected /\
  errors_of (parse (cfg_exp faithful false) 100) = both_expected /\
  errors_of (parse (cfg_exp faithful true) 100) = only_x /\
  errors_of (parse (cfg_exp no_expected_memo true) 100) = both_expected /\
  both_expected <> only_x.
Proof. exact (conj exp_spec (conj exp_default (conj exp_memoize (conj exp_memoize_repaired exp_differ)))). Qed.
Print Assumptions C06_observation_memoize_changes_expected_set.
