(* C01 - Generated parsers implement PEG matching and the documented value shapes. *)
From PV Require Import Lib.Base Lib.Utf8 Syntax.RGrammar Syntax.Code Model.PState Spec.Pos Model.Runtime
  Spec.Ref Spec.RefParse Proofs.Inv Proofs.InvStep Proofs.Sim Proofs.SimFinal Proofs.TopLevel
  Proofs.Corollaries Proofs.RefLaws.

(* Parse (model of the generated parser, any template variant with a state store,
   default Memoize(false), grammar without left-recursive rules) returns exactly what
   the PEG specification Ref returns: same success/failure, same value, same errors,
   same expression count, same code-block trace.  Hypotheses name the quirks of the
   pinned tree: G_wf (no literal U+FFFD unless q_lit_eof is off, Basic-Latin tables agree
   with the general procedure, recovery expressions scope-closed unless q_recover_scope
   is off) and stale_ok (predicate context). *)
Theorem C01_refines_ref : forall c,
  state_ok c -> o_memoize (cO c) = false -> G_wf c -> stale_ok c -> t_leftrec (cT c) = false ->
  forall fuel, obs_equiv (parse c fuel) (rparse c fuel).
Proof. exact parse_refines_rparse. Qed.
Print Assumptions C01_refines_ref.

(* expression level, every one of the 18 kinds *)
Theorem C01_refines_ref_expr : forall c,
  state_ok c -> o_memoize (cO c) = false -> G_wf c -> stale_ok c -> t_leftrec (cT c) = false ->
  forall fuel, sim_spec c (parseExprWrap c fuel) (reval c fuel).
Proof. exact impl_refines_ref. Qed.
Print Assumptions C01_refines_ref_expr.

(* an expression that fails consumes nothing - unconditionally: every template
   variant, Memoize on or off, with or without left recursion, every quirk setting *)
Theorem C01_fail_consumes_nothing : forall c fuel e s v s',
  I c s -> parseExprWrap c fuel e s = Ok (v, false) s' ->
  cur_off s' = cur_off s /\ (has_state (cT c) = true -> st s' = st s).
Proof. exact fail_consumes_nothing. Qed.
Print Assumptions C01_fail_consumes_nothing.

(* the specification is PEG: ordered choice ... *)
Theorem C01_ref_choice : forall ev H R inv a rest sc g m,
  (forall v g' sc' m', ev H R inv a [] g m = ROk v g' sc' m' ->
     ralt ev H R inv (a :: rest) sc g m = ROk v g' sc m') /\
  (forall m', ev H R inv a [] g m = RFail m' ->
     ralt ev H R inv (a :: rest) sc g m = ralt ev H R inv rest sc g m').
Proof. intros. split; intros; [eapply alt_first_match | eapply alt_next]; eauto. Qed.
Print Assumptions C01_ref_choice.

(* ... greedy repetition with one value per iteration ... *)
Theorem C01_ref_repetition : forall ev H R inv e k acc g m,
  (forall v g' sc' m', ev H R inv e [] g m = ROk v g' sc' m' ->
     rrep ev H R inv (S k) e acc g m = rrep ev H R inv k e (v :: acc) g' m') /\
  (forall m', ev H R inv e [] g m = RFail m' ->
     rrep ev H R inv (S k) e acc g m = RepDone (rev acc) g m').
Proof. intros. split; intros; [eapply rep_unfold_ok | eapply rep_unfold_stop]; eauto. Qed.
Print Assumptions C01_ref_repetition.

(* ... predicates consume nothing and yield nil ... *)
Theorem C01_ref_predicates : forall (c : rdata) ev n H R inv nid e sc g m v g' sc' m',
  (reval_body c ev n H R inv (EAnd nid e) sc g m = ROk v g' sc' m' -> v = VNil /\ g' = g /\ sc' = sc) /\
  (reval_body c ev n H R inv (ENot nid e) sc g m = ROk v g' sc' m' -> v = VNil /\ g' = g /\ sc' = sc).
Proof. intros. split; [apply and_consumes_nothing | apply not_consumes_nothing]. Qed.
Print Assumptions C01_ref_predicates.

(* ... terminals return exactly the matched input bytes ... *)
Theorem C01_ref_terminal_values : forall (c : rdata) ev n H R inv nid sc g m v g' sc' m',
  reval_body c ev n H R inv (EAny nid) sc g m = ROk v g' sc' m' ->
  v = VBytes (slice c (g_off g) (g_off g')) /\ g_st g' = g_st g /\ sc' = sc /\ g_off g < g_off g'.
Proof. exact any_value. Qed.
Print Assumptions C01_ref_terminal_values.

Theorem C01_ref_class_values : forall (c : rdata) ev n H R inv nid cv chars ranges classes ic cinv tb sc g m v g' sc' m',
  reval_body c ev n H R inv (ECls nid cv chars ranges classes ic cinv tb) sc g m = ROk v g' sc' m' ->
  v = VBytes (slice c (g_off g) (g_off g')) /\ g_st g' = g_st g /\ sc' = sc /\
  class_decide (rU c) chars ranges classes ic cinv (fst (rune_at c (g_off g))) = true.
Proof. exact cls_value. Qed.
Print Assumptions C01_ref_class_values.

(* ... a sequence has one element per item, e? never fails *)
Theorem C01_ref_sequence_shape : forall ev H R inv es acc sc g m v g' sc' m',
  rseq ev H R inv es acc sc g m = ROk v g' sc' m' ->
  exists vs, v = VList (rev acc ++ vs) /\ length vs = length es.
Proof. exact seq_values. Qed.
Print Assumptions C01_ref_sequence_shape.

Theorem C01_ref_optional : forall (c : rdata) ev n H R inv nid e sc g m m',
  reval_body c ev n H R inv (EOpt nid e) sc g m <> RFail m'.
Proof. exact opt_never_fails. Qed.
Print Assumptions C01_ref_optional.
