(* C13: the tool is total - the part a theorem can carry: the exit-status decision.  Status 0 is
   produced exactly when help was requested or every stage succeeded; in particular a grammar the
   front-end or the builder rejects never yields status 0.  Absence of crashes and hangs of the real
   stages (front-end, optimizer, analysis, builder, formatter) is decided by execution on valid,
   mutated and arbitrary inputs under all flag sets, see DESIGN.md; the analysis model (Prepare) is a
   total Gallina function, the real analysis is not polynomial (known finding). *)
From PV Require Import Lib.Base Model.MainExit.
Local Open Scope N_scope.

Theorem C13_status_zero_iff_nothing_failed : forall s,
  exit_code s = 0 <-> (s_flags_ok s = true /\ s_help s = true) \/ accepted s = true.
Proof.
  intros s. unfold exit_code, accepted.
  destruct (s_flags_ok s), (s_help s), (s_one_arg s), (s_input_ok s), (s_parse_ok s), (s_entry_ok s), (s_nobuild s),
    (s_output_ok s), (s_build_ok s), (s_format_ok s), (s_write_ok s), (s_close_ok s); cbn; split; intros H;
    try discriminate; try reflexivity; try (destruct H as [[? ?]|?]; discriminate); auto.
Qed.
Print Assumptions C13_status_zero_iff_nothing_failed.

Theorem C13_rejected_grammar_never_exits_zero : forall s,
  s_help s = false -> (s_parse_ok s = false \/ s_entry_ok s = false \/ (s_nobuild s = false /\ s_build_ok s = false)) ->
  exit_code s <> 0.
Proof.
  intros s Hh Hr H0. apply C13_status_zero_iff_nothing_failed in H0 as [[_ H]|H]; [congruence|].
  unfold accepted in H. repeat (apply andb_true_iff in H as [H ?]).
  destruct Hr as [Hr|[Hr|[Hn Hb]]]; try congruence.
  rewrite Hn in *. cbn in *. repeat match goal with X : _ && _ = true |- _ => apply andb_true_iff in X as [X ?] end. congruence.
Qed.
Print Assumptions C13_rejected_grammar_never_exits_zero.
