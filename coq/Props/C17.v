(* C17 - Invalid UTF-8 is reported by default and matched bytewise when allowed.
   Property theorems only; proofs live in Proofs/. *)
From PV Require Import Lib.Base Lib.Utf8 Syntax.RGrammar Syntax.Code Model.PState Model.Runtime
  Proofs.Utf8Proofs Proofs.ReadProofs.

(* The decoder of the model (= utf8.DecodeRune, validated exhaustively on short
   prefixes by the harness) maps every scalar value's encoding to that value ... *)
Theorem C17_decode_roundtrip : forall r rest,
  scalar r -> decode (encode r ++ rest) = (r, length (encode r)).
Proof. exact decode_encode. Qed.
Print Assumptions C17_decode_roundtrip.

(* ... accepts nothing else (no overlongs, surrogates, > U+10FFFF, truncations) ... *)
Theorem C17_decode_sound : forall bs r w,
  decode bs = (r, w) -> w <> 0 -> ~ (r = RuneError /\ w = 1) ->
  scalar r /\ firstn w bs = encode r.
Proof. exact decode_sound. Qed.
Print Assumptions C17_decode_sound.

(* ... and treats each byte that starts no valid sequence as a one-byte U+FFFD. *)
Theorem C17_invalid_byte_is_one_byte_FFFD : forall bs,
  decode bs = (RuneError, 1) <-> invalid_at bs.
Proof. exact decode_invalid_iff. Qed.
Print Assumptions C17_invalid_byte_is_one_byte_FFFD.

Theorem C17_width_zero_iff_eof : forall bs, snd (decode bs) = 0 <-> bs = [].
Proof. exact decode_width_zero. Qed.
Print Assumptions C17_width_zero_iff_eof.

(* read: the current rune/width are DecodeRune of data[offset:], offsets count bytes *)
Theorem C17_read : forall c s,
  sp_ok (cData c) (pt s) ->
  sp_ok (cData c) (pt (read c s)) /\
  offset (sp_pos (pt (read c s))) = offset (sp_pos (pt s)) + sp_w (pt s).
Proof. intros c s H. split; [exact (read_sp_ok c s (proj1 H) (sp_ok_width _ _ H)) | exact (proj1 (proj2 (read_pt c s)))]. Qed.
Print Assumptions C17_read.

(* advancing onto an invalid byte adds exactly one 'invalid encoding' error at its
   position unless AllowInvalidUTF8 is set; nothing is added otherwise *)
Theorem C17_error : forall c s,
  let rest' := skipn (sp_w (pt s)) (sp_rest (pt s)) in
  (decode rest' = (RuneError, 1) /\ o_allowinvalid (cO c) = false /\
     exists e, errs (read c s) = errs s ++ [e] /\ pe_msg e = msg_invalid_encoding /\
               pe_pos e = sp_pos (pt (read c s)))
  \/ ((decode rest' <> (RuneError, 1) \/ o_allowinvalid (cO c) = true) /\ errs (read c s) = errs s).
Proof. exact read_errs. Qed.
Print Assumptions C17_error.

Theorem C17_valid_replacement_char_is_not_invalid : forall rest,
  decode ([239%N; 191%N; 189%N] ++ rest) = (RuneError, 3).
Proof. exact decode_valid_replacement. Qed.
Print Assumptions C17_valid_replacement_char_is_not_invalid.
