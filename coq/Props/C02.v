(* C02 - Code blocks observe the true match context (text, pos, labels). *)
From PV Require Import Lib.Base Lib.Utf8 Syntax.RGrammar Syntax.Code Model.PState Spec.Pos Model.Runtime
  Spec.Ref Spec.RefParse Proofs.ReadProofs Proofs.PosProofs Proofs.Inv Proofs.InvStep Proofs.Sim Proofs.SimFinal
  Proofs.TopLevel Proofs.Corollaries Proofs.RefLaws.

(* line, col, offset are a pure function of the input and the byte offset: every save
   point reached by scanning equals save_at data offset, however it was reached *)
Theorem C02_position_is_function_of_offset : forall d p q,
  reach d p -> reach d q -> offset (sp_pos p) = offset (sp_pos q) -> p = q.
Proof. exact reach_functional. Qed.
Print Assumptions C02_position_is_function_of_offset.

Theorem C02_position_def : forall d p, reach d p -> sp_pos p = pos_of d (offset (sp_pos p)).
Proof. exact reach_pos_of. Qed.
Print Assumptions C02_position_def.

(* the rune and width under the cursor are those of the input at that offset, and the offset lies within the
   input (sp_ok), after any amount of backtracking and memoised skipping (all template variants, memo on or off) *)
Theorem C02_cursor_coherent : forall c fuel e s r s',
  I c s -> parseExprWrap c fuel e s = Ok r s' -> sp_ok (cData c) (pt s').
Proof. exact savepoint_coherent. Qed.
Print Assumptions C02_cursor_coherent.

(* every code-block invocation of the implementation model - also on alternatives
   later abandoned - is, in order, an invocation of the specification with the same
   block and the same context (for predicates/state blocks up to c.text/c.pos when the
   stale-context quirk is on and the blocks ignore them) *)
Theorem C02_trace_is_ref_trace : forall c,
  state_ok c -> o_memoize (cO c) = false -> G_wf c -> stale_ok c -> t_leftrec (cT c) = false ->
  forall fuel,
  match parse c fuel, rparse c fuel with
  | Returned _ _ s, RReturned _ _ m | Panicked _ s, RPanicked _ m =>
      Forall2 (ev_eqv) (trace s) (blocks_of_log (u_log m))
  | Diverged, RDiverged => True
  | _, _ => False
  end.
Proof.
  intros c H1 H2 H3 H4 H5 fuel. pose proof (parse_refines_rparse c H1 H2 H3 H4 H5 fuel) as Ho.
  unfold obs_equiv in Ho. destruct (parse c fuel); destruct (rparse c fuel); try contradiction; auto; apply Ho.
Qed.
Print Assumptions C02_trace_is_ref_trace.

(* in the specification an action runs exactly when its expression has matched and
   sees: text = the matched bytes, pos = the match start, its labels = the scope *)
Theorem C02_ref_action_context : forall (c : rdata) ev n H R inv nid id e sc g m g1 sc1 m1 v0,
  ev H R inv e sc g m = ROk v0 g1 sc1 m1 ->
  let x := block_ctx_ref c id (slice c (g_off g) (g_off g1)) (pos_of (rData c) (g_off g)) sc1 g1 m1 in
  match ce_act (rE c) id x with
  | CbRet r err st' gs' =>
      exists m2, reval_body c ev n H R inv (EAct nid id e) sc g m = ROk r g1 sc1 m2 /\ u_gs m2 = gs'
  | CbPanic pv st' gs' =>
      exists m2, reval_body c ev n H R inv (EAct nid id e) sc g m = RPanic pv m2 (pos_of (rData c) (g_off g1)) R
  end.
Proof. exact act_context. Qed.
Print Assumptions C02_ref_action_context.

Theorem C02_ref_label_binding : forall (c : rdata) ev n H R inv nid l e sc g m v g' sc' m',
  reval_body c ev n H R inv (ELab nid l e) sc g m = ROk v g' sc' m' -> sc' = bind_scope l v sc.
Proof. exact lab_binds. Qed.
Print Assumptions C02_ref_label_binding.
