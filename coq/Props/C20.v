(* C20: the bootstrap chain - the part carried by a theorem: the string constant that
   static_code_generator writes denotes the run-time source.  The model of the generator
   ([embed]) is compared byte for byte with the checked-in generated files on every run; the
   other artifacts and the two front-ends are compared by execution (see DESIGN.md). *)
From PV Require Import Lib.Base Model.Embed Proofs.EmbedProofs.
From Coq Require Import String.
Local Open Scope string_scope.
Local Open Scope list_scope.
Local Open Scope N_scope.

(* the value Go gives to the embedded raw string is: newline, the lines of the source after the
   delimiter line joined by newlines, newline (carriage returns dropped) - for every source text
   whose kept part contains no backquote *)
Theorem C20_embedded_constant_denotes_source : forall src var,
  has bq var = false -> has bq (join_lines (kept src)) = false ->
  raw_string_value (embed src var) =
    Some (filter (fun c => negb (N.eqb c cr)) (nl :: join_lines (kept src ++ [[]]))).
Proof. exact embedded_constant_denotes_source. Qed.
Print Assumptions C20_embedded_constant_denotes_source.

(* the lines are those of the source: splitting at newlines and joining again loses nothing *)
Theorem C20_lines_are_the_source : forall src, join_lines (split_lines src []) = src.
Proof. intros src. rewrite join_split. reflexivity. Qed.
Print Assumptions C20_lines_are_the_source.

Example C20_hypotheses_inhabited :
  let src := bytes_of_string "package x" ++ [nl] ++ delimiter ++ [nl] ++ bytes_of_string "func f() {}" ++ [nl] in
  has bq (join_lines (kept src)) = false /\
  raw_string_value (embed src (bytes_of_string "staticCode")) = Some ([nl] ++ bytes_of_string "func f() {}" ++ [nl; nl]).
Proof. vm_compute. split; reflexivity. Qed.
