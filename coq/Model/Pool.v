(* Model of the state-store bookkeeping shared by concurrent parses of one generated package:
   every parser owns a current state map and the clones it made for backtracking; maps are
   recycled through one package-level pool (statePool, a sync.Pool).

     newParser            cur.state = make(storeDict)              OStart
     a #{} block          p.cur.state[k] = v                        OSet
     cloneState           m := statePool.Get(); copy cur into m     OClone (which pooled map, or a new one,
                                                                            is the pool's choice)
     restoreState(m)      cur.Discard() (clear, Put); cur = m       ORestore
     a clone not restored  (success path: the reference is dropped) ODrop
     the pool drops an item (garbage collection)                    OGc

   A history is any interleaving of such steps by any number of parsers (thread ids).
   The specification of one parser is the obvious one: a map value and a stack of map values. *)
From PV Require Import Lib.Base.
Local Open Scope nat_scope.

Definition tid := nat.
Definition addr := nat.
Definition smap := list (N * N).

Fixpoint mset (k v : N) (m : smap) : smap :=
  match m with
  | [] => [(k, v)]
  | (k', v') :: m' => if N.eqb k k' then (k, v) :: m' else (k', v') :: mset k v m'
  end.

Definition copy_into (src dst : smap) : smap := fold_left (fun acc kv => mset (fst kv) (snd kv) acc) src dst.

Record thread := mkThread { cur : addr; saved : list addr }.

Record world := mkWorld {
  heap : addr -> smap;
  pool : list addr;
  threads : tid -> option thread;
  next : addr
}.

Inductive op :=
| OStart
| OSet (k v : N)
| OClone (pick : option nat)
| ORestore
| ODrop
| OGc (i : nat).

Definition upd {A} (f : nat -> A) (a : nat) (x : A) : nat -> A := fun y => if Nat.eqb y a then x else f y.

Fixpoint remove_nth {A} (i : nat) (l : list A) : list A :=
  match l, i with
  | [], _ => []
  | _ :: l', O => l'
  | x :: l', S i' => x :: remove_nth i' l'
  end.

Definition init : world := mkWorld (fun _ => []) [] (fun _ => None) 0.

Definition step (w : world) (e : tid * op) : world :=
  let '(t, o) := e in
  match o with
  | OGc i => mkWorld (heap w) (remove_nth i (pool w)) (threads w) (next w)
  | OStart =>
      match threads w t with
      | Some _ => w
      | None => mkWorld (upd (heap w) (next w) []) (pool w) (upd (threads w) t (Some (mkThread (next w) []))) (S (next w))
      end
  | _ =>
      match threads w t with
      | None => w
      | Some th =>
          match o with
          | OSet k v => mkWorld (upd (heap w) (cur th) (mset k v (heap w (cur th)))) (pool w) (threads w) (next w)
          | OClone pick =>
              let '(a, pool', next', h0) :=
                match pick with
                | Some i =>
                    match nth_error (pool w) i with
                    | Some a => (a, remove_nth i (pool w), next w, heap w)
                    | None => (next w, pool w, S (next w), upd (heap w) (next w) [])
                    end
                | None => (next w, pool w, S (next w), upd (heap w) (next w) [])
                end in
              mkWorld (upd h0 a (copy_into (h0 (cur th)) (h0 a))) pool'
                      (upd (threads w) t (Some (mkThread (cur th) (a :: saved th)))) next'
          | ORestore =>
              match saved th with
              | [] => w
              | a :: rest =>
                  mkWorld (upd (heap w) (cur th) []) (cur th :: pool w)
                          (upd (threads w) t (Some (mkThread a rest))) (next w)
              end
          | ODrop =>
              match saved th with
              | [] => w
              | _ :: rest => mkWorld (heap w) (pool w) (upd (threads w) t (Some (mkThread (cur th) rest))) (next w)
              end
          | _ => w
          end
      end
  end.

Definition run (h : list (tid * op)) (w : world) : world := fold_left step h w.

(* ---- specification: one parser alone ---- *)
Record sthread := mkS { scur : smap; ssaved : list smap }.

Definition sstep (s : option sthread) (o : op) : option sthread :=
  match s, o with
  | None, OStart => Some (mkS [] [])
  | None, _ => None
  | Some s, OStart => Some s
  | Some s, OSet k v => Some (mkS (mset k v (scur s)) (ssaved s))
  | Some s, OClone _ => Some (mkS (scur s) (scur s :: ssaved s))
  | Some s, ORestore => match ssaved s with [] => Some s | a :: r => Some (mkS a r) end
  | Some s, ODrop => match ssaved s with [] => Some s | _ :: r => Some (mkS (scur s) r) end
  | Some s, OGc _ => Some s
  end.

Definition is_gc (o : op) : bool := match o with OGc _ => true | _ => false end.

(* the steps of parser t in a history, in order *)
Definition mine (t : tid) (h : list (tid * op)) : list op :=
  map snd (filter (fun e => Nat.eqb (fst e) t && negb (is_gc (snd e))) h).

Definition srun (os : list op) : option sthread := fold_left sstep os None.

(* what parser t can observe of the shared world *)
Definition view (w : world) (t : tid) : option sthread :=
  match threads w t with
  | Some th => Some (mkS (heap w (cur th)) (map (heap w) (saved th)))
  | None => None
  end.
