(* Model of the naming of code-block methods in the generated parser (builder.funcName):
   "on" ++ rule name ++ decimal index of the expression inside the rule.  The decimal printer
   (strconv.Itoa) is a parameter: only that it is injective and prints digits is used. *)
From PV Require Import Lib.Base.
From Coq Require Import String.
Local Open Scope string_scope.
Local Open Scope list_scope.

Definition is_digit (b : byte) : bool := N.leb 48 b && N.leb b 57.

Definition func_name (itoa : nat -> bytes) (rule : bytes) (ix : nat) : bytes :=
  bytes_of_string "on" ++ rule ++ itoa ix.

(* the last byte of a rule name is not a digit (or the name is empty) *)
Definition no_trailing_digit (r : bytes) : bool :=
  match rev r with [] => true | b :: _ => negb (is_digit b) end.
