(* Parser state of the generated parser (the Go struct [parser] of static_code.go)
   plus ghost fields (code-block trace, pool operation log).
   The record and its setters are produced by tools/gen_pstate.py. *)
From PV Require Import Lib.Base Syntax.RGrammar Syntax.Code.

Record savepoint := mkSave {
  sp_pos : position;
  sp_rn : rune;
  sp_w : nat;
  sp_rest : bytes      (* model-only cache: data[offset:] *)
}.

Record perr := mkPerr {
  pe_msg : bytes;          (* Inner.Error() *)
  pe_pos : position;
  pe_prefix : bytes;
  pe_expected : list bytes
}.

Record rtuple := mkRt { rt_v : val; rt_b : bool; rt_end : savepoint }.

Inductive mkey := KExpr (n : nid) | KRule (r : rname).

Definition scope := list (label * val).

Inductive bkind := KAct | KAnd | KNot | KState.
Record event := mkEvent { ev_kind : bkind; ev_cid : cid; ev_ctx : ctx }.

Inductive poolop := PoolGet | PoolPut.

Record pstate := mkPstate {
  pt : savepoint;
  cur_pos : position;
  cur_text : bytes;
  st : store;
  gs : gstore;
  errs : list perr;
  memo : list (nat * mkey * rtuple);
  vstack : list scope;
  rstack : list rule;
  maxFailPos : position;
  maxFailExpected : list bytes;
  maxFailInvert : bool;
  exprCnt : N;
  rcvstack : list (list label * expr);
  trace : list event;
  pool : list poolop
}.

Definition set_pt (v : savepoint) (s : pstate) : pstate :=
  mkPstate v (cur_pos s) (cur_text s) (st s) (gs s) (errs s) (memo s) (vstack s) (rstack s) (maxFailPos s) (maxFailExpected s) (maxFailInvert s) (exprCnt s) (rcvstack s) (trace s) (pool s).

Definition set_cur_pos (v : position) (s : pstate) : pstate :=
  mkPstate (pt s) v (cur_text s) (st s) (gs s) (errs s) (memo s) (vstack s) (rstack s) (maxFailPos s) (maxFailExpected s) (maxFailInvert s) (exprCnt s) (rcvstack s) (trace s) (pool s).

Definition set_cur_text (v : bytes) (s : pstate) : pstate :=
  mkPstate (pt s) (cur_pos s) v (st s) (gs s) (errs s) (memo s) (vstack s) (rstack s) (maxFailPos s) (maxFailExpected s) (maxFailInvert s) (exprCnt s) (rcvstack s) (trace s) (pool s).

Definition set_st (v : store) (s : pstate) : pstate :=
  mkPstate (pt s) (cur_pos s) (cur_text s) v (gs s) (errs s) (memo s) (vstack s) (rstack s) (maxFailPos s) (maxFailExpected s) (maxFailInvert s) (exprCnt s) (rcvstack s) (trace s) (pool s).

Definition set_gs (v : gstore) (s : pstate) : pstate :=
  mkPstate (pt s) (cur_pos s) (cur_text s) (st s) v (errs s) (memo s) (vstack s) (rstack s) (maxFailPos s) (maxFailExpected s) (maxFailInvert s) (exprCnt s) (rcvstack s) (trace s) (pool s).

Definition set_errs (v : list perr) (s : pstate) : pstate :=
  mkPstate (pt s) (cur_pos s) (cur_text s) (st s) (gs s) v (memo s) (vstack s) (rstack s) (maxFailPos s) (maxFailExpected s) (maxFailInvert s) (exprCnt s) (rcvstack s) (trace s) (pool s).

Definition set_memo (v : list (nat * mkey * rtuple)) (s : pstate) : pstate :=
  mkPstate (pt s) (cur_pos s) (cur_text s) (st s) (gs s) (errs s) v (vstack s) (rstack s) (maxFailPos s) (maxFailExpected s) (maxFailInvert s) (exprCnt s) (rcvstack s) (trace s) (pool s).

Definition set_vstack (v : list scope) (s : pstate) : pstate :=
  mkPstate (pt s) (cur_pos s) (cur_text s) (st s) (gs s) (errs s) (memo s) v (rstack s) (maxFailPos s) (maxFailExpected s) (maxFailInvert s) (exprCnt s) (rcvstack s) (trace s) (pool s).

Definition set_rstack (v : list rule) (s : pstate) : pstate :=
  mkPstate (pt s) (cur_pos s) (cur_text s) (st s) (gs s) (errs s) (memo s) (vstack s) v (maxFailPos s) (maxFailExpected s) (maxFailInvert s) (exprCnt s) (rcvstack s) (trace s) (pool s).

Definition set_maxFailPos (v : position) (s : pstate) : pstate :=
  mkPstate (pt s) (cur_pos s) (cur_text s) (st s) (gs s) (errs s) (memo s) (vstack s) (rstack s) v (maxFailExpected s) (maxFailInvert s) (exprCnt s) (rcvstack s) (trace s) (pool s).

Definition set_maxFailExpected (v : list bytes) (s : pstate) : pstate :=
  mkPstate (pt s) (cur_pos s) (cur_text s) (st s) (gs s) (errs s) (memo s) (vstack s) (rstack s) (maxFailPos s) v (maxFailInvert s) (exprCnt s) (rcvstack s) (trace s) (pool s).

Definition set_maxFailInvert (v : bool) (s : pstate) : pstate :=
  mkPstate (pt s) (cur_pos s) (cur_text s) (st s) (gs s) (errs s) (memo s) (vstack s) (rstack s) (maxFailPos s) (maxFailExpected s) v (exprCnt s) (rcvstack s) (trace s) (pool s).

Definition set_exprCnt (v : N) (s : pstate) : pstate :=
  mkPstate (pt s) (cur_pos s) (cur_text s) (st s) (gs s) (errs s) (memo s) (vstack s) (rstack s) (maxFailPos s) (maxFailExpected s) (maxFailInvert s) v (rcvstack s) (trace s) (pool s).

Definition set_rcvstack (v : list (list label * expr)) (s : pstate) : pstate :=
  mkPstate (pt s) (cur_pos s) (cur_text s) (st s) (gs s) (errs s) (memo s) (vstack s) (rstack s) (maxFailPos s) (maxFailExpected s) (maxFailInvert s) (exprCnt s) v (trace s) (pool s).

Definition set_trace (v : list event) (s : pstate) : pstate :=
  mkPstate (pt s) (cur_pos s) (cur_text s) (st s) (gs s) (errs s) (memo s) (vstack s) (rstack s) (maxFailPos s) (maxFailExpected s) (maxFailInvert s) (exprCnt s) (rcvstack s) v (pool s).

Definition set_pool (v : list poolop) (s : pstate) : pstate :=
  mkPstate (pt s) (cur_pos s) (cur_text s) (st s) (gs s) (errs s) (memo s) (vstack s) (rstack s) (maxFailPos s) (maxFailExpected s) (maxFailInvert s) (exprCnt s) (rcvstack s) (trace s) v.

