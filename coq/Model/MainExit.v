(* Model of the exit-status decision of the pigeon command (main.go: main, argError, input, output):
   which stage failed determines the status; status 0 is reached only when nothing failed. *)
From PV Require Import Lib.Base.
Local Open Scope N_scope.

Record stages := mkStages {
  s_flags_ok : bool;     (* flag.Parse accepted the command line (else status 6... ExitOnError exits 2 itself) *)
  s_help : bool;         (* -h / -help *)
  s_one_arg : bool;      (* at most one positional argument *)
  s_input_ok : bool;     (* the grammar file could be opened *)
  s_parse_ok : bool;     (* the front-end accepted the text *)
  s_entry_ok : bool;     (* every -alternate-entrypoints name is a rule *)
  s_nobuild : bool;      (* -x *)
  s_output_ok : bool;    (* the output file could be created *)
  s_build_ok : bool;     (* builder.BuildParser returned no error *)
  s_format_ok : bool;    (* imports.Process accepted the generated source *)
  s_write_ok : bool;
  s_close_ok : bool
}.

Definition exit_code (s : stages) : N :=
  if negb (s_flags_ok s) then 2
  else if s_help s then 0
  else if negb (s_one_arg s) then 1
  else if negb (s_input_ok s) then 2
  else if negb (s_parse_ok s) then 3
  else if negb (s_entry_ok s) then 9
  else if s_nobuild s then (if s_close_ok s then 0 else 7)
  else if negb (s_output_ok s) then 4
  else if negb (s_build_ok s) then 5
  else if negb (s_format_ok s) then 6
  else if negb (s_write_ok s) then 7
  else if negb (s_close_ok s) then 8
  else 0.

Definition accepted (s : stages) : bool :=
  s_flags_ok s && s_one_arg s && s_input_ok s && s_parse_ok s && s_entry_ok s && s_close_ok s &&
  (s_nobuild s || (s_output_ok s && s_build_ok s && s_format_ok s && s_write_ok s)).
