(* Gen/Lower: what builder.go computes when it lowers a character class of the AST
   to the run-time charClassMatcher: lower-cased chars/ranges for the i flag and the
   Basic-Latin lookup table (builder.BasicLatinLookup). *)
From PV Require Import Lib.Base Lib.Utf8 Syntax.RGrammar Syntax.Code Model.PState Spec.Pos Model.Runtime.
Local Open Scope Z_scope.

Fixpoint upd (i : nat) (t : list bool) : list bool :=
  match t, i with
  | [], _ => []
  | _ :: t', O => true :: t'
  | b :: t', S i' => b :: upd i' t'
  end.

Definition set_tab (t : list bool) (r : rune) : list bool :=
  (* basicLatinChars[r] = true; indices outside 0..127 do not occur for ASCII input of
     unicode.ToUpper/ToLower (Go would panic on them) and are ignored here *)
  if (0 <=? r) && (r <? 128) then upd (Z.to_nat r) t else t.

Definition mark (u : ulib) (ic : bool) (t : list bool) (r : rune) : list bool :=
  let t1 := set_tab t r in
  if ic then
    if is_lower u r then set_tab t1 (to_upper u r) else set_tab t1 (to_lower u r)
  else t1.

(* for j := lo; j < 128 && j <= hi; j++ *)
Fixpoint mark_range (fuel : nat) (u : ulib) (ic : bool) (t : list bool) (j hi : rune) : list bool :=
  match fuel with
  | O => t
  | S f => if (j <? 128) && (j <=? hi) then mark_range f u ic (mark u ic t j) (j + 1) hi else t
  end.

Fixpoint range_pairs (rs : list rune) : list (rune * rune) :=
  match rs with
  | lo :: hi :: rs' => (lo, hi) :: range_pairs rs'
  | _ => []
  end.

Definition mark_one_range (u : ulib) (ic : bool) (t : list bool) (p : rune * rune) : list bool :=
  if fst p <? 128 then mark_range 129 u ic t (Z.max (fst p) 0) (snd p) else t.

Definition mark_ranges (u : ulib) (ic : bool) (t : list bool) (rs : list rune) : list bool :=
  fold_left (mark_one_range u ic) (range_pairs rs) t.

Definition ascii_runes : list rune := map Z.of_nat (seq 0 128).

Definition mark_class (u : ulib) (t : list bool) (cl : bytes) : list bool :=
  fold_left (fun t r => if in_class u cl r then set_tab t r else t) ascii_runes t.

Definition basic_latin (u : ulib) (chars ranges : list rune) (classes : list bytes) (ic : bool) : list bool :=
  let t0 := repeat false 128 in
  let t1 := fold_left (fun t r => if r <? 128 then mark u ic t r else t) chars t0 in
  let t2 := mark_ranges u ic t1 ranges in
  fold_left (mark_class u) classes t2.

(* the run-time fields of a lowered class *)
Definition lower_runes (u : ulib) (ic : bool) (rs : list rune) : list rune :=
  if ic then map (to_lower u) rs else rs.

(* decision of the table path vs decision of the general procedure, for one rune *)
Definition table_decide (table : list bool) (inv : bool) (r : rune) : bool :=
  negb (Bool.eqb (nth (Z.to_nat r) table false) inv).

Definition slow_decide (u : ulib) (chars ranges : list rune) (classes : list bytes) (ic inv : bool) (r : rune) : bool :=
  class_decide u (lower_runes u ic chars) (lower_runes u ic ranges) classes ic inv r.

(* decidable: the 128 Basic Latin runes, exhaustively *)
Definition table_agrees_b (u : ulib) (chars ranges : list rune) (classes : list bytes) (ic inv : bool) : bool :=
  let t := basic_latin u chars ranges classes ic in
  forallb (fun r => Bool.eqb (table_decide t inv r) (slow_decide u chars ranges classes ic inv r)) ascii_runes.
