(* Model of the terminal-merging pass of ast.Optimize (ast/ast_optimize.go, case *ChoiceExpr of
   grammarOptimizer.optimize, then cleanupCharClassMatcher) on a rule whose expression is a flat
   choice of terminals:

     for i := 0; i < len(alts); i++ {
       if i > 0 {  "a" / "b" => [ab]     "a" / [bc] => [bca]     [ab] / "c" => [abc]     [ab] / [cd] => [abcd]
                   (same i flag, no ^)  ; on success alts[i] is removed and the loop goes on with i+1 }
     }
     repeated while something changed; a choice left with one alternative is replaced by it;
     finally every class loses repeated characters, ranges and Unicode classes.

   The alternatives are the AST's: literal values and class members as written (the builder
   lower-cases them when the i flag is set: [lower_alt]). *)
From PV Require Import Lib.Base Syntax.RGrammar.
Local Open Scope Z_scope.

Inductive alt :=
| MLit (rs : list rune) (ic : bool)
| MCls (chars ranges : list rune) (classes : list bytes) (ic inv : bool)
| MAny.

Definition combine (a b : alt) : option alt :=
  match a, b with
  | MLit [x] i0, MLit [y] i1 => if Bool.eqb i0 i1 then Some (MCls [x; y] [] [] i0 false) else None
  | MLit [x] i0, MCls cs rs ks i1 inv =>
      if Bool.eqb i0 i1 && negb inv then Some (MCls (cs ++ [x]) rs ks i1 inv) else None
  | MCls cs rs ks i0 inv, MLit [y] i1 =>
      if Bool.eqb i0 i1 && negb inv then Some (MCls (cs ++ [y]) rs ks i0 inv) else None
  | MCls c0 r0 k0 i0 v0, MCls c1 r1 k1 i1 v1 =>
      if Bool.eqb i0 i1 && negb v0 && negb v1 then Some (MCls (c0 ++ c1) (r0 ++ r1) (k0 ++ k1) i0 v0) else None
  | _, _ => None
  end.

(* one run of the loop; [prev] is alts[i-1] *)
Fixpoint pass (prev : alt) (rest : list alt) : list alt :=
  match rest with
  | [] => [prev]
  | x :: rest' =>
      match combine prev x with
      | Some m => m :: match rest' with [] => [] | y :: rest'' => pass y rest'' end
      | None => prev :: pass x rest'
      end
  end.

Definition pass_list (l : list alt) : list alt :=
  match l with [] => [] | a :: rest => pass a rest end.

Fixpoint iter {A} (n : nat) (f : A -> A) (x : A) : A :=
  match n with O => x | S n' => iter n' f (f x) end.

(* cleanupCharClassMatcher: first occurrences are kept *)
Fixpoint dedupe_z (seen l : list rune) : list rune :=
  match l with
  | [] => []
  | x :: l' => if existsb (Z.eqb x) seen then dedupe_z seen l' else x :: dedupe_z (x :: seen) l'
  end.

Fixpoint dedupe_pairs (seen : list (rune * rune)) (l : list rune) : list rune :=
  match l with
  | lo :: hi :: l' =>
      if existsb (fun p => Z.eqb (fst p) lo && Z.eqb (snd p) hi) seen then dedupe_pairs seen l'
      else lo :: hi :: dedupe_pairs ((lo, hi) :: seen) l'
  | _ => []
  end.

Fixpoint dedupe_b (seen l : list bytes) : list bytes :=
  match l with
  | [] => []
  | x :: l' => if existsb (bytes_eqb x) seen then dedupe_b seen l' else x :: dedupe_b (x :: seen) l'
  end.

Definition cleanup (a : alt) : alt :=
  match a with
  | MCls cs rs ks ic inv => MCls (dedupe_z [] cs) (dedupe_pairs [] rs) (dedupe_b [] ks) ic inv
  | other => other
  end.

(* the optimizer's result for  R <- a1 / a2 / ... / an  (n >= 2): the alternatives left;
   a list of length 1 stands for the rule  R <- a  (the choice node is removed) *)
Definition optimize_choice (l : list alt) : list alt :=
  map cleanup (iter (length l) pass_list l).

(* what the builder emits for an alternative *)
Definition lower_alt (u : ulib) (a : alt) : alt :=
  match a with
  | MLit rs true => MLit (map (to_lower u) rs) true
  | MCls cs rs ks true inv => MCls (map (to_lower u) cs) (map (to_lower u) rs) ks true inv
  | other => other
  end.

(* ---- the same loop over the items of a sequence (case *SeqExpr): two adjacent literals with the same i flag are
   concatenated ("a" "b" => "ab", l0.Val += l1.Val); everything else is left alone; a sequence left with one item is
   replaced by it ---- *)
Inductive item :=
| ILit (rs : list rune) (ic : bool)
| IOther (k : nat).          (* any other expression, by its place in the sequence as written *)

Definition scombine (a b : item) : option item :=
  match a, b with
  | ILit x i0, ILit y i1 => if Bool.eqb i0 i1 then Some (ILit (x ++ y) i0) else None
  | _, _ => None
  end.

Fixpoint spass (prev : item) (rest : list item) : list item :=
  match rest with
  | [] => [prev]
  | x :: rest' =>
      match scombine prev x with
      | Some m => m :: match rest' with [] => [] | y :: rest'' => spass y rest'' end
      | None => prev :: spass x rest'
      end
  end.

Definition spass_list (l : list item) : list item :=
  match l with [] => [] | a :: rest => spass a rest end.

Definition optimize_seq (l : list item) : list item := iter (length l) spass_list l.
