(* Gen/Prepare: model of builder.PrepareGrammar (left_recursion.go), of the mutable
   nullable analysis (ast.go NullableVisit / IsNullable / InitialNames) and of findLeader /
   FindCyclesInSCC (scc.go).  The iteration order of ComputeNullables over the rules map is
   a parameter [ord]; strongly connected components are taken as mutual reachability
   (what Tarjan's algorithm returns as sets). *)
From PV Require Import Lib.Base Syntax.RGrammar Syntax.Ast.

Record pst := mkPst { nf : list (nid * bool); visited : list rname; rnull : list (rname * bool) }.

Definition setf (n : nid) (b : bool) (s : pst) : pst := mkPst ((n, b) :: nf s) (visited s) (rnull s).
Definition getf (n : nid) (s : pst) : bool :=
  match find (fun p => N.eqb (fst p) n) (nf s) with Some p => snd p | None => false end.

Definition cls_empty (chars ranges : list rune) (classes : list bytes) : bool :=
  match chars, ranges, classes with [], [], [] => true | _, _, _ => false end.

(* quirks of the pinned tree in the analysis (true = behave like the pinned code):
   pq_inner : NullableVisit of ?, * and + does not visit the sub-expression, so the flags inside stay false;
   pq_pred  : & and ! contribute no initial names (and their sub-expression is not visited) *)
Record pquirks := mkPq { pq_inner : bool; pq_pred : bool; pq_short : bool }.
(* pq_short : NullableVisit of a choice (a recovery expression) stops at the first nullable
   alternative (operand), so the flags of the remaining ones are not computed *)

Section Visit.
  Variable q : pquirks.
  Variable g : agrammar.

  Fixpoint nvisit (fuel : nat) (e : aexpr) (s : pst) : bool * pst :=
    match fuel with
    | O => (false, s)
    | S f =>
        match e with
        | ALit v _ => (match v with [] => true | _ => false end, s)
        | ACls _ chars ranges classes _ _ => (cls_empty chars ranges classes, s)
        | AAny => (false, s)
        | AAlt n es =>
            (fix go (l : list aexpr) (s : pst) : bool * pst :=
               match l with
               | [] => (false, setf n false s)
               | x :: l' =>
                   let '(b, s1) := nvisit f x s in
                   if b then
                     if pq_short q then (true, setf n true s1)
                     else (* visit the remaining alternatives for their flags *)
                       (true, setf n true (fold_left (fun s2 y => snd (nvisit f y s2)) l' s1))
                   else go l' s1
               end) es s
        | ASeq n es =>
            (fix go (l : list aexpr) (s : pst) : bool * pst :=
               match l with
               | [] => (true, setf n true s)
               | x :: l' => let '(b, s1) := nvisit f x s in if b then go l' s1 else (false, setf n false s1)
               end) es s
        | AStar e' | AOpt e' => if pq_inner q then (true, s) else (true, snd (nvisit f e' s))
        | APlus e' => if pq_inner q then (false, s) else (false, snd (nvisit f e' s))
        | AAnd e' | ANot e' => if pq_pred q then (true, s) else (true, snd (nvisit f e' s))
        | AAndC _ | ANotC _ | AStC _ | AThrow _ => (true, s)
        | ALab _ e' => nvisit f e' s
        | AAct n _ e' => let '(b, s1) := nvisit f e' s in (b, setf n b s1)
        | ARec n e' rc _ =>
            let '(b, s1) := nvisit f e' s in
            if b then
              if pq_short q then (true, setf n true s1) else (true, setf n true (snd (nvisit f rc s1)))
            else let '(b2, s2) := nvisit f rc s1 in (b2, setf n b2 s2)
        | ARef n r =>
            match find_arule r g with
            | None => (false, setf n false s)
            | Some ru =>
                if mem_bytes r (visited s) then (false, setf n false s)
                else
                  let s0 := mkPst (nf s) (r :: visited s) (rnull s) in
                  let '(b, s1) := nvisit f (a_expr ru) s0 in
                  let s2 := mkPst (nf s1) (tl (visited s1)) ((r, b) :: rnull s1) in
                  (b, setf n b s2)
            end
        end
    end.

  (* Rule.NullableVisit for a top-level call of ComputeNullables *)
  Definition rvisit (fuel : nat) (r : rname) (s : pst) : pst :=
    match find_arule r g with
    | None => s
    | Some ru =>
        if mem_bytes r (visited s) then s
        else
          let s0 := mkPst (nf s) (r :: visited s) (rnull s) in
          let '(b, s1) := nvisit fuel (a_expr ru) s0 in
          mkPst (nf s1) (tl (visited s1)) ((r, b) :: rnull s1)
    end.

  Definition compute_nullables (fuel : nat) (ord : list rname) : pst :=
    fold_left (fun s r => rvisit fuel r s) ord (mkPst [] [] []).

  (* IsNullable / InitialNames read the flags left behind *)
  Fixpoint is_nullable (s : pst) (e : aexpr) : bool :=
    match e with
    | ALit v _ => match v with [] => true | _ => false end
    | ACls _ chars ranges classes _ _ => cls_empty chars ranges classes
    | AAny => false
    | AAlt n _ | ASeq n _ | AAct n _ _ | ARec n _ _ _ | ARef n _ => getf n s
    | AStar _ | AOpt _ | AAnd _ | ANot _ | AAndC _ | ANotC _ | AStC _ | AThrow _ => true
    | APlus _ => false
    | ALab _ e' => is_nullable s e'
    end.

  Fixpoint initial_names (s : pst) (e : aexpr) : list rname :=
    match e with
    | ASeq _ es =>
        (fix go (l : list aexpr) : list rname :=
           match l with
           | [] => []
           | x :: l' => initial_names s x ++ (if is_nullable s x then go l' else [])
           end) es
    | AAlt _ es => flat_map (initial_names s) es
    | AStar e' | APlus e' | AOpt e' | ALab _ e' | AAct _ _ e' => initial_names s e'
    | AAnd e' | ANot e' => if pq_pred q then [] else initial_names s e'
    | ARef _ r => [r]
    | ARec _ e' rc _ => initial_names s e' ++ initial_names s rc
    | _ => []       (* Throw, code blocks, terminals: no names (ast.go) *)
    end.

  Definition rule_names : list rname :=
    (* keys of the rules map *)
    nodup_bytes (map a_name g).

  Definition graph_edges (s : pst) (r : rname) : list rname :=
    match find_arule r g with Some ru => initial_names s (a_expr ru) | None => [] end.

  Definition graph_vertices (s : pst) : list rname :=
    nodup_bytes (rule_names ++ flat_map (graph_edges s) rule_names).

  Fixpoint reach_n (s : pst) (n : nat) (from : list rname) : list rname :=
    match n with
    | O => from
    | S n' => reach_n s n' (nodup_bytes (from ++ flat_map (graph_edges s) from))
    end.

  Definition reaches (s : pst) (a b : rname) : bool :=
    mem_bytes b (reach_n s (length (graph_vertices s)) (graph_edges s a)).

  (* the strongly connected component of v, as a set *)
  Definition scc_of (s : pst) (v : rname) : list rname :=
    v :: filter (fun w => negb (bytes_eqb w v) && reaches s v w && reaches s w v) (graph_vertices s).

  (* FindCyclesInSCC: all paths from start that end at the first repeated vertex *)
  Fixpoint lassos (s : pst) (scc : list rname) (fuel : nat) (node : rname) (path : list rname) : list (list rname) :=
    match fuel with
    | O => []
    | S f =>
        if mem_bytes node path then [path ++ [node]]
        else flat_map (fun ch => lassos s scc f ch (path ++ [node]))
                      (filter (fun w => mem_bytes w scc) (nodup_bytes (graph_edges s node)))
    end.

  Definition find_leader (s : pst) (scc : list rname) : option rname :=
    let all := flat_map (fun st => lassos s scc (S (length scc)) st []) scc in
    let cands := filter (fun k => forallb (fun cyc => mem_bytes k cyc) all) scc in
    match sort_bytes cands with
    | [] => None
    | k :: _ => Some k
    end.

  Inductive prep_result :=
  | PrepOk (have : bool) (lrs : list rname) (leaders : list rname)
  | PrepNoLeader.

  Definition prepare (fuel : nat) (ord : list rname) : prep_result :=
    let s := compute_nullables fuel ord in
    let vs := graph_vertices s in
    (* one representative per component: the least vertex (canonical, order-free) *)
    let reps := filter (fun v => forallb (fun w => bytes_leb v w) (scc_of s v)) vs in
    fold_left
      (fun acc v =>
         match acc with
         | PrepNoLeader => PrepNoLeader
         | PrepOk have lrs leaders =>
             let comp := scc_of s v in
             match comp with
             | [_] =>
                 if mem_bytes v (graph_edges s v) then PrepOk true (v :: lrs) (v :: leaders) else acc
             | _ =>
                 match find_leader s comp with
                 | None => PrepNoLeader
                 | Some k => PrepOk true (comp ++ lrs) (k :: leaders)
                 end
             end
         end) reps (PrepOk false [] []).
End Visit.
