(* Impl: the model of the generated parser's runtime, builder/static_code.go.
   One Gallina function per Go function, same order of effects.  Template
   conditionals ({{ if .Optimize }} ...) are [if] on the [tmpl] record at the same
   places, so all behavioural template variants are one definition.
   Go panics are the [Panic] outcome; unbounded Go loops/recursion use fuel and
   return [OutOfFuel] when it is exhausted. *)
From PV Require Import Lib.Base Lib.Utf8 Syntax.RGrammar Syntax.Code Model.PState Spec.Pos.
From Coq Require Import String.
Local Open Scope nat_scope.

(* Quirk switches: one boolean per defect of the pinned tree that lives in the run
   time (DESIGN.md 3.5).  [true] = behave like the code ([faithful], validated by the
   correspondence runs); [false] = the locally repaired behaviour. *)
Record quirks := mkQuirks {
  q_lit_eof : bool;        (* a literal rune U+FFFD "matches" at EOF without consuming *)
  q_stale_ctx : bool;      (* &{} !{} #{} blocks see c.pos / c.text of the last action *)
  q_recover_scope : bool;  (* a recovery expression run by a throw shares the thrower's label scope *)
  q_memo_nocharge : bool;  (* memo hits are not charged to the expression budget *)
  q_memo_label : bool;     (* the memo key (node, offset) ignores the label scope: a hit skips label bindings and
                              reuses the result of code blocks that read labels *)
  q_lr_memo_state : bool;  (* a finished left-recursive leader stays memoised: entering it again at that offset
                              returns the result without replaying the state changes it made *)
  q_memo_expected : bool   (* the memo key ignores whether the evaluation is inside a ! predicate: a hit replays neither
                              the failures (outside !) nor the successes (inside !) the farthest-failure report is made
                              of, so a result computed on one side and reused on the other changes the expected set *)
}.
Definition faithful : quirks := mkQuirks true true true true true true true.
Definition repaired : quirks := mkQuirks false false false false false false false.

(* expressions whose evaluation depends on, or binds labels in, the scope they are evaluated in:
   label bindings, code blocks (they receive the labels in scope), and sequences / recovery operands made of
   such; choices, repetitions, predicates and rule references evaluate their operands in a fresh scope *)
Fixpoint scope_writes (e : expr) : bool :=
  match e with
  | ELab _ _ _ => true
  | EAndC _ _ | ENotC _ _ | EStC _ _ => true
  | EAct _ _ _ => true
  | ESeq _ es => (fix any (l : list expr) := match l with [] => false | x :: l' => scope_writes x || any l' end) es
  | ERec _ e' _ _ => scope_writes e'
  | EThrow _ _ => true
  | _ => false
  end.

Record cfg := mkCfg {
  cQ : quirks;
  cU : ulib;
  cT : tmpl;
  cO : options;
  cData : bytes;
  cG : grammar;
  cE : codeenv
}.

(* The part of a configuration the specification may depend on: input, Unicode
   library, run-time options, grammar and code environment - neither the template
   flags nor the quirk switches. *)
Record rdata := mkRdata {
  rU : ulib;
  rO : options;
  rData : bytes;
  rG : grammar;
  rE : codeenv
}.
Definition rd (c : cfg) : rdata := mkRdata (cU c) (cO c) (cData c) (cG c) (cE c).
Coercion rd : cfg >-> rdata.

Inductive Res (A : Type) :=
| Ok (a : A) (s : pstate)
| Panic (pv : bytes) (s : pstate)
| OutOfFuel.
Arguments Ok {A}.
Arguments Panic {A}.
Arguments OutOfFuel {A}.

Definition M (A : Type) := pstate -> Res A.

Definition ret {A} (a : A) : M A := fun s => Ok a s.
Definition bind {A B} (m : M A) (k : A -> M B) : M B :=
  fun s => match m s with
           | Ok a s' => k a s'
           | Panic pv s' => Panic pv s'
           | OutOfFuel => OutOfFuel
           end.
Definition get : M pstate := fun s => Ok s s.
Definition modify (f : pstate -> pstate) : M unit := fun s => Ok tt (f s).
Definition panic {A} (pv : bytes) : M A := fun s => Panic pv s.

Notation "x <- m ;; k" := (bind m (fun x => k)) (at level 61, m at next level, right associativity).
Notation "m ;;; k" := (bind m (fun _ => k)) (at level 61, right associativity).

(* ---- constant messages ---- *)
Definition msg_no_rule := Eval vm_compute in bytes_of_string "grammar has no rule"%string.
Definition msg_invalid_entrypoint := Eval vm_compute in bytes_of_string "invalid entrypoint"%string.
Definition msg_invalid_encoding := Eval vm_compute in bytes_of_string "invalid encoding"%string.
Definition msg_max_expr := Eval vm_compute in bytes_of_string "max number of expressions parsed"%string.
Definition msg_undefined_rule := Eval vm_compute in bytes_of_string "undefined rule: "%string.
Definition msg_no_match := Eval vm_compute in bytes_of_string "no match found, expected: "%string.
Definition msg_index_range := Eval vm_compute in bytes_of_string "runtime error: index out of range"%string.
Definition msg_missing_name := Eval vm_compute in bytes_of_string ": invalid rule: missing name"%string.
Definition b_colon : bytes := [58%N].
Definition b_colon_sp : bytes := [58%N; 32%N].
Definition b_rule_sp := Eval vm_compute in bytes_of_string "rule "%string.
Definition b_comma_sp : bytes := [44%N; 32%N].
Definition b_or := Eval vm_compute in bytes_of_string " or "%string.
Definition b_eof := Eval vm_compute in bytes_of_string "EOF"%string.
Definition b_not_any : bytes := [33%N; 46%N].
Definition b_dot : bytes := [46%N].
Definition b_bang : bytes := [33%N].

(* ---- positions and savepoints ---- *)

Definition pos_string (p : position) : bytes :=
  (* position.String(): "line:col [offset]" *)
  dec_nat (line p) ++ b_colon ++ dec_nat (col p) ++ [32%N; 91%N] ++ dec_nat (offset p) ++ [93%N].

Definition cur_off (s : pstate) : nat := offset (sp_pos (pt s)).

(* ---- error bookkeeping ---- *)
Definition err_prefix (c : cfg) (pos : position) (s : pstate) : bytes :=
  let fn := o_filename (cO c) in
  let b2 := match fn with [] => [] | _ => fn ++ b_colon end in
  let b3 := b2 ++ dec_nat (line pos) ++ b_colon ++ dec_nat (col pos)
               ++ [32%N; 40%N] ++ dec_nat (offset pos) ++ [41%N] in
  match rstack s with
  | [] => b3
  | r :: _ =>
      b3 ++ b_colon_sp ++ b_rule_sp ++
      match r_display r with [] => r_name r | d => d end
  end.

Definition addErrAt (c : cfg) (msg : bytes) (pos : position) (expected : list bytes) (s : pstate) : pstate :=
  set_errs (errs s ++ [mkPerr msg pos (err_prefix c pos s) expected]) s.

Definition addErr (c : cfg) (msg : bytes) (s : pstate) : pstate :=
  addErrAt c msg (sp_pos (pt s)) [] s.

Definition perr_string (e : perr) : bytes := pe_prefix e ++ b_colon_sp ++ pe_msg e.

(* errList.dedupe: keep the first error of every distinct message *)
Fixpoint dedupe_go (seen : list bytes) (l : list perr) : list perr :=
  match l with
  | [] => []
  | e :: l' =>
      let m := perr_string e in
      if mem_bytes m seen then dedupe_go seen l' else e :: dedupe_go (m :: seen) l'
  end.
Definition dedupe (l : list perr) : list perr := dedupe_go [] l.

Definition failAt (fail : bool) (pos : position) (want : bytes) (s : pstate) : pstate :=
  if Bool.eqb fail (maxFailInvert s) then
    if offset pos <? offset (maxFailPos s) then s
    else
      let s1 := if offset (maxFailPos s) <? offset pos
                then set_maxFailExpected [] (set_maxFailPos pos s) else s in
      let want' := if maxFailInvert s1 then b_bang ++ want else want in
      set_maxFailExpected (maxFailExpected s1 ++ [want']) s1
  else s.

(* ---- reading ---- *)
Definition read (c : cfg) (s : pstate) : pstate :=
  let p := adv (pt s) in
  let s1 := set_pt p s in
  if Z.eqb (sp_rn p) RuneError && Nat.eqb (sp_w p) 1 then
    if o_allowinvalid (cO c) then s1 else addErr c msg_invalid_encoding s1
  else s1.

Definition restore (p : savepoint) (s : pstate) : pstate :=
  if Nat.eqb (offset (sp_pos p)) (cur_off s) then s else set_pt p s.

Definition sliceFrom (start : savepoint) (s : pstate) : bytes :=
  firstn (cur_off s - offset (sp_pos start)) (sp_rest start).

(* ---- state store: cloneState / restoreState.  Values are immutable in the
   model, so a clone is the value itself; the pool traffic is logged (ghost). ---- *)
Definition cloneState (c : cfg) (s : pstate) : store * pstate :=
  if has_state (cT c) then (st s, set_pool (PoolGet :: pool s) s) else ([], s).

Definition restoreState (c : cfg) (saved : store) (s : pstate) : pstate :=
  if has_state (cT c) then set_st saved (set_pool (PoolPut :: pool s) s) else s.

(* ---- stacks ---- *)
Definition pushV (s : pstate) : pstate := set_vstack ([] :: vstack s) s.
Definition popV (s : pstate) : pstate := set_vstack (tl (vstack s)) s.
Definition pushRecovery (ls : list label) (e : expr) (s : pstate) : pstate :=
  set_rcvstack ((ls, e) :: rcvstack s) s.
Definition popRecovery (s : pstate) : pstate := set_rcvstack (tl (rcvstack s)) s.

Definition bind_label (l : label) (v : val) (s : pstate) : pstate :=
  match vstack s with
  | [] => s   (* unreachable: a rule scope is always present; Go would panic *)
  | m :: rest => set_vstack (aset l v m :: rest) s
  end.

(* ---- memo table ---- *)
Definition mkey_eqb (a b : mkey) : bool :=
  match a, b with
  | KExpr x, KExpr y => N.eqb x y
  | KRule x, KRule y => bytes_eqb x y
  | _, _ => false
  end.

Fixpoint memo_lookup (o : nat) (k : mkey) (m : list (nat * mkey * rtuple)) : option rtuple :=
  match m with
  | [] => None
  | (o', k', r) :: m' => if Nat.eqb o o' && mkey_eqb k k' then Some r else memo_lookup o k m'
  end.

Definition getMemoized (k : mkey) (s : pstate) : option rtuple := memo_lookup (cur_off s) k (memo s).
Definition setMemoized (p : savepoint) (k : mkey) (r : rtuple) (s : pstate) : pstate :=
  set_memo ((offset (sp_pos p), k, r) :: memo s) s.
Definition dropMemoized (p : savepoint) (k : mkey) (s : pstate) : pstate :=
  set_memo (filter (fun e : nat * mkey * rtuple => negb (Nat.eqb (offset (sp_pos p)) (fst (fst e)) && mkey_eqb k (snd (fst e)))) (memo s)) s.

(* ---- rule table: p.rules[r.name] = r, the last rule of a name wins ---- *)
Definition find_rule (nm : rname) (g : grammar) : option rule :=
  fold_left (fun acc r => if bytes_eqb (r_name r) nm then Some r else acc) g None.

(* ---- code blocks ---- *)
Definition top_scope (s : pstate) : scope := match vstack s with [] => [] | m :: _ => m end.

Definition block_ctx (c : cfg) (id : cid) (s : pstate) : ctx :=
  let top := top_scope s in
  mkCtx (cur_text s) (cur_pos s)
        (map (fun l => (l, arg_lookup l top)) (ce_params (cE c) id))
        (st s) (gs s).

Definition run_code {R} (c : cfg) (k : bkind) (id : cid)
           (f : cid -> ctx -> cbout R) : M (R * option bytes) :=
  fun s =>
    let x := block_ctx c id s in
    let s1 := set_trace (mkEvent k id x :: trace s) s in
    match f id x with
    | CbRet r err st' gs' => Ok (r, err) (set_gs gs' (set_st st' s1))
    | CbPanic pv st' gs' => Panic pv (set_gs gs' (set_st st' s1))
    end.

Fixpoint in_ranges (cur : rune) (rs : list rune) : bool :=
  match rs with
  | lo :: hi :: rs' => (Z.leb lo cur && Z.leb cur hi) || in_ranges cur rs'
  | _ => false
  end.

(* The general matching procedure of parseCharClassMatcher (the "slow path"):
   lower-case the input rune when i is set, look it up in chars, ranges, classes,
   and flip the verdict when ^ is set.  [true] = the rune matches the class. *)
Definition class_decide (u : ulib) (chars ranges : list rune) (classes : list bytes)
           (ic inv : bool) (cur : rune) : bool :=
  let cur := if ic then to_lower u cur else cur in
  xorb (existsb (Z.eqb cur) chars || in_ranges cur ranges
        || existsb (fun cl => in_class u cl cur) classes) inv.

Section Step.
  Variable c : cfg.
  (* parseExprWrap at lower fuel *)
  Variable wrap : expr -> M (val * bool).
  (* fuel for the [for {}] loops of this level *)
  Variable loopfuel : nat.

  Definition is_eof (s : pstate) : bool :=
    Z.eqb (sp_rn (pt s)) RuneError && Nat.eqb (sp_w (pt s)) 0.

  Definition parseAnyMatcher : M (val * bool) := fun s =>
    if is_eof s then Ok (VNil, false) (failAt false (sp_pos (pt s)) b_dot s)
    else
      let start := pt s in
      let s1 := read c s in
      let s2 := failAt true (sp_pos start) b_dot s1 in
      Ok (VBytes (sliceFrom start s2), true) s2.

  Definition cls_match (cv : bytes) (start : savepoint) : M (val * bool) := fun s =>
    let s1 := read c s in
    let s2 := failAt true (sp_pos start) cv s1 in
    Ok (VBytes (sliceFrom start s2), true) s2.

  Definition cls_fail (cv : bytes) (start : savepoint) : M (val * bool) := fun s =>
    Ok (VNil, false) (failAt false (sp_pos start) cv s).

  Definition parseCharClassMatcher (cv : bytes) (chars ranges : list rune) (classes : list bytes)
             (ic inv : bool) (table : list bool) : M (val * bool) := fun s =>
    let cur := sp_rn (pt s) in
    let start := pt s in
    if t_basiclatin (cT c) && Z.ltb cur 128%Z then
      if Bool.eqb (nth (Z.to_nat cur) table false) inv
      then cls_fail cv start s
      else cls_match cv start s
    else if is_eof s then cls_fail cv start s
    else if class_decide (cU c) chars ranges classes ic inv cur
         then cls_match cv start s else cls_fail cv start s.

  Fixpoint lit_loop (ic : bool) (want : bytes) (start : savepoint) (rs : list rune) : M (val * bool) :=
    fun s =>
      match rs with
      | [] =>
          let s1 := failAt true (sp_pos start) want s in
          Ok (VBytes (sliceFrom start s1), true) s1
      | w :: rs' =>
          let cur := sp_rn (pt s) in
          let cur := if ic then to_lower (cU c) cur else cur in
          if Z.eqb cur w && (q_lit_eof (cQ c) || negb (is_eof s))
          then lit_loop ic want start rs' (read c s)
          else Ok (VNil, false) (restore start (failAt false (sp_pos start) want s))
      end.

  Definition parseLitMatcher (lv : list rune) (ic : bool) (want : bytes) : M (val * bool) :=
    fun s => lit_loop ic want (pt s) lv s.

  Definition parseActionExpr (id : cid) (e : expr) : M (val * bool) :=
    start <- (fun s => Ok (pt s) s) ;;
    r <- wrap e ;;
    let '(v, ok) := r in
    if ok then
      modify (fun s => set_cur_text (sliceFrom start s) (set_cur_pos (sp_pos start) s)) ;;;
      saved <- (fun s => let '(x, s') := cloneState c s in Ok x s') ;;
      r <- run_code c KAct id (ce_act (cE c)) ;;
      let '(actVal, err) := r in
      modify (fun s => match err with Some m => addErrAt c m (sp_pos start) [] s | None => s end) ;;;
      modify (restoreState c saved) ;;;
      ret (actVal, true)
    else ret (v, ok).

  Definition fresh_ctx : M unit :=
    modify (fun s => if q_stale_ctx (cQ c) then s
                     else set_cur_text [] (set_cur_pos (sp_pos (pt s)) s)).

  Definition parseCodePred (k : bkind) (neg : bool) (id : cid) : M (val * bool) :=
    fresh_ctx ;;;
    saved <- (fun s => let '(x, s') := cloneState c s in Ok x s') ;;
    r <- run_code c k id (ce_pred (cE c)) ;;
    let '(ok, err) := r in
    modify (fun s => match err with Some m => addErr c m s | None => s end) ;;;
    modify (restoreState c saved) ;;;
    ret (VNil, if neg then negb ok else ok).

  Definition parseStateCodeExpr (id : cid) : M (val * bool) :=
    fresh_ctx ;;;
    r <- run_code c KState id (ce_state (cE c)) ;;
    let '(_, err) := r in
    modify (fun s => match err with Some m => addErr c m s | None => s end) ;;;
    ret (VNil, true).

  Definition parseAndExpr (e : expr) : M (val * bool) :=
    p <- (fun s => Ok (pt s) s) ;;
    saved <- (fun s => let '(x, s') := cloneState c s in Ok x s') ;;
    modify pushV ;;;
    r <- wrap e ;;
    modify popV ;;;
    modify (restoreState c saved) ;;;
    modify (restore p) ;;;
    ret (VNil, snd r).

  Definition parseNotExpr (e : expr) : M (val * bool) :=
    p <- (fun s => Ok (pt s) s) ;;
    saved <- (fun s => let '(x, s') := cloneState c s in Ok x s') ;;
    modify pushV ;;;
    modify (fun s => set_maxFailInvert (negb (maxFailInvert s)) s) ;;;
    r <- wrap e ;;
    modify (fun s => set_maxFailInvert (negb (maxFailInvert s)) s) ;;;
    modify popV ;;;
    modify (restoreState c saved) ;;;
    modify (restore p) ;;;
    ret (VNil, negb (snd r)).

  Fixpoint choice_loop (alts : list expr) : M (val * bool) :=
    match alts with
    | [] => ret (VNil, false)
    | a :: alts' =>
        saved <- (fun s => let '(x, s') := cloneState c s in Ok x s') ;;
        modify pushV ;;;
        r <- wrap a ;;
        modify popV ;;;
        if snd r then ret r
        else modify (restoreState c saved) ;;; choice_loop alts'
    end.

  Definition parseLabeledExpr (l : label) (e : expr) : M (val * bool) :=
    modify pushV ;;;
    r <- wrap e ;;
    modify popV ;;;
    (if snd r && negb (match l with [] => true | _ => false end)
     then modify (bind_label l (fst r)) else ret tt) ;;;
    ret r.

  Fixpoint seq_loop (p : savepoint) (saved : store) (es : list expr) (acc : list val) : M (val * bool) :=
    match es with
    | [] => ret (VList (rev acc), true)
    | e :: es' =>
        r <- wrap e ;;
        if snd r then seq_loop p saved es' (fst r :: acc)
        else modify (restoreState c saved) ;;; modify (restore p) ;;; ret (VNil, false)
    end.

  Definition parseSeqExpr (es : list expr) : M (val * bool) :=
    p <- (fun s => Ok (pt s) s) ;;
    saved <- (fun s => let '(x, s') := cloneState c s in Ok x s') ;;
    seq_loop p saved es [].

  (* for { pushV; parseExprWrap; popV; if !ok {...}; vals = append(vals, val) } *)
  Fixpoint rep_loop (n : nat) (e : expr) (acc : list val) : M (list val) :=
    match n with
    | O => fun _ => OutOfFuel
    | S n' =>
        modify pushV ;;;
        r <- wrap e ;;
        modify popV ;;;
        if snd r then rep_loop n' e (fst r :: acc) else ret (rev acc)
    end.

  Definition parseZeroOrMoreExpr (e : expr) : M (val * bool) :=
    vs <- rep_loop loopfuel e [] ;; ret (VList vs, true).

  Definition parseOneOrMoreExpr (e : expr) : M (val * bool) :=
    vs <- rep_loop loopfuel e [] ;;
    match vs with [] => ret (VNil, false) | _ => ret (VList vs, true) end.

  Definition parseZeroOrOneExpr (e : expr) : M (val * bool) :=
    modify pushV ;;;
    r <- wrap e ;;
    modify popV ;;;
    ret (fst r, true).

  Definition parseRecoveryExpr (e rc : expr) (ls : list label) : M (val * bool) :=
    modify (pushRecovery ls rc) ;;;
    r <- wrap e ;;
    modify popRecovery ;;;
    ret r.

  Fixpoint throw_loop (l : label) (stack : list (list label * expr)) : M (val * bool) :=
    match stack with
    | [] => ret (VNil, false)
    | (ls, rc) :: stack' =>
        if mem_bytes l ls then
          (if q_recover_scope (cQ c) then ret tt else modify pushV) ;;;
          r <- wrap rc ;;
          (if q_recover_scope (cQ c) then ret tt else modify popV) ;;;
          if snd r then ret r else throw_loop l stack'
        else throw_loop l stack'
    end.

  Definition parseThrowExpr (l : label) : M (val * bool) :=
    fun s => throw_loop l (rcvstack s) s.

  (* ---- rules ---- *)
  Definition parseRule (r : rule) : M (val * bool) :=
    modify (fun s => pushV (set_rstack (r :: rstack s) s)) ;;;
    res <- wrap (r_expr r) ;;
    modify (fun s => set_rstack (tl (rstack s)) (popV s)) ;;;
    ret res.

  Definition parseRuleMemoize (r : rule) : M (val * bool) := fun s =>
    if negb (q_memo_expected (cQ c)) && maxFailInvert s then parseRule r s else
    match getMemoized (KRule (r_name r)) s with
    | Some res => Ok (rt_v res, rt_b res) (restore (rt_end res) s)
    | None =>
        let startMark := pt s in
        (res <- parseRule r ;;
         modify (fun s' => setMemoized startMark (KRule (r_name r)) (mkRt (fst res) (snd res) (pt s')) s') ;;;
         ret res) s
    end.

  (* the growing loop of parseRuleRecursiveLeader *)
  Fixpoint leader_loop (n : nat) (r : rule) (startMark : savepoint) (depth : nat)
           (lastResult : rtuple) (lastErrors : list perr) : M rtuple :=
    match n with
    | O => fun _ => OutOfFuel
    | S n' =>
        lastState <- (fun s => let '(x, s') := cloneState c s in Ok x s') ;;
        modify (setMemoized startMark (KRule (r_name r)) lastResult) ;;;
        res <- parseRule r ;;
        endMark <- (fun s => Ok (pt s) s) ;;
        if negb (snd res) ||
           ((offset (sp_pos endMark) <=? offset (sp_pos (rt_end lastResult))) && negb (Nat.eqb depth 0))
        then
          modify (restoreState c lastState) ;;;
          modify (set_errs lastErrors) ;;;
          ret lastResult
        else
          errsNow <- (fun s => Ok (errs s) s) ;;
          modify (restore startMark) ;;;
          leader_loop n' r startMark (S depth) (mkRt (fst res) (snd res) endMark) errsNow
    end.

  Definition parseRuleRecursiveLeader (r : rule) : M (val * bool) := fun s =>
    match getMemoized (KRule (r_name r)) s with
    | Some res => Ok (rt_v res, rt_b res) (restore (rt_end res) s)
    | None =>
        let startMark := pt s in
        (last <- leader_loop loopfuel r startMark 0 (mkRt VNil false startMark) (errs s) ;;
         modify (restore (rt_end last)) ;;;
         modify (if q_lr_memo_state (cQ c) || negb (has_state (cT c))
                 then setMemoized startMark (KRule (r_name r)) last
                 else dropMemoized startMark (KRule (r_name r))) ;;;
         ret (rt_v last, rt_b last)) s
    end.

  Definition parseRuleWrap (r : rule) : M (val * bool) :=
    let t := cT c in
    if t_leftrec t && negb (t_optimize t) then
      if o_memoize (cO c) || r_leftrec r then
        if r_leader r then parseRuleRecursiveLeader r
        else if o_memoize (cO c) && negb (r_leftrec r) then parseRuleMemoize r
        else parseRule r
      else parseRule r
    else if negb (t_optimize t) then
      if o_memoize (cO c) then parseRuleMemoize r else parseRule r
    else if t_leftrec t then
      if r_leftrec r then
        if r_leader r then parseRuleRecursiveLeader r else parseRule r
      else parseRule r
    else parseRule r.

  Definition parseRuleRefExpr (nm : rname) : M (val * bool) :=
    match nm with
    | [] => fun s => Panic (pos_string pos0 ++ msg_missing_name) s
    | _ =>
        match find_rule nm (cG c) with
        | None => fun s => Ok (VNil, false) (addErr c (msg_undefined_rule ++ nm) s)
        | Some r => parseRuleWrap r
        end
    end.

  Definition parseExpr (e : expr) : M (val * bool) := fun s =>
    let s1 := set_exprCnt (exprCnt s + 1)%N s in
    if negb (N.eqb (o_maxexpr (cO c)) 0) && N.ltb (o_maxexpr (cO c)) (exprCnt s1) then Panic msg_max_expr s1
    else
      match e with
      | ELit _ v ic want => parseLitMatcher v ic want s1
      | ECls _ v chars ranges classes ic inv table =>
          parseCharClassMatcher v chars ranges classes ic inv table s1
      | EAny _ => parseAnyMatcher s1
      | ESeq _ es => parseSeqExpr es s1
      | EAlt _ es => choice_loop es s1
      | EStar _ e' => parseZeroOrMoreExpr e' s1
      | EPlus _ e' => parseOneOrMoreExpr e' s1
      | EOpt _ e' => parseZeroOrOneExpr e' s1
      | EAnd _ e' => parseAndExpr e' s1
      | ENot _ e' => parseNotExpr e' s1
      | ELab _ l e' => parseLabeledExpr l e' s1
      | EAct _ id e' => parseActionExpr id e' s1
      | EAndC _ id => parseCodePred KAnd false id s1
      | ENotC _ id => parseCodePred KNot true id s1
      | EStC _ id =>
          if has_state (cT c) then parseStateCodeExpr id s1
          else Panic (bytes_of_string "unknown expression type *main.stateCodeExpr"%string) s1
      | ERef _ nm => parseRuleRefExpr nm s1
      | ERec _ e' rc ls => parseRecoveryExpr e' rc ls s1
      | EThrow _ l => parseThrowExpr l s1
      end.

  (* parseExprWrap: memoisation around parseExpr (only when not optimised) *)
  Definition memo_active (s : pstate) : Res bool :=
    if t_optimize (cT c) then Ok false s
    else if t_leftrec (cT c) then
      match rstack s with
      | [] => Panic msg_index_range s
      | r :: _ => Ok (o_memoize (cO c) && negb (r_leftrec r)) s
      end
    else Ok (o_memoize (cO c)) s.

  Definition parseExprWrapBody (e : expr) : M (val * bool) :=
    active0 <- memo_active ;;
    fun s =>
    let active := active0 && (q_memo_label (cQ c) || negb (scope_writes e))
                          && (q_memo_expected (cQ c) || negb (maxFailInvert s)) in
    if active then
        match getMemoized (KExpr (node_id e)) s with
        | Some res =>
            if q_memo_nocharge (cQ c) then Ok (rt_v res, rt_b res) (restore (rt_end res) s)
            else
              let s1 := set_exprCnt (exprCnt s + 1)%N s in
              if negb (N.eqb (o_maxexpr (cO c)) 0) && N.ltb (o_maxexpr (cO c)) (exprCnt s1)
              then Panic msg_max_expr s1
              else Ok (rt_v res, rt_b res) (restore (rt_end res) s1)
        | None =>
            let p := pt s in
            (r <- parseExpr e ;;
             modify (fun s' => setMemoized p (KExpr (node_id e)) (mkRt (fst r) (snd r) (pt s')) s') ;;;
             ret r) s
        end
    else parseExpr e s.
End Step.

Fixpoint parseExprWrap (c : cfg) (fuel : nat) (e : expr) : M (val * bool) :=
  match fuel with
  | O => fun _ => OutOfFuel
  | S f => parseExprWrapBody c (parseExprWrap c f) f e
  end.

(* ---- top level: newParser + parse ---- *)
Definition init_state (c : cfg) : pstate :=
  mkPstate (save0 (cData c)) (mkPos 0 0 0) [] (o_initstate (cO c)) [] [] [] [] []
           (mkPos 1 1 0) [] false 0%N [] [] [].

Inductive outcome :=
| Returned (v : val) (errors : list perr) (final : pstate)
| Panicked (pv : bytes) (final : pstate)
| Diverged.

Definition listJoin (l : list bytes) : bytes :=
  match rev l with
  | [] => []
  | [x] => x
  | lastx :: revinit => concat_sep b_comma_sp (rev revinit) ++ b_or ++ lastx
  end.

Definition no_match_error (c : cfg) (s : pstate) : pstate :=
  let exp := nodup_bytes (maxFailExpected s) in
  let eof := mem_bytes b_not_any exp in
  let exp1 := filter (fun x => negb (bytes_eqb x b_not_any)) exp in
  let sorted := sort_bytes exp1 in
  let expected := if eof then sorted ++ [b_eof] else sorted in
  addErrAt c (msg_no_match ++ listJoin expected) (maxFailPos s) expected s.

Definition entry_of (o : options) (g : grammar) : option rname :=
  match o_entry o with
  | [] => match g with [] => None | r :: _ => Some (r_name r) end
  | e => Some e
  end.

Definition entry_name (c : cfg) : option rname := entry_of (cO c) (cG c).

Definition finish (c : cfg) (v : val) (s : pstate) : outcome :=
  Returned v (dedupe (errs s)) s.

Definition parse (c : cfg) (fuel : nat) : outcome :=
  let s0 := init_state c in
  match cG c with
  | [] => finish c VNil (addErr c msg_no_rule s0)
  | _ =>
      match entry_name c with
      | None => Diverged (* unreachable: grammar non-empty *)
      | Some en =>
          match find_rule en (cG c) with
          | None => finish c VNil (addErr c msg_invalid_entrypoint s0)
          | Some startRule =>
              let s1 := read c s0 in
              match parseRuleWrap c (parseExprWrap c fuel) fuel startRule s1 with
              | OutOfFuel => Diverged
              | Panic pv s' =>
                  if o_recover (cO c) then finish c VNil (addErr c pv s')
                  else Panicked pv s'
              | Ok (v, ok) s' =>
                  if ok then finish c v s'
                  else
                    match errs s' with
                    | [] => finish c VNil (no_match_error c s')
                    | _ => finish c VNil s'
                    end
              end
          end
      end
  end.
