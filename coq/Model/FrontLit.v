(* Model of how the front-end reads a string literal of the grammar language: the raw token
   ("..." / '.' / `...`, escapes validated by the grammar) is unquoted with Go's strconv.Unquote.
   Modelled here for the escape forms the grammar admits.  \xNN and \NNN denote bytes, \uNNNN and
   \UNNNNNNNN denote Unicode scalar values (UTF-8 encoded), everything else its own UTF-8 encoding. *)
From PV Require Import Lib.Base Lib.Utf8 Model.Front.
Local Open Scope Z_scope.

Definition r_dquote : rune := 34.
Definition r_squote : rune := 39.
Definition r_bquote : rune := 96.

Definition str_escape (q : rune) (r : rune) : option rune :=
  if r =? q then Some q else single_escape r.

(* the characters between the quotes *)
Fixpoint unq (fuel : nat) (q : rune) (l : text) (acc : bytes) : option bytes :=
  match fuel with
  | O => None
  | S f =>
      match l with
      | [] => Some acc
      | r :: l1 =>
          if r =? r_bslash then
            match l1 with
            | [] => None
            | e :: l2 =>
                if e =? r_x then
                  match take_digits 16 2 0 l2 with Some (v, l3) => unq f q l3 (acc ++ [Z.to_N v]) | None => None end
                else if e =? r_u then
                  match take_digits 16 4 0 l2 with Some (v, l3) => unq f q l3 (acc ++ encode v) | None => None end
                else if e =? r_U then
                  match take_digits 16 8 0 l2 with Some (v, l3) => unq f q l3 (acc ++ encode v) | None => None end
                else if (48 <=? e) && (e <=? 55) then
                  match take_digits 8 2 (e - 48) l2 with Some (v, l3) => unq f q l3 (acc ++ [Z.to_N v]) | None => None end
                else
                  match str_escape q e with
                  | Some v => unq f q l2 (acc ++ encode v)
                  | None => None
                  end
            end
          else unq f q l1 (acc ++ encode r)
      end
  end.

Fixpoint raw_bytes (l : text) : bytes :=
  match l with
  | [] => []
  | r :: l' => if r =? 13 then raw_bytes l' else encode r ++ raw_bytes l'
  end.

(* token = quote ++ content ++ quote *)
Definition unquote (tok : text) : option bytes :=
  match tok with
  | q :: rest =>
      let content := removelast rest in
      if q =? r_bquote then Some (raw_bytes content)
      else if (q =? r_dquote) || (q =? r_squote) then unq (S (length content)) q content []
      else None
  | [] => None
  end.

(* ---- printer: every spelling of every element ---- *)
Inductive lspell := LRaw | LEsc | LU4 | LU8.

Inductive lelem :=
| LRune (r : rune) (s : lspell)     (* a Unicode scalar value *)
| LByteHex (b : Z)                   (* \xNN *)
| LByteOct (b : Z).                  (* \NNN *)

Definition lesc_letter (q : rune) (r : rune) : option rune :=
  if r =? q then Some q
  else if r =? 7 then Some 97 else if r =? 8 then Some 98 else if r =? 12 then Some 102
  else if r =? 10 then Some 110 else if r =? 13 then Some 114 else if r =? 9 then Some 116
  else if r =? 11 then Some 118 else if r =? 92 then Some 92 else None.

Definition print_lelem (q : rune) (e : lelem) : text :=
  match e with
  | LRune r LRaw => [r]
  | LRune r LEsc => match lesc_letter q r with Some x => [r_bslash; x] | None => [r] end
  | LRune r LU4 => r_bslash :: r_u :: digits 16 4 r
  | LRune r LU8 => r_bslash :: r_U :: digits 16 8 r
  | LByteHex b => r_bslash :: r_x :: digits 16 2 b
  | LByteOct b => r_bslash :: digits 8 3 b
  end.

Definition denote_lelem (e : lelem) : bytes :=
  match e with
  | LRune r _ => encode r
  | LByteHex b | LByteOct b => [Z.to_N b]
  end.

Definition lelem_ok (q : rune) (e : lelem) : bool :=
  match e with
  | LRune r LRaw => negb (r =? q) && negb (r =? r_bslash) && negb (r =? 10)
  | LRune r LEsc => match lesc_letter q r with Some _ => true | None => false end
  | LRune r LU4 => scalarb r && (r <? 65536)
  | LRune r LU8 => scalarb r
  | LByteHex b | LByteOct b => (0 <=? b) && (b <? 256)
  end.

Definition print_string (q : rune) (es : list lelem) : text :=
  [q] ++ concat (map (print_lelem q) es) ++ [q].
