(* Model of the character-class reader of the grammar front-end:
   ast.CharClassMatcher.parse (ast/ast.go) over the raw class text (as runes), and the
   printer of class texts the correspondence check and the theorems quantify over.

   [esc_is_char] is the analysis switch of this model: true = an escaped rune is never a
   range operator (the grammar's reading: ClassCharRange <- ClassChar '-' ClassChar with a
   literal '-'); false = the pinned tree's behaviour, where the escaped-ness of a rune is lost
   before ranges are extracted. *)
From PV Require Import Lib.Base.
Local Open Scope Z_scope.

Definition text := list rune.

Definition r_bslash : rune := 92.
Definition r_rbrack : rune := 93.
Definition r_lbrack : rune := 91.
Definition r_caret : rune := 94.
Definition r_dash : rune := 45.
Definition r_lbrace : rune := 123.
Definition r_rbrace : rune := 125.
Definition r_i : rune := 105.
Definition r_p : rune := 112.
Definition r_x : rune := 120.
Definition r_u : rune := 117.
Definition r_U : rune := 85.

(* ---- digits ---- *)
Definition hexval (r : rune) : option Z :=
  if (48 <=? r) && (r <=? 57) then Some (r - 48)
  else if (97 <=? r) && (r <=? 102) then Some (r - 87)
  else if (65 <=? r) && (r <=? 70) then Some (r - 55)
  else None.

Definition hexdigit (d : Z) : rune := if d <? 10 then 48 + d else 87 + d.

(* n digits in base b, most significant first *)
Fixpoint digits (b : Z) (n : nat) (v : Z) : text :=
  match n with
  | O => []
  | S n' => hexdigit (v / b ^ Z.of_nat n') :: digits b n' (v mod b ^ Z.of_nat n')
  end.

(* read n digits in base b *)
Fixpoint take_digits (b : Z) (n : nat) (acc : Z) (l : text) : option (Z * text) :=
  match n with
  | O => Some (acc, l)
  | S n' =>
      match l with
      | d :: l' =>
          match hexval d with
          | Some v => if v <? b then take_digits b n' (acc * b + v) l' else None
          | None => None
          end
      | [] => None
      end
  end.

(* strconv.UnquoteChar on the single-character escapes the grammar admits *)
Definition single_escape (r : rune) : option rune :=
  if r =? 97 then Some 7 else if r =? 98 then Some 8 else if r =? 102 then Some 12
  else if r =? 110 then Some 10 else if r =? 114 then Some 13 else if r =? 116 then Some 9
  else if r =? 118 then Some 11 else if r =? 92 then Some 92 else None.

(* ---- phase 1: runes and Unicode classes, in order; each rune with "was written as an escape" ---- *)
Fixpoint take_until_rbrace (l : text) (acc : text) : option (text * text) :=
  match l with
  | [] => None
  | r :: l' => if r =? r_rbrace then Some (rev acc, l') else take_until_rbrace l' (r :: acc)
  end.

Fixpoint scan (fuel : nat) (l : text) (chars : list (rune * bool)) (classes : list text)
  : option (list (rune * bool) * list text) :=
  match fuel with
  | O => None
  | S f =>
      match l with
      | [] => Some (rev chars, rev classes)
      | r :: l1 =>
          if r =? r_bslash then
            match l1 with
            | [] => None
            | e :: l2 =>
                if e =? r_rbrack then scan f l2 ((r_rbrack, true) :: chars) classes
                else if e =? r_p then
                  match l2 with
                  | [] => None
                  | c :: l3 =>
                      if c =? r_lbrace then
                        match take_until_rbrace l3 [] with
                        | Some (name, l4) => scan f l4 chars (name :: classes)
                        | None => None
                        end
                      else scan f l3 chars ([c] :: classes)
                  end
                else if e =? r_x then
                  match take_digits 16 2 0 l2 with Some (v, l3) => scan f l3 ((v, true) :: chars) classes | None => None end
                else if e =? r_u then
                  match take_digits 16 4 0 l2 with Some (v, l3) => scan f l3 ((v, true) :: chars) classes | None => None end
                else if e =? r_U then
                  match take_digits 16 8 0 l2 with Some (v, l3) => scan f l3 ((v, true) :: chars) classes | None => None end
                else if (48 <=? e) && (e <=? 55) then
                  match take_digits 8 2 (e - 48) l2 with Some (v, l3) => scan f l3 ((v, true) :: chars) classes | None => None end
                else
                  match single_escape e with
                  | Some v => scan f l2 ((v, true) :: chars) classes
                  | None => None
                  end
            end
          else scan f l1 ((r, false) :: chars) classes
      end
  end.

(* ---- phase 2: ranges and plain characters ---- *)
Section Ranges.
  Variable esc_is_char : bool.

  Fixpoint extract (l : list (rune * bool)) (inRange wasRange : bool) (cs rs : list rune) : list rune * list rune :=
    match l with
    | [] => (rev cs, rev rs)
    | (r, esc) :: l' =>
        if inRange then extract l' false true cs (r :: rs)
        else
          match cs, l' with
          | c0 :: cs', _ :: _ =>
              if (r =? r_dash) && negb wasRange && negb (esc_is_char && esc)
              then extract l' true false cs' (c0 :: rs)
              else extract l' false false (r :: cs) rs
          | _, _ => extract l' false false (r :: cs) rs
          end
    end.
End Ranges.

Record cclass := mkClass { k_chars : list rune; k_ranges : list rune; k_classes : list text; k_ic : bool; k_inv : bool }.

Definition strip_i (l : text) : text * bool :=
  match rev l with
  | r :: l' => if r =? r_i then (rev l', true) else (l, false)
  | [] => (l, false)
  end.

(* raw = '[' ... ']' ['i'] *)
Definition parse_class (esc_is_char : bool) (raw : text) : option cclass :=
  let '(raw1, ic) := strip_i raw in
  match raw1 with
  | _ :: body0 =>
      let body := removelast body0 in
      match body with
      | [] => Some (mkClass [] [] [] ic false)
      | r :: body' =>
          let inv := r =? r_caret in
          let body2 := if inv then body' else body in
          match scan (S (length body2)) body2 [] [] with
          | Some (chars, classes) =>
              let '(cs, rs) := extract esc_is_char chars false false [] [] in
              Some (mkClass cs rs classes ic inv)
          | None => None
          end
      end
  | [] => None
  end.

(* ---- the printer: every spelling the documented syntax offers ---- *)
Inductive spell := SRaw | SEsc | SHex | SU4 | SU8 | SOct.

Inductive citem :=
| IChar (r : rune) (s : spell)
| IRange (lo : rune) (sl : spell) (hi : rune) (sh : spell)
| IUni (name : text) (braced : bool).

Definition esc_letter (r : rune) : option rune :=
  if r =? 7 then Some 97 else if r =? 8 then Some 98 else if r =? 12 then Some 102
  else if r =? 10 then Some 110 else if r =? 13 then Some 114 else if r =? 9 then Some 116
  else if r =? 11 then Some 118 else if r =? 92 then Some 92 else if r =? 93 then Some 93 else None.

Definition print_char (r : rune) (s : spell) : text :=
  match s with
  | SRaw => [r]
  | SEsc => match esc_letter r with Some e => [r_bslash; e] | None => [r] end
  | SHex => r_bslash :: r_x :: digits 16 2 r
  | SU4 => r_bslash :: r_u :: digits 16 4 r
  | SU8 => r_bslash :: r_U :: digits 16 8 r
  | SOct => r_bslash :: digits 8 3 r
  end.

Definition print_item (it : citem) : text :=
  match it with
  | IChar r s => print_char r s
  | IRange lo sl hi sh => print_char lo sl ++ [r_dash] ++ print_char hi sh
  | IUni name true => r_bslash :: r_p :: r_lbrace :: name ++ [r_rbrace]
  | IUni name false => r_bslash :: r_p :: name
  end.

Definition print_class (items : list citem) (ic inv : bool) : text :=
  [r_lbrack] ++ (if inv then [r_caret] else []) ++ concat (map print_item items) ++ [r_rbrack] ++ (if ic then [r_i] else []).

(* the class a list of items denotes *)
Definition denote_chars (items : list citem) : list rune :=
  concat (map (fun it => match it with IChar r _ => [r] | _ => [] end) items).
Definition denote_ranges (items : list citem) : list rune :=
  concat (map (fun it => match it with IRange lo _ hi _ => [lo; hi] | _ => [] end) items).
Definition denote_classes (items : list citem) : list text :=
  concat (map (fun it => match it with IUni n _ => [n] | _ => [] end) items).

(* which spellings the syntax allows for a rune *)
Definition spell_ok (r : rune) (s : spell) : bool :=
  match s with
  | SRaw => negb (r =? r_rbrack) && negb (r =? r_bslash) && negb (r =? 10) && (0 <=? r)
  | SEsc => match esc_letter r with Some _ => true | None => false end
  | SHex => (0 <=? r) && (r <? 256)
  | SU4 => (0 <=? r) && (r <? 65536)
  | SU8 => (0 <=? r) && (r <? 4294967296)
  | SOct => (0 <=? r) && (r <? 256)
  end.

(* a raw '-' is only a plain member when written first or last; a leading raw '^' would invert *)
Definition plain (r : rune) (s : spell) : bool := negb ((r =? r_dash) && match s with SRaw => true | _ => false end).

Definition item_ok (it : citem) : bool :=
  match it with
  | IChar r s => spell_ok r s
  | IRange lo sl hi sh => spell_ok lo sl && spell_ok hi sh && plain lo sl && plain hi sh
  | IUni name b => negb (existsb (fun r => r =? r_rbrace) name) && match name with [] => false | [_] => true | _ => b end
                   && (if b then true else match name with [c] => negb (c =? r_lbrace) | _ => false end)
  end.
