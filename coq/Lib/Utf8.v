(* Model of Go's unicode/utf8.DecodeRune (RFC 3629 with the accept ranges table),
   and an independent specification: the encoder of Unicode scalar values. *)
From PV Require Import Lib.Base.
Local Open Scope Z_scope.

Definition zb (b : N) : Z := Z.of_N b.

Definition is_cont (b : N) : bool := (128 <=? zb b) && (zb b <=? 191).

(* decode bs = (rune, width).  width 0 iff bs is empty. *)
Definition decode (bs : bytes) : rune * nat :=
  match bs with
  | [] => (RuneError, 0%nat)
  | b0 :: r0 =>
      let x0 := zb b0 in
      if x0 <? 128 then (x0, 1%nat)
      else if x0 <? 194 then (RuneError, 1%nat)            (* 80..C1: continuation / overlong lead *)
      else if x0 <? 224 then                               (* C2..DF: two bytes *)
        match r0 with
        | b1 :: _ =>
            if is_cont b1 then ((x0 - 192) * 64 + (zb b1 - 128), 2%nat) else (RuneError, 1%nat)
        | [] => (RuneError, 1%nat)
        end
      else if x0 <? 240 then                               (* E0..EF: three bytes *)
        match r0 with
        | b1 :: b2 :: _ =>
            let lo := if x0 =? 224 then 160 else 128 in
            let hi := if x0 =? 237 then 159 else 191 in
            if (lo <=? zb b1) && (zb b1 <=? hi) && is_cont b2
            then ((x0 - 224) * 4096 + (zb b1 - 128) * 64 + (zb b2 - 128), 3%nat)
            else (RuneError, 1%nat)
        | _ => (RuneError, 1%nat)
        end
      else if x0 <? 245 then                               (* F0..F4: four bytes *)
        match r0 with
        | b1 :: b2 :: b3 :: _ =>
            let lo := if x0 =? 240 then 144 else 128 in
            let hi := if x0 =? 244 then 143 else 191 in
            if (lo <=? zb b1) && (zb b1 <=? hi) && is_cont b2 && is_cont b3
            then ((x0 - 240) * 262144 + (zb b1 - 128) * 4096 + (zb b2 - 128) * 64 + (zb b3 - 128), 4%nat)
            else (RuneError, 1%nat)
        | _ => (RuneError, 1%nat)
        end
      else (RuneError, 1%nat)                              (* F5..FF *)
  end.

(* Specification side: Unicode scalar values and their UTF-8 encoding. *)
Definition scalar (r : Z) : Prop :=
  (0 <= r < 55296) \/ (57343 < r <= 1114111).

Definition scalarb (r : Z) : bool :=
  ((0 <=? r) && (r <? 55296)) || ((57343 <? r) && (r <=? 1114111)).

Definition nb (z : Z) : N := Z.to_N z.

Definition encode (r : Z) : bytes :=
  if r <? 128 then [nb r]
  else if r <? 2048 then [nb (192 + r / 64); nb (128 + r mod 64)]
  else if r <? 65536 then [nb (224 + r / 4096); nb (128 + (r / 64) mod 64); nb (128 + r mod 64)]
  else [nb (240 + r / 262144); nb (128 + (r / 4096) mod 64); nb (128 + (r / 64) mod 64); nb (128 + r mod 64)].

Definition wf_bytes (bs : bytes) : Prop := Forall (fun b => (b < 256)%N) bs.
