(* Base definitions shared by the model of mna/pigeon.
   Bytes are [N] (< 256 by well-formedness), runes are [Z] (Go's int32),
   byte strings are [list N].  Offsets and lengths are [nat]. *)
From Coq Require Export List NArith ZArith Bool Lia Arith.
Export ListNotations.

Definition byte := N.
Definition bytes := list N.
Definition rune := Z.

Definition RuneError : rune := 65533%Z.

Fixpoint bytes_eqb (a b : bytes) : bool :=
  match a, b with
  | [], [] => true
  | x :: a', y :: b' => N.eqb x y && bytes_eqb a' b'
  | _, _ => false
  end.

Lemma bytes_eqb_eq a b : bytes_eqb a b = true <-> a = b.
Proof.
  revert b; induction a as [|x a IH]; intros [|y b]; simpl; split; intro H;
    try congruence; try reflexivity.
  - apply andb_true_iff in H as [H1 H2]. apply N.eqb_eq in H1. apply IH in H2. congruence.
  - inversion H; subst. rewrite N.eqb_refl. simpl. apply IH. reflexivity.
Qed.

Lemma bytes_eqb_refl a : bytes_eqb a a = true.
Proof. apply bytes_eqb_eq; reflexivity. Qed.

(* Bytewise lexicographic order: Go's string comparison (sort.Strings). *)
Fixpoint bytes_leb (a b : bytes) : bool :=
  match a, b with
  | [], _ => true
  | _ :: _, [] => false
  | x :: a', y :: b' =>
      if N.ltb x y then true else if N.eqb x y then bytes_leb a' b' else false
  end.

(* Insertion sort: same result as any stable or unstable sort on a total order
   up to equal elements, which for byte strings are identical. *)
Fixpoint insert_sorted (x : bytes) (l : list bytes) : list bytes :=
  match l with
  | [] => [x]
  | y :: l' => if bytes_leb x y then x :: l else y :: insert_sorted x l'
  end.

Definition sort_bytes (l : list bytes) : list bytes :=
  fold_right insert_sorted [] l.

Fixpoint mem_bytes (x : bytes) (l : list bytes) : bool :=
  match l with
  | [] => false
  | y :: l' => bytes_eqb x y || mem_bytes x l'
  end.

Fixpoint nodup_bytes (l : list bytes) : list bytes :=
  match l with
  | [] => []
  | x :: l' => if mem_bytes x l' then nodup_bytes l' else x :: nodup_bytes l'
  end.

(* ASCII literal helper: Coq string -> bytes, used only for constant messages. *)
From Coq Require Import String Ascii.
Fixpoint bytes_of_string (s : string) : bytes :=
  match s with
  | EmptyString => []
  | String c s' => N_of_ascii c :: bytes_of_string s'
  end.

(* Decimal printing (strconv.Itoa / %d for non-negative numbers). *)
Fixpoint dec_digits (fuel : nat) (n : N) (acc : bytes) : bytes :=
  match fuel with
  | O => acc
  | S f =>
      let d := (48 + N.modulo n 10)%N in
      let q := N.div n 10 in
      if N.eqb q 0 then d :: acc else dec_digits f q (d :: acc)
  end.

Definition dec_N (n : N) : bytes := dec_digits (S (N.to_nat (N.log2 n))) n [].
Definition dec_nat (n : nat) : bytes := dec_N (N.of_nat n).

Definition dec_Z (z : Z) : bytes :=
  match z with
  | Z0 => [48%N]
  | Zpos p => dec_N (Npos p)
  | Zneg p => 45%N :: dec_N (Npos p)
  end.

(* generic association-list helpers on byte-string keys *)
Fixpoint alookup {A} (k : bytes) (l : list (bytes * A)) : option A :=
  match l with
  | [] => None
  | (k', v) :: l' => if bytes_eqb k k' then Some v else alookup k l'
  end.

Fixpoint aset {A} (k : bytes) (v : A) (l : list (bytes * A)) : list (bytes * A) :=
  match l with
  | [] => [(k, v)]
  | (k', v') :: l' => if bytes_eqb k k' then (k, v) :: l' else (k', v') :: aset k v l'
  end.

Fixpoint concat_sep (sep : bytes) (l : list bytes) : bytes :=
  match l with
  | [] => []
  | [x] => x
  | x :: l' => x ++ sep ++ concat_sep sep l'
  end.
