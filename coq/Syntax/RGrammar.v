(* The run-time grammar: mirrors the structs of the generated parser
   (builder/static_code.go: grammar, rule, choiceExpr, ..., anyMatcher) and the
   data a generated parser manipulates (values, positions, stores). *)
From PV Require Import Lib.Base.

Definition label := bytes.
Definition rname := bytes.
Definition cid := N.          (* code-block identity *)
Definition nid := N.          (* node identity: pointer identity in Go, memo key *)

Record position := mkPos { line : nat; col : nat; offset : nat }.

(* Expression kinds of the generated parser. *)
Inductive expr :=
| ELit (n : nid) (val : list rune) (ic : bool) (want : bytes)
| ECls (n : nid) (val : bytes) (chars ranges : list rune) (classes : list bytes)
       (ic inv : bool) (table : list bool)      (* basicLatinChars, 128 entries, or [] *)
| EAny (n : nid)
| ESeq (n : nid) (es : list expr)
| EAlt (n : nid) (es : list expr)
| EStar (n : nid) (e : expr)
| EPlus (n : nid) (e : expr)
| EOpt (n : nid) (e : expr)
| EAnd (n : nid) (e : expr)
| ENot (n : nid) (e : expr)
| ELab (n : nid) (l : label) (e : expr)
| EAct (n : nid) (c : cid) (e : expr)
| EAndC (n : nid) (c : cid)
| ENotC (n : nid) (c : cid)
| EStC (n : nid) (c : cid)
| ERef (n : nid) (r : rname)
| ERec (n : nid) (e : expr) (rc : expr) (ls : list label)
| EThrow (n : nid) (l : label).

Definition node_id (e : expr) : nid :=
  match e with
  | ELit n _ _ _ | ECls n _ _ _ _ _ _ _ | EAny n | ESeq n _ | EAlt n _ | EStar n _
  | EPlus n _ | EOpt n _ | EAnd n _ | ENot n _ | ELab n _ _ | EAct n _ _ | EAndC n _
  | ENotC n _ | EStC n _ | ERef n _ | ERec n _ _ _ | EThrow n _ => n
  end.

Record rule := mkRule {
  r_name : rname;
  r_display : bytes;
  r_expr : expr;
  r_leader : bool;
  r_leftrec : bool
}.

Definition grammar := list rule.

(* Values produced by a parse: exactly the documented shapes plus what the
   code-block DSL of the correspondence harness can build. *)
Inductive val :=
| VNil
| VBytes (b : bytes)
| VList (l : list val)
| VInt (z : Z)
| VStr (s : bytes).

(* State store values: immediate (copied by assignment) or a Cloner cell
   (deep-copied by cloneState, mutated in place by state blocks). *)
Inductive sval :=
| SImm (z : Z)
| SCell (l : list Z).

Definition store := list (bytes * sval).      (* p.cur.state *)
Definition gstore := list (bytes * list Z).   (* p.cur.globalStore, as used by the DSL *)

(* Template booleans of builder.writeStaticCode that change behaviour. *)
Record tmpl := mkTmpl {
  t_optimize : bool;
  t_globalstate : bool;
  t_leftrec : bool;
  t_basiclatin : bool
}.

Definition has_state (t : tmpl) : bool := t_globalstate t || negb (t_optimize t).
Definition has_memo_table (t : tmpl) : bool := t_leftrec t || negb (t_optimize t).

(* Runtime options (the Option functions of the generated parser). *)
Record options := mkOpts {
  o_memoize : bool;
  o_debug : bool;
  o_stats : bool;
  o_recover : bool;
  o_allowinvalid : bool;
  o_maxexpr : N;              (* 0 = unlimited *)
  o_entry : bytes;            (* [] = first rule *)
  o_filename : bytes;
  o_initstate : store         (* the InitState options: what the state store holds when the parse starts *)
}.

(* External Unicode library behaviour (Go's unicode package): parameters, never axioms. *)
Record ulib := mkUlib {
  to_lower : rune -> rune;
  to_upper : rune -> rune;
  is_lower : rune -> bool;
  in_class : bytes -> rune -> bool
}.
