(* The front-end AST (mirrors ast/ast.go), with a node identity on the node kinds that
   carry mutable analysis flags in the Go code (Nullable on choice, sequence, action,
   recovery and rule-reference nodes). *)
From PV Require Import Lib.Base Syntax.RGrammar.

Inductive aexpr :=
| ALit (val : bytes) (ic : bool)
| ACls (raw : bytes) (chars ranges : list rune) (classes : list bytes) (ic inv : bool)
| AAny
| ASeq (n : nid) (es : list aexpr)
| AAlt (n : nid) (es : list aexpr)
| AStar (e : aexpr)
| APlus (e : aexpr)
| AOpt (e : aexpr)
| AAnd (e : aexpr)
| ANot (e : aexpr)
| ALab (l : label) (e : aexpr)
| AAct (n : nid) (code : bytes) (e : aexpr)
| AAndC (code : bytes)
| ANotC (code : bytes)
| AStC (code : bytes)
| ARef (n : nid) (r : rname)
| ARec (n : nid) (e rc : aexpr) (ls : list label)
| AThrow (l : label).

Record arule := mkARule { a_name : rname; a_display : bytes; a_expr : aexpr }.
Definition agrammar := list arule.

Definition find_arule (nm : rname) (g : agrammar) : option arule :=
  (* map insertion: the last rule of a name wins *)
  fold_left (fun acc r => if bytes_eqb (a_name r) nm then Some r else acc) g None.

(* induction principle with the induction hypothesis on list elements *)
Section AexprInd.
  Variable P : aexpr -> Prop.
  Hypothesis Hlit : forall v ic, P (ALit v ic).
  Hypothesis Hcls : forall raw chars ranges classes ic inv, P (ACls raw chars ranges classes ic inv).
  Hypothesis Hany : P AAny.
  Hypothesis Hseq : forall n es, Forall P es -> P (ASeq n es).
  Hypothesis Halt : forall n es, Forall P es -> P (AAlt n es).
  Hypothesis Hstar : forall e, P e -> P (AStar e).
  Hypothesis Hplus : forall e, P e -> P (APlus e).
  Hypothesis Hopt : forall e, P e -> P (AOpt e).
  Hypothesis Hand : forall e, P e -> P (AAnd e).
  Hypothesis Hnot : forall e, P e -> P (ANot e).
  Hypothesis Hlab : forall l e, P e -> P (ALab l e).
  Hypothesis Hact : forall n c e, P e -> P (AAct n c e).
  Hypothesis Handc : forall c, P (AAndC c).
  Hypothesis Hnotc : forall c, P (ANotC c).
  Hypothesis Hstc : forall c, P (AStC c).
  Hypothesis Href : forall n r, P (ARef n r).
  Hypothesis Hrec : forall n e rc ls, P e -> P rc -> P (ARec n e rc ls).
  Hypothesis Hthrow : forall l, P (AThrow l).

  Fixpoint aexpr_ind2 (e : aexpr) : P e :=
    match e with
    | ALit v ic => Hlit v ic
    | ACls raw chars ranges classes ic inv => Hcls raw chars ranges classes ic inv
    | AAny => Hany
    | ASeq n es => Hseq n es ((fix go (l : list aexpr) : Forall P l :=
                                 match l with [] => Forall_nil P | x :: l' => Forall_cons x (aexpr_ind2 x) (go l') end) es)
    | AAlt n es => Halt n es ((fix go (l : list aexpr) : Forall P l :=
                                 match l with [] => Forall_nil P | x :: l' => Forall_cons x (aexpr_ind2 x) (go l') end) es)
    | AStar e' => Hstar e' (aexpr_ind2 e')
    | APlus e' => Hplus e' (aexpr_ind2 e')
    | AOpt e' => Hopt e' (aexpr_ind2 e')
    | AAnd e' => Hand e' (aexpr_ind2 e')
    | ANot e' => Hnot e' (aexpr_ind2 e')
    | ALab l e' => Hlab l e' (aexpr_ind2 e')
    | AAct n c e' => Hact n c e' (aexpr_ind2 e')
    | AAndC c => Handc c
    | ANotC c => Hnotc c
    | AStC c => Hstc c
    | ARef n r => Href n r
    | ARec n e' rc ls => Hrec n e' rc ls (aexpr_ind2 e') (aexpr_ind2 rc)
    | AThrow l => Hthrow l
    end.
End AexprInd.
