(* Semantics of code blocks.  A generated parser calls user Go code; in the model a
   code block is a semantic function of the context it can observe (c.text, c.pos,
   its label arguments, c.state, c.globalStore).  All theorems quantify over an
   arbitrary [codeenv].  For correspondence runs a small DSL ([block]) is given a
   Gallina semantics here and a Go rendering in the harness (harness/host/driver.go). *)
From PV Require Import Lib.Base Syntax.RGrammar.

Record ctx := mkCtx {
  c_text : bytes;
  c_pos : position;
  c_args : list (label * val);
  c_state : store;
  c_gstore : gstore
}.

(* What a block does: returns (value, optional error, new state map, new globalStore)
   or panics (after possibly having mutated the stores). *)
Inductive cbout (R : Type) :=
| CbRet (r : R) (err : option bytes) (st' : store) (gs' : gstore)
| CbPanic (pv : bytes) (st' : store) (gs' : gstore).
Arguments CbRet {R}.
Arguments CbPanic {R}.

Record codeenv := mkEnv {
  ce_params : cid -> list label;
  ce_act : cid -> ctx -> cbout val;
  ce_pred : cid -> ctx -> cbout bool;
  ce_state : cid -> ctx -> cbout unit
}.

(* ---- the DSL used by the correspondence harness ---- *)
Inductive cond :=
| CAlways | CNever
| CTextIs (b : bytes)
| COffGe (n : nat)
| CStateGe (k : bytes) (z : Z)
| CArgNil (l : label).

Inductive sop :=
| SSet (k : bytes) (z : Z)
| SAdd (k : bytes) (z : Z)
| SPush (k : bytes) (z : Z)
| GApp (k : bytes) (z : Z).

Inductive ritem := IText | IPos | ICid | IArg (l : label) | IState (k : bytes) | IConst (z : Z).

Inductive rspec := RNil | RArg (l : label) | RTuple (items : list ritem).

Record block := mkBlock {
  b_params : list label;
  b_ops : list sop;
  b_panic : cond; b_panic_msg : bytes;
  b_err : cond; b_err_msg : bytes;
  b_ret : rspec;
  b_pred : cond
}.

Definition arg_lookup (l : label) (args : list (label * val)) : val :=
  match alookup l args with Some v => v | None => VNil end.

Definition state_int (k : bytes) (st : store) : Z :=
  match alookup k st with Some (SImm z) => z | _ => 0%Z end.

Definition eval_cond (c : cond) (x : ctx) : bool :=
  match c with
  | CAlways => true
  | CNever => false
  | CTextIs b => bytes_eqb (c_text x) b
  | COffGe n => Nat.leb n (offset (c_pos x))
  | CStateGe k z => Z.leb z (state_int k (c_state x))
  | CArgNil l => match arg_lookup l (c_args x) with VNil => true | _ => false end
  end.

Definition apply_sop (o : sop) (sg : store * gstore) : store * gstore :=
  let '(st, gs) := sg in
  match o with
  | SSet k z => (aset k (SImm z) st, gs)
  | SAdd k z => (aset k (SImm (state_int k st + z)) st, gs)
  | SPush k z =>
      match alookup k st with
      | Some (SCell l) => (aset k (SCell (l ++ [z])) st, gs)
      | _ => (aset k (SCell [z]) st, gs)
      end
  | GApp k z =>
      match alookup k gs with
      | Some l => (st, aset k (l ++ [z]) gs)
      | None => (st, aset k [z] gs)
      end
  end.

Definition apply_sops (ops : list sop) (sg : store * gstore) : store * gstore :=
  fold_left (fun a o => apply_sop o a) ops sg.

Definition sval_val (v : option sval) : val :=
  match v with
  | None => VNil
  | Some (SImm z) => VInt z
  | Some (SCell l) => VList (map VInt l)
  end.

Definition pos_val (p : position) : val :=
  VList [VInt (Z.of_nat (line p)); VInt (Z.of_nat (col p)); VInt (Z.of_nat (offset p))].

Definition eval_ritem (c : cid) (x : ctx) (st : store) (i : ritem) : val :=
  match i with
  | IText => VBytes (c_text x)
  | IPos => pos_val (c_pos x)
  | ICid => VInt (Z.of_N c)
  | IArg l => arg_lookup l (c_args x)
  | IState k => sval_val (alookup k st)
  | IConst z => VInt z
  end.

Definition eval_rspec (c : cid) (x : ctx) (st : store) (r : rspec) : val :=
  match r with
  | RNil => VNil
  | RArg l => arg_lookup l (c_args x)
  | RTuple items => VList (map (eval_ritem c x st) items)
  end.

(* Order of effects in the Go rendering: store operations, then the panic test,
   then the return value (which reads the updated state) and the error test.
   All conditions are evaluated on the context as it was on entry. *)
Definition run_block {R} (c : cid) (b : block) (x : ctx) (result : store -> R) : cbout R :=
  let '(st', gs') := apply_sops (b_ops b) (c_state x, c_gstore x) in
  if eval_cond (b_panic b) x then CbPanic (b_panic_msg b) st' gs'
  else CbRet (result st') (if eval_cond (b_err b) x then Some (b_err_msg b) else None) st' gs'.

Definition dummy_block : block :=
  mkBlock [] [] CNever [] CNever [] RNil CAlways.

Definition env_of_blocks (bl : list (cid * block)) : codeenv :=
  let get c := match find (fun p => N.eqb (fst p) c) bl with Some p => snd p | None => dummy_block end in
  mkEnv (fun c => b_params (get c))
        (fun c x => run_block c (get c) x (fun st => eval_rspec c x st (b_ret (get c))))
        (fun c x => run_block c (get c) x (fun _ => eval_cond (b_pred (get c)) x))
        (fun c x => run_block c (get c) x (fun _ => tt)).
