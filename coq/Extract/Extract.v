(* Extraction of the executable model to OCaml for the correspondence driver.
   ExtrOcamlBasic only: nat, N, Z, positive stay the extracted inductives. *)
From PV Require Import Lib.Base Lib.Utf8 Syntax.RGrammar Syntax.Code Syntax.Ast Model.PState Spec.Pos Model.Runtime Model.Lower Model.Front Model.FrontLit Model.Embed Model.Pool Model.MainExit Model.Prepare Model.OptMerge Spec.Ref Spec.RefParse Spec.LRSpec Spec.LRIter.
Require Import ExtrOcamlBasic.
Extraction Language OCaml.
Set Extraction KeepSingleton.
Extraction "model.ml" prepare lr_cycle lr_rules basic_latin table_agrees_b slow_decide table_decide parse_class unquote embed kept join_lines has raw_string_value Pool.step Pool.init Pool.view Pool.sstep exit_code rd pos_of parse env_of_blocks decode perr_string init_state faithful repaired rparse lrparse lr_shape blocks_of_log relevant_terms far_pos far_expected optimize_choice lower_alt optimize_seq cleanup.
