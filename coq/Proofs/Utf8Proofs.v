(* Characterisation of the model of utf8.DecodeRune against the encoder of Unicode
   scalar values (the independent reading of "valid UTF-8 sequence"). *)
From PV Require Import Lib.Base Lib.Utf8.
From Coq Require Import ZifyBool ZifyN ZifyNat.
Local Open Scope Z_scope.
Ltac Zify.zify_post_hook ::= Z.div_mod_to_equations.

Lemma zb_nb z : 0 <= z -> zb (nb z) = z.
Proof. intros H. unfold zb, nb. rewrite Z2N.id; auto. Qed.

Lemma zb_nonneg b : 0 <= zb b.
Proof. unfold zb. lia. Qed.

Ltac split_ifs :=
  repeat match goal with
    | |- context [Z.eqb ?a ?b] => destruct (Z.eqb_spec a b); try (exfalso; lia)
    | |- context [Z.ltb ?a ?b] => destruct (Z.ltb_spec a b); try (exfalso; lia)
    | |- context [Z.leb ?a ?b] => destruct (Z.leb_spec a b); try (exfalso; lia)
    end.

Lemma decode_nil : decode [] = (RuneError, 0%nat).
Proof. reflexivity. Qed.

Lemma decode_width_pos bs : bs <> [] -> (1 <= snd (decode bs) <= 4)%nat.
Proof.
  destruct bs as [|b0 r0]; [congruence|]. intros _.
  unfold decode, is_cont.
  destruct (zb b0 <? 128); [simpl; lia|].
  destruct (zb b0 <? 194); [simpl; lia|].
  destruct (zb b0 <? 224).
  { destruct r0 as [|b1 r1]; [simpl; lia|].
    destruct ((128 <=? zb b1) && (zb b1 <=? 191)); simpl; lia. }
  destruct (zb b0 <? 240).
  { destruct r0 as [|b1 [|b2 r2]]; try (simpl; lia).
    match goal with |- context [if ?c then _ else _] => destruct c end; simpl; lia. }
  destruct (zb b0 <? 245).
  { destruct r0 as [|b1 [|b2 [|b3 r3]]]; try (simpl; lia).
    match goal with |- context [if ?c then _ else _] => destruct c end; simpl; lia. }
  simpl; lia.
Qed.

Lemma decode_width_le bs : (snd (decode bs) <= length bs)%nat.
Proof.
  destruct bs as [|b0 r0]; [simpl; lia|].
  unfold decode, is_cont.
  destruct (zb b0 <? 128); [simpl; lia|].
  destruct (zb b0 <? 194); [simpl; lia|].
  destruct (zb b0 <? 224).
  { destruct r0 as [|b1 r1]; [simpl; lia|].
    destruct ((128 <=? zb b1) && (zb b1 <=? 191)); simpl; lia. }
  destruct (zb b0 <? 240).
  { destruct r0 as [|b1 [|b2 r2]]; try (simpl; lia).
    match goal with |- context [if ?c then _ else _] => destruct c end; simpl; lia. }
  destruct (zb b0 <? 245).
  { destruct r0 as [|b1 [|b2 [|b3 r3]]]; try (simpl; lia).
    match goal with |- context [if ?c then _ else _] => destruct c end; simpl; lia. }
  simpl; lia.
Qed.

(* width 0 iff the input is empty *)
Lemma decode_width_zero bs : snd (decode bs) = 0%nat <-> bs = [].
Proof.
  split.
  - intros H. destruct bs as [|b r]; [reflexivity|].
    assert (Hp := decode_width_pos (b :: r)). assert (b :: r <> []) by congruence.
    specialize (Hp H0). lia.
  - intros ->. reflexivity.
Qed.

(* Round trip: every scalar value's encoding decodes to it, whatever follows. *)
Theorem decode_encode r rest :
  scalar r -> decode (encode r ++ rest) = (r, length (encode r)).
Proof.
  intros Hs. unfold scalar in Hs. unfold encode.
  destruct (Z.ltb_spec r 128).
  { assert (E0 : zb (nb r) = r) by (apply zb_nb; lia).
    cbn [app length]. unfold decode. rewrite E0. split_ifs. reflexivity. }
  destruct (Z.ltb_spec r 2048).
  { assert (E0 : zb (nb (192 + r / 64)) = 192 + r / 64) by (apply zb_nb; lia).
    assert (E1 : zb (nb (128 + r mod 64)) = 128 + r mod 64) by (apply zb_nb; lia).
    cbn [app length]. unfold decode, is_cont. rewrite E0, E1.
    split_ifs. cbn [andb]. f_equal; lia. }
  destruct (Z.ltb_spec r 65536).
  { assert (E0 : zb (nb (224 + r / 4096)) = 224 + r / 4096) by (apply zb_nb; lia).
    assert (E1 : zb (nb (128 + (r / 64) mod 64)) = 128 + (r / 64) mod 64) by (apply zb_nb; lia).
    assert (E2 : zb (nb (128 + r mod 64)) = 128 + r mod 64) by (apply zb_nb; lia).
    cbn [app length]. unfold decode, is_cont. rewrite E0, E1, E2.
    split_ifs; cbn [andb]; f_equal; lia. }
  assert (E0 : zb (nb (240 + r / 262144)) = 240 + r / 262144) by (apply zb_nb; lia).
  assert (E1 : zb (nb (128 + (r / 4096) mod 64)) = 128 + (r / 4096) mod 64) by (apply zb_nb; lia).
  assert (E2 : zb (nb (128 + (r / 64) mod 64)) = 128 + (r / 64) mod 64) by (apply zb_nb; lia).
  assert (E3 : zb (nb (128 + r mod 64)) = 128 + r mod 64) by (apply zb_nb; lia).
  cbn [app length]. unfold decode, is_cont. rewrite E0, E1, E2, E3.
  split_ifs; cbn [andb]; f_equal; lia.
Qed.

Lemma nb_zb b : nb (zb b) = b.
Proof. unfold nb, zb. apply N2Z.id. Qed.

Lemma eq_nb b z : zb b = z -> b = nb z.
Proof. intros <-. symmetry. apply nb_zb. Qed.

(* Whatever decode accepts with width >= 2, or width 1 and a rune other than the
   error rune, is the encoding of a scalar value: overlongs, surrogates, values
   above U+10FFFF, truncated sequences and stray continuation bytes are all rejected. *)
Theorem decode_sound bs r w :
  decode bs = (r, w) -> (w <> 0)%nat -> ~ (r = RuneError /\ w = 1%nat) ->
  scalar r /\ firstn w bs = encode r.
Proof.
  assert (Hbad : forall (r : Z) (w : nat), (RuneError, 1%nat) = (r, w) ->
            ~ (r = RuneError /\ w = 1%nat) -> False).
  { intros r0 w0 E Hn. inversion E; subst. apply Hn; split; reflexivity. }
  destruct bs as [|b0 r0]; [cbn; intros Hdec; inversion Hdec; lia|].
  unfold decode, is_cont, scalar, encode.
  assert (Hb0 := zb_nonneg b0).
  destruct (Z.ltb_spec (zb b0) 128) as [L0|L0].
  { intros Hdec _ _. inversion Hdec; subst. split; [lia|].
    split_ifs. cbn [firstn]. rewrite nb_zb. reflexivity. }
  destruct (Z.ltb_spec (zb b0) 194) as [L1|L1].
  { intros Hdec _ Hn. exfalso; eapply Hbad; eauto. }
  destruct (Z.ltb_spec (zb b0) 224) as [L2|L2].
  { destruct r0 as [|b1 r1]; [intros Hdec _ Hn; exfalso; eapply Hbad; eauto|].
    assert (Hb1 := zb_nonneg b1).
    destruct (Z.leb_spec 128 (zb b1)); destruct (Z.leb_spec (zb b1) 191); cbn [andb];
      intros Hdec _ Hn; try (exfalso; eapply Hbad; eauto; fail).
    inversion Hdec; subst. split; [lia|]. split_ifs. cbn [firstn].
    f_equal; [|f_equal]; apply eq_nb; lia. }
  destruct (Z.ltb_spec (zb b0) 240) as [L3|L3].
  { destruct r0 as [|b1 [|b2 r2]];
      try (intros Hdec _ Hn; exfalso; eapply Hbad; eauto; fail).
    assert (Hb1 := zb_nonneg b1). assert (Hb2 := zb_nonneg b2).
    match goal with |- context [if ?c then _ else _] => destruct c eqn:Hc end;
      intros Hdec _ Hn; try (exfalso; eapply Hbad; eauto; fail).
    inversion Hdec; subst.
    apply andb_true_iff in Hc as [Hc Hc3]. apply andb_true_iff in Hc as [Hc1 Hc2].
    apply andb_true_iff in Hc3 as [Hc3 Hc4].
    destruct (Z.eqb_spec (zb b0) 224); destruct (Z.eqb_spec (zb b0) 237);
      (split; [lia|]); split_ifs; cbn [firstn];
      (f_equal; [|f_equal; [|f_equal]]); apply eq_nb; lia. }
  destruct (Z.ltb_spec (zb b0) 245) as [L4|L4].
  { destruct r0 as [|b1 [|b2 [|b3 r3]]];
      try (intros Hdec _ Hn; exfalso; eapply Hbad; eauto; fail).
    assert (Hb1 := zb_nonneg b1). assert (Hb2 := zb_nonneg b2). assert (Hb3 := zb_nonneg b3).
    match goal with |- context [if ?c then _ else _] => destruct c eqn:Hc end;
      intros Hdec _ Hn; try (exfalso; eapply Hbad; eauto; fail).
    inversion Hdec; subst.
    apply andb_true_iff in Hc as [Hc Hc5]. apply andb_true_iff in Hc as [Hc Hc3].
    apply andb_true_iff in Hc as [Hc1 Hc2].
    apply andb_true_iff in Hc3 as [Hc3 Hc4]. apply andb_true_iff in Hc5 as [Hc5 Hc6].
    destruct (Z.eqb_spec (zb b0) 240); destruct (Z.eqb_spec (zb b0) 244);
      (split; [lia|]); split_ifs; cbn [firstn];
      (f_equal; [|f_equal; [|f_equal; [|f_equal]]]); apply eq_nb; lia. }
  intros Hdec _ Hn. exfalso; eapply Hbad; eauto.
Qed.

(* An invalid byte: the input is non-empty and no prefix is the encoding of a scalar value. *)
Definition invalid_at (bs : bytes) : Prop :=
  bs <> [] /\ forall r rest, scalar r -> bs <> encode r ++ rest.

Theorem decode_invalid_iff bs :
  decode bs = (RuneError, 1%nat) <-> invalid_at bs.
Proof.
  split.
  - intros H. split.
    + intros ->. simpl in H. inversion H.
    + intros r rest Hs ->. rewrite decode_encode in H by assumption.
      inversion H as [[Hr Hl]]. subst r.
      unfold encode, RuneError in Hl. simpl in Hl. discriminate.
  - intros [Hne Hno].
    destruct (decode bs) as [r w] eqn:Hd.
    assert (Hw : (w <> 0)%nat).
    { intros ->. assert (snd (decode bs) = 0%nat) by (rewrite Hd; reflexivity).
      apply decode_width_zero in H. contradiction. }
    destruct (Z.eq_dec r RuneError) as [Hr|Hr]; [destruct (Nat.eq_dec w 1) as [Hw1|Hw1]|].
    + subst. reflexivity.
    + exfalso. destruct (decode_sound bs r w Hd Hw) as [Hs Hf]; [intros [_ ?]; contradiction|].
      apply (Hno r (skipn w bs) Hs). rewrite <- Hf. symmetry. apply firstn_skipn.
    + exfalso. destruct (decode_sound bs r w Hd Hw) as [Hs Hf]; [intros [? _]; contradiction|].
      apply (Hno r (skipn w bs) Hs). rewrite <- Hf. symmetry. apply firstn_skipn.
Qed.

(* A validly encoded U+FFFD has width 3 and is therefore never confused with an invalid byte. *)
Lemma decode_valid_replacement rest :
  decode ([239%N; 191%N; 189%N] ++ rest) = (RuneError, 3%nat).
Proof. reflexivity. Qed.

Lemma decode_nonneg bs : 0 <= fst (decode bs).
Proof.
  destruct bs as [|b0 r0]; [cbn; unfold RuneError; lia|].
  unfold decode, is_cont, RuneError. assert (H0 := zb_nonneg b0).
  destruct (Z.ltb_spec (zb b0) 128); [cbn [andb fst]; lia|].
  destruct (Z.ltb_spec (zb b0) 194); [cbn [andb fst]; lia|].
  destruct (Z.ltb_spec (zb b0) 224).
  { destruct r0 as [|b1 r1]; [cbn [andb fst]; lia|]. assert (H1' := zb_nonneg b1).
    destruct (Z.leb_spec 128 (zb b1)); destruct (Z.leb_spec (zb b1) 191); cbn [andb fst]; lia. }
  destruct (Z.ltb_spec (zb b0) 240).
  { destruct r0 as [|b1 [|b2 r2]]; try (cbn [andb fst]; lia).
    assert (H1' := zb_nonneg b1). assert (H2' := zb_nonneg b2).
    match goal with |- context [if ?c then _ else _] => destruct c eqn:Hc end; [|cbn [andb fst]; lia].
    apply andb_true_iff in Hc as [Hc Hc3]. apply andb_true_iff in Hc as [Hc1 Hc2].
    apply andb_true_iff in Hc3 as [Hc3 Hc4]. cbn [fst].
    destruct (Z.eqb_spec (zb b0) 224); lia. }
  destruct (Z.ltb_spec (zb b0) 245).
  { destruct r0 as [|b1 [|b2 [|b3 r3]]]; try (cbn [andb fst]; lia).
    assert (H1' := zb_nonneg b1). assert (H2' := zb_nonneg b2). assert (H3' := zb_nonneg b3).
    match goal with |- context [if ?c then _ else _] => destruct c eqn:Hc end; [|cbn [andb fst]; lia].
    apply andb_true_iff in Hc as [Hc Hc5]. apply andb_true_iff in Hc as [Hc Hc3].
    apply andb_true_iff in Hc as [Hc1 Hc2].
    apply andb_true_iff in Hc3 as [Hc3 Hc4]. apply andb_true_iff in Hc5 as [Hc5 Hc6]. cbn [fst].
    destruct (Z.eqb_spec (zb b0) 240); lia. }
  cbn [andb fst]; lia.
Qed.
