(* The literal-concatenating pass of the grammar optimizer over the items of a sequence (Model/OptMerge.v, spass)
   preserves what the sequence matches and the text of its value: the value of the optimized sequence is the
   value of the sequence as written with adjacent matched texts joined ("regrouped"); position, state and label
   scope are the same. *)
From PV Require Import Lib.Base Lib.Utf8 Syntax.RGrammar Syntax.Code Model.PState Spec.Pos Model.Runtime Spec.Ref
  Proofs.Determinacy Proofs.OptLaws Model.OptMerge Proofs.OptMergeProofs Proofs.ReadProofs.
From Coq Require Import Bool.
Local Open Scope nat_scope.

(* ---------- values up to joining adjacent texts ---------- *)
Definition push (x : val) (l : list val) : list val :=
  match x, l with
  | VBytes b, VBytes b' :: l' => VBytes (b ++ b') :: l'
  | _, _ => x :: l
  end.

Definition norm (l : list val) : list val := fold_right push [] l.

(* the leaves of a value with adjacent texts joined *)
Definition text_of (v : val) : list val := norm (leaves v).

Lemma push_fold r x n : fold_right push r (push x n) = push x (fold_right push r n).
Proof.
  destruct x as [|b|l|z|s]; try reflexivity.
  destruct n as [|[|b'|l'|z'|s'] n']; try reflexivity.
  cbn [push fold_right].
  destruct (fold_right push r n') as [|[|b''|l''|z''|s''] t]; cbn [push]; try reflexivity.
  rewrite app_assoc. reflexivity.
Qed.

Lemma fold_norm r a : fold_right push r a = fold_right push r (norm a).
Proof.
  induction a as [|x a IH]; [reflexivity|].
  cbn [fold_right norm]. fold (norm a). rewrite push_fold, <- IH. reflexivity.
Qed.

Lemma norm_app a t : norm (a ++ t) = fold_right push (norm t) (norm a).
Proof. unfold norm at 1. rewrite fold_right_app. apply fold_norm. Qed.

Lemma norm_app_congr a a' t t' : norm a = norm a' -> norm t = norm t' -> norm (a ++ t) = norm (a' ++ t').
Proof. intros Ha Ht. rewrite !norm_app, Ha, Ht. reflexivity. Qed.

Lemma norm_two b1 b2 : norm [VBytes b1; VBytes b2] = norm [VBytes (b1 ++ b2)].
Proof. reflexivity. Qed.

Section SeqLaws.
  Variable c : rdata.
  Hypothesis Hbud : o_maxexpr (rO c) = 0%N.
  Hypothesis Hact : forall id x y, ctx_eq x y -> out_eq (ce_act (rE c) id x) (ce_act (rE c) id y).
  Hypothesis Hpred : forall id x y, ctx_eq x y -> out_eq (ce_pred (rE c) id x) (ce_pred (rE c) id y).
  Hypothesis Hstate : forall id x y, ctx_eq x y -> out_eq (ce_state (rE c) id x) (ce_state (rE c) id y).
  Let U := rU c.
  (* the expressions that are not literals, by their place *)
  Variable others : nat -> expr.

  Definition lower_rs (rs : list rune) (ic : bool) : list rune := if ic then map (to_lower U) rs else rs.

  Definition sdenotes (a : item) (e : expr) : Prop :=
    match a, e with
    | ILit rs ic, ELit _ rs' ic' _ => rs' = lower_rs rs ic /\ ic' = ic
    | IOther k, _ => e = others k
    | _, _ => False
    end.

  Definition smk (a : item) : expr :=
    match a with ILit rs ic => ELit 0%N (lower_rs rs ic) ic [] | IOther k => others k end.

  Lemma sdenotes_smk a : sdenotes a (smk a).
  Proof. destruct a; cbn; auto. Qed.

  (* same success/failure, position, state and scope; values equal up to joining adjacent texts *)
  Definition sres_eq (x y : rres) : Prop :=
    match x, y with
    | RFail _, RFail _ => True
    | ROk v g sc _, ROk v' g' sc' _ => text_of v = text_of v' /\ g = g' /\ sc = sc'
    | RPanic pv _ pos R, RPanic pv' _ pos' R' => pv = pv' /\ pos = pos' /\ R = R'
    | ROut, ROut => True
    | _, _ => False
    end.

  Lemma sres_eq_trans x y z : sres_eq x y -> sres_eq y z -> sres_eq x z.
  Proof. destruct x, y, z; cbn; try tauto; intuition congruence. Qed.

  Lemma text_of_VList l : text_of (VList l) = norm (leaves_list l).
  Proof. unfold text_of. rewrite leaves_VList. reflexivity. Qed.

  Section Fuel.
    Variable f : nat.
    Let ev := reval c (S f).

    Lemma ev_hist' : ev_ok ev.
    Proof. apply (outcome_is_history_independent c Hbud Hact Hpred Hstate). Qed.

    Definition SReq (L1 L2 : list expr) : Prop :=
      forall H R inv acc1 acc2 sc g m m', norm (leaves_list (rev acc1)) = norm (leaves_list (rev acc2)) ->
        sres_eq (rseq ev H R inv L1 acc1 sc g m) (rseq ev H R inv L2 acc2 sc g m').

    Lemma SReq_nil : SReq [] [].
    Proof. intros H R inv acc1 acc2 sc g m m' Ha. cbn [rseq sres_eq]. rewrite !text_of_VList. auto. Qed.

    Lemma acc_step v acc1 acc2 : norm (leaves_list (rev acc1)) = norm (leaves_list (rev acc2)) ->
      norm (leaves_list (rev (v :: acc1))) = norm (leaves_list (rev (v :: acc2))).
    Proof. intros Ha. cbn [rev]. rewrite !leaves_list_app. apply norm_app_congr; [exact Ha | reflexivity]. Qed.

    (* the same expression in front of equivalent tails *)
    Lemma SReq_cons e L1 L2 : SReq L1 L2 -> SReq (e :: L1) (e :: L2).
    Proof.
      intros X H R inv acc1 acc2 sc g m m' Ha. cbn [rseq].
      pose proof (ev_hist' H R inv e sc g m m') as Y.
      destruct (ev H R inv e sc g m), (ev H R inv e sc g m'); cbn [res_eq] in Y; try contradiction; cbn [sres_eq]; auto.
      destruct Y as (-> & -> & ->). apply X. apply acc_step. exact Ha.
    Qed.

    (* a literal: what it returns *)
    Lemma lit_outcome n rs ic want H R inv sc g m :
      match ev H R inv (ELit n rs ic want) sc g m with
      | ROk v g' sc' _ => exists o' mm mf, lit_match c R ic rs (g_off g) (tick m) = (Some (o', mm), mf) /\
                                         v = VBytes (slice c (g_off g) o') /\ g' = mkSig o' (g_st g) /\ sc' = sc
      | RFail _ => exists mf, lit_match c R ic rs (g_off g) (tick m) = (None, mf)
      | _ => False
      end.
    Proof.
      subst ev. cbn [reval]. unfold over_budget. rewrite Hbud. cbn [N.eqb negb andb reval_body].
      fold (tick m). destruct (lit_match c R ic rs (g_off g) (tick m)) as [[[o' mm]|] mf]; cbn [term_result]; eauto 8.
    Qed.

    Lemma lit_offsets R ic rs : forall o m o' mm mf, lit_match c R ic rs o m = (Some (o', mm), mf) -> o <= o'.
    Proof.
      induction rs as [|w rs IH]; intros o m o' mm mf Hm; cbn [lit_match] in Hm.
      - injection Hm as <- _ _. lia.
      - unfold step_rune in Hm. destruct (rune_at c o) as [r wd]. destruct (Nat.eqb wd 0); [discriminate|].
        destruct (Z.eqb _ w); [|discriminate]. apply IH in Hm. lia.
    Qed.

    Lemma slice_add a b d : a <= b -> b <= d -> slice c a b ++ slice c b d = slice c a d.
    Proof.
      intros Hab Hbd. unfold slice.
      replace (d - a) with ((b - a) + (d - b)) by lia.
      rewrite <- (firstn_skipn (b - a) (firstn (b - a + (d - b)) (skipn a (rData c)))).
      rewrite firstn_firstn, Nat.min_l by lia. f_equal.
      rewrite skipn_firstn_comm. replace (b - a + (d - b) - (b - a)) with (d - b) by lia.
      rewrite skipn_skipn'. replace (a + (b - a)) with b by lia. reflexivity.
    Qed.

    (* the offsets a literal reaches do not depend on the history *)
    Lemma lit_same R ic rs o m1 m2 :
      match fst (lit_match c R ic rs o m1), fst (lit_match c R ic rs o m2) with
      | Some (o1, _), Some (o2, _) => o1 = o2
      | None, None => True
      | _, _ => False
      end.
    Proof. exact (lit_match_eq c R ic rs o m1 m2). Qed.

    (* two expressions emitted for the same item in front of equivalent tails *)
    Lemma SReq_same a e e' L1 L2 : sdenotes a e -> sdenotes a e' -> SReq L1 L2 -> SReq (e :: L1) (e' :: L2).
    Proof.
      intros Hd Hd' X. destruct a as [rs ic|k]; cbn [sdenotes] in Hd, Hd'.
      - destruct e; try contradiction. destruct e'; try contradiction.
        destruct Hd as [-> ->], Hd' as [-> ->].
        intros H R inv acc1 acc2 sc g m m' Ha. cbn [rseq].
        pose proof (lit_outcome n (lower_rs rs ic) ic want H R inv sc g m) as Y1.
        pose proof (lit_outcome n0 (lower_rs rs ic) ic want0 H R inv sc g m') as Y2.
        pose proof (lit_same R ic (lower_rs rs ic) (g_off g) (tick m) (tick m')) as Z.
        destruct (ev H R inv (ELit n _ ic want) sc g m) as [|v1 g1 s1 m1| |]; try contradiction;
          destruct (ev H R inv (ELit n0 _ ic want0) sc g m') as [|v2 g2 s2 m2| |]; try contradiction; cbn [sres_eq]; auto.
        + destruct Y1 as (mf & E1), Y2 as (o2 & mm2 & mf2 & E2 & _). rewrite E1, E2 in Z. contradiction.
        + destruct Y2 as (mf & E2), Y1 as (o1 & mm1 & mf1 & E1 & _). rewrite E1, E2 in Z. contradiction.
        + destruct Y1 as (o1 & mm1 & mf1 & E1 & -> & -> & ->), Y2 as (o2 & mm2 & mf2 & E2 & -> & -> & ->).
          rewrite E1, E2 in Z. cbn [fst] in Z. subst o2. apply X. apply acc_step. exact Ha.
      - subst e e'. apply SReq_cons. exact X.
    Qed.

    (* two adjacent literals and their concatenation *)
    Lemma SReq_concat n1 n2 nm rs1 rs2 ic w1 w2 wm L1 L2 : SReq L1 L2 ->
      SReq (ELit n1 rs1 ic w1 :: ELit n2 rs2 ic w2 :: L1) (ELit nm (rs1 ++ rs2) ic wm :: L2).
    Proof.
      intros X H R inv acc1 acc2 sc g m m' Ha. cbn [rseq].
      pose proof (lit_outcome n1 rs1 ic w1 H R inv sc g m) as Y1.
      pose proof (lit_outcome nm (rs1 ++ rs2) ic wm H R inv sc g m') as Ym.
      rewrite (lit_match_app c R ic rs1 rs2) in Ym.
      pose proof (lit_same R ic rs1 (g_off g) (tick m) (tick m')) as Z1.
      destruct (ev H R inv (ELit n1 rs1 ic w1) sc g m) as [|v1 g1 s1 m1| |]; try contradiction.
      - (* the first literal fails: so does the concatenation *)
        destruct Y1 as (mf & E1). rewrite E1 in Z1. cbn [fst] in Z1.
        destruct (lit_match c R ic rs1 (g_off g) (tick m')) as [[[oa ma]|] mfa]; cbn [fst] in Z1; try contradiction.
        destruct (ev H R inv (ELit nm (rs1 ++ rs2) ic wm) sc g m') as [|vm gm sm mm| |]; try contradiction; cbn [sres_eq]; auto.
        destruct Ym as (? & ? & ? & Em & _). discriminate.
      - destruct Y1 as (o1 & mm1 & mf1 & E1 & -> & -> & ->). rewrite E1 in Z1. cbn [fst] in Z1.
        destruct (lit_match c R ic rs1 (g_off g) (tick m')) as [[[oa ma]|] mfa] eqn:Ea; cbn [fst] in Z1; try contradiction. subst oa.
        pose proof (lit_outcome n2 rs2 ic w2 H R inv sc (mkSig o1 (g_st g)) m1) as Y2. cbn [g_off g_st] in Y2.
        pose proof (lit_same R ic rs2 o1 (tick m1) ma) as Z2.
        destruct (ev H R inv (ELit n2 rs2 ic w2) sc (mkSig o1 (g_st g)) m1) as [|v2 g2 s2 m2| |]; try contradiction.
        + destruct Y2 as (mf & E2). rewrite E2 in Z2. cbn [fst] in Z2.
          destruct (lit_match c R ic rs2 o1 ma) as [[[ob mb]|] mfb]; cbn [fst] in Z2; try contradiction.
          destruct (ev H R inv (ELit nm (rs1 ++ rs2) ic wm) sc g m') as [|vm gm sm mm| |]; try contradiction; cbn [sres_eq]; auto.
          destruct Ym as (? & ? & ? & Em & _). discriminate.
        + destruct Y2 as (o2 & mm2 & mf2 & E2 & -> & -> & ->). rewrite E2 in Z2. cbn [fst] in Z2.
          destruct (lit_match c R ic rs2 o1 ma) as [[[ob mb]|] mfb] eqn:Eb; cbn [fst] in Z2; try contradiction. subst ob.
          destruct (ev H R inv (ELit nm (rs1 ++ rs2) ic wm) sc g m') as [|vm gm sm mm| |]; try contradiction.
          * destruct Ym as (? & Em). discriminate.
          * destruct Ym as (om & mmm & mfm & Em & -> & -> & ->). injection Em as <- _ _.
            apply X.
            change (rev (VBytes (slice c o1 o2) :: VBytes (slice c (g_off g) o1) :: acc1))
              with ((rev acc1 ++ [VBytes (slice c (g_off g) o1)]) ++ [VBytes (slice c o1 o2)]).
            change (rev (VBytes (slice c (g_off g) o2) :: acc2)) with (rev acc2 ++ [VBytes (slice c (g_off g) o2)]).
            rewrite <- app_assoc. cbn [app].
            rewrite (leaves_list_app (rev acc1)), (leaves_list_app (rev acc2)).
            apply norm_app_congr; [exact Ha|].
            rewrite <- (slice_add (g_off g) o1 o2); [reflexivity | eapply lit_offsets; exact E1 | eapply lit_offsets; exact E2].
    Qed.

    Lemma SReq_trans A B D : SReq A B -> SReq B D -> SReq A D.
    Proof.
      intros X Y H R inv acc1 acc2 sc g m m' Ha.
      eapply sres_eq_trans; [apply (X H R inv acc1 acc1 sc g m m); reflexivity | apply Y; exact Ha].
    Qed.

    Lemma same_SReq : forall l L L', Forall2 sdenotes l L -> Forall2 sdenotes l L' -> SReq L L'.
    Proof.
      induction l as [|a l IHl]; intros L L' HL HL'.
      - inversion HL; subst. inversion HL'; subst. apply SReq_nil.
      - inversion HL; subst. inversion HL'; subst. eapply SReq_same; eauto.
    Qed.

    Lemma lower_rs_app x y ic : lower_rs (x ++ y) ic = lower_rs x ic ++ lower_rs y ic.
    Proof. unfold lower_rs. destruct ic; [apply map_app | reflexivity]. Qed.

    Lemma spass_SReq : forall n rest, length rest <= n -> forall a L L',
      Forall2 sdenotes (a :: rest) L -> Forall2 sdenotes (spass a rest) L' -> SReq L L'.
    Proof.
      induction n as [|n IHn]; intros rest Hlen a L L' HL HL'.
      - destruct rest; [|cbn in Hlen; lia]. cbn [spass] in HL'. eapply same_SReq; eauto.
      - destruct rest as [|x rest'].
        + cbn [spass] in HL'. eapply same_SReq; eauto.
        + cbn [spass] in HL'. cbn [length] in Hlen.
          inversion HL as [|? e1 ? L1 Hd1 HL1]; subst.
          destruct (scombine a x) as [mm|] eqn:Ec.
          * inversion HL1 as [|? e2 ? Lr Hd2 HLr]; subst.
            inversion HL' as [|? em ? Lr' Hdm HLr']; subst.
            unfold scombine in Ec. destruct a as [x0 i0|]; [|discriminate]. destruct x as [y0 i1|]; [|discriminate].
            destruct (Bool.eqb i0 i1) eqn:Ei; [|discriminate]. apply eqb_prop in Ei. subst i1. injection Ec as <-.
            cbn [sdenotes] in Hd1, Hd2, Hdm.
            destruct e1; try contradiction. destruct e2; try contradiction. destruct em; try contradiction.
            destruct Hd1 as [-> ->], Hd2 as [-> ->], Hdm as [-> ->]. rewrite lower_rs_app.
            apply SReq_concat.
            destruct rest' as [|y rest''].
            -- inversion HLr; subst. inversion HLr'; subst. apply SReq_nil.
            -- apply (IHn rest'' ltac:(cbn [length] in Hlen; lia) y); assumption.
          * inversion HL' as [|? e1' ? Lx' Hd1' HLx']; subst.
            eapply SReq_same; eauto.
            apply (IHn rest' ltac:(lia) x); assumption.
    Qed.

    Lemma sdenotes_all l : Forall2 sdenotes l (map smk l).
    Proof. induction l; cbn [map]; constructor; auto using sdenotes_smk. Qed.

    Lemma spass_list_SReq l L L' : Forall2 sdenotes l L -> Forall2 sdenotes (spass_list l) L' -> SReq L L'.
    Proof.
      destruct l as [|a rest]; cbn [spass_list]; intros HL HL'.
      - inversion HL; subst. inversion HL'; subst. apply SReq_nil.
      - eapply spass_SReq; eauto.
    Qed.

    Lemma siter_SReq n : forall l L L', Forall2 sdenotes l L -> Forall2 sdenotes (iter n spass_list l) L' -> SReq L L'.
    Proof.
      induction n as [|n IHn]; intros l L L' HL HL'; cbn [iter] in HL'.
      - eapply same_SReq; eauto.
      - apply (SReq_trans L (map smk (spass_list l)) L').
        + apply (spass_list_SReq l); [exact HL | apply sdenotes_all].
        + apply (IHn (spass_list l)); [apply sdenotes_all | exact HL'].
    Qed.
  End Fuel.

  (* the statement for Ref itself: the sequence before and after the pass *)
  Theorem concat_pass_preserves_sequence l L L' :
    Forall2 sdenotes l L -> Forall2 sdenotes (optimize_seq l) L' ->
    forall f H R inv n n' sc g m,
      sres_eq (reval c (S (S f)) H R inv (ESeq n L) sc g m) (reval c (S (S f)) H R inv (ESeq n' L') sc g m).
  Proof.
    intros HL HL' f H R inv n n' sc g m.
    change (reval c (S (S f)) H R inv (ESeq n L) sc g m) with
      (if over_budget c (u_cnt (tick m)) then RPanic msg_max_expr (tick m) (pos_of (rData c) (g_off g)) R
       else rseq (reval c (S f)) H R inv L [] sc g (tick m)).
    change (reval c (S (S f)) H R inv (ESeq n' L') sc g m) with
      (if over_budget c (u_cnt (tick m)) then RPanic msg_max_expr (tick m) (pos_of (rData c) (g_off g)) R
       else rseq (reval c (S f)) H R inv L' [] sc g (tick m)).
    unfold over_budget. rewrite Hbud. cbn [N.eqb negb andb].
    apply (siter_SReq f (length l) l L L' HL HL'). reflexivity.
  Qed.

  (* a sequence left with one item is replaced by the item: same outcome, the value loses one level of grouping *)
  Theorem single_item e f H R inv n sc g m :
    sres_eq (reval c (S (S f)) H R inv (ESeq n [e]) sc g m) (reval c (S f) H R inv e sc g m).
  Proof.
    change (reval c (S (S f)) H R inv (ESeq n [e]) sc g m) with
      (if over_budget c (u_cnt (tick m)) then RPanic msg_max_expr (tick m) (pos_of (rData c) (g_off g)) R
       else rseq (reval c (S f)) H R inv [e] [] sc g (tick m)).
    unfold over_budget. rewrite Hbud. cbn [N.eqb negb andb rseq].
    pose proof (ev_hist' f H R inv e sc g (tick m) m) as Y.
    destruct (reval c (S f) H R inv e sc g (tick m)), (reval c (S f) H R inv e sc g m); cbn [res_eq] in Y; try contradiction;
      cbn [sres_eq rev app]; auto.
    destruct Y as (-> & -> & ->). split; [|auto].
    rewrite text_of_VList. unfold leaves_list, text_of. cbn [map concat]. rewrite app_nil_r. reflexivity.
  Qed.
End SeqLaws.
