(* Witnesses: with the i flag the table and the general procedure disagree (C15 findings).
   The toy Unicode library below agrees with Go's unicode package on the runes involved
   (ASCII letters, U+212A KELVIN SIGN); the harness replays the witnesses on the real code. *)
From PV Require Import Lib.Base Lib.Utf8 Syntax.RGrammar Syntax.Code Model.PState Spec.Pos Model.Runtime Model.Lower
  Proofs.LatinProofs.
Local Open Scope Z_scope.

Definition toy_ulib : ulib :=
  mkUlib (fun r => if (65 <=? r) && (r <=? 90) then r + 32 else if r =? 8490 then 107 else r)
         (fun r => if (97 <=? r) && (r <=? 122) then r - 32 else r)
         (fun r => (97 <=? r) && (r <=? 122))
         (fun cl r => (* Lu restricted to Basic Latin *) (65 <=? r) && (r <=? 90)).

(* [@-Z]i : the general procedure lower-cases the range ends to @-z and so matches '[' *)
Lemma refuted_range :
  exists r, 0 <= r < 128 /\
    table_decide (basic_latin toy_ulib [] [64; 90] [] true) false r <> slow_decide toy_ulib [] [64; 90] [] true false r.
Proof. exists 91. split; [lia|]. vm_compute. discriminate. Qed.

(* [\p{Lu}]i : the general procedure lower-cases the input rune and misses 'A' *)
Lemma refuted_class :
  exists r, 0 <= r < 128 /\
    table_decide (basic_latin toy_ulib [] [] [[76%N; 117%N]] true) false r <> slow_decide toy_ulib [] [] [[76%N; 117%N]] true false r.
Proof. exists 65. split; [lia|]. vm_compute. discriminate. Qed.

(* [K]i with U+212A KELVIN SIGN: the general procedure folds it to 'k', the table ignores it *)
Lemma refuted_kelvin :
  exists r, 0 <= r < 128 /\
    table_decide (basic_latin toy_ulib [8490] [] [] true) false r <> slow_decide toy_ulib [8490] [] [] true false r.
Proof. exists 107. split; [lia|]. vm_compute. discriminate. Qed.
