(* Laws of the specification: Ref is a PEG semantics with labelled failures, not merely
   a second implementation.  Each law is a statement about Ref alone. *)
From PV Require Import Lib.Base Lib.Utf8 Syntax.RGrammar Syntax.Code Model.PState Spec.Pos Model.Runtime
  Spec.Ref Spec.RefParse.
Local Open Scope nat_scope.

Section Laws.
  Variable c : rdata.
  Variable ev : handlers -> option rule -> bool -> expr -> scope -> rsig -> rmu -> rres.
  Variables (n : nat) (H : handlers) (R : option rule) (inv : bool).

  (* ordered choice commits to the first alternative that matches ... *)
  Lemma alt_first_match a rest sc g m v g' sc' m' :
    ev H R inv a [] g m = ROk v g' sc' m' ->
    ralt ev H R inv (a :: rest) sc g m = ROk v g' sc m'.
  Proof. intros E. cbn. rewrite E. reflexivity. Qed.

  (* ... and tries the next one from the same position and state when it fails *)
  Lemma alt_next a rest sc g m m' :
    ev H R inv a [] g m = RFail m' ->
    ralt ev H R inv (a :: rest) sc g m = ralt ev H R inv rest sc g m'.
  Proof. intros E. cbn. rewrite E. reflexivity. Qed.

  Lemma alt_none sc g m : ralt ev H R inv [] sc g m = RFail m.
  Proof. reflexivity. Qed.

  (* a sequence yields one value per item, in order; any failing item fails the sequence *)
  Lemma seq_values es : forall acc sc g m v g' sc' m',
    rseq ev H R inv es acc sc g m = ROk v g' sc' m' ->
    exists vs, v = VList (rev acc ++ vs) /\ length vs = length es.
  Proof.
    induction es as [|e es IH]; intros acc sc g m v g' sc' m' E; cbn in E.
    - inversion E; subst. exists []. rewrite app_nil_r. auto.
    - destruct (ev H R inv e sc g m) as [m1|v1 g1 sc1 m1|pv1 m1 p1 r1|] eqn:E1; try discriminate.
      destruct (IH _ _ _ _ _ _ _ _ E) as [vs [Hv Hl]]. exists (v1 :: vs). cbn in Hv. rewrite <- app_assoc in Hv.
      split; [exact Hv | cbn; lia].
  Qed.

  Lemma seq_fail e es acc sc g m m' :
    ev H R inv e sc g m = RFail m' -> rseq ev H R inv (e :: es) acc sc g m = RFail m'.
  Proof. intros E. cbn. rewrite E. reflexivity. Qed.

  (* greedy repetition: star(e) = opt(seq(e, star(e))), unfolded *)
  Lemma rep_unfold_ok k e acc g m v g' sc' m' :
    ev H R inv e [] g m = ROk v g' sc' m' ->
    rrep ev H R inv (S k) e acc g m = rrep ev H R inv k e (v :: acc) g' m'.
  Proof. intros E. cbn. rewrite E. reflexivity. Qed.

  Lemma rep_unfold_stop k e acc g m m' :
    ev H R inv e [] g m = RFail m' ->
    rrep ev H R inv (S k) e acc g m = RepDone (rev acc) g m'.
  Proof. intros E. cbn. rewrite E. reflexivity. Qed.

  (* one value per iteration *)
  Lemma rep_values e : forall k acc g m vs g' m',
    rrep ev H R inv k e acc g m = RepDone vs g' m' -> exists ws, vs = rev acc ++ ws.
  Proof.
    induction k as [|k IH]; intros acc g m vs g' m' E; cbn in E; [discriminate|].
    destruct (ev H R inv e [] g m) as [m1|v1 g1 sc1 m1|pv1 m1 p1 r1|] eqn:E1; try discriminate.
    - inversion E; subst. exists []. rewrite app_nil_r. reflexivity.
    - destruct (IH _ _ _ _ _ _ E) as [ws Hw]. exists (v1 :: ws). cbn in Hw. rewrite <- app_assoc in Hw. exact Hw.
  Qed.

  (* predicates consume nothing and return nil; the store is the one before the predicate *)
  Lemma and_consumes_nothing nid e sc g m v g' sc' m' :
    reval_body c ev n H R inv (EAnd nid e) sc g m = ROk v g' sc' m' -> v = VNil /\ g' = g /\ sc' = sc.
  Proof. cbn. destruct (ev H R inv e [] g m); intros E; inversion E; auto. Qed.

  Lemma not_consumes_nothing nid e sc g m v g' sc' m' :
    reval_body c ev n H R inv (ENot nid e) sc g m = ROk v g' sc' m' -> v = VNil /\ g' = g /\ sc' = sc.
  Proof. cbn. destruct (ev H R (negb inv) e [] g m); intros E; inversion E; auto. Qed.

  Lemma not_inverts nid e sc g m :
    (forall v g' sc' m', ev H R (negb inv) e [] g m = ROk v g' sc' m' ->
        reval_body c ev n H R inv (ENot nid e) sc g m = RFail m') /\
    (forall m', ev H R (negb inv) e [] g m = RFail m' ->
        reval_body c ev n H R inv (ENot nid e) sc g m = ROk VNil g sc m').
  Proof. split; intros; cbn; rewrite H0; reflexivity. Qed.

  (* e? : the value or nil, never fails *)
  Lemma opt_never_fails nid e sc g m m' :
    reval_body c ev n H R inv (EOpt nid e) sc g m <> RFail m'.
  Proof. cbn. destruct (ev H R inv e [] g m); discriminate. Qed.

  (* terminals return exactly the matched input bytes and advance by their length *)
  Lemma any_value nid sc g m v g' sc' m' :
    reval_body c ev n H R inv (EAny nid) sc g m = ROk v g' sc' m' ->
    v = VBytes (slice c (g_off g) (g_off g')) /\ g_st g' = g_st g /\ sc' = sc /\ g_off g < g_off g'.
  Proof.
    cbn. unfold term_result, step_rune. destruct (rune_at c (g_off g)) as [r w].
    destruct (Nat.eqb_spec w 0); intros E; inversion E; subst; cbn. repeat split; auto. lia.
  Qed.

  Lemma cls_value nid cv chars ranges classes ic cinv tb sc g m v g' sc' m' :
    reval_body c ev n H R inv (ECls nid cv chars ranges classes ic cinv tb) sc g m = ROk v g' sc' m' ->
    v = VBytes (slice c (g_off g) (g_off g')) /\ g_st g' = g_st g /\ sc' = sc /\
    class_decide (rU c) chars ranges classes ic cinv (fst (rune_at c (g_off g))) = true.
  Proof.
    cbn. unfold term_result, step_rune. destruct (rune_at c (g_off g)) as [r w].
    destruct (Nat.eqb_spec w 0); [intros E; inversion E|].
    destruct (class_decide (rU c) chars ranges classes ic cinv r) eqn:Ed; intros E; inversion E; subst; cbn; auto.
  Qed.

  (* a label binds the value of its expression in the current scope *)
  Lemma lab_binds nid l e sc g m v g' sc' m' :
    reval_body c ev n H R inv (ELab nid l e) sc g m = ROk v g' sc' m' ->
    sc' = bind_scope l v sc.
  Proof. cbn. destruct (ev H R inv e [] g m); intros E; inversion E; auto. Qed.

  (* an action sees the matched text, the start position, the labels of its scope, and
     its state changes are discarded *)
  Lemma act_context nid id e sc g m g1 sc1 m1 v0 :
    ev H R inv e sc g m = ROk v0 g1 sc1 m1 ->
    let x := block_ctx_ref c id (slice c (g_off g) (g_off g1)) (pos_of (rData c) (g_off g)) sc1 g1 m1 in
    match ce_act (rE c) id x with
    | CbRet r err st' gs' =>
        exists m2, reval_body c ev n H R inv (EAct nid id e) sc g m = ROk r g1 sc1 m2 /\ u_gs m2 = gs'
    | CbPanic pv st' gs' =>
        exists m2, reval_body c ev n H R inv (EAct nid id e) sc g m = RPanic pv m2 (pos_of (rData c) (g_off g1)) R
    end.
  Proof.
    intros E. cbn. rewrite E. unfold run_block.
    destruct (ce_act (rE c) id _) as [r [msg|] st' gs'|pv st' gs']; cbn; eexists; split; reflexivity || auto.
  Qed.

  (* state-change blocks: the new store is kept *)
  Lemma stc_keeps_state nid id sc g m :
    let x := block_ctx_ref c id [] (pos_of (rData c) (g_off g)) sc g m in
    forall r err st' gs', ce_state (rE c) id x = CbRet r err st' gs' ->
    exists m2, reval_body c ev n H R inv (EStC nid id) sc g m = ROk VNil (mkSig (g_off g) st') sc m2.
  Proof. intros x r err st' gs' E. cbn. unfold run_block. fold x. rewrite E. eexists. reflexivity. Qed.

  (* labelled failures: throw runs the innermost handler listing the label ... *)
  Lemma throw_innermost l ls rc hs sc g m v g' sc' m' :
    mem_bytes l ls = true -> ev H R inv rc [] g m = ROk v g' sc' m' ->
    rthrow ev H R inv l ((ls, rc) :: hs) sc g m = ROk v g' sc m'.
  Proof. intros Hm E. cbn. rewrite Hm, E. reflexivity. Qed.

  (* ... falls through to the next enclosing one when the recovery expression fails ... *)
  Lemma throw_fallthrough l ls rc hs sc g m m' :
    mem_bytes l ls = true -> ev H R inv rc [] g m = RFail m' ->
    rthrow ev H R inv l ((ls, rc) :: hs) sc g m = rthrow ev H R inv l hs sc g m'.
  Proof. intros Hm E. cbn. rewrite Hm, E. reflexivity. Qed.

  Lemma throw_skips_other_labels l ls rc hs sc g m :
    mem_bytes l ls = false ->
    rthrow ev H R inv l ((ls, rc) :: hs) sc g m = rthrow ev H R inv l hs sc g m.
  Proof. intros Hm. cbn. rewrite Hm. reflexivity. Qed.

  (* ... and is an ordinary failure when no handler is in force *)
  Lemma throw_unhandled l sc g m : rthrow ev H R inv l [] sc g m = RFail m.
  Proof. reflexivity. Qed.

  (* handlers are in force exactly while the guarded expression is evaluated *)
  Lemma rec_scopes_handler nid e rc ls sc g m :
    reval_body c ev n H R inv (ERec nid e rc ls) sc g m = ev ((ls, rc) :: H) R inv e sc g m.
  Proof. reflexivity. Qed.

  Lemma throw_uses_current_handlers nid l sc g m :
    reval_body c ev n H R inv (EThrow nid l) sc g m = rthrow ev H R inv l H sc g m.
  Proof. reflexivity. Qed.
End Laws.
