(* Refinement: the run-time model (mutation + explicit restore) simulates the
   value-passing specification Ref, by induction on fuel over all 18 kinds.
   Scope of this theorem: Memoize off, no left-recursive rules, a template with a
   state store.  The hypotheses name exactly the quirks of the pinned tree:
   literal U+FFFD at EOF, stale predicate context, recovery-expression scope. *)
From PV Require Import Lib.Base Lib.Utf8 Syntax.RGrammar Syntax.Code Model.PState Spec.Pos Model.Runtime
  Spec.Ref Spec.RefParse Proofs.Utf8Proofs Proofs.ReadProofs Proofs.PosProofs Proofs.Inv Proofs.InvStep.
From Coq Require Import ZifyBool ZifyN ZifyNat.
Local Open Scope nat_scope.

Section Sim.
  Variable c : cfg.
  Let d := cData c.

  (* ---------- static conditions on expressions ---------- *)
  Definition lit_ok (rs : list rune) (ic : bool) : Prop :=
    q_lit_eof (cQ c) = false \/ ~ In (if ic then to_lower (cU c) RuneError else RuneError) rs.

  Definition table_ok (chars ranges : list rune) (classes : list bytes) (ic inv : bool) (table : list bool) : Prop :=
    t_basiclatin (cT c) = false \/
    forall r, (0 <= r < 128)%Z ->
      negb (Bool.eqb (nth (Z.to_nat r) table false) inv) = class_decide (cU c) chars ranges classes ic inv r.

  (* expressions whose evaluation neither reads nor writes the current label scope *)
  Definition scope_closed (e : expr) : bool :=
    match e with
    | ELit _ _ _ _ | ECls _ _ _ _ _ _ _ _ | EAny _ | EAlt _ _ | EStar _ _ | EPlus _ _
    | EOpt _ _ | EAnd _ _ | ENot _ _ | ERef _ _ => true
    | _ => false
    end.

  Definition rc_ok (rc : expr) : Prop := q_recover_scope (cQ c) = false \/ scope_closed rc = true.

  Fixpoint wf_e (e : expr) : Prop :=
    match e with
    | ELit _ rs ic _ => lit_ok rs ic
    | ECls _ _ chars ranges classes ic inv table => table_ok chars ranges classes ic inv table
    | ESeq _ es | EAlt _ es => (fix all (l : list expr) := match l with [] => True | x :: l' => wf_e x /\ all l' end) es
    | EStar _ e' | EPlus _ e' | EOpt _ e' | EAnd _ e' | ENot _ e' | ELab _ _ e' | EAct _ _ e' => wf_e e'
    | ERec _ e' rc _ => wf_e e' /\ wf_e rc /\ rc_ok rc
    | EStC _ _ => has_state (cT c) = true       (* the builder sets GlobalState when a state block exists *)
    | _ => True
    end.

  Fixpoint wf_list (l : list expr) : Prop := match l with [] => True | x :: l' => wf_e x /\ wf_list l' end.

  Lemma wf_seq n es : wf_e (ESeq n es) <-> wf_list es.
  Proof. cbn. induction es; cbn; tauto. Qed.
  Lemma wf_alt n es : wf_e (EAlt n es) <-> wf_list es.
  Proof. cbn. induction es; cbn; tauto. Qed.

  Definition H_wf (H : handlers) : Prop := Forall (fun h => wf_e (snd h) /\ rc_ok (snd h)) H.
  Definition G_wf : Prop := Forall (fun r => wf_e (r_expr r) /\ r_leftrec r = false) (cG c).

  (* blocks whose result does not depend on c.text / c.pos *)
  Definition ctx_eqv (k : bkind) (x y : ctx) : Prop :=
    match k with
    | KAct => x = y
    | _ => c_args x = c_args y /\ c_state x = c_state y /\ c_gstore x = c_gstore y
    end.

  Definition env_ctxfree : Prop :=
    (forall id x y, ctx_eqv KAnd x y -> ce_pred (cE c) id x = ce_pred (cE c) id y) /\
    (forall id x y, ctx_eqv KState x y -> ce_state (cE c) id x = ce_state (cE c) id y).

  (* blocks that never change the state store (in a template without a store the Go
     compiler enforces this: the field does not exist) *)
  Definition out_st_same {A} (o : cbout A) (x : ctx) : Prop :=
    match o with CbRet _ _ st' _ | CbPanic _ st' _ => st' = c_state x end.

  Definition env_state_free : Prop :=
    (forall id x, out_st_same (ce_act (cE c) id x) x) /\
    (forall id x, out_st_same (ce_pred (cE c) id x) x) /\
    (forall id x, out_st_same (ce_state (cE c) id x) x).

  Definition state_ok : Prop := has_state (cT c) = true \/ (has_state (cT c) = false /\ env_state_free).

  Definition stale_ok : Prop := q_stale_ctx (cQ c) = false \/ env_ctxfree.

  Definition ev_eqv (a b : event) : Prop :=
    ev_kind a = ev_kind b /\ ev_cid a = ev_cid b /\ ctx_eqv (ev_kind a) (ev_ctx a) (ev_ctx b).

  (* ---------- the incremental farthest-failure bookkeeping, as a fold over the relevant terminals ---------- *)
  Definition mf_step (acc : position * list bytes) (t : position * bytes * bool) : position * list bytes :=
    let '(mp, me) := acc in
    let '(pos, want, inv) := t in
    if offset pos <? offset mp then acc
    else
      let '(mp1, me1) := if offset mp <? offset pos then (pos, []) else (mp, me) in
      (mp1, me1 ++ [if inv then b_bang ++ want else want]).

  Definition mf_fold (ts : list (position * bytes * bool)) : position * list bytes :=
    fold_left mf_step ts (mkPos 1 1 0, []).

  (* ---------- the simulation relation ---------- *)
  Record Sim (s : pstate) (sc : scope) (g : rsig) (m : rmu) (H : handlers) (R : option rule) (inv : bool) : Prop := mkSim {
    S_reach : reach d (pt s);
    S_off : cur_off s = g_off g;
    S_st : st s = g_st g;
    S_gs : gs s = u_gs m;
    S_errs : errs s = errs_of_log c (u_log m);
    S_trace : Forall2 ev_eqv (trace s) (blocks_of_log (u_log m));
    S_mf : (maxFailPos s, maxFailExpected s) = mf_fold (relevant_terms (u_log m));
    S_cnt : exprCnt s = u_cnt m;
    S_top : exists vs, vstack s = sc :: vs;
    S_rcv : rcvstack s = H;
    S_rule : hd_error (rstack s) = R;
    S_inv : maxFailInvert s = inv
  }.

  Record SimP (s : pstate) (m : rmu) (pos : position) (R : option rule) : Prop := mkSimP {
    P_pos : sp_pos (pt s) = pos;
    P_gs : gs s = u_gs m;
    P_errs : errs s = errs_of_log c (u_log m);
    P_trace : Forall2 ev_eqv (trace s) (blocks_of_log (u_log m));
    P_cnt : exprCnt s = u_cnt m;
    P_rule : hd_error (rstack s) = R
  }.

  Definition sim_res (sc : scope) (g : rsig) (H : handlers) (R : option rule) (inv : bool)
             (ri : Res (val * bool)) (rr : rres) : Prop :=
    match ri, rr with
    | Ok (v, true) s', ROk v' g' sc' m' => v = v' /\ Sim s' sc' g' m' H R inv
    | Ok (v, false) s', RFail m' => v = VNil /\ exists sc', Sim s' sc' g m' H R inv
    | Panic pv s', RPanic pv' m' pos R' => pv = pv' /\ SimP s' m' pos R'
    | OutOfFuel, ROut => True
    | _, _ => False
    end.

  Definition sim_spec (wrap : expr -> M (val * bool))
             (ev : handlers -> option rule -> bool -> expr -> scope -> rsig -> rmu -> rres) : Prop :=
    forall e s sc g m H R inv, wf_e e -> H_wf H -> I c s -> Sim s sc g m H R inv ->
      sim_res sc g H R inv (wrap e s) (ev H R inv e sc g m).

  (* ---------- basic facts ---------- *)
  Lemma Sim_pos s sc g m H R inv : Sim s sc g m H R inv -> sp_pos (pt s) = pos_of d (g_off g).
  Proof.
    intros S. rewrite <- (S_off _ _ _ _ _ _ _ S). unfold cur_off. apply reach_pos_of. apply S.
  Qed.

  Lemma err_prefix_ref pos s : err_prefix c pos s = ref_prefix c pos (hd_error (rstack s)).
  Proof. unfold err_prefix, ref_prefix; cbn [rd rData rU rO rG rE]. destruct (rstack s); reflexivity. Qed.

  Lemma Sim_to_P s sc g m H R inv : Sim s sc g m H R inv -> SimP s m (pos_of d (g_off g)) R.
  Proof. intros S. constructor; try apply S. eapply Sim_pos; eauto. Qed.
End Sim.
