(* The unary invariant of the run-time model, by induction on fuel over all 18
   expression kinds (DESIGN.md 3.6, parseExpr_inv).  From it follow:
   - C01: an expression that fails consumes nothing;
   - C02: (rn, w, cached suffix) of the save point are a function of the offset;
   - C05: failure restores the state store (when the template has one);
   - C11: the error list only grows;   C16: the expression counter obeys the budget;
   - the variable / rule / recovery stacks are balanced. *)
From PV Require Import Lib.Base Lib.Utf8 Syntax.RGrammar Syntax.Code Model.PState Spec.Pos Model.Runtime
  Proofs.Utf8Proofs Proofs.ReadProofs.
From Coq Require Import ZifyBool ZifyN ZifyNat.
Local Open Scope nat_scope.

Section Inv.
  Variable c : cfg.

  Definition entry_ok (en : nat * mkey * rtuple) : Prop :=
    let '(o, _, r) := en in
    sp_ok (cData c) (rt_end r) /\
    (rt_b r = false -> offset (sp_pos (rt_end r)) = o) /\
    o <= offset (sp_pos (rt_end r)).

  Definition memo_ok (m : list (nat * mkey * rtuple)) : Prop := Forall entry_ok m.

  Definition cnt_ok (s : pstate) : Prop :=
    o_maxexpr (cO c) = 0%N \/ (exprCnt s <= o_maxexpr (cO c))%N.

  Record I (s : pstate) : Prop := mkI {
    I_pt : sp_ok (cData c) (pt s);
    I_memo : memo_ok (memo s);
    I_cnt : cnt_ok s
  }.

  (* monotone components: survive failure and backtracking *)
  Record Mono (s s' : pstate) : Prop := mkMono {
    M_errs : exists l, errs s' = errs s ++ l;
    M_cnt : (exprCnt s <= exprCnt s')%N;
    M_trace : exists l, trace s' = l ++ trace s;
    M_mf : offset (maxFailPos s) <= offset (maxFailPos s')
  }.

  (* balanced components *)
  Record Frame (s s' : pstate) : Prop := mkFrame {
    F_vtl : tl (vstack s') = tl (vstack s);
    F_vlen : length (vstack s') = length (vstack s);
    F_rstack : rstack s' = rstack s;
    F_rcv : rcvstack s' = rcvstack s;
    F_inv : maxFailInvert s' = maxFailInvert s
  }.

  Definition Post (s : pstate) (b : bool) (s' : pstate) : Prop :=
    I s' /\ Mono s s' /\ Frame s s' /\ cur_off s <= cur_off s' /\
    (b = false -> cur_off s' = cur_off s /\ (has_state (cT c) = true -> st s' = st s)).

  Definition PostP (s s' : pstate) : Prop :=
    Mono s s' /\ (o_maxexpr (cO c) = 0%N \/ (exprCnt s' <= o_maxexpr (cO c) + 1)%N).

  Definition res_spec (s : pstate) (r : Res (val * bool)) : Prop :=
    match r with
    | Ok (_, b) s' => Post s b s'
    | Panic _ s' => PostP s s'
    | OutOfFuel => True
    end.

  Definition wrap_spec (wrap : expr -> M (val * bool)) : Prop :=
    forall e s, I s -> res_spec s (wrap e s).

  (* ---------- Mono / Frame algebra ---------- *)
  Lemma Mono_refl s : Mono s s.
  Proof. constructor; try lia; exists []; [rewrite app_nil_r|]; reflexivity. Qed.

  Lemma Mono_trans a b d : Mono a b -> Mono b d -> Mono a d.
  Proof.
    intros [[l1 H1] H2 [t1 H3] H4] [[l2 H5] H6 [t2 H7] H8]. constructor; try lia.
    - exists (l1 ++ l2). rewrite H5, H1, app_assoc. reflexivity.
    - exists (t2 ++ t1). rewrite H7, H3, app_assoc. reflexivity.
  Qed.

  Lemma Frame_refl s : Frame s s.
  Proof. constructor; reflexivity. Qed.

  Lemma Frame_trans a b d : Frame a b -> Frame b d -> Frame a d.
  Proof. intros [] []. constructor; congruence. Qed.

  (* states that agree on the monotone fields *)
  Definition same_mono (s s' : pstate) : Prop :=
    errs s' = errs s /\ exprCnt s' = exprCnt s /\ trace s' = trace s /\ maxFailPos s' = maxFailPos s.

  Lemma same_mono_Mono s s' : same_mono s s' -> Mono s s'.
  Proof.
    intros (H1 & H2 & H3 & H4). constructor.
    - exists []. rewrite app_nil_r. assumption.
    - lia.
    - exists []. assumption.
    - rewrite H4. lia.
  Qed.

  (* ---------- primitives ---------- *)
  Lemma restore_off p s : cur_off (restore p s) = offset (sp_pos p).
  Proof. unfold restore, cur_off. destruct (Nat.eqb_spec (offset (sp_pos p)) (offset (sp_pos (pt s)))); cbn; auto. Qed.

  Lemma restore_pt_ok p s : sp_ok (cData c) p -> sp_ok (cData c) (pt s) -> sp_ok (cData c) (pt (restore p s)).
  Proof. unfold restore. destruct (Nat.eqb _ _); cbn; auto. Qed.

  Lemma restore_other p s :
    errs (restore p s) = errs s /\ exprCnt (restore p s) = exprCnt s /\ trace (restore p s) = trace s /\
    maxFailPos (restore p s) = maxFailPos s /\ vstack (restore p s) = vstack s /\ rstack (restore p s) = rstack s /\
    rcvstack (restore p s) = rcvstack s /\ maxFailInvert (restore p s) = maxFailInvert s /\
    memo (restore p s) = memo s /\ st (restore p s) = st s /\ gs (restore p s) = gs s.
  Proof. unfold restore. destruct (Nat.eqb _ _); cbn; repeat split; reflexivity. Qed.

  Lemma failAt_other f p w s :
    errs (failAt f p w s) = errs s /\ exprCnt (failAt f p w s) = exprCnt s /\ trace (failAt f p w s) = trace s /\
    vstack (failAt f p w s) = vstack s /\ rstack (failAt f p w s) = rstack s /\
    rcvstack (failAt f p w s) = rcvstack s /\ maxFailInvert (failAt f p w s) = maxFailInvert s /\
    memo (failAt f p w s) = memo s /\ st (failAt f p w s) = st s /\ gs (failAt f p w s) = gs s /\
    pt (failAt f p w s) = pt s /\
    offset (maxFailPos s) <= offset (maxFailPos (failAt f p w s)).
  Proof.
    unfold failAt. destruct (Bool.eqb f (maxFailInvert s)); [|repeat split; auto].
    destruct (Nat.ltb_spec (offset p) (offset (maxFailPos s))); [repeat split; auto|].
    destruct (Nat.ltb_spec (offset (maxFailPos s)) (offset p)); cbn; repeat split; auto; lia.
  Qed.

  Lemma failAt_Mono f p w s : Mono s (failAt f p w s).
  Proof.
    destruct (failAt_other f p w s) as (H1 & H2 & H3 & _ & _ & _ & _ & _ & _ & _ & _ & H4).
    constructor; [exists []; rewrite app_nil_r; auto | lia | exists []; auto | auto].
  Qed.

  Lemma failAt_Frame f p w s : Frame s (failAt f p w s).
  Proof.
    destruct (failAt_other f p w s) as (_ & _ & _ & H1 & H2 & H3 & H4 & _).
    constructor; congruence.
  Qed.

  Lemma failAt_I f p w s : I s -> I (failAt f p w s).
  Proof.
    destruct (failAt_other f p w s) as (_ & H2 & _ & _ & _ & _ & _ & H8 & _ & _ & H11 & _).
    intros [A B C]. constructor; [rewrite H11; auto | rewrite H8; auto |].
    unfold cnt_ok in *. rewrite H2. auto.
  Qed.

  Lemma failAt_off f p w s : cur_off (failAt f p w s) = cur_off s.
  Proof. unfold cur_off. destruct (failAt_other f p w s) as (_ & _ & _ & _ & _ & _ & _ & _ & _ & _ & H & _). rewrite H. reflexivity. Qed.

  Lemma failAt_st f p w s : st (failAt f p w s) = st s.
  Proof. apply failAt_other. Qed.

  Lemma addErrAt_other m p ex s :
    errs (addErrAt c m p ex s) = errs s ++ [mkPerr m p (err_prefix c p s) ex] /\
    exprCnt (addErrAt c m p ex s) = exprCnt s /\ trace (addErrAt c m p ex s) = trace s /\
    maxFailPos (addErrAt c m p ex s) = maxFailPos s /\ vstack (addErrAt c m p ex s) = vstack s /\
    rstack (addErrAt c m p ex s) = rstack s /\ rcvstack (addErrAt c m p ex s) = rcvstack s /\
    maxFailInvert (addErrAt c m p ex s) = maxFailInvert s /\ memo (addErrAt c m p ex s) = memo s /\
    st (addErrAt c m p ex s) = st s /\ gs (addErrAt c m p ex s) = gs s /\ pt (addErrAt c m p ex s) = pt s.
  Proof. unfold addErrAt. cbn. repeat split; reflexivity. Qed.

  Lemma addErrAt_Mono m p ex s : Mono s (addErrAt c m p ex s).
  Proof. unfold addErrAt. constructor; cbn; [eexists; reflexivity | lia | exists []; reflexivity | lia]. Qed.

  Lemma addErrAt_Frame m p ex s : Frame s (addErrAt c m p ex s).
  Proof. unfold addErrAt. constructor; reflexivity. Qed.

  Lemma addErrAt_I m p ex s : I s -> I (addErrAt c m p ex s).
  Proof. intros [A B C]. unfold addErrAt. constructor; cbn; auto. Qed.

  Lemma read_other s :
    exprCnt (read c s) = exprCnt s /\ trace (read c s) = trace s /\
    maxFailPos (read c s) = maxFailPos s /\ vstack (read c s) = vstack s /\
    rstack (read c s) = rstack s /\ rcvstack (read c s) = rcvstack s /\
    maxFailInvert (read c s) = maxFailInvert s /\ memo (read c s) = memo s /\
    st (read c s) = st s /\ gs (read c s) = gs s /\ (exists l, errs (read c s) = errs s ++ l).
  Proof.
    unfold read.
    destruct (Z.eqb _ RuneError && Nat.eqb _ 1); [destruct (o_allowinvalid (cO c))|];
      cbn; repeat split; try reflexivity; try (exists []; rewrite app_nil_r; reflexivity).
    eexists; reflexivity.
  Qed.

  Lemma read_Mono s : Mono s (read c s).
  Proof.
    destruct (read_other s) as (H1 & H2 & H3 & _ & _ & _ & _ & _ & _ & _ & H4).
    constructor; [auto | lia | exists []; auto | rewrite H3; lia].
  Qed.

  Lemma read_Frame s : Frame s (read c s).
  Proof.
    destruct (read_other s) as (_ & _ & _ & H1 & H2 & H3 & H4 & _).
    constructor; congruence.
  Qed.

  Lemma read_I s : I s -> I (read c s).
  Proof.
    intros [A B C]. pose proof (sp_ok_width _ _ A) as Hw. destruct A as (A1 & A2 & A3).
    destruct (read_other s) as (H1 & _ & _ & _ & _ & _ & _ & H8 & _).
    constructor; [apply read_sp_ok; auto | rewrite H8; auto | unfold cnt_ok in *; rewrite H1; auto].
  Qed.

  Lemma read_off s : cur_off (read c s) = cur_off s + sp_w (pt s).
  Proof. unfold cur_off. apply (read_pt c s). Qed.
End Inv.
