(* Why a result may be remembered: in the specification, with code blocks that look only at
   text, pos, their labels and the state store (not at the global store), and without an
   expression budget, the outcome of evaluating an expression - success or failure, value, end
   position and state, label scope - is a function of (handlers, rule, expression, scope, start
   position and state) alone: it does not depend on what was evaluated before (log, counters,
   global store).  This is the soundness principle behind Memoize (C06). *)
From PV Require Import Lib.Base Lib.Utf8 Syntax.RGrammar Syntax.Code Model.PState Spec.Pos Model.Runtime Spec.Ref.
Local Open Scope nat_scope.

Section Determinacy.
  Variable c : rdata.
  Hypothesis Hbud : o_maxexpr (rO c) = 0%N.

  (* contexts that differ at most in the global store *)
  Definition ctx_eq (x y : ctx) : Prop :=
    c_text x = c_text y /\ c_pos x = c_pos y /\ c_args x = c_args y /\ c_state x = c_state y.

  Definition out_eq {A} (a b : cbout A) : Prop :=
    match a, b with
    | CbRet r e st _, CbRet r' e' st' _ => r = r' /\ e = e' /\ st = st'
    | CbPanic pv st _, CbPanic pv' st' _ => pv = pv' /\ st = st'
    | _, _ => False
    end.

  Hypothesis Hact : forall id x y, ctx_eq x y -> out_eq (ce_act (rE c) id x) (ce_act (rE c) id y).
  Hypothesis Hpred : forall id x y, ctx_eq x y -> out_eq (ce_pred (rE c) id x) (ce_pred (rE c) id y).
  Hypothesis Hstate : forall id x y, ctx_eq x y -> out_eq (ce_state (rE c) id x) (ce_state (rE c) id y).

  Definition res_eq (a b : rres) : Prop :=
    match a, b with
    | RFail _, RFail _ => True
    | ROk v g sc _, ROk v' g' sc' _ => v = v' /\ g = g' /\ sc = sc'
    | RPanic pv _ pos R, RPanic pv' _ pos' R' => pv = pv' /\ pos = pos' /\ R = R'
    | ROut, ROut => True
    | _, _ => False
    end.

  Definition rep_eq (a b : rrepres) : Prop :=
    match a, b with
    | RepDone vs g _, RepDone vs' g' _ => vs = vs' /\ g = g'
    | RepPanic pv _ pos R, RepPanic pv' _ pos' R' => pv = pv' /\ pos = pos' /\ R = R'
    | RepOut, RepOut => True
    | _, _ => False
    end.

  Definition ev_ok (ev : handlers -> option rule -> bool -> expr -> scope -> rsig -> rmu -> rres) : Prop :=
    forall H R inv e sc g m1 m2, res_eq (ev H R inv e sc g m1) (ev H R inv e sc g m2).

  Section Step.
    Variable ev : handlers -> option rule -> bool -> expr -> scope -> rsig -> rmu -> rres.
    Hypothesis IH : ev_ok ev.

    Ltac use_ih H R inv e sc g m1 m2 :=
      let X := fresh "X" in
      pose proof (IH H R inv e sc g m1 m2) as X;
      destruct (ev H R inv e sc g m1), (ev H R inv e sc g m2); cbn [res_eq] in X; try contradiction.

    Lemma rseq_eq H R inv es : forall acc sc g m1 m2, res_eq (rseq ev H R inv es acc sc g m1) (rseq ev H R inv es acc sc g m2).
    Proof.
      induction es as [|e es IHes]; intros acc sc g m1 m2; cbn [rseq].
      - cbn. auto.
      - use_ih H R inv e sc g m1 m2; cbn [res_eq]; auto.
        destruct X as [-> [-> ->]]. apply IHes.
    Qed.

    Lemma ralt_eq H R inv es : forall sc g m1 m2, res_eq (ralt ev H R inv es sc g m1) (ralt ev H R inv es sc g m2).
    Proof.
      induction es as [|e es IHes]; intros sc g m1 m2; cbn [ralt].
      - cbn. auto.
      - use_ih H R inv e (@nil (label * val)) g m1 m2; cbn [res_eq]; auto.
        destruct X as [-> [-> _]]. auto.
    Qed.

    Lemma rrep_eq H R inv e n : forall acc g m1 m2, rep_eq (rrep ev H R inv n e acc g m1) (rrep ev H R inv n e acc g m2).
    Proof.
      induction n as [|n IHn]; intros acc g m1 m2; cbn [rrep].
      - cbn. auto.
      - use_ih H R inv e (@nil (label * val)) g m1 m2; cbn [rep_eq]; auto.
        destruct X as [-> [-> _]]. apply IHn.
    Qed.

    Lemma rthrow_eq H R inv l hs : forall sc g m1 m2, res_eq (rthrow ev H R inv l hs sc g m1) (rthrow ev H R inv l hs sc g m2).
    Proof.
      induction hs as [|[ls rc] hs IHhs]; intros sc g m1 m2; cbn [rthrow].
      - cbn. auto.
      - destruct (mem_bytes l ls); [|apply IHhs].
        use_ih H R inv rc (@nil (label * val)) g m1 m2; cbn [res_eq]; auto.
        destruct X as [-> [-> _]]. auto.
    Qed.

    (* terminals *)
    Definition opt_eq (a b : option (nat * rmu)) : Prop :=
      match a, b with Some (o1, _), Some (o2, _) => o1 = o2 | None, None => True | _, _ => False end.

    Lemma step_rune_eq R o m1 m2 ok : opt_eq (step_rune c R o m1 ok) (step_rune c R o m2 ok).
    Proof.
      unfold step_rune. destruct (rune_at c o) as [r w]. destruct (Nat.eqb w 0); [exact I|].
      destruct (ok r); cbn; auto.
    Qed.

    Lemma lit_match_eq R ic rs : forall o m1 m2, opt_eq (fst (lit_match c R ic rs o m1)) (fst (lit_match c R ic rs o m2)).
    Proof.
      induction rs as [|w rs IHrs]; intros o m1 m2; cbn [lit_match].
      - cbn. reflexivity.
      - pose proof (step_rune_eq R o m1 m2 (fun r => Z.eqb (if ic then to_lower (rU c) r else r) w)) as X.
        destruct (step_rune c R o m1 _) as [[o1 m1']|], (step_rune c R o m2 _) as [[o2 m2']|]; cbn [opt_eq] in X; try contradiction.
        + subst o2. apply IHrs.
        + cbn. exact I.
    Qed.

    Lemma term_result_eq R inv want sc g m1 m2 r1 r2 f1 f2 : opt_eq r1 r2 ->
      res_eq (term_result c R inv want sc g m1 r1 f1) (term_result c R inv want sc g m2 r2 f2).
    Proof.
      intros X. unfold term_result. destruct r1 as [[o1 a1]|], r2 as [[o2 a2]|]; cbn [opt_eq] in X; try contradiction; cbn [res_eq]; auto.
      subst o2. auto.
    Qed.

    Lemma ctx_ref_eq id text pos sc g m1 m2 : ctx_eq (block_ctx_ref c id text pos sc g m1) (block_ctx_ref c id text pos sc g m2).
    Proof. unfold ctx_eq, block_ctx_ref. cbn. auto. Qed.

    Lemma body_eq loopfuel H R inv e sc g m1 m2 :
      res_eq (reval_body c ev loopfuel H R inv e sc g m1) (reval_body c ev loopfuel H R inv e sc g m2).
    Proof.
      destruct e as [nid rs ic want | nid cv chars ranges classes ic cinv tb | nid | nid es | nid es | nid e' | nid e' | nid e'
                    | nid e' | nid e' | nid l e' | nid id e' | nid id | nid id | nid id | nid nm | nid e' rc ls | nid l];
        cbn [reval_body].
      - pose proof (lit_match_eq R ic rs (g_off g) m1 m2) as X.
        destruct (lit_match c R ic rs (g_off g) m1) as [r1 f1], (lit_match c R ic rs (g_off g) m2) as [r2 f2].
        cbn [fst] in X. apply term_result_eq. exact X.
      - apply term_result_eq. apply step_rune_eq.
      - apply term_result_eq. apply step_rune_eq.
      - apply rseq_eq.
      - apply ralt_eq.
      - pose proof (rrep_eq H R inv e' loopfuel (@nil val) g m1 m2) as X.
        destruct (rrep ev H R inv loopfuel e' [] g m1), (rrep ev H R inv loopfuel e' [] g m2); cbn [rep_eq] in X; try contradiction; cbn [res_eq]; auto.
        destruct X as [-> ->]. auto.
      - pose proof (rrep_eq H R inv e' loopfuel (@nil val) g m1 m2) as X.
        destruct (rrep ev H R inv loopfuel e' [] g m1), (rrep ev H R inv loopfuel e' [] g m2); cbn [rep_eq] in X; try contradiction; cbn [res_eq]; auto.
        destruct X as [-> ->]. destruct vs0; cbn [res_eq]; auto.
      - use_ih H R inv e' (@nil (label * val)) g m1 m2; cbn [res_eq]; auto. destruct X as [-> [-> _]]. auto.
      - use_ih H R inv e' (@nil (label * val)) g m1 m2; cbn [res_eq]; auto.
      - use_ih H R (negb inv) e' (@nil (label * val)) g m1 m2; cbn [res_eq]; auto.
      - use_ih H R inv e' (@nil (label * val)) g m1 m2; cbn [res_eq]; auto. destruct X as [-> [-> _]]. auto.
      - use_ih H R inv e' sc g m1 m2; cbn [res_eq]; auto. destruct X as [_ [-> ->]].
        unfold run_block.
        pose proof (Hact id (block_ctx_ref c id (slice c (g_off g) (g_off g1)) (pos_of (rData c) (g_off g)) sc1 g1 m)
                            (block_ctx_ref c id (slice c (g_off g) (g_off g1)) (pos_of (rData c) (g_off g)) sc1 g1 m0) (ctx_ref_eq _ _ _ _ _ _ _)) as Y.
        destruct (ce_act (rE c) id _), (ce_act (rE c) id _); cbn [out_eq] in Y; try contradiction; cbn [res_eq].
        + destruct Y as [-> _]. auto.
        + destruct Y as [-> _]. auto.
      - unfold run_block.
        pose proof (Hpred id (block_ctx_ref c id [] (pos_of (rData c) (g_off g)) sc g m1)
                             (block_ctx_ref c id [] (pos_of (rData c) (g_off g)) sc g m2) (ctx_ref_eq _ _ _ _ _ _ _)) as Y.
        destruct (ce_pred (rE c) id _), (ce_pred (rE c) id _); cbn [out_eq] in Y; try contradiction; cbn [res_eq].
        + destruct Y as [-> _]. destruct r0; cbn [res_eq]; auto.
        + destruct Y as [-> _]. auto.
      - unfold run_block.
        pose proof (Hpred id (block_ctx_ref c id [] (pos_of (rData c) (g_off g)) sc g m1)
                             (block_ctx_ref c id [] (pos_of (rData c) (g_off g)) sc g m2) (ctx_ref_eq _ _ _ _ _ _ _)) as Y.
        destruct (ce_pred (rE c) id _), (ce_pred (rE c) id _); cbn [out_eq] in Y; try contradiction; cbn [res_eq].
        + destruct Y as [-> _]. destruct r0; cbn [res_eq]; auto.
        + destruct Y as [-> _]. auto.
      - unfold run_block.
        pose proof (Hstate id (block_ctx_ref c id [] (pos_of (rData c) (g_off g)) sc g m1)
                              (block_ctx_ref c id [] (pos_of (rData c) (g_off g)) sc g m2) (ctx_ref_eq _ _ _ _ _ _ _)) as Y.
        destruct (ce_state (rE c) id _), (ce_state (rE c) id _); cbn [out_eq] in Y; try contradiction; cbn [res_eq].
        + destruct Y as [_ [_ ->]]. auto.
        + destruct Y as [-> _]. auto.
      - destruct nm as [|b nm]; [cbn [res_eq]; auto|].
        destruct (find_rule (b :: nm) (rG c)) as [r|]; [|cbn [res_eq]; auto].
        use_ih H (Some r) inv (r_expr r) (@nil (label * val)) g m1 m2; cbn [res_eq]; auto. destruct X as [-> [-> _]]. auto.
      - apply IH.
      - apply rthrow_eq.
    Qed.
  End Step.

  Theorem outcome_is_history_independent fuel : ev_ok (reval c fuel).
  Proof.
    induction fuel as [|f IHf]; intros H R inv e sc g m1 m2; cbn [reval].
    - exact I.
    - unfold over_budget. rewrite Hbud. cbn [N.eqb negb andb].
      apply body_eq. exact IHf.
  Qed.
End Determinacy.
