(* Isolation of concurrent parses at the level of the state-store bookkeeping: whatever the
   interleaving and whatever maps the pool hands out, each parser observes exactly what it
   would observe alone. *)
From PV Require Import Lib.Base Model.Pool.
Local Open Scope nat_scope.

(* ---------- maps ---------- *)
Definition canon (m : smap) : Prop := NoDup (map fst m).

Lemma mset_fresh k v m : ~ In k (map fst m) -> mset k v m = m ++ [(k, v)].
Proof.
  induction m as [|[k' v'] m IH]; intros H; cbn [mset app]; [reflexivity|].
  cbn [map fst In] in H. destruct (N.eqb_spec k k') as [->|Hne]; [exfalso; apply H; left; reflexivity|].
  rewrite IH by (intros Hin; apply H; right; exact Hin). reflexivity.
Qed.

Lemma mset_keys k v m : forall x, In x (map fst (mset k v m)) <-> x = k \/ In x (map fst m).
Proof.
  induction m as [|[k' v'] m IH]; intros x; cbn [mset map fst In].
  - intuition congruence.
  - destruct (N.eqb_spec k k') as [->|Hne]; cbn [map fst In].
    + intuition congruence.
    + rewrite IH. intuition congruence.
Qed.

Lemma mset_canon k v m : canon m -> canon (mset k v m).
Proof.
  unfold canon. induction m as [|[k' v'] m IH]; intros H; cbn [mset map fst].
  - constructor; [intros []|constructor].
  - cbn [map fst] in H. inversion H as [|? ? Hn Hm]; subst.
    destruct (N.eqb_spec k k') as [->|Hne]; cbn [map fst].
    + constructor; assumption.
    + constructor; [|apply IH; exact Hm]. rewrite mset_keys. intros [->|Hin]; [congruence | contradiction].
Qed.

Lemma copy_into_app src : forall dst, NoDup (map fst src) -> (forall k, In k (map fst src) -> ~ In k (map fst dst)) ->
  copy_into src dst = dst ++ src.
Proof.
  unfold copy_into. induction src as [|[k v] src IH]; intros dst Hnd Hdis; cbn [fold_left fst snd].
  - rewrite app_nil_r. reflexivity.
  - cbn [map fst] in Hnd. inversion Hnd as [|? ? Hk Hsrc]; subst.
    rewrite mset_fresh by (apply Hdis; left; reflexivity).
    rewrite IH.
    + rewrite <- app_assoc. reflexivity.
    + exact Hsrc.
    + intros x Hx. rewrite map_app, in_app_iff. cbn [map fst In].
      intros [Hd|[<-|[]]]; [eapply Hdis; [right; exact Hx|exact Hd] | contradiction].
Qed.

Lemma copy_into_empty m : canon m -> copy_into m [] = m.
Proof. intros H. rewrite copy_into_app; [reflexivity | exact H | intros k _ []]. Qed.

(* ---------- lists ---------- *)
Lemma remove_nth_In {A} i (l : list A) x : In x (remove_nth i l) -> In x l.
Proof.
  revert i; induction l as [|y l IH]; intros i H; [destruct i; exact H|].
  destruct i; cbn [remove_nth] in H; [right; exact H|]. destruct H as [<-|H]; [left; reflexivity | right; eapply IH; exact H].
Qed.

Lemma remove_nth_NoDup {A} i (l : list A) : NoDup l -> NoDup (remove_nth i l).
Proof.
  revert i; induction l as [|y l IH]; intros i H; [destruct i; exact H|].
  inversion H as [|? ? Hn Hl]; subst. destruct i; cbn [remove_nth]; [exact Hl|].
  constructor; [intros Hin; apply Hn; eapply remove_nth_In; exact Hin | apply IH; exact Hl].
Qed.

Lemma remove_nth_not_In {A} i (l : list A) a : NoDup l -> nth_error l i = Some a -> ~ In a (remove_nth i l).
Proof.
  revert i; induction l as [|y l IH]; intros i Hnd Hn; [destruct i; discriminate|].
  inversion Hnd as [|? ? Hny Hl]; subst. destruct i; cbn [nth_error remove_nth] in *.
  - injection Hn as <-. exact Hny.
  - intros [<-|Hin]; [apply Hny; eapply nth_error_In; exact Hn | eapply IH; eassumption].
Qed.

Lemma upd_same {A} (f : nat -> A) a x : upd f a x a = x.
Proof. unfold upd. rewrite Nat.eqb_refl. reflexivity. Qed.

Lemma upd_other {A} (f : nat -> A) a x b : b <> a -> upd f a x b = f b.
Proof. unfold upd. intros H. destruct (Nat.eqb_spec b a); [contradiction | reflexivity]. Qed.

(* ---------- invariant ---------- *)
Definition owns (th : thread) (a : addr) : Prop := a = cur th \/ In a (saved th).

Record Inv (w : world) : Prop := mkInv {
  I_own_lt : forall t th a, threads w t = Some th -> owns th a -> a < next w;
  I_pool_lt : forall a, In a (pool w) -> a < next w;
  I_pool_nodup : NoDup (pool w);
  I_pool_empty : forall a, In a (pool w) -> heap w a = [];
  I_own_pool : forall t th a, threads w t = Some th -> owns th a -> ~ In a (pool w);
  I_disj : forall t1 t2 th1 th2 a, threads w t1 = Some th1 -> threads w t2 = Some th2 -> owns th1 a -> owns th2 a -> t1 = t2;
  I_nodup : forall t th, threads w t = Some th -> NoDup (cur th :: saved th);
  I_canon : forall a, canon (heap w a)
}.

Lemma inv_init : Inv init.
Proof.
  constructor; cbn; intros; try discriminate; try contradiction; try constructor.
Qed.

Ltac thr H :=
  unfold upd in H;
  match type of H with
  | context [Nat.eqb ?x ?t] => destruct (Nat.eqb_spec x t) as [?E|?E]; [try subst x; injection H as ?Hth; try subst | ]
  end.

Lemma inv_gc w i : Inv w -> Inv (mkWorld (heap w) (remove_nth i (pool w)) (threads w) (next w)).
Proof.
  intros [H1 H2 H3 H4 H5 H6 H7 H8]. constructor; cbn [heap pool threads next]; intros; eauto.
  - apply H2. eapply remove_nth_In; eassumption.
  - apply remove_nth_NoDup; assumption.
  - apply H4. eapply remove_nth_In; eassumption.
  - intros Hin. eapply H5; eauto. eapply remove_nth_In; eassumption.
Qed.

Lemma inv_start w t : Inv w -> threads w t = None ->
  Inv (mkWorld (upd (heap w) (next w) []) (pool w) (upd (threads w) t (Some (mkThread (next w) []))) (S (next w))).
Proof.
  intros [H1 H2 H3 H4 H5 H6 H7 H8] Hn. constructor; cbn [heap pool threads next].
  - intros t0 th a Ht Ho. thr Ht.
    + destruct Ho as [->|[]]. cbn. lia.
    + specialize (H1 _ _ _ Ht Ho). lia.
  - intros a Ha. specialize (H2 _ Ha). lia.
  - exact H3.
  - intros a Ha. rewrite upd_other; [apply H4; exact Ha|]. specialize (H2 _ Ha). lia.
  - intros t0 th a Ht Ho Hin. thr Ht.
    + destruct Ho as [->|[]]. cbn in Hin. specialize (H2 _ Hin). lia.
    + eapply H5; eauto.
  - intros t1 t2 th1 th2 a Ht1 Ht2 Ho1 Ho2. thr Ht1; thr Ht2; try reflexivity.
    + destruct Ho1 as [->|[]]. cbn in Ho2. specialize (H1 _ _ _ Ht2 Ho2). lia.
    + destruct Ho2 as [->|[]]. cbn in Ho1. specialize (H1 _ _ _ Ht1 Ho1). lia.
    + eapply H6; eauto.
  - intros t0 th Ht. thr Ht.
    + cbn. constructor; [intros []|constructor].
    + eapply H7; eauto.
  - intros a. unfold upd. destruct (Nat.eqb a (next w)); [constructor | apply H8].
Qed.

Lemma inv_set w t th k v : Inv w -> threads w t = Some th ->
  Inv (mkWorld (upd (heap w) (cur th) (mset k v (heap w (cur th)))) (pool w) (threads w) (next w)).
Proof.
  intros [H1 H2 H3 H4 H5 H6 H7 H8] Ht. constructor; cbn [heap pool threads next]; eauto.
  - intros a Ha. rewrite upd_other; [apply H4; exact Ha|].
    intros ->. eapply H5; [exact Ht | left; reflexivity | exact Ha].
  - intros a. unfold upd. destruct (Nat.eqb a (cur th)); [apply mset_canon; apply H8 | apply H8].
Qed.

Lemma inv_drop w t th a rest : Inv w -> threads w t = Some th -> saved th = a :: rest ->
  Inv (mkWorld (heap w) (pool w) (upd (threads w) t (Some (mkThread (cur th) rest))) (next w)).
Proof.
  intros [H1 H2 H3 H4 H5 H6 H7 H8] Ht Hs.
  assert (Sub : forall x, owns (mkThread (cur th) rest) x -> owns th x).
  { intros x [->|Hin]; [left; reflexivity | right; rewrite Hs; right; exact Hin]. }
  constructor; cbn [heap pool threads next]; eauto.
  - intros t0 th0 x Ht0 Ho. thr Ht0; [apply Sub in Ho|]; eauto.
  - intros t0 th0 x Ht0 Ho. thr Ht0; [apply Sub in Ho|]; eauto.
  - intros t1 t2 th1 th2 x Ht1 Ht2 Ho1 Ho2. thr Ht1; thr Ht2; try reflexivity;
      try apply Sub in Ho1; try apply Sub in Ho2; eauto.
  - intros t0 th0 Ht0. thr Ht0.
    + specialize (H7 _ _ Ht). rewrite Hs in H7. cbn [cur saved].
      inversion H7 as [|? ? Hn Hl]; subst. inversion Hl as [|? ? Hn2 Hl2]; subst.
      constructor; [intros Hin; apply Hn; right; exact Hin | exact Hl2].
    + eauto.
Qed.

Lemma inv_restore w t th a rest : Inv w -> threads w t = Some th -> saved th = a :: rest ->
  Inv (mkWorld (upd (heap w) (cur th) []) (cur th :: pool w) (upd (threads w) t (Some (mkThread a rest))) (next w)).
Proof.
  intros [H1 H2 H3 H4 H5 H6 H7 H8] Ht Hs.
  assert (Sub : forall x, owns (mkThread a rest) x -> owns th x).
  { intros x [->|Hin]; right; rewrite Hs; [left; reflexivity | right; exact Hin]. }
  pose proof (H7 _ _ Ht) as Hnd. rewrite Hs in Hnd.
  assert (Hcur : forall x, owns (mkThread a rest) x -> x <> cur th).
  { intros x Ho ->. inversion Hnd as [|? ? Hn _]; subst. apply Hn. destruct Ho as [->|Hin]; [left; reflexivity | right; exact Hin]. }
  constructor; cbn [heap pool threads next].
  - intros t0 th0 x Ht0 Ho. thr Ht0; [apply Sub in Ho|]; eauto.
  - intros x [<-|Hin]; [eapply H1; [exact Ht | left; reflexivity] | eauto].
  - constructor; [|exact H3]. eapply H5; [exact Ht | left; reflexivity].
  - intros x [<-|Hin]; [apply upd_same|].
    rewrite upd_other; [eauto|]. intros ->. eapply H5; [exact Ht | left; reflexivity | exact Hin].
  - intros t0 th0 x Ht0 Ho [<-|Hin].
    + thr Ht0.
      * eapply Hcur; [exact Ho | reflexivity].
      * assert (t0 = t) by (eapply H6; [exact Ht0 | exact Ht | exact Ho | left; reflexivity]). contradiction.
    + thr Ht0; [apply Sub in Ho|]; eapply H5; eauto.
  - intros t1 t2 th1 th2 x Ht1 Ht2 Ho1 Ho2. thr Ht1; thr Ht2; try reflexivity;
      try apply Sub in Ho1; try apply Sub in Ho2; eauto.
  - intros t0 th0 Ht0. thr Ht0.
    + cbn [cur saved]. inversion Hnd; assumption.
    + eauto.
  - intros x. unfold upd. destruct (Nat.eqb x (cur th)); [constructor | apply H8].
Qed.

Lemma inv_clone_gen w t th a pool' next' h0 : Inv w -> threads w t = Some th ->
  next w <= next' -> a < next' ->
  (forall x, In x pool' -> In x (pool w)) -> NoDup pool' -> ~ In a pool' ->
  (forall t0 th0 x, threads w t0 = Some th0 -> owns th0 x -> x <> a) ->
  h0 a = [] -> (forall x, x <> a -> h0 x = heap w x) ->
  Inv (mkWorld (upd h0 a (copy_into (h0 (cur th)) (h0 a))) pool'
               (upd (threads w) t (Some (mkThread (cur th) (a :: saved th)))) next').
Proof.
  intros [H1 H2 H3 H4 H5 H6 H7 H8] Ht Hle Ha Hsub Hnd Hnp Hfresh Hempty Hsame.
  assert (Own : forall x, owns (mkThread (cur th) (a :: saved th)) x -> x = a \/ owns th x).
  { intros x [->|[<-|Hin]]; [right; left; reflexivity | left; reflexivity | right; right; exact Hin]. }
  constructor; cbn [heap pool threads next].
  - intros t0 th0 x Ht0 Ho. thr Ht0.
    + apply Own in Ho as [->|Ho]; [exact Ha | specialize (H1 _ _ _ Ht Ho); lia].
    + specialize (H1 _ _ _ Ht0 Ho). lia.
  - intros x Hx. specialize (H2 _ (Hsub _ Hx)). lia.
  - exact Hnd.
  - intros x Hx. rewrite upd_other by (intros ->; contradiction).
    rewrite Hsame by (intros ->; contradiction). apply H4. apply Hsub. exact Hx.
  - intros t0 th0 x Ht0 Ho Hin. thr Ht0.
    + apply Own in Ho as [->|Ho]; [contradiction | eapply H5; [exact Ht | exact Ho | apply Hsub; exact Hin]].
    + eapply H5; [exact Ht0 | exact Ho | apply Hsub; exact Hin].
  - intros t1 t2 th1 th2 x Ht1 Ht2 Ho1 Ho2. thr Ht1; thr Ht2; try reflexivity.
    + apply Own in Ho1 as [->|Ho1]; [exfalso; eapply Hfresh; [exact Ht2 | exact Ho2 | reflexivity] | eapply H6; eauto].
    + apply Own in Ho2 as [->|Ho2]; [exfalso; eapply Hfresh; [exact Ht1 | exact Ho1 | reflexivity] | eapply H6; eauto].
    + eapply H6; eauto.
  - intros t0 th0 Ht0. thr Ht0.
    + cbn [cur saved]. specialize (H7 _ _ Ht). inversion H7 as [|? ? Hn Hl]; subst.
      constructor; [|constructor; [|exact Hl]].
      * intros [Heq|Hin]; [eapply Hfresh; [exact Ht | left; reflexivity | symmetry; exact Heq] | contradiction].
      * intros Hin. eapply Hfresh; [exact Ht | right; exact Hin | reflexivity].
    + eauto.
  - intros x. unfold upd. destruct (Nat.eqb_spec x a) as [->|Hne].
    + rewrite Hempty. rewrite copy_into_empty.
      * rewrite Hsame by (intros Heq; eapply Hfresh; [exact Ht | left; reflexivity | exact Heq]). apply H8.
      * rewrite Hsame by (intros Heq; eapply Hfresh; [exact Ht | left; reflexivity | exact Heq]). apply H8.
    + rewrite Hsame by exact Hne. apply H8.
Qed.

Lemma inv_step w e : Inv w -> Inv (step w e).
Proof.
  intros Hi. destruct e as [t o]. unfold step.
  destruct o as [ | k v | pick | | | i].
  - destruct (threads w t) eqn:Et; [exact Hi | apply inv_start; assumption].
  - destruct (threads w t) as [th|] eqn:Et; [eapply inv_set; eassumption | exact Hi].
  - destruct (threads w t) as [th|] eqn:Et; [|exact Hi].
    assert (Fresh : Inv (mkWorld (upd (upd (heap w) (next w) []) (next w)
                            (copy_into (upd (heap w) (next w) [] (cur th)) (upd (heap w) (next w) [] (next w))))
                         (pool w) (upd (threads w) t (Some (mkThread (cur th) (next w :: saved th)))) (S (next w)))).
    { apply inv_clone_gen; try assumption; try lia.
      - intros x Hx; exact Hx.
      - apply Hi.
      - intros Hin. pose proof (I_pool_lt _ Hi _ Hin). lia.
      - intros t0 th0 x Ht0 Ho ->. pose proof (I_own_lt _ Hi _ _ _ Ht0 Ho). lia.
      - apply upd_same.
      - intros x Hx. apply upd_other. exact Hx. }
    destruct pick as [i|]; [|exact Fresh].
    destruct (nth_error (pool w) i) as [a|] eqn:En; [|exact Fresh].
    apply inv_clone_gen; try assumption; try lia.
    + apply (I_pool_lt _ Hi). eapply nth_error_In; exact En.
    + intros x Hx. eapply remove_nth_In; exact Hx.
    + apply remove_nth_NoDup. apply Hi.
    + apply remove_nth_not_In; [apply Hi | exact En].
    + intros t0 th0 x Ht0 Ho ->. eapply (I_own_pool _ Hi); [exact Ht0 | exact Ho | eapply nth_error_In; exact En].
    + apply (I_pool_empty _ Hi). eapply nth_error_In; exact En.
    + reflexivity.
  - destruct (threads w t) as [th|] eqn:Et; [|exact Hi].
    destruct (saved th) as [|a rest] eqn:Es; [exact Hi | eapply inv_restore; eassumption].
  - destruct (threads w t) as [th|] eqn:Et; [|exact Hi].
    destruct (saved th) as [|a rest] eqn:Es; [exact Hi | eapply inv_drop; eassumption].
  - apply inv_gc. exact Hi.
Qed.

(* ---------- what one parser observes ---------- *)
Lemma view_ext w w' t th :
  threads w t = Some th -> threads w' t = Some th ->
  (forall x, owns th x -> heap w' x = heap w x) -> view w' t = view w t.
Proof.
  intros Ht Ht' H. unfold view. rewrite Ht, Ht'. f_equal. f_equal.
  - apply H. left. reflexivity.
  - apply map_ext_in. intros x Hx. apply H. right. exact Hx.
Qed.

Lemma threads_step_other w t o t' : (t' <> t \/ is_gc o = true) -> threads (step w (t, o)) t' = threads w t'.
Proof.
  intros Hne. unfold step.
  destruct o as [ | k v | pick | | | i]; cbn [is_gc] in Hne;
    try (destruct Hne as [Hne|Hne]; [|discriminate]);
    repeat match goal with
    | |- context [match ?x with _ => _ end] => destruct x eqn:?
    end; cbn [threads]; try reflexivity; try (rewrite upd_other by exact Hne; reflexivity).
Qed.

Lemma view_step_other w t o t' : Inv w -> (t' <> t \/ is_gc o = true) -> view (step w (t, o)) t' = view w t'.
Proof.
  intros Hi Hne.
  destruct (threads w t') as [th'|] eqn:Et'.
  2:{ unfold view. rewrite threads_step_other by exact Hne. rewrite Et'. reflexivity. }
  unfold step. destruct o as [ | k v | pick | | | i]; cbn [is_gc] in Hne;
    try (destruct Hne as [Hne|Hne]; [|discriminate]).
  - destruct (threads w t) eqn:Et; [reflexivity|].
    eapply view_ext; cbn [threads heap]; [exact Et' | rewrite upd_other by exact Hne; exact Et' |].
    intros x Ho. apply upd_other. pose proof (I_own_lt _ Hi _ _ _ Et' Ho). lia.
  - destruct (threads w t) as [th|] eqn:Et; [|reflexivity].
    eapply view_ext; cbn [threads heap]; [exact Et' | exact Et' |].
    intros x Ho. apply upd_other. intros ->. apply Hne. eapply (I_disj _ Hi); [exact Et' | exact Et | exact Ho | left; reflexivity].
  - destruct (threads w t) as [th|] eqn:Et; [|reflexivity].
    assert (Fresh : forall x, owns th' x -> x <> next w) by (intros x Ho ->; pose proof (I_own_lt _ Hi _ _ _ Et' Ho); lia).
    destruct pick as [i|]; [destruct (nth_error (pool w) i) as [a|] eqn:En|];
      (eapply view_ext; cbn [threads heap]; [exact Et' | rewrite upd_other by exact Hne; exact Et' |]); intros x Ho.
    + rewrite upd_other; [reflexivity|]. intros ->. eapply (I_own_pool _ Hi); [exact Et' | exact Ho | eapply nth_error_In; exact En].
    + rewrite !upd_other by (apply Fresh; exact Ho). reflexivity.
    + rewrite !upd_other by (apply Fresh; exact Ho). reflexivity.
  - destruct (threads w t) as [th|] eqn:Et; [|reflexivity].
    destruct (saved th) as [|a rest] eqn:Es; [reflexivity|].
    eapply view_ext; cbn [threads heap]; [exact Et' | rewrite upd_other by exact Hne; exact Et' |].
    intros x Ho. apply upd_other. intros ->. apply Hne. eapply (I_disj _ Hi); [exact Et' | exact Et | exact Ho | left; reflexivity].
  - destruct (threads w t) as [th|] eqn:Et; [|reflexivity].
    destruct (saved th) as [|a rest] eqn:Es; [reflexivity|].
    eapply view_ext; cbn [threads heap]; [exact Et' | rewrite upd_other by exact Hne; exact Et' | reflexivity].
  - eapply view_ext; cbn [threads heap]; [exact Et' | exact Et' | reflexivity].
Qed.

Lemma view_step_self w t o : Inv w -> is_gc o = false -> view (step w (t, o)) t = sstep (view w t) o.
Proof.
  intros Hi Hg. unfold view at 2.
  destruct (threads w t) as [th|] eqn:Et.
  2:{ unfold step. destruct o as [ | k v | pick | | | i]; try discriminate; rewrite Et; cbn [sstep];
        try (unfold view; rewrite Et; reflexivity).
      unfold view. cbn [threads heap]. rewrite upd_same. cbn [cur saved map]. rewrite upd_same. reflexivity. }
  pose proof (I_nodup _ Hi _ _ Et) as Hnd.
  assert (Hsaved : forall x, In x (saved th) -> x <> cur th).
  { intros x Hx ->. inversion Hnd; contradiction. }
  unfold step. destruct o as [ | k v | pick | | | i]; try discriminate; rewrite Et; cbn [sstep scur ssaved].
  - unfold view. rewrite Et. reflexivity.
  - unfold view. cbn [threads heap]. rewrite Et. rewrite upd_same. f_equal. f_equal.
    apply map_ext_in. intros x Hx. apply upd_other. apply Hsaved. exact Hx.
  - (* clone: the new map holds a copy of the current one whatever the pool handed out *)
    assert (Gen : forall a pool' next' h0,
               a <> cur th -> (forall x, In x (saved th) -> x <> a) -> h0 a = [] -> (forall x, x <> a -> h0 x = heap w x) ->
               view (mkWorld (upd h0 a (copy_into (h0 (cur th)) (h0 a))) pool'
                             (upd (threads w) t (Some (mkThread (cur th) (a :: saved th)))) next') t =
               Some (mkS (heap w (cur th)) (heap w (cur th) :: map (heap w) (saved th)))).
    { intros a pool' next' h0 Hac Has He Hs. unfold view. cbn [threads heap]. rewrite upd_same. cbn [cur saved map].
      rewrite upd_same, He, (Hs (cur th)) by (intros Heq; apply Hac; symmetry; exact Heq).
      rewrite copy_into_empty by apply (I_canon _ Hi).
      rewrite upd_other by (intros Heq; apply Hac; symmetry; exact Heq).
      rewrite (Hs (cur th)) by (intros Heq; apply Hac; symmetry; exact Heq).
      f_equal. f_equal. f_equal. apply map_ext_in. intros x Hx.
      rewrite upd_other by (apply Has; exact Hx). apply Hs. apply Has. exact Hx. }
    assert (Fresh : forall x, owns th x -> x <> next w) by (intros x Ho ->; pose proof (I_own_lt _ Hi _ _ _ Et Ho); lia).
    destruct pick as [i|]; [destruct (nth_error (pool w) i) as [a|] eqn:En|].
    + apply Gen.
      * intros ->. eapply (I_own_pool _ Hi); [exact Et | left; reflexivity | eapply nth_error_In; exact En].
      * intros x Hx ->. eapply (I_own_pool _ Hi); [exact Et | right; exact Hx | eapply nth_error_In; exact En].
      * apply (I_pool_empty _ Hi). eapply nth_error_In; exact En.
      * reflexivity.
    + apply Gen.
      * intros Heq. eapply Fresh; [left; reflexivity | symmetry; exact Heq].
      * intros x Hx. apply Fresh. right. exact Hx.
      * apply upd_same.
      * intros x Hx. apply upd_other. exact Hx.
    + apply Gen.
      * intros Heq. eapply Fresh; [left; reflexivity | symmetry; exact Heq].
      * intros x Hx. apply Fresh. right. exact Hx.
      * apply upd_same.
      * intros x Hx. apply upd_other. exact Hx.
  - destruct (saved th) as [|a rest] eqn:Es; cbn [map].
    + unfold view. rewrite Et, Es. reflexivity.
    + unfold view. cbn [threads heap]. rewrite upd_same. cbn [cur saved].
      inversion Hnd as [|? ? Hn Hl]; subst. inversion Hl as [|? ? Hn2 Hl2]; subst.
      rewrite upd_other by (intros ->; apply Hn; left; reflexivity).
      f_equal. f_equal. apply map_ext_in. intros x Hx. apply upd_other. intros ->. apply Hn. right. exact Hx.
  - destruct (saved th) as [|a rest] eqn:Es; cbn [map].
    + unfold view. rewrite Et, Es. reflexivity.
    + unfold view. cbn [threads heap]. rewrite upd_same. reflexivity.
Qed.

Lemma run_inv h : forall w, Inv w -> Inv (run h w).
Proof. induction h as [|e h IH]; intros w Hi; [exact Hi | apply IH; apply inv_step; exact Hi]. Qed.

Lemma view_run h t : forall w, Inv w -> view (run h w) t = fold_left sstep (mine t h) (view w t).
Proof.
  induction h as [|[t0 o] h IH]; intros w Hi; [reflexivity|].
  cbn [run fold_left]. fold (run h (step w (t0, o))). rewrite IH by (apply inv_step; exact Hi).
  unfold mine. cbn [filter fst snd].
  destruct (Nat.eqb_spec t0 t) as [->|Hne]; cbn [andb].
  - destruct (is_gc o) eqn:Hg; cbn [negb map fold_left].
    + rewrite view_step_other by (exact Hi || (right; exact Hg)). reflexivity.
    + rewrite view_step_self by assumption. reflexivity.
  - rewrite view_step_other by (exact Hi || (left; intros Heq; apply Hne; symmetry; exact Heq)). reflexivity.
Qed.

(* every interleaving, every choice of the pool: parser t sees what it would see alone *)
Theorem isolation h t : view (run h init) t = srun (mine t h).
Proof. rewrite view_run by exact inv_init. reflexivity. Qed.

(* and the maps in the pool are always empty *)
Theorem pool_maps_empty h a : In a (pool (run h init)) -> heap (run h init) a = [].
Proof. apply I_pool_empty. apply run_inv. exact inv_init. Qed.
