From PV Require Import Lib.Base Lib.Utf8 Syntax.RGrammar Syntax.Code Model.PState Spec.Pos Model.Runtime
  Proofs.Utf8Proofs Proofs.ReadProofs Proofs.Inv.
From Coq Require Import ZifyBool ZifyN ZifyNat.
Local Open Scope nat_scope.

Section Step.
  Variable c : cfg.
  Variable wrap : expr -> M (val * bool).
  Hypothesis Hwrap : wrap_spec c wrap.

  (* transitive part of Post *)
  Definition Step (s s' : pstate) : Prop :=
    I c s' /\ Mono s s' /\ Frame s s' /\ cur_off s <= cur_off s'.

  Lemma Post_Step s b s' : Post c s b s' -> Step s s'.
  Proof. intros (A & B & C & D & _). exact (conj A (conj B (conj C D))). Qed.

  Lemma Step_trans a b d : Step a b -> Step b d -> Step a d.
  Proof.
    intros (A1 & B1 & C1 & D1) (A2 & B2 & C2 & D2).
    refine (conj A2 (conj _ (conj _ _))).
    - eapply Mono_trans; eauto.
    - eapply Frame_trans; eauto.
    - lia.
  Qed.

  Lemma I_same s s' :
    pt s' = pt s -> memo s' = memo s -> exprCnt s' = exprCnt s -> I c s -> I c s'.
  Proof. intros H1 H2 H3 [A B C]. constructor; unfold cnt_ok in *; rewrite ?H1, ?H2, ?H3; auto. Qed.

  Lemma cloneState_facts s :
    let '(x, s') := cloneState c s in
    (has_state (cT c) = true -> x = st s) /\ pt s' = pt s /\ memo s' = memo s /\ exprCnt s' = exprCnt s /\
    errs s' = errs s /\ trace s' = trace s /\ maxFailPos s' = maxFailPos s /\ vstack s' = vstack s /\
    rstack s' = rstack s /\ rcvstack s' = rcvstack s /\ maxFailInvert s' = maxFailInvert s /\ st s' = st s /\ gs s' = gs s.
  Proof. unfold cloneState. destruct (has_state (cT c)); cbn; repeat split; auto; discriminate. Qed.

  Lemma restoreState_facts x s :
    let s' := restoreState c x s in
    (has_state (cT c) = true -> st s' = x) /\ pt s' = pt s /\ memo s' = memo s /\ exprCnt s' = exprCnt s /\
    errs s' = errs s /\ trace s' = trace s /\ maxFailPos s' = maxFailPos s /\ vstack s' = vstack s /\
    rstack s' = rstack s /\ rcvstack s' = rcvstack s /\ maxFailInvert s' = maxFailInvert s /\ gs s' = gs s.
  Proof. unfold restoreState. destruct (has_state (cT c)); cbn; repeat split; auto; discriminate. Qed.

  Ltac post_split :=
    split; [constructor | split; [constructor | split; [constructor | split]]].

  Ltac fin :=
    cbn in *; unfold cnt_ok, cur_off in *; cbn in *;
    try match goal with |- _ -> _ => intros end;
    try match goal with Hb : ?b = false -> _ /\ _, H : ?b = false |- _ => destruct (Hb H); clear Hb end;
    try match goal with H : vstack ?s = _ |- context [vstack ?s] => rewrite H end;
    first [ assumption | reflexivity | congruence | lia | (eexists; eassumption) | (split; fin) | eauto ].

  Ltac solve_I :=
    multimatch goal with H : I c _ |- I c _ => destruct H; constructor; solve [fin] end.

  Ltac call_wrap :=
    match goal with |- context [wrap ?e ?s1] =>
      let HI1 := fresh "HI1" in let Hw := fresh "Hw" in
      assert (HI1 : I c s1) by (first [assumption | solve_I]);
      pose proof (Hwrap e s1 HI1) as Hw; destruct (wrap e s1) as [[?v ?b] ?s2|?pv ?s2|]; cbn in *; auto end.

  Ltac open_post H :=
    let A := fresh "A" in let B := fresh "B" in let C := fresh "C" in
    let M1 := fresh "M1" in let M2 := fresh "M2" in let M3 := fresh "M3" in let M4 := fresh "M4" in
    let F1 := fresh "F1" in let F2 := fresh "F2" in let F3 := fresh "F3" in let F4 := fresh "F4" in
    let F5 := fresh "F5" in let Hoff := fresh "Hoff" in let Hb := fresh "Hb" in
    destruct H as ([A B C] & [M1 M2 M3 M4] & [F1 F2 F3 F4 F5] & Hoff & Hb).

  Ltac open_postP H :=
    let M1 := fresh "M1" in let M2 := fresh "M2" in let M3 := fresh "M3" in let M4 := fresh "M4" in
    let Hc := fresh "Hc" in
    destruct H as ([M1 M2 M3 M4] & Hc).

  Ltac solve_postP := split; [constructor|]; solve [fin].

  (* ---------- Step lemmas for primitives ---------- *)
  Lemma Step_refl s : I c s -> Step s s.
  Proof. intros H. exact (conj H (conj (Mono_refl s) (conj (Frame_refl s) (le_n _)))). Qed.

  Lemma Step_read s : I c s -> Step s (read c s).
  Proof.
    intros H. refine (conj (read_I c s H) (conj (read_Mono c s) (conj (read_Frame c s) _))).
    rewrite read_off. lia.
  Qed.

  Lemma Step_failAt f p w s : I c s -> Step s (failAt f p w s).
  Proof.
    intros H. refine (conj (failAt_I c f p w s H) (conj (failAt_Mono f p w s) (conj (failAt_Frame f p w s) _))).
    rewrite failAt_off. lia.
  Qed.

  Lemma read_st s : st (read c s) = st s.
  Proof. apply (read_other c s). Qed.

  Lemma Post_of_Step_true s s' : Step s s' -> Post c s true s'.
  Proof. intros (A & B & C & D). refine (conj A (conj B (conj C (conj D _)))). discriminate. Qed.

  Lemma Post_of_Step_false s s' :
    Step s s' -> cur_off s' = cur_off s -> st s' = st s -> Post c s false s'.
  Proof. intros (A & B & C & D) E F. refine (conj A (conj B (conj C (conj D _)))). auto. Qed.

  (* ---------- terminals ---------- *)
  Lemma parseAnyMatcher_spec s : I c s -> res_spec c s (parseAnyMatcher c s).
  Proof.
    intros HI. unfold parseAnyMatcher. destruct (is_eof s); cbn.
    - apply Post_of_Step_false; [apply Step_failAt; auto | apply failAt_off | apply failAt_st].
    - apply Post_of_Step_true. eapply Step_trans; [apply Step_read; auto | apply Step_failAt; apply read_I; auto].
  Qed.

  Lemma cls_match_spec cv s : I c s -> res_spec c s (cls_match c cv (pt s) s).
  Proof.
    intros HI. unfold cls_match. cbn.
    apply Post_of_Step_true. eapply Step_trans; [apply Step_read; auto | apply Step_failAt; apply read_I; auto].
  Qed.

  Lemma cls_fail_spec cv s : I c s -> res_spec c s (cls_fail cv (pt s) s).
  Proof.
    intros HI. unfold cls_fail. cbn.
    apply Post_of_Step_false; [apply Step_failAt; auto | apply failAt_off | apply failAt_st].
  Qed.

  Lemma parseCharClassMatcher_spec cv chars ranges classes ic inv table s :
    I c s -> res_spec c s (parseCharClassMatcher c cv chars ranges classes ic inv table s).
  Proof.
    intros HI. unfold parseCharClassMatcher.
    repeat match goal with |- context [if ?b then _ else _] => destruct b end;
      first [apply cls_match_spec | apply cls_fail_spec]; auto.
  Qed.

  Lemma lit_loop_spec ic want start s0 : I c s0 -> start = pt s0 ->
    forall rs s, Step s0 s -> st s = st s0 ->
      res_spec c s0 (lit_loop c ic want start rs s).
  Proof.
    intros HI0 Hstart. induction rs as [|w rs IH]; intros s HS Hst; cbn [lit_loop].
    - cbn. apply Post_of_Step_true. eapply Step_trans; [exact HS|]. apply Step_failAt. apply HS.
    - destruct (_ && _).
      + apply IH.
        * eapply Step_trans; [exact HS|]. apply Step_read. apply HS.
        * rewrite read_st. exact Hst.
      + cbn. destruct HS as (A & B & C0 & D).
        pose proof (failAt_I c false (sp_pos start) want s A) as A1.
        pose proof (failAt_Mono false (sp_pos start) want s) as B1.
        pose proof (failAt_Frame false (sp_pos start) want s) as C1.
        set (s1 := failAt false (sp_pos start) want s) in *.
        destruct (restore_other start s1) as (Q1 & Q2 & Q3 & Q4 & Q5 & Q6 & Q7 & Q8 & Q9 & Q10 & Q11).
        assert (Hoff : cur_off (restore start s1) = cur_off s0) by (rewrite restore_off, Hstart; reflexivity).
        refine (conj _ (conj _ (conj _ (conj _ _)))).
        * destruct A1 as [A1 A2 A3]. constructor.
          -- apply restore_pt_ok; [rewrite Hstart; apply HI0 | exact A1].
          -- rewrite Q9. exact A2.
          -- unfold cnt_ok in *. rewrite Q2. exact A3.
        * eapply Mono_trans; [exact B|]. eapply Mono_trans; [exact B1|].
          apply same_mono_Mono. repeat split; auto.
        * eapply Frame_trans; [exact C0|]. eapply Frame_trans; [exact C1|].
          constructor; congruence.
        * lia.
        * intros _. split; [exact Hoff|]. intros _. rewrite Q10. unfold s1. rewrite failAt_st. exact Hst.
  Qed.

  Lemma parseLitMatcher_spec lv ic want s : I c s -> res_spec c s (parseLitMatcher c lv ic want s).
  Proof.
    intros HI. unfold parseLitMatcher. apply lit_loop_spec; auto. apply Step_refl; auto.
  Qed.

  (* ---------- predicates ---------- *)
  Lemma parseAndExpr_spec e s : I c s -> res_spec c s (parseAndExpr c wrap e s).
  Proof.
    intros HI. unfold parseAndExpr, bind, modify, ret, cloneState, restoreState, pushV, popV.
    destruct (has_state (cT c)) eqn:Hhs; call_wrap.
    all: try (open_postP Hw; solve_postP).
    all: open_post Hw; unfold restore, cur_off in *; cbn in *;
      destruct (Nat.eqb_spec (offset (sp_pos (pt s))) (offset (sp_pos (pt s2)))); post_split; try solve [fin];
      try (destruct HI; solve [fin]); destruct (vstack s2); fin.
  Qed.

  Lemma parseNotExpr_spec e s : I c s -> res_spec c s (parseNotExpr c wrap e s).
  Proof.
    intros HI. unfold parseNotExpr, bind, modify, ret, cloneState, restoreState, pushV, popV.
    destruct (has_state (cT c)) eqn:Hhs; call_wrap.
    all: try (open_postP Hw; solve_postP).
    all: open_post Hw; unfold restore, cur_off in *; cbn in *;
      destruct (Nat.eqb_spec (offset (sp_pos (pt s))) (offset (sp_pos (pt s2)))); post_split; try solve [fin];
      try (destruct HI; solve [fin]); try (destruct (vstack s2); solve [fin]).
    all: rewrite F5; apply Bool.negb_involutive.
  Qed.

  (* ---------- composition ---------- *)
  Lemma PostP_compose s s1 s2 : Step s s1 -> PostP c s1 s2 -> PostP c s s2.
  Proof. intros (_ & B & _) (M & Hc). split; [eapply Mono_trans; eauto | exact Hc]. Qed.

  Lemma Post_compose s s1 b s2 :
    Step s s1 -> cur_off s1 = cur_off s -> (has_state (cT c) = true -> st s1 = st s) ->
    Post c s1 b s2 -> Post c s b s2.
  Proof.
    intros HS Ho Hst HP. pose proof (Post_Step _ _ _ HP) as HS2.
    destruct (Step_trans _ _ _ HS HS2) as (A & B & C0 & D).
    refine (conj A (conj B (conj C0 (conj D _)))).
    intros Hb. destruct HP as (_ & _ & _ & _ & HP). destruct (HP Hb) as [E F]. split; [lia|].
    intros Hs. rewrite F, Hst; auto.
  Qed.

  Lemma res_compose s s1 r :
    Step s s1 -> cur_off s1 = cur_off s -> (has_state (cT c) = true -> st s1 = st s) ->
    res_spec c s1 r -> res_spec c s r.
  Proof.
    intros HS Ho Hst. destruct r as [[v b] s2|pv s2|]; cbn; auto.
    - apply Post_compose; auto.
    - apply PostP_compose; auto.
  Qed.

  (* a successful prefix followed by anything that does not need the b=false clause *)
  Lemma PostP_of_Step s s' : Step s s' -> PostP c s s'.
  Proof.
    intros (A & B & _). split; [exact B|]. destruct A as [_ _ A]. unfold cnt_ok in A. destruct A; [left; auto|right; lia].
  Qed.

  (* ---------- label, optional, recovery ---------- *)
  Lemma parseLabeledExpr_spec l e s : I c s -> res_spec c s (parseLabeledExpr wrap l e s).
  Proof.
    intros HI. unfold parseLabeledExpr, bind, modify, ret, pushV, popV. call_wrap.
    2: open_postP Hw; solve_postP.
    open_post Hw.
    destruct (vstack s2) as [|m0 vs2] eqn:Ev; cbn in *; [discriminate|]. subst vs2.
    destruct (b && negb match l with [] => true | _ :: _ => false end); cbn.
    - unfold bind_label. cbn. destruct (vstack s) as [|m vs] eqn:Evs; cbn in *;
        post_split; try solve [fin].
    - post_split; try solve [fin].
  Qed.

  Lemma parseZeroOrOneExpr_spec e s : I c s -> res_spec c s (parseZeroOrOneExpr wrap e s).
  Proof.
    intros HI. unfold parseZeroOrOneExpr, bind, modify, ret, pushV, popV. call_wrap.
    2: open_postP Hw; solve_postP.
    open_post Hw. post_split; try solve [fin]; destruct (vstack s2); fin.
  Qed.

  Lemma parseRecoveryExpr_spec e rc ls s : I c s -> res_spec c s (parseRecoveryExpr wrap e rc ls s).
  Proof.
    intros HI. unfold parseRecoveryExpr, bind, modify, ret, pushRecovery, popRecovery. call_wrap.
    2: open_postP Hw; solve_postP.
    open_post Hw. post_split; try solve [fin]. rewrite F4. reflexivity.
  Qed.

  (* ---------- choice ---------- *)
  Lemma choice_loop_spec alts : forall s, I c s -> res_spec c s (choice_loop c wrap alts s).
  Proof.
    induction alts as [|a alts IH]; intros s HI; cbn [choice_loop].
    - cbn. apply Post_of_Step_false; auto. apply Step_refl; auto.
    - unfold bind, modify, ret, cloneState, restoreState, pushV, popV.
      destruct (has_state (cT c)) eqn:Hhs; call_wrap.
      all: try (open_postP Hw; solve_postP).
      all: open_post Hw; destruct b; cbn.
      1,3: post_split; try solve [fin]; destruct (vstack s2); fin.
      all: destruct (Hb eq_refl) as [Hb1 Hb2].
      all: match goal with |- res_spec _ _ (choice_loop _ _ _ ?s3) =>
             assert (HI3 : I c s3) by (constructor; fin);
             apply (res_compose s s3); [ | | | apply IH; exact HI3] end.
      all: try (refine (conj HI3 (conj _ (conj _ _))); [constructor | constructor | ]; try solve [fin];
                destruct (vstack s2); fin).
      all: try solve [fin].
      all: intros; discriminate.
  Qed.

  (* ---------- sequence ---------- *)
  Lemma seq_loop_spec s0 p saved : I c s0 -> p = pt s0 -> (has_state (cT c) = true -> saved = st s0) ->
    forall es acc s, Step s0 s -> res_spec c s0 (seq_loop c wrap p saved es acc s).
  Proof.
    intros HI0 Hp Hsaved. induction es as [|e es IH]; intros acc s HS; cbn [seq_loop].
    - cbn. apply Post_of_Step_true. exact HS.
    - unfold bind, modify, ret.
      pose proof HS as (HIs & _).
      pose proof (Hwrap e s HIs) as Hw. destruct (wrap e s) as [[v b] s2|pv s2|]; cbn in *; auto.
      2: eapply PostP_compose; eauto.
      pose proof (Post_Step _ _ _ Hw) as HS2.
      pose proof (Step_trans _ _ _ HS HS2) as HS02.
      destruct b; cbn.
      + apply IH. exact HS02.
      + destruct HS02 as (A & B & C0 & D).
        unfold restoreState, restore.
        destruct (has_state (cT c)) eqn:Hhs; cbn;
          match goal with |- context [Nat.eqb ?x ?y] => destruct (Nat.eqb_spec x y) end; cbn.
        all: destruct A as [A1 A2 A3]; destruct B as [B1 B2 B3 B4]; destruct C0 as [C1 C2 C3 C4 C5].
        all: post_split; try solve [fin].
        all: try (subst p; destruct HI0; solve [fin]).
        all: try (intros _; split; [fin | intros; try discriminate; subst; fin]).
  Qed.

  Lemma parseSeqExpr_spec es s : I c s -> res_spec c s (parseSeqExpr c wrap es s).
  Proof.
    intros HI. unfold parseSeqExpr, bind, cloneState.
    destruct (has_state (cT c)) eqn:Hhs; cbn.
    - match goal with |- res_spec _ _ (seq_loop _ _ _ _ _ _ ?s1) =>
        apply (res_compose s s1); [ | reflexivity | reflexivity | ] end.
      + refine (conj _ (conj (same_mono_Mono _ _ _) (conj _ _))); [solve_I | repeat split; reflexivity | constructor; reflexivity | unfold cur_off; cbn; lia].
      + apply seq_loop_spec; try reflexivity; [solve_I | apply Step_refl; solve_I].
    - apply seq_loop_spec; auto; [intros; congruence | apply Step_refl; auto].
  Qed.

  (* ---------- repetition ---------- *)
  Definition rep_spec (s : pstate) (nacc : nat) (r : Res (list val)) : Prop :=
    match r with
    | Ok vs s' => Step s s' /\ nacc <= length vs /\
                  (length vs = nacc -> cur_off s' = cur_off s /\ (has_state (cT c) = true -> st s' = st s))
    | Panic _ s' => PostP c s s'
    | OutOfFuel => True
    end.

  Lemma rep_loop_spec e : forall n acc s, I c s -> rep_spec s (length acc) (rep_loop wrap n e acc s).
  Proof.
    induction n as [|n IH]; intros acc s HI; cbn [rep_loop]; [exact Logic.I|].
    unfold bind, modify, ret, pushV, popV. call_wrap.
    2: open_postP Hw; solve_postP.
    open_post Hw.
    destruct (vstack s2) as [|m0 vs2] eqn:Ev; cbn in *; [discriminate|]. subst vs2.
    assert (HS : Step s (set_vstack (vstack s) s2)).
    { refine (conj _ (conj _ (conj _ _))); [constructor | constructor | constructor | ]; fin. }
    destruct b; cbn.
    - pose proof (IH (v :: acc) _ (proj1 HS)) as Hr.
      destruct (rep_loop wrap n e (v :: acc) (set_vstack (vstack s) s2)) as [vs s3|pv s3|]; cbn in *; auto.
      + destruct Hr as (HS3 & Hl & _). split; [eapply Step_trans; eauto|]. split; [lia|]. intros; lia.
      + eapply PostP_compose; eauto.
    - split; [exact HS|]. rewrite rev_length. split; [lia|]. intros _. destruct (Hb eq_refl). split; fin.
  Qed.

  Lemma parseZeroOrMoreExpr_spec n e s : I c s -> res_spec c s (parseZeroOrMoreExpr wrap n e s).
  Proof.
    intros HI. unfold parseZeroOrMoreExpr, bind, ret.
    pose proof (rep_loop_spec e n [] s HI) as Hr.
    destruct (rep_loop wrap n e [] s) as [vs s3|pv s3|]; cbn in *; auto.
    apply Post_of_Step_true. apply Hr.
  Qed.

  Lemma parseOneOrMoreExpr_spec n e s : I c s -> res_spec c s (parseOneOrMoreExpr wrap n e s).
  Proof.
    intros HI. unfold parseOneOrMoreExpr, bind, ret.
    pose proof (rep_loop_spec e n [] s HI) as Hr.
    destruct (rep_loop wrap n e [] s) as [vs s3|pv s3|]; cbn in *; auto.
    destruct Hr as (HS & _ & Hz). destruct vs; cbn.
    - destruct (Hz eq_refl) as [E F]. destruct HS as (A & B & C0 & D).
      exact (conj A (conj B (conj C0 (conj D (fun _ => conj E F))))).
    - apply Post_of_Step_true. exact HS.
  Qed.

  (* ---------- throw ---------- *)
  Lemma throw_loop_spec l : forall stack s, I c s -> res_spec c s (throw_loop c wrap l stack s).
  Proof.
    induction stack as [|[ls rc] stack IH]; intros s HI; cbn [throw_loop].
    - cbn. apply Post_of_Step_false; auto. apply Step_refl; auto.
    - destruct (mem_bytes l ls); [|apply IH; auto].
      unfold bind, modify, ret, pushV, popV.
      destruct (q_recover_scope (cQ c)); call_wrap.
      all: try (open_postP Hw; solve_postP).
      + pose proof (Post_Step _ _ _ Hw) as HS2. destruct b; cbn; [exact Hw|].
        destruct Hw as (_ & _ & _ & _ & Hb). destruct (Hb eq_refl) as [E F].
        apply (res_compose s s2); auto. apply IH. apply HS2.
      + open_post Hw.
        destruct (vstack s2) as [|m0 vs2] eqn:Ev; cbn in *; [discriminate|]. subst vs2.
        assert (HS : Step s (set_vstack (vstack s) s2)).
        { refine (conj _ (conj _ (conj _ _))); [constructor | constructor | constructor | ]; fin. }
        destruct b; cbn.
        * apply Post_of_Step_true. exact HS.
        * destruct (Hb eq_refl) as [E F].
          apply (res_compose s (set_vstack (vstack s) s2)); auto. apply IH. apply HS.
  Qed.

  Lemma parseThrowExpr_spec l s : I c s -> res_spec c s (parseThrowExpr c wrap l s).
  Proof. intros HI. unfold parseThrowExpr. apply throw_loop_spec. auto. Qed.

  (* ---------- code blocks ---------- *)
  (* steps that do not move the position *)
  Definition StepEq (s s' : pstate) : Prop := Step s s' /\ cur_off s' = cur_off s.

  Lemma StepEq_trans a b d : StepEq a b -> StepEq b d -> StepEq a d.
  Proof. intros [A1 A2] [B1 B2]. split; [eapply Step_trans; eauto | congruence]. Qed.

  Ltac step_eq :=
    split; [refine (conj _ (conj _ (conj _ _))); [solve_I | constructor | constructor | ] | ];
    try solve [fin]; try (exists []; rewrite ?app_nil_r; reflexivity); try (eexists [_]; reflexivity).

  Lemma StepEq_clone s : I c s -> StepEq s (snd (cloneState c s)).
  Proof. intros HI. unfold cloneState. destruct (has_state (cT c)); cbn; step_eq. Qed.

  Lemma StepEq_restoreState x s : I c s -> StepEq s (restoreState c x s).
  Proof. intros HI. unfold restoreState. destruct (has_state (cT c)); cbn; step_eq. Qed.

  Lemma StepEq_setcur t p s : I c s -> StepEq s (set_cur_text t (set_cur_pos p s)).
  Proof. intros HI. step_eq. Qed.

  Lemma StepEq_addErrAt m p ex s : I c s -> StepEq s (addErrAt c m p ex s).
  Proof. intros HI. unfold addErrAt. step_eq. Qed.

  Lemma StepEq_fresh s : I c s -> StepEq s (if q_stale_ctx (cQ c) then s else set_cur_text [] (set_cur_pos (sp_pos (pt s)) s)).
  Proof. intros HI. destruct (q_stale_ctx (cQ c)); step_eq. Qed.

  Lemma run_code_spec {R} k id (f : cid -> ctx -> cbout R) s : I c s ->
    match run_code c k id f s with
    | Ok _ s' => StepEq s s'
    | Panic _ s' => PostP c s s'
    | OutOfFuel => True
    end.
  Proof.
    intros HI. unfold run_code. destruct (f id (block_ctx c id s)) as [r err st' gs'|pv st' gs']; cbn.
    - step_eq.
    - split; [constructor|]; try solve [fin]; try (exists []; rewrite ?app_nil_r; reflexivity); try (eexists [_]; reflexivity).
      destruct HI as [_ _ C0]. unfold cnt_ok in *. cbn. destruct C0; [left; auto|right; lia].
  Qed.

  Lemma PostP_of_StepEq s s1 s2 : StepEq s s1 -> PostP c s1 s2 -> PostP c s s2.
  Proof. intros [A _]. apply PostP_compose. exact A. Qed.

  Lemma parseActionExpr_spec id e s : I c s -> res_spec c s (parseActionExpr c wrap id e s).
  Proof.
    intros HI. unfold parseActionExpr, bind, modify, ret. call_wrap.
    destruct b; [|exact Hw].
    pose proof (Post_Step _ _ _ Hw) as HS2. clear Hw.
    set (s3 := set_cur_text (sliceFrom (pt s) s2) (set_cur_pos (sp_pos (pt s)) s2)).
    pose proof (StepEq_setcur (sliceFrom (pt s) s2) (sp_pos (pt s)) s2 (proj1 HS2)) as H3. fold s3 in H3.
    pose proof (StepEq_clone s3 (proj1 (proj1 H3))) as H4.
    destruct (cloneState c s3) as [saved s4]. cbn [snd] in H4.
    pose proof (run_code_spec KAct id (ce_act (cE c)) s4 (proj1 (proj1 H4))) as H5.
    destruct (run_code c KAct id (ce_act (cE c)) s4) as [[r err] s5|pv s5|]; cbn; auto.
    - apply Post_of_Step_true.
      eapply Step_trans; [exact HS2|]. eapply Step_trans; [exact (proj1 H3)|].
      eapply Step_trans; [exact (proj1 H4)|]. eapply Step_trans; [exact (proj1 H5)|].
      destruct err as [m|].
      + pose proof (StepEq_addErrAt m (sp_pos (pt s)) [] s5 (proj1 (proj1 H5))) as H6.
        eapply Step_trans; [exact (proj1 H6)|]. apply StepEq_restoreState. apply H6.
      + apply StepEq_restoreState. apply H5.
    - eapply PostP_compose; [exact HS2|]. eapply PostP_of_StepEq; [exact H3|].
      eapply PostP_of_StepEq; [exact H4|]. exact H5.
  Qed.

  Lemma parseCodePred_spec k neg id s : I c s -> res_spec c s (parseCodePred c k neg id s).
  Proof.
    intros HI. unfold parseCodePred, fresh_ctx, bind, modify, ret.
    pose proof (StepEq_fresh s HI) as H1.
    set (s1 := if q_stale_ctx (cQ c) then s else _) in *.
    pose proof (StepEq_clone s1 (proj1 (proj1 H1))) as H2.
    assert (Hsv : has_state (cT c) = true -> fst (cloneState c s1) = st s).
    { intros Hh. unfold cloneState. rewrite Hh. cbn. unfold s1. destruct (q_stale_ctx (cQ c)); reflexivity. }
    destruct (cloneState c s1) as [saved s2]. cbn [snd fst] in *.
    pose proof (run_code_spec k id (ce_pred (cE c)) s2 (proj1 (proj1 H2))) as H3.
    destruct (run_code c k id (ce_pred (cE c)) s2) as [[r err] s3|pv s3|]; cbn; auto.
    - assert (H4 : StepEq s3 (match err with Some m => addErr c m s3 | None => s3 end)).
      { destruct err; [apply StepEq_addErrAt; apply H3 | split; [apply Step_refl; apply H3 | reflexivity]]. }
      set (s4 := match err with Some m => addErr c m s3 | None => s3 end) in *.
      pose proof (StepEq_restoreState saved s4 (proj1 (proj1 H4))) as H5.
      pose proof (StepEq_trans _ _ _ H1 (StepEq_trans _ _ _ H2 (StepEq_trans _ _ _ H3 (StepEq_trans _ _ _ H4 H5)))) as [HS Ho].
      destruct HS as (A & B & C0 & D). refine (conj A (conj B (conj C0 (conj D _)))).
      intros _. split; [exact Ho|]. intros Hh. unfold restoreState. rewrite Hh. cbn. auto.
    - eapply PostP_of_StepEq; [exact H1|]. eapply PostP_of_StepEq; [exact H2|]. exact H3.
  Qed.

  Lemma parseStateCodeExpr_spec id s : I c s -> res_spec c s (parseStateCodeExpr c id s).
  Proof.
    intros HI. unfold parseStateCodeExpr, fresh_ctx, bind, modify, ret.
    pose proof (StepEq_fresh s HI) as H1.
    set (s1 := if q_stale_ctx (cQ c) then s else _) in *.
    pose proof (run_code_spec KState id (ce_state (cE c)) s1 (proj1 (proj1 H1))) as H3.
    destruct (run_code c KState id (ce_state (cE c)) s1) as [[r err] s3|pv s3|]; cbn; auto.
    - apply Post_of_Step_true. eapply Step_trans; [exact (proj1 H1)|]. eapply Step_trans; [exact (proj1 H3)|].
      destruct err; [apply StepEq_addErrAt; apply H3 | apply Step_refl; apply H3].
    - eapply PostP_of_StepEq; [exact H1|]. exact H3.
  Qed.

  (* ---------- memo table ---------- *)
  Lemma memo_lookup_ok o k m r : memo_ok c m -> memo_lookup o k m = Some r -> entry_ok c (o, k, r).
  Proof.
    induction m as [|[[o' k'] r'] m IH]; intros Hm Hl; cbn in *; [discriminate|].
    inversion Hm as [|x l Hx Hl']; subst.
    destruct (Nat.eqb_spec o o'); cbn in Hl.
    - destruct (mkey_eqb k k').
      + inversion Hl; subst. exact Hx.
      + apply IH; auto.
    - apply IH; auto.
  Qed.

  Lemma memo_hit_spec k s res : I c s -> getMemoized k s = Some res ->
    Post c s (rt_b res) (restore (rt_end res) s).
  Proof.
    intros HI Hg. unfold getMemoized in Hg.
    destruct (memo_lookup_ok _ _ _ _ (I_memo c s HI) Hg) as (E1 & E2 & E3).
    destruct (restore_other (rt_end res) s) as (Q1 & Q2 & Q3 & Q4 & Q5 & Q6 & Q7 & Q8 & Q9 & Q10 & Q11).
    refine (conj _ (conj _ (conj _ (conj _ _)))).
    - destruct HI as [A B C0]. constructor; [apply restore_pt_ok; auto | rewrite Q9; auto | unfold cnt_ok in *; rewrite Q2; auto].
    - apply same_mono_Mono. repeat split; auto.
    - constructor; congruence.
    - rewrite restore_off. exact E3.
    - intros Hb. rewrite restore_off. split; [apply E2; exact Hb | intros _; exact Q10].
  Qed.

  Lemma setMemoized_Post s0 k v b s :
    I c s0 -> Post c s0 b s ->
    Post c s0 b (setMemoized (pt s0) k (mkRt v b (pt s)) s).
  Proof.
    intros HI0 ([A B C0] & [M1 M2 M3 M4] & [F1 F2 F3 F4 F5] & Hoff & Hb).
    unfold setMemoized. post_split; try solve [fin].
    - constructor; [|exact B]. unfold entry_ok. cbn. split; [exact A|]. split; [|exact Hoff].
      intros Hf. destruct (Hb Hf) as [E _]. exact E.
  Qed.

  (* ---------- rules ---------- *)
  Lemma parseRule_spec r s : I c s -> res_spec c s (parseRule wrap r s).
  Proof.
    intros HI. unfold parseRule, bind, modify, ret, pushV, popV. call_wrap.
    2: open_postP Hw; solve_postP.
    open_post Hw.
    destruct (vstack s2) as [|m0 vs2] eqn:Ev; cbn in *; [discriminate|]. subst vs2.
    post_split; try solve [fin]. rewrite F3. reflexivity.
  Qed.

  Lemma parseRuleMemoize_spec r s : I c s -> res_spec c s (parseRuleMemoize c wrap r s).
  Proof.
    intros HI. unfold parseRuleMemoize.
    destruct (negb (q_memo_expected (cQ c)) && maxFailInvert s); [apply parseRule_spec; exact HI|].
    destruct (getMemoized (KRule (r_name r)) s) as [res|] eqn:Hg.
    - cbn. eapply memo_hit_spec; eauto.
    - unfold bind, modify, ret. pose proof (parseRule_spec r s HI) as Hr.
      destruct (parseRule wrap r s) as [[v b] s2|pv s2|]; cbn in *; auto.
      apply setMemoized_Post; auto.
  Qed.

  (* ---------- left recursion: the growing loop ---------- *)
  Definition last_ok (s0 s : pstate) (last : rtuple) : Prop :=
    sp_ok (cData c) (rt_end last) /\ cur_off s0 <= offset (sp_pos (rt_end last)) /\
    (rt_b last = false ->
       offset (sp_pos (rt_end last)) = cur_off s0 /\ (has_state (cT c) = true -> st s = st s0)).

  Lemma leader_loop_spec r s0 startMark : I c s0 -> startMark = pt s0 ->
    forall n depth last lastErrs s,
      Step s0 s -> cur_off s = cur_off s0 -> last_ok s0 s last ->
      (exists l, lastErrs = errs s0 ++ l) ->
      match leader_loop c wrap n r startMark depth last lastErrs s with
      | Ok res s' => Step s0 s' /\ last_ok s0 s' res
      | Panic _ s' => PostP c s0 s'
      | OutOfFuel => True
      end.
  Proof.
    intros HI0 Hsm. induction n as [|n IH]; intros depth last lastErrs s HS Hoff (L1 & L2 & L3) Herr;
      cbn [leader_loop]; [exact Logic.I|].
    unfold bind, modify, ret.
    pose proof (StepEq_clone s (proj1 HS)) as H1.
    assert (Hsv : has_state (cT c) = true -> fst (cloneState c s) = st s).
    { intros Hh. unfold cloneState. rewrite Hh. reflexivity. }
    assert (Hst1 : st (snd (cloneState c s)) = st s).
    { unfold cloneState. destruct (has_state (cT c)); reflexivity. }
    destruct (cloneState c s) as [lastState s1]. cbn [fst snd] in *.
    set (s1' := setMemoized startMark (KRule (r_name r)) last s1).
    assert (H2 : StepEq s1 s1').
    { unfold s1', setMemoized. destruct H1 as [[[A B C0] _] _].
      split; [refine (conj _ (conj _ (conj _ _))); [constructor | constructor | constructor | ] | ];
        try solve [fin]; try (exists []; rewrite ?app_nil_r; reflexivity).
      cbn. constructor; [|exact B]. unfold entry_ok. subst startMark. split; [exact L1|].
      split; [intros Hb; apply (L3 Hb) | exact L2]. }
    pose proof (parseRule_spec r s1' (proj1 (proj1 H2))) as Hr.
    destruct (parseRule wrap r s1') as [[v b] s2|pv s2|]; cbn; auto.
    2: { eapply PostP_compose; [exact HS|]. eapply PostP_of_StepEq; [exact H1|].
         eapply PostP_of_StepEq; [exact H2|]. exact Hr. }
    pose proof (StepEq_trans _ _ _ H1 H2) as [H12 Ho12].
    pose proof (Step_trans _ _ _ HS (Step_trans _ _ _ H12 (Post_Step _ _ _ Hr))) as HS02.
    assert (Hst1' : st s1' = st s) by (unfold s1', setMemoized; cbn; exact Hst1).
    match goal with |- context [if ?cnd then _ else _] => destruct cnd eqn:Hexit end; cbn.
    - (* stop: drop this attempt's errors and state *)
      destruct HS02 as ([A B C0] & [M1 M2 M3 M4] & [F1 F2 F3 F4 F5] & D).
      split.
      + unfold restoreState. destruct (has_state (cT c)); cbn;
          (refine (conj _ (conj _ (conj _ _))); [constructor | constructor | constructor | ]); try solve [fin].
      + split; [exact L1|]. split; [exact L2|]. intros Hb. destruct (L3 Hb) as [E F]. split; [exact E|].
        intros Hh. unfold restoreState. rewrite Hh. cbn. rewrite (Hsv Hh). apply F; exact Hh.
    - (* grow *)
      apply orb_false_iff in Hexit as [Hex1 Hex2]. apply negb_false_iff in Hex1. subst b.
      apply IH.
      + destruct HS02 as ([A B C0] & [M1 M2 M3 M4] & [F1 F2 F3 F4 F5] & D).
        destruct (restore_other startMark s2) as (Q1 & Q2 & Q3 & Q4 & Q5 & Q6 & Q7 & Q8 & Q9 & Q10 & Q11).
        refine (conj _ (conj _ (conj _ _))); [constructor | constructor | constructor | ].
        all: rewrite ?Q1, ?Q2, ?Q3, ?Q4, ?Q5, ?Q6, ?Q7, ?Q8, ?Q9; auto.
        * apply restore_pt_ok; [subst startMark; apply HI0 | exact A].
        * unfold cnt_ok in *. rewrite Q2. exact C0.
        * rewrite restore_off. subst startMark. unfold cur_off. lia.
      + rewrite restore_off. subst startMark. reflexivity.
      + split; [apply HS02|]. split; [apply HS02|]. cbn. intros Hb; discriminate.
      + destruct HS02 as (_ & [[l M1] _ _ _] & _). exists l. exact M1.
  Qed.

  (* ---------- the growing loop terminates: after the first round every further round must end strictly farther, and
     ends stay within the input, so |input| - start + 2 rounds always suffice (whatever the rule body does) ---------- *)
  Definition rounds_left (depth : nat) (s0 : pstate) (last : rtuple) : nat :=
    if Nat.eqb depth 0 then length (cData c) - cur_off s0 + 2
    else length (cData c) - offset (sp_pos (rt_end last)) + 1.

  Lemma leader_loop_fuel r s0 startMark : I c s0 -> startMark = pt s0 ->
    (forall s, parseRule wrap r s <> OutOfFuel) ->
    forall n depth last lastErrs s,
      Step s0 s -> cur_off s = cur_off s0 -> last_ok s0 s last ->
      (exists l, lastErrs = errs s0 ++ l) ->
      rounds_left depth s0 last <= n ->
      leader_loop c wrap n r startMark depth last lastErrs s <> OutOfFuel.
  Proof.
    intros HI0 Hsm Hnf. induction n as [|n IH]; intros depth last lastErrs s HS Hoff (L1 & L2 & L3) Herr Hn;
      cbn [leader_loop].
    { unfold rounds_left in Hn. destruct (Nat.eqb depth 0); lia. }
    unfold bind, modify, ret.
    pose proof (StepEq_clone s (proj1 HS)) as H1.
    assert (Hsv : has_state (cT c) = true -> fst (cloneState c s) = st s).
    { intros Hh. unfold cloneState. rewrite Hh. reflexivity. }
    assert (Hst1 : st (snd (cloneState c s)) = st s).
    { unfold cloneState. destruct (has_state (cT c)); reflexivity. }
    destruct (cloneState c s) as [lastState s1]. cbn [fst snd] in *.
    set (s1' := setMemoized startMark (KRule (r_name r)) last s1).
    assert (H2 : StepEq s1 s1').
    { unfold s1', setMemoized. destruct H1 as [[[A B C0] _] _].
      split; [refine (conj _ (conj _ (conj _ _))); [constructor | constructor | constructor | ] | ];
        try solve [fin]; try (exists []; rewrite ?app_nil_r; reflexivity).
      cbn. constructor; [|exact B]. unfold entry_ok. subst startMark. split; [exact L1|].
      split; [intros Hb; apply (L3 Hb) | exact L2]. }
    pose proof (parseRule_spec r s1' (proj1 (proj1 H2))) as Hr.
    pose proof (Hnf s1') as Hnf1.
    destruct (parseRule wrap r s1') as [[v b] s2|pv s2|]; cbn; [|discriminate|congruence].
    pose proof (StepEq_trans _ _ _ H1 H2) as [H12 Ho12].
    pose proof (Step_trans _ _ _ HS (Step_trans _ _ _ H12 (Post_Step _ _ _ Hr))) as HS02.
    match goal with |- context [if ?cnd then _ else _] => destruct cnd eqn:Hexit end; cbn; [discriminate|].
    apply orb_false_iff in Hexit as [Hex1 Hex2]. apply negb_false_iff in Hex1. subst b.
    apply IH.
    + destruct HS02 as ([A B C0] & [M1 M2 M3 M4] & [F1 F2 F3 F4 F5] & D).
      destruct (restore_other startMark s2) as (Q1 & Q2 & Q3 & Q4 & Q5 & Q6 & Q7 & Q8 & Q9 & Q10 & Q11).
      refine (conj _ (conj _ (conj _ _))); [constructor | constructor | constructor | ].
      all: rewrite ?Q1, ?Q2, ?Q3, ?Q4, ?Q5, ?Q6, ?Q7, ?Q8, ?Q9; auto.
      * apply restore_pt_ok; [subst startMark; apply HI0 | exact A].
      * unfold cnt_ok in *. rewrite Q2. exact C0.
      * rewrite restore_off. subst startMark. unfold cur_off. lia.
    + rewrite restore_off. subst startMark. reflexivity.
    + split; [apply HS02|]. split; [apply HS02|]. cbn. intros Hb; discriminate.
    + destruct HS02 as (_ & [[l M1] _ _ _] & _). exists l. exact M1.
    + destruct HS02 as ([A _ _] & _ & _ & D). destruct A as (_ & _ & Lend).
      unfold rounds_left in *. cbn [Nat.eqb rt_end]. unfold cur_off in *.
      destruct (Nat.eqb_spec depth 0) as [->|Hd]; [lia|].
      cbn [negb andb] in Hex2. rewrite andb_true_r in Hex2. apply Nat.leb_gt in Hex2. lia.
  Qed.

  Lemma leader_terminates n r s : I c s ->
    (forall s', parseRule wrap r s' <> OutOfFuel) ->
    length (cData c) + 2 <= n ->
    parseRuleRecursiveLeader c wrap n r s <> OutOfFuel.
  Proof.
    intros HI Hnf Hn. unfold parseRuleRecursiveLeader.
    destruct (getMemoized (KRule (r_name r)) s) as [res|]; [discriminate|].
    unfold bind, modify, ret.
    assert (Hl : leader_loop c wrap n r (pt s) 0 (mkRt VNil false (pt s)) (errs s) s <> OutOfFuel).
    { apply (leader_loop_fuel r s (pt s) HI eq_refl Hnf); auto.
      - apply Step_refl. exact HI.
      - split; [apply HI|]. split; [unfold cur_off; cbn; lia|]. intros _. split; [reflexivity|auto].
      - exists []. rewrite app_nil_r. reflexivity.
      - unfold rounds_left. cbn [Nat.eqb]. lia. }
    destruct (leader_loop c wrap n r (pt s) 0 (mkRt VNil false (pt s)) (errs s) s) as [last s'|pv s'|];
      [discriminate|discriminate|contradiction].
  Qed.

  Lemma parseRuleRecursiveLeader_spec n r s : I c s -> res_spec c s (parseRuleRecursiveLeader c wrap n r s).
  Proof.
    intros HI. unfold parseRuleRecursiveLeader.
    destruct (getMemoized (KRule (r_name r)) s) as [res|] eqn:Hg.
    - cbn. eapply memo_hit_spec; eauto.
    - unfold bind, modify, ret.
      pose proof (leader_loop_spec r s (pt s) HI eq_refl n 0 (mkRt VNil false (pt s)) (errs s) s
                    (Step_refl s HI) eq_refl) as Hl.
      destruct (leader_loop c wrap n r (pt s) 0 (mkRt VNil false (pt s)) (errs s) s) as [last s'|pv s'|]; cbn; auto.
      + destruct Hl as (HS & L1 & L2 & L3).
        { split; [apply HI|]. split; [unfold cur_off; cbn; lia|]. cbn. intros _. split; auto. }
        { exists []. rewrite app_nil_r. reflexivity. }
        destruct HS as ([A B C0] & HM & HF & D).
        destruct (restore_other (rt_end last) s') as (Q1 & Q2 & Q3 & Q4 & Q5 & Q6 & Q7 & Q8 & Q9 & Q10 & Q11).
        destruct (q_lr_memo_state (cQ c) || negb (has_state (cT c))); unfold setMemoized, dropMemoized;
        refine (conj _ (conj _ (conj _ (conj _ _)))).
        1: { constructor; cbn.
          -- apply restore_pt_ok; auto.
          -- constructor; [|rewrite Q9; exact B]. unfold entry_ok. split; [exact L1|]. split; [|exact L2].
             intros Hb. apply (L3 Hb).
          -- unfold cnt_ok in *. cbn. rewrite Q2. exact C0. }
        5: { constructor; cbn.
          -- apply restore_pt_ok; auto.
          -- rewrite Q9. unfold memo_ok in *. apply Forall_forall. intros x Hx. apply filter_In in Hx as [Hx _].
             revert x Hx. apply Forall_forall. exact B.
          -- unfold cnt_ok in *. cbn. rewrite Q2. exact C0. }
        all: try (eapply Mono_trans; [exact HM|]; apply same_mono_Mono; cbn; repeat split; auto; fail).
        all: try (eapply Frame_trans; [exact HF|]; constructor; cbn; congruence).
        all: try (unfold cur_off at 2; cbn; fold (cur_off (restore (rt_end last) s')); rewrite restore_off; exact L2).
        all: try (intros Hb; destruct (L3 Hb) as [E F]; unfold cur_off at 1; cbn;
          fold (cur_off (restore (rt_end last) s')); rewrite restore_off; split; [exact E|];
          intros Hh; cbn; rewrite Q10; apply F; exact Hh).
        all: fail.
      + apply Hl.
        { split; [apply HI|]. split; [unfold cur_off; cbn; lia|]. cbn. intros _. split; auto. }
        { exists []. rewrite app_nil_r. reflexivity. }
  Qed.
(*OLD
        * eapply Mono_trans; [exact HM|]. apply same_mono_Mono. cbn. repeat split; auto.
        * eapply Frame_trans; [exact HF|]. constructor; cbn; congruence.
        * unfold cur_off at 2. cbn. fold (cur_off (restore (rt_end last) s')). rewrite restore_off. exact L2.
        * intros Hb. destruct (L3 Hb) as [E F]. unfold cur_off at 1. cbn.
          fold (cur_off (restore (rt_end last) s')). rewrite restore_off. split; [exact E|].
          intros Hh. cbn. rewrite Q10. apply F; exact Hh.
      + apply Hl.
        { split; [apply HI|]. split; [unfold cur_off; cbn; lia|]. cbn. intros _. split; auto. }
        { exists []. rewrite app_nil_r. reflexivity. }
  Qed.
OLD*)

  Lemma parseRuleWrap_spec n r s : I c s -> res_spec c s (parseRuleWrap c wrap n r s).
  Proof.
    intros HI. unfold parseRuleWrap.
    repeat match goal with |- context [if ?b then _ else _] => destruct b end;
      first [apply parseRuleRecursiveLeader_spec | apply parseRuleMemoize_spec | apply parseRule_spec]; auto.
  Qed.

  Lemma PostP_refl s : I c s -> PostP c s s.
  Proof. intros HI. apply PostP_of_Step. apply Step_refl. auto. Qed.

  Lemma parseRuleRefExpr_spec n nm s : I c s -> res_spec c s (parseRuleRefExpr c wrap n nm s).
  Proof.
    intros HI. unfold parseRuleRefExpr. destruct nm as [|x nm].
    - cbn. apply PostP_refl; auto.
    - destruct (find_rule (x :: nm) (cG c)) as [r|].
      + apply parseRuleWrap_spec; auto.
      + cbn. pose proof (StepEq_addErrAt (msg_undefined_rule ++ x :: nm) (sp_pos (pt s)) [] s HI) as [HS Ho].
        apply Post_of_Step_false; auto.
  Qed.

  Lemma parseExpr_spec n e s : I c s -> res_spec c s (parseExpr c wrap n e s).
  Proof.
    intros HI. unfold parseExpr.
    set (s1 := set_exprCnt (exprCnt s + 1)%N s).
    destruct (negb (N.eqb (o_maxexpr (cO c)) 0) && N.ltb (o_maxexpr (cO c)) (exprCnt s1)) eqn:Hb.
    - cbn. split; [constructor|]; cbn; try lia; try (exists []; rewrite ?app_nil_r; reflexivity).
      destruct HI as [_ _ C0]. unfold cnt_ok in C0. destruct C0; [left; auto | right; lia].
    - assert (HI1 : I c s1).
      { destruct HI as [A B C0]. constructor; auto. unfold cnt_ok in *. unfold s1. cbn.
        apply andb_false_iff in Hb as [Hb|Hb].
        - left. apply negb_false_iff in Hb. apply N.eqb_eq in Hb. exact Hb.
        - right. apply N.ltb_ge in Hb. exact Hb. }
      assert (HS : Step s s1).
      { refine (conj HI1 (conj _ (conj _ _))); [constructor | constructor | ]; unfold s1; cbn; try lia; try reflexivity;
          exists []; rewrite ?app_nil_r; reflexivity. }
      apply (res_compose s s1); [exact HS | reflexivity | reflexivity | ].
      destruct e; first
        [ apply parseLitMatcher_spec | apply parseCharClassMatcher_spec | apply parseAnyMatcher_spec
        | apply parseSeqExpr_spec | apply choice_loop_spec | apply parseZeroOrMoreExpr_spec
        | apply parseOneOrMoreExpr_spec | apply parseZeroOrOneExpr_spec | apply parseAndExpr_spec
        | apply parseNotExpr_spec | apply parseLabeledExpr_spec | apply parseActionExpr_spec
        | apply parseCodePred_spec | apply parseRuleRefExpr_spec | apply parseRecoveryExpr_spec
        | apply parseThrowExpr_spec | idtac ]; auto.
      destruct (has_state (cT c)); [apply parseStateCodeExpr_spec; auto | cbn; apply PostP_refl; auto].
  Qed.

  Lemma parseExprWrapBody_spec n e s : I c s -> res_spec c s (parseExprWrapBody c wrap n e s).
  Proof.
    intros HI. unfold parseExprWrapBody, bind.
    assert (Hma : match memo_active c s with Ok _ s' => s' = s | Panic _ s' => s' = s | OutOfFuel => False end).
    { unfold memo_active. destruct (t_optimize (cT c)); [reflexivity|]. destruct (t_leftrec (cT c)); [|reflexivity].
      destruct (rstack s); reflexivity. }
    destruct (memo_active c s) as [active s'|pv s'|]; [subst s'|subst s'|contradiction].
    2: apply PostP_refl; auto.
    cbv zeta.
    destruct (active && (q_memo_label (cQ c) || negb (scope_writes e)) && (q_memo_expected (cQ c) || negb (maxFailInvert s)));
      [|apply parseExpr_spec; auto].
    destruct (getMemoized (KExpr (node_id e)) s) as [res|] eqn:Hg.
    - pose proof (memo_hit_spec _ _ _ HI Hg) as Hh.
      destruct (q_memo_nocharge (cQ c)); [exact Hh|].
      set (s1 := set_exprCnt (exprCnt s + 1)%N s).
      destruct (negb (N.eqb (o_maxexpr (cO c)) 0) && N.ltb (o_maxexpr (cO c)) (exprCnt s1)) eqn:Hb.
      + cbn. split; [constructor|]; cbn; try lia; try (exists []; rewrite ?app_nil_r; reflexivity).
        destruct HI as [_ _ C0]. unfold cnt_ok in C0. destruct C0; [left; auto | right; lia].
      + assert (HI1 : I c s1).
        { destruct HI as [A B C0]. constructor; auto. unfold cnt_ok in *. unfold s1. cbn.
          apply andb_false_iff in Hb as [Hb|Hb].
          - left. apply negb_false_iff in Hb. apply N.eqb_eq in Hb. exact Hb.
          - right. apply N.ltb_ge in Hb. exact Hb. }
        assert (HS : Step s s1).
        { refine (conj HI1 (conj _ (conj _ _))); [constructor | constructor | ]; unfold s1; cbn; try lia; try reflexivity;
            exists []; rewrite ?app_nil_r; reflexivity. }
        cbn. apply (Post_compose s s1); [exact HS | reflexivity | reflexivity | ].
        eapply memo_hit_spec; eauto.
    - unfold bind, modify, ret. pose proof (parseExpr_spec n e s HI) as Hr.
      destruct (parseExpr c wrap n e s) as [[v b] s2|pv s2|]; cbn in *; auto.
      apply setMemoized_Post; auto.
  Qed.
End Step.

(* ---------- the invariant for every amount of fuel ---------- *)
Theorem parseExprWrap_inv c : forall fuel, wrap_spec c (parseExprWrap c fuel).
Proof.
  induction fuel as [|f IH]; intros e s HI; cbn [parseExprWrap]; [exact Logic.I|].
  apply parseExprWrapBody_spec; auto.
Qed.

Theorem parseRuleWrap_inv c fuel n r s : I c s -> res_spec c s (parseRuleWrap c (parseExprWrap c fuel) n r s).
Proof. apply parseRuleWrap_spec. apply parseExprWrap_inv. Qed.
