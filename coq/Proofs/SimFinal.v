(* Closing the refinement: one step of parseExpr / parseExprWrap against one step of
   Ref.reval, the two "scope-closed" side conditions, and the induction on fuel. *)
From PV Require Import Lib.Base Lib.Utf8 Syntax.RGrammar Syntax.Code Model.PState Spec.Pos Model.Runtime
  Spec.Ref Spec.RefParse Proofs.Utf8Proofs Proofs.ReadProofs Proofs.PosProofs Proofs.Inv Proofs.InvStep
  Proofs.Sim Proofs.SimStep.
From Coq Require Import ZifyBool ZifyN ZifyNat.
Local Open Scope nat_scope.

Section Final.
  Variable c : cfg.
  Let d := cData c.
  Hypothesis Hst : state_ok c.
  Hypothesis Hmemo : o_memoize (cO c) = false.
  Hypothesis HG : G_wf c.
  Hypothesis Hstale : stale_ok c.
  (* a grammar without left-recursive rules is built with the LeftRecursion template off *)
  Hypothesis Hnolr : t_leftrec (cT c) = false.

  (* ---------- Ref ignores the incoming scope of scope-closed expressions ---------- *)
  Lemma reval_closed fuel H R inv e sc g m : scope_closed e = true ->
    reval c fuel H R inv e sc g m = set_scope sc (reval c fuel H R inv e [] g m).
  Proof.
    intros Hc. destruct fuel as [|f]; [reflexivity|]. cbn [reval].
    destruct (over_budget c _); [reflexivity|].
    destruct e; try discriminate; cbn [reval_body].
    - destruct (lit_match c R ic val (g_off g) _) as [[[o' m']|] mf]; reflexivity.
    - destruct (step_rune c R (g_off g) _ _) as [[o' m']|]; reflexivity.
    - destruct (step_rune c R (g_off g) _ _) as [[o' m']|]; reflexivity.
    - (* alt *)
      match goal with |- ralt ?ev ?H ?R ?i ?es sc ?g ?m = set_scope sc (ralt ?ev ?H ?R ?i ?es [] ?g ?m) =>
        clear Hc; generalize m; induction es as [|x es IH]; intros m0; cbn [ralt]; [reflexivity|];
        destruct (ev H R i x [] g m0); try reflexivity; apply IH end.
    - destruct (rrep _ _ _ _ _ _ _ _ _) as [vs g' m'|pv m' pos R'|]; reflexivity.
    - destruct (rrep _ _ _ _ _ _ _ _ _) as [vs g' m'|pv m' pos R'|]; try reflexivity. destruct vs; reflexivity.
    - destruct (reval c f H R inv e [] g _); reflexivity.
    - destruct (reval c f H R inv e [] g _); reflexivity.
    - destruct (reval c f H R (negb inv) e [] g _); reflexivity.
    - destruct r as [|x r]; [reflexivity|]. destruct (find_rule (x :: r) (rG c)); [|reflexivity].
      destruct (reval c f H (Some _) inv _ [] g _); reflexivity.
  Qed.

  (* ---------- with state-free blocks the specification never changes the store ---------- *)
  Section StFree.
    Variable ev : handlers -> option rule -> bool -> expr -> scope -> rsig -> rmu -> rres.
    Hypothesis Hev : forall H R inv e sc g m v g' sc' m',
      ev H R inv e sc g m = ROk v g' sc' m' -> g_st g' = g_st g.

    Lemma rseq_st H R inv es : forall acc sc g m v g' sc' m',
      rseq ev H R inv es acc sc g m = ROk v g' sc' m' -> g_st g' = g_st g.
    Proof.
      induction es as [|x es IHes]; intros acc sc g m v g' sc' m' E; cbn [rseq] in E.
      - inversion E; reflexivity.
      - destruct (ev H R inv x sc g m) as [m2|v1 g1 sc1 m2|pv m2 p2 r2|] eqn:E1; try discriminate.
        rewrite (IHes _ _ _ _ _ _ _ _ E). eapply Hev; eauto.
    Qed.

    Lemma ralt_st H R inv es : forall sc g m v g' sc' m',
      ralt ev H R inv es sc g m = ROk v g' sc' m' -> g_st g' = g_st g.
    Proof.
      induction es as [|x es IHes]; intros sc g m v g' sc' m' E; cbn [ralt] in E; [discriminate|].
      destruct (ev H R inv x [] g m) as [m2|v1 g1 sc1 m2|pv m2 p2 r2|] eqn:E1; try discriminate.
      - eapply IHes; eauto.
      - inversion E; subst. eapply Hev; eauto.
    Qed.

    Lemma rrep_st H R inv e : forall k acc g m vs g' m',
      rrep ev H R inv k e acc g m = RepDone vs g' m' -> g_st g' = g_st g.
    Proof.
      induction k as [|k IHk]; intros acc g m vs g' m' E; cbn [rrep] in E; [discriminate|].
      destruct (ev H R inv e [] g m) as [m2|v1 g1 sc1 m2|pv m2 p2 r2|] eqn:E1; try discriminate.
      - inversion E; reflexivity.
      - rewrite (IHk _ _ _ _ _ _ E). eapply Hev; eauto.
    Qed.

    Lemma rthrow_st H R inv l : forall hs sc g m v g' sc' m',
      rthrow ev H R inv l hs sc g m = ROk v g' sc' m' -> g_st g' = g_st g.
    Proof.
      induction hs as [|[ls rc] hs IHh]; intros sc g m v g' sc' m' E; cbn [rthrow] in E; [discriminate|].
      destruct (mem_bytes l ls); [|eapply IHh; eauto].
      destruct (ev H R inv rc [] g m) as [m2|v1 g1 sc1 m2|pv m2 p2 r2|] eqn:E1; try discriminate.
      - eapply IHh; eauto.
      - inversion E; subst. eapply Hev; eauto.
    Qed.
  End StFree.

  Lemma reval_st_free : env_state_free c -> forall fuel H R inv e sc g m v g' sc' m',
    reval c fuel H R inv e sc g m = ROk v g' sc' m' -> g_st g' = g_st g.
  Proof.
    intros (Fa & Fp & Fs). induction fuel as [|f IH]; intros H R inv e sc g m v g' sc' m' E; [discriminate|].
    cbn [reval] in E. destruct (over_budget c _); [discriminate|].
    set (m1 := mkMu (u_gs m) (u_log m) (u_cnt m + 1)%N) in *.
    destruct e; cbn [reval_body] in E.
    - destruct (lit_match c R ic val (g_off g) m1) as [[[o' m2]|] mf]; cbn in E; inversion E; reflexivity.
    - destruct (step_rune c R (g_off g) m1 _) as [[o' m2]|]; cbn in E; inversion E; reflexivity.
    - destruct (step_rune c R (g_off g) m1 _) as [[o' m2]|]; cbn in E; inversion E; reflexivity.
    - eapply rseq_st; eauto.
    - eapply ralt_st; eauto.
    - destruct (rrep (reval c f) H R inv f e [] g m1) as [vs g1 m2|pv m2 p2 r2|] eqn:Er; try discriminate.
      inversion E; subst. eapply rrep_st; eauto.
    - destruct (rrep (reval c f) H R inv f e [] g m1) as [vs g1 m2|pv m2 p2 r2|] eqn:Er; try discriminate.
      pose proof (rrep_st _ IH _ _ _ _ _ _ _ _ _ _ _ Er) as Hg.
      destruct vs; inversion E; subst; exact Hg.
    - destruct (reval c f H R inv e [] g m1) as [m2|v1 g1 sc1 m2|pv m2 p2 r2|] eqn:E1; inversion E; subst; [reflexivity | eapply IH; eauto].
    - destruct (reval c f H R inv e [] g m1) as [m2|v1 g1 sc1 m2|pv m2 p2 r2|] eqn:E1; inversion E; subst; reflexivity.
    - destruct (reval c f H R (negb inv) e [] g m1) as [m2|v1 g1 sc1 m2|pv m2 p2 r2|] eqn:E1; inversion E; subst; reflexivity.
    - destruct (reval c f H R inv e [] g m1) as [m2|v1 g1 sc1 m2|pv m2 p2 r2|] eqn:E1; inversion E; subst. eapply IH; eauto.
    - destruct (reval c f H R inv e sc g m1) as [m2|v1 g1 sc1 m2|pv m2 p2 r2|] eqn:E1; try discriminate.
      unfold run_block in E. destruct (ce_act (rE c) c0 _); inversion E; subst. eapply IH; eauto.
    - unfold run_block in E. destruct (ce_pred (rE c) c0 _) as [ok err st' gs'|]; [|discriminate].
      destruct ok; inversion E; reflexivity.
    - unfold run_block in E. destruct (ce_pred (rE c) c0 _) as [ok err st' gs'|]; [|discriminate].
      destruct ok; inversion E; reflexivity.
    - unfold run_block in E. cbn [rd rData rU rO rG rE] in E.
      pose proof (Fs c0 (block_ctx_ref c c0 [] (pos_of (cData c) (g_off g)) sc g m1)) as Hf.
      destruct (ce_state (cE c) c0 _) as [ok err st' gs'|]; [|discriminate].
      inversion E; subst. cbn in *. exact Hf.
    - destruct r as [|x r]; [discriminate|]. destruct (find_rule (x :: r) (rG c)); [|discriminate].
      destruct (reval c f H (Some _) inv _ [] g m1) as [m2|v1 g1 sc1 m2|pv m2 p2 r2|] eqn:E1; inversion E; subst. eapply IH; eauto.
    - eapply IH; eauto.
    - eapply rthrow_st; eauto.
  Qed.

  (* ---------- the implementation leaves the variable stack as it found it ---------- *)
  Section ClosedImpl.
    Variable wrap : expr -> M (val * bool).
    Hypothesis Hwrap : wrap_spec c wrap.

    Lemma push_pop_vstack e s r s2 : I c s -> wrap e (pushV s) = Ok r s2 -> vstack (popV s2) = vstack s.
    Proof.
      intros HI Hw. pose proof (Hwrap e (pushV s) (I_pushV c _ HI)) as Hs. rewrite Hw in Hs.
      destruct r as [v b]. destruct Hs as (_ & _ & [F1 _ _ _ _] & _). cbn in *. exact F1.
    Qed.

    Lemma I_of_push e s r s2 : I c s -> wrap e (pushV s) = Ok r s2 -> I c (popV s2).
    Proof.
      intros HI Hw. pose proof (Hwrap e (pushV s) (I_pushV c _ HI)) as Hs. rewrite Hw in Hs.
      destruct r as [v b]. apply I_popV. apply Hs.
    Qed.

    Lemma clone_vstack s x s1 : I c s -> cloneState c s = (x, s1) -> I c s1 /\ vstack s1 = vstack s.
    Proof.
      unfold cloneState. intros HI E. destruct (has_state (cT c)); inversion E; subst.
      - split; [apply I_pool; exact HI | reflexivity].
      - split; [exact HI | reflexivity].
    Qed.

    Lemma restoreState_vstack x s : vstack (restoreState c x s) = vstack s.
    Proof. unfold restoreState. destruct (has_state (cT c)); reflexivity. Qed.

    Lemma choice_vstack alts : forall s r s', I c s -> choice_loop c wrap alts s = Ok r s' -> vstack s' = vstack s.
    Proof.
      induction alts as [|a alts IH]; intros s r s' HI Hc; cbn [choice_loop] in Hc.
      - inversion Hc. reflexivity.
      - unfold bind, modify, ret in Hc.
        destruct (cloneState c s) as [x s1] eqn:Ecl.
        destruct (clone_vstack _ _ _ HI Ecl) as [HI1 Hv1].
        destruct (wrap a (pushV s1)) as [[v b] s2|pv s2|] eqn:Hw; try discriminate.
        pose proof (push_pop_vstack _ _ _ _ HI1 Hw) as Hv.
        pose proof (I_of_push _ _ _ _ HI1 Hw) as HI2.
        destruct b; cbn in Hc.
        + inversion Hc; subst. rewrite Hv. exact Hv1.
        + apply IH in Hc; [|apply I_restoreState; exact HI2]. rewrite Hc, restoreState_vstack, Hv. exact Hv1.
    Qed.

    Lemma rep_vstack e : forall n acc s vs s', I c s -> rep_loop wrap n e acc s = Ok vs s' -> vstack s' = vstack s.
    Proof.
      induction n as [|n IH]; intros acc s vs s' HI Hr; cbn [rep_loop] in Hr; [discriminate|].
      unfold bind, modify, ret in Hr.
      destruct (wrap e (pushV s)) as [[v b] s2|pv s2|] eqn:Hw; try discriminate.
      pose proof (push_pop_vstack _ _ _ _ HI Hw) as Hv.
      pose proof (I_of_push _ _ _ _ HI Hw) as HI2.
      destruct b; cbn in Hr.
      - apply IH in Hr; [|exact HI2]. rewrite Hr. exact Hv.
      - inversion Hr; subst. exact Hv.
    Qed.

    Lemma lit_vstack ic want start : forall rs s r s', lit_loop c ic want start rs s = Ok r s' -> vstack s' = vstack s.
    Proof.
      induction rs as [|w rs IH]; intros s r s' Hl; cbn [lit_loop] in Hl.
      - inversion Hl. apply failAt_other.
      - cbv zeta in Hl. destruct (_ && _).
        + apply IH in Hl. rewrite Hl. apply (read_other c s).
        + inversion Hl. destruct (restore_other start (failAt false (sp_pos start) want s)) as (_ & _ & _ & _ & Q5 & _).
          rewrite Q5. apply failAt_other.
    Qed.

    Lemma I_incr s :
      I c s -> negb (N.eqb (o_maxexpr (cO c)) 0) && N.ltb (o_maxexpr (cO c)) (exprCnt s + 1) = false ->
      I c (set_exprCnt (exprCnt s + 1)%N s).
    Proof.
      intros [A B C0] Hb. constructor; auto. unfold cnt_ok. cbn.
      apply andb_false_iff in Hb as [Hb|Hb].
      - left. apply negb_false_iff in Hb. apply N.eqb_eq in Hb. exact Hb.
      - right. apply N.ltb_ge in Hb. exact Hb.
    Qed.

    Lemma closed_vstack n e s r s' : I c s -> scope_closed e = true ->
      parseExpr c wrap n e s = Ok r s' -> vstack s' = vstack s.
    Proof.
      intros HI Hc Hp. unfold parseExpr in Hp.
      destruct (negb _ && _) eqn:Hb; [discriminate|].
      pose proof (I_incr s HI Hb) as HI1.
      set (s1 := set_exprCnt (exprCnt s + 1)%N s) in *.
      change (vstack s) with (vstack s1).
      destruct e; try discriminate.
      - unfold parseLitMatcher in Hp. eapply lit_vstack; eauto.
      - unfold parseCharClassMatcher, cls_match, cls_fail in Hp.
        repeat match type of Hp with context [if ?b then _ else _] => destruct b end; inversion Hp;
          rewrite ?(proj1 (proj2 (proj2 (proj2 (failAt_other _ _ _ _))))); try apply (read_other c s1); reflexivity.
      - unfold parseAnyMatcher in Hp. destruct (is_eof s1); inversion Hp;
          rewrite ?(proj1 (proj2 (proj2 (proj2 (failAt_other _ _ _ _))))); try apply (read_other c s1); reflexivity.
      - eapply choice_vstack; eauto.
      - unfold parseZeroOrMoreExpr, bind, ret in Hp.
        destruct (rep_loop wrap n e [] s1) as [vs s2|pv s2|] eqn:Hr; try discriminate.
        inversion Hp; subst. eapply rep_vstack; eauto.
      - unfold parseOneOrMoreExpr, bind, ret in Hp.
        destruct (rep_loop wrap n e [] s1) as [vs s2|pv s2|] eqn:Hr; try discriminate.
        destruct vs; inversion Hp; subst; eapply rep_vstack; eauto.
      - unfold parseZeroOrOneExpr, bind, modify, ret in Hp.
        destruct (wrap e (pushV s1)) as [[v b] s2|pv s2|] eqn:Hw; try discriminate.
        inversion Hp; subst. eapply push_pop_vstack; eauto.
      - unfold parseAndExpr, bind, modify, ret in Hp.
        destruct (cloneState c s1) as [x s1'] eqn:Ecl.
        destruct (clone_vstack _ _ _ HI1 Ecl) as [HI1' Hv1].
        destruct (wrap e (pushV s1')) as [[v b] s2|pv s2|] eqn:Hw; try discriminate.
        inversion Hp; subst.
        match goal with |- vstack (restore ?p ?y) = _ => destruct (restore_other p y) as (_ & _ & _ & _ & Q5 & _); rewrite Q5 end.
        rewrite restoreState_vstack, (push_pop_vstack e s1' _ _ HI1' Hw). exact Hv1.
      - unfold parseNotExpr, bind, modify, ret in Hp.
        destruct (cloneState c s1) as [x s1'] eqn:Ecl.
        destruct (clone_vstack _ _ _ HI1 Ecl) as [HI1' Hv1].
        change (set_maxFailInvert (negb (maxFailInvert (pushV s1'))) (pushV s1'))
          with (pushV (set_maxFailInvert (negb (maxFailInvert s1')) s1')) in Hp.
        set (s1'' := set_maxFailInvert (negb (maxFailInvert s1')) s1') in *.
        destruct (wrap e (pushV s1'')) as [[v b] s2|pv s2|] eqn:Hw; try discriminate.
        inversion Hp; subst.
        match goal with |- vstack (restore ?p ?y) = _ => destruct (restore_other p y) as (_ & _ & _ & _ & Q5 & _); rewrite Q5 end.
        rewrite restoreState_vstack. cbn.
        pose proof (push_pop_vstack e s1'' _ _ (I_flip c _ _ HI1') Hw) as Hpp. cbn in Hpp. rewrite Hpp. exact Hv1.
      - unfold parseRuleRefExpr in Hp. destruct r0 as [|x r0]; [discriminate|].
        destruct (find_rule (x :: r0) (cG c)) as [ru|] eqn:Hf.
        + pose proof (find_rule_In _ _ _ Hf) as Hin.
          unfold G_wf in HG. rewrite Forall_forall in HG. destruct (HG ru Hin) as [_ Hlr].
          rewrite (parseRuleWrap_plain c wrap Hmemo n ru s1 Hlr) in Hp.
          unfold parseRule, bind, modify, ret in Hp.
          set (s0 := set_rstack (ru :: rstack s1) s1) in *.
          assert (HI0 : I c s0) by (destruct HI1; constructor; auto).
          destruct (wrap (r_expr ru) (pushV s0)) as [[v b] s2|pv s2|] eqn:Hw; try discriminate.
          inversion Hp; subst. cbn. apply (push_pop_vstack _ s0 _ _ HI0 Hw).
        + inversion Hp. reflexivity.
    Qed.
  End ClosedImpl.

  (* ---------- one step of parseExpr against one step of reval ---------- *)
  Section OneStep.
    Variable wrap : expr -> M (val * bool).
    Variable ev : handlers -> option rule -> bool -> expr -> scope -> rsig -> rmu -> rres.
    Hypothesis Hwrap : wrap_spec c wrap.
    Hypothesis Hsim : sim_spec c wrap ev.
    Hypothesis Hev_st : has_state (cT c) = false -> forall H R inv e sc g m v g' sc' m',
      ev H R inv e sc g m = ROk v g' sc' m' -> g_st g' = g_st g.
    Hypothesis Hclosed_ref : forall H R inv e sc g m, scope_closed e = true ->
      ev H R inv e sc g m = set_scope sc (ev H R inv e [] g m).
    Hypothesis Hclosed_impl : forall e s r s', I c s -> scope_closed e = true ->
      wrap e s = Ok r s' -> vstack s' = vstack s.

    Definition reval_step (n : nat) (H : handlers) (R : option rule) (inv : bool) (e : expr)
               (sc : scope) (g : rsig) (m : rmu) : rres :=
      let m1 := mkMu (u_gs m) (u_log m) (u_cnt m + 1)%N in
      if over_budget c (u_cnt m1) then RPanic msg_max_expr m1 (pos_of d (g_off g)) R
      else reval_body c ev n H R inv e sc g m1.

    Lemma sim_parseExpr n e s sc g m H R inv :
      wf_e c e -> H_wf c H -> I c s -> Sim c s sc g m H R inv ->
      sim_res c sc g H R inv (parseExpr c wrap n e s) (reval_step n H R inv e sc g m).
    Proof.
      intros He HH HI S. unfold parseExpr, reval_step, over_budget. cbn [u_cnt rd rData rU rO rG rE].
      rewrite <- (S_cnt _ _ _ _ _ _ _ _ S). cbv zeta.
      change (exprCnt (set_exprCnt (exprCnt s + 1)%N s)) with (exprCnt s + 1)%N.
      destruct (negb (N.eqb (o_maxexpr (cO c)) 0) && N.ltb (o_maxexpr (cO c)) (exprCnt s + 1)) eqn:Hb.
      - cbn. split; [reflexivity|].
        pose proof (Sim_pos _ _ _ _ _ _ _ _ S) as Hpos.
        destruct S as [S1 S2 S3 S4 S5 S6 S7 S8 S9 S10 S11 S12]. constructor; cbn; auto.
      - pose proof (I_incr s HI Hb) as HI1.
        set (s1 := set_exprCnt (exprCnt s + 1)%N s) in *.
        set (m1 := mkMu (u_gs m) (u_log m) (exprCnt s + 1)%N).
        assert (S1 : Sim c s1 sc g m1 H R inv).
        { destruct S as [S1 S2 S3 S4 S5 S6 S7 S8 S9 S10 S11 S12]. constructor; cbn; auto. }
        destruct e; cbn [reval_body].
        + eapply sim_lit; eauto.
        + eapply sim_cls; eauto.
        + eapply sim_any; eauto.
        + apply wf_seq in He. eapply sim_seq; eauto.
        + apply wf_alt in He. eapply sim_choice; eauto.
        + eapply sim_star; eauto.
        + eapply sim_plus; eauto.
        + eapply sim_opt; eauto.
        + eapply sim_and; eauto.
        + eapply sim_not; eauto.
        + eapply sim_lab; eauto.
        + eapply sim_act; eauto.
        + pose proof (sim_pred c ev Hst Hev_st Hstale KAnd false c0 s1 sc g m1 H R inv (or_introl eq_refl) HI1 S1) as Hp.
          exact Hp.
        + pose proof (sim_pred c ev Hst Hev_st Hstale KNot true c0 s1 sc g m1 H R inv (or_intror eq_refl) HI1 S1) as Hp.
          cbn [run_block rd rData rU rO rG rE] in *.
          destruct (run_block KNot c0 (ce_pred (cE c)) _ m1) as [[[[ok err] st'] m']|[pv m']]; [|exact Hp].
          destruct ok; exact Hp.
        + cbn in He. rewrite He. eapply sim_stc; eauto.
        + eapply sim_ref; eauto.
        + destruct He as (He1 & He2 & He3). eapply sim_rec; eauto.
        + eapply sim_throw; eauto.
        Unshelve. all: try exact 0%N; try exact 0.
    Qed.

    Lemma sim_body n e s sc g m H R inv :
      wf_e c e -> H_wf c H -> I c s -> Sim c s sc g m H R inv ->
      sim_res c sc g H R inv (parseExprWrapBody c wrap n e s) (reval_step n H R inv e sc g m).
    Proof.
      intros He HH HI S. unfold parseExprWrapBody, bind, memo_active.
      rewrite Hnolr, Hmemo. destruct (t_optimize (cT c)); apply sim_parseExpr; assumption.
    Qed.
  End OneStep.

  (* ---------- induction on fuel ---------- *)
  Lemma wrap_closed_vstack fuel e s r s' : I c s -> scope_closed e = true ->
    parseExprWrap c fuel e s = Ok r s' -> vstack s' = vstack s.
  Proof.
    intros HI Hc Hp. destruct fuel as [|f]; [discriminate|]. cbn [parseExprWrap] in Hp.
    unfold parseExprWrapBody, bind, memo_active in Hp. rewrite Hnolr, Hmemo in Hp.
    assert (Hp' : parseExpr c (parseExprWrap c f) f e s = Ok r s') by (destruct (t_optimize (cT c)); exact Hp).
    eapply closed_vstack; eauto. apply parseExprWrap_inv.
  Qed.

  Theorem impl_refines_ref : forall fuel, sim_spec c (parseExprWrap c fuel) (reval c fuel).
  Proof.
    induction fuel as [|f IH]; intros e s sc g m H R inv He HH HI S.
    - exact Logic.I.
    - cbn [parseExprWrap reval].
      change (sim_res c sc g H R inv (parseExprWrapBody c (parseExprWrap c f) f e s)
                (reval_step (reval c f) f H R inv e sc g m)).
      apply sim_body; auto.
      + apply parseExprWrap_inv.
      + intros Hh H0 R0 inv0 e0 sc0 g0 m0 v g' sc' m' E.
        destruct Hst as [Hs|[_ Hfree]]; [congruence|]. eapply reval_st_free; eauto.
      + intros. apply reval_closed. assumption.
      + intros. eapply wrap_closed_vstack; eauto.
  Qed.
End Final.
