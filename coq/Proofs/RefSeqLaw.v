(* The sequence-in-sequence law for Ref itself. *)
From PV Require Import Lib.Base Lib.Utf8 Syntax.RGrammar Syntax.Code Model.PState Spec.Pos Model.Runtime Spec.Ref
  Proofs.RefMono Proofs.OptLaws Proofs.CntInsens Proofs.RefOptLaws.
Local Open Scope nat_scope.

Section SeqLaw.
  Variable c : rdata.
  Hypothesis Hbud : o_maxexpr (rO c) = 0%N.

  (* same outcome up to the counter and up to regrouping of the value *)
  Definition rsimg (x y : rres) : Prop :=
    match x, y with
    | ROk v g sc m, ROk v' g' sc' m' => leaves v = leaves v' /\ g = g' /\ sc = sc' /\ meq m m'
    | RFail m, RFail m' => meq m m'
    | RPanic pv m pos r, RPanic pv' m' pos' r' => pv = pv' /\ pos = pos' /\ r = r' /\ meq m m'
    | ROut, ROut => True
    | _, _ => False
    end.

  Lemma rsimg_refl x : rsimg x x.
  Proof. destruct x; cbn; auto using meq_refl. Qed.

  Lemma rsim_rsimg x y : rsim x y -> rsimg x y.
  Proof. destruct x, y; cbn; intuition congruence. Qed.

  Lemma upto_then_sim x y z : same_upto_grouping x y -> rsim y z -> rsimg x z.
  Proof.
    destruct x, y, z; cbn; try contradiction; try (intuition congruence).
  Qed.

  (* a sequence evaluated with less fuel and a different counter *)
  Lemma rseq_fuel_cnt f H R inv es : forall acc sc g m1 m2, meq m1 m2 ->
    rseq (reval c f) H R inv es acc sc g m1 <> ROut ->
    rsim (rseq (reval c f) H R inv es acc sc g m1) (rseq (reval c (S f)) H R inv es acc sc g m2).
  Proof.
    induction es as [|e es IH]; intros acc sc g m1 m2 Hm Hd; cbn [rseq] in *.
    - cbn. auto.
    - destruct (reval c f H R inv e sc g m1) as [ma|va ga sa ma|pva ma posa Ra|] eqn:E1; [| | |congruence];
        pose proof (reval_mono c f H R inv e sc g m1 ltac:(rewrite E1; discriminate)) as M; rewrite E1 in M;
        pose proof (counter_is_bookkeeping c Hbud (S f) H R inv e sc g m1 m2 Hm) as S1; rewrite M in S1;
        destruct (reval c (S f) H R inv e sc g m2); cbn [rsim] in S1; try contradiction.
      + exact S1.
      + destruct S1 as (-> & -> & -> & S1). apply IH; [exact S1 | exact Hd].
      + exact S1.
  Qed.

  Theorem ref_sequence_in_sequence_flattens f H R inv n n' a b d sc g m :
    reval c (S (S f)) H R inv (ESeq n (a ++ ESeq n' b :: d)) sc g m <> ROut ->
    rsimg (reval c (S (S f)) H R inv (ESeq n (a ++ ESeq n' b :: d)) sc g m)
          (reval c (S (S f)) H R inv (ESeq n (a ++ b ++ d)) sc g m).
  Proof.
    intros Hd.
    change (reval c (S (S f)) H R inv (ESeq n (a ++ ESeq n' b :: d)) sc g m) with
      (let m1 := mkMu (u_gs m) (u_log m) (u_cnt m + 1)%N in
       if over_budget c (u_cnt m1) then RPanic msg_max_expr m1 (pos_of (rData c) (g_off g)) R
       else rseq (reval c (S f)) H R inv (a ++ ESeq n' b :: d) [] sc g m1) in *.
    change (reval c (S (S f)) H R inv (ESeq n (a ++ b ++ d)) sc g m) with
      (let m1 := mkMu (u_gs m) (u_log m) (u_cnt m + 1)%N in
       if over_budget c (u_cnt m1) then RPanic msg_max_expr m1 (pos_of (rData c) (g_off g)) R
       else rseq (reval c (S f)) H R inv (a ++ b ++ d) [] sc g m1).
    cbv zeta in *. unfold over_budget in *. rewrite Hbud in *. cbn [N.eqb negb andb] in *.
    set (m1 := mkMu (u_gs m) (u_log m) (u_cnt m + 1)%N) in *.
    set (ev := reval c (S f)) in *.
    rewrite !rseq_app in *.
    destruct (rseq ev H R inv a [] sc g m1) as [m2|v1 g1 sc1 m2|pv m2 pos r1|]; try apply rsimg_refl.
    destruct v1 as [| |vs| |]; try apply rsimg_refl.
    rewrite rseq_app. cbn [rseq] in *.
    change (ev H R inv (ESeq n' b) sc1 g1 m2) with
      (let m3 := mkMu (u_gs m2) (u_log m2) (u_cnt m2 + 1)%N in
       if over_budget c (u_cnt m3) then RPanic msg_max_expr m3 (pos_of (rData c) (g_off g1)) R
       else rseq (reval c f) H R inv b [] sc1 g1 m3) in *.
    cbv zeta in *. unfold over_budget in *. rewrite Hbud in *. cbn [N.eqb negb andb] in *.
    set (m3 := mkMu (u_gs m2) (u_log m2) (u_cnt m2 + 1)%N) in *.
    assert (Hm : meq m3 m2) by (split; reflexivity).
    assert (Hdb : rseq (reval c f) H R inv b [] sc1 g1 m3 <> ROut).
    { intros E. rewrite E in Hd. congruence. }
    pose proof (rseq_fuel_cnt f H R inv b [] sc1 g1 m3 m2 Hm Hdb) as X. fold ev in X.
    rewrite (rseq_acc ev H R inv b (rev vs) sc1 g1 m2).
    destruct (rseq (reval c f) H R inv b [] sc1 g1 m3) as [mb|vb gb sb mb|pvb mb posb Rb|] eqn:Eb; [| | |congruence].
    - destruct (rseq ev H R inv b [] sc1 g1 m2); cbn [rsim] in X; try contradiction. cbn [rsimg]. exact X.
    - destruct (rseq ev H R inv b [] sc1 g1 m2) as [|vb' gb' sb' mb'| |] eqn:Eb'; cbn [rsim] in X; try contradiction.
      destruct X as (-> & -> & -> & X).
      destruct (rseq_is_list ev H R inv _ _ _ _ _ _ _ _ _ Eb') as [vl ->]. cbn [rev app].
      (* continue with d: different accumulators with the same leaves, counters that differ *)
      eapply upto_then_sim.
      + apply (rseq_acc_leaves ev H R inv d (VList vl :: rev vs) (rev (rev (rev vs) ++ vl)) sb' gb' mb).
        cbn [rev]. rewrite !rev_involutive, !leaves_list_app.
        unfold leaves_list at 2. cbn [map concat]. rewrite leaves_VList, app_nil_r. reflexivity.
      + apply (rseq_sim ev (counter_is_bookkeeping c Hbud (S f))). exact X.
    - destruct (rseq ev H R inv b [] sc1 g1 m2); cbn [rsim] in X; try contradiction. cbn [rsimg]. exact X.
  Qed.
End SeqLaw.
