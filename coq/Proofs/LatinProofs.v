(* C15: the Basic-Latin lookup table against the general matching procedure. *)
From PV Require Import Lib.Base Lib.Utf8 Syntax.RGrammar Syntax.Code Model.PState Spec.Pos Model.Runtime Model.Lower.
From Coq Require Import ZifyBool ZifyN ZifyNat.
Local Open Scope Z_scope.

Definition tab_get (t : list bool) (r : rune) : bool := nth (Z.to_nat r) t false.

Lemma upd_length i t : length (upd i t) = length t.
Proof. revert i; induction t as [|b t IH]; intros [|i]; cbn; auto. Qed.

Lemma upd_nth i t j : nth j (upd i t) false = (Nat.eqb j i && Nat.ltb i (length t)) || nth j t false.
Proof.
  revert i j; induction t as [|b t IH]; intros i j.
  - cbn. destruct i, j; cbn; rewrite ?andb_false_r; reflexivity.
  - destruct i as [|i]; destruct j as [|j]; cbn; auto.
    rewrite IH. reflexivity.
Qed.

Lemma set_tab_length t x : length (set_tab t x) = length t.
Proof. unfold set_tab. destruct (_ && _); [apply upd_length | reflexivity]. Qed.

Lemma set_tab_get t x r : length t = 128%nat -> 0 <= r < 128 ->
  tab_get (set_tab t x) r = (r =? x) || tab_get t r.
Proof.
  intros Hl Hr. unfold set_tab, tab_get.
  destruct (Z.leb_spec 0 x); destruct (Z.ltb_spec x 128); cbn [andb].
  - rewrite upd_nth, Hl.
    destruct (Nat.ltb_spec (Z.to_nat x) 128); [|lia].
    destruct (Nat.eqb_spec (Z.to_nat r) (Z.to_nat x)); destruct (Z.eqb_spec r x); try lia; cbn; auto.
  - destruct (Z.eqb_spec r x); [lia | reflexivity].
  - destruct (Z.eqb_spec r x); [lia | reflexivity].
  - destruct (Z.eqb_spec r x); [lia | reflexivity].
Qed.

Lemma fold_left_cons {A B} (f : A -> B -> A) x l a : fold_left f (x :: l) a = fold_left f l (f a x).
Proof. reflexivity. Qed.
Lemma existsb_cons {A} (f : A -> bool) x l : existsb f (x :: l) = f x || existsb f l.
Proof. reflexivity. Qed.

Section NoFold.
  Variable u : ulib.

  Lemma mark_nofold t x : mark u false t x = set_tab t x.
  Proof. reflexivity. Qed.

  Lemma fold_chars_get chars : forall t r, length t = 128%nat -> 0 <= r < 128 ->
    let t' := fold_left (fun t x => if x <? 128 then mark u false t x else t) chars t in
    length t' = 128%nat /\ tab_get t' r = existsb (Z.eqb r) chars || tab_get t r.
  Proof.
    induction chars as [|x chars IH]; intros t r Hl Hr; cbn [fold_left existsb].
    - split; auto.
    - destruct (Z.ltb_spec x 128); rewrite ?mark_nofold.
      + destruct (IH (set_tab t x) r) as [A B]; [rewrite set_tab_length; exact Hl | exact Hr|].
        split; [exact A|]. rewrite B, set_tab_get by assumption.
        rewrite orb_assoc. f_equal. apply orb_comm.
      + destruct (IH t r Hl Hr) as [A B]. split; [exact A|]. rewrite B.
        destruct (Z.eqb_spec r x); [lia | reflexivity].
  Qed.

  Lemma mark_range_get : forall fuel t j hi r, length t = 128%nat -> 0 <= r < 128 -> 0 <= j ->
    (128 - j <= Z.of_nat fuel) ->
    let t' := mark_range fuel u false t j hi in
    length t' = 128%nat /\ tab_get t' r = ((j <=? r) && (r <=? hi)) || tab_get t r.
  Proof.
    induction fuel as [|f IH]; intros t j hi r Hl Hr Hj Hf; cbn [mark_range].
    - split; [exact Hl|]. destruct (Z.leb_spec j r); [lia|]. reflexivity.
    - destruct (Z.ltb_spec j 128); destruct (Z.leb_spec j hi); cbn [andb].
      + rewrite mark_nofold. destruct (IH (set_tab t j) (j + 1) hi r) as [A B];
          [rewrite set_tab_length; exact Hl | exact Hr | lia | lia |].
        split; [exact A|]. rewrite B, set_tab_get by assumption.
        destruct (Z.leb_spec (j + 1) r); destruct (Z.leb_spec r hi); destruct (Z.eqb_spec r j);
          destruct (Z.leb_spec j r); cbn; try lia; reflexivity.
      + split; [exact Hl|]. destruct (Z.leb_spec j r); destruct (Z.leb_spec r hi); cbn; try lia; reflexivity.
      + split; [exact Hl|]. destruct (Z.leb_spec j r); cbn; [lia | reflexivity].
      + split; [exact Hl|]. destruct (Z.leb_spec j r); cbn; [lia | reflexivity].
  Qed.

  Lemma in_ranges_pairs r : forall rs, in_ranges r rs = existsb (fun p => (fst p <=? r) && (r <=? snd p)) (range_pairs rs).
  Proof. fix IH 1. intros [|lo [|hi rs]]; cbn; auto. rewrite IH. reflexivity. Qed.

  Lemma mark_ranges_get ranges : forall t r, length t = 128%nat -> 0 <= r < 128 ->
    let t' := mark_ranges u false t ranges in
    length t' = 128%nat /\ tab_get t' r = in_ranges r ranges || tab_get t r.
  Proof.
    intros t r Hl Hr. cbv zeta. rewrite in_ranges_pairs. unfold mark_ranges.
    revert t Hl. induction (range_pairs ranges) as [|[lo hi] ps IH]; intros t Hl; cbn [fold_left existsb]; [split; auto|].
    unfold mark_one_range at 2 4. cbn [fst snd].
    destruct (Z.ltb_spec lo 128).
    - destruct (mark_range_get 129 t (Z.max lo 0) hi r Hl Hr) as [A B]; [lia | lia |].
      destruct (IH _ A) as [A' B']. split; [exact A'|]. rewrite B', B.
      replace ((Z.max lo 0 <=? r)) with (lo <=? r) by (destruct (Z.leb_spec lo r); destruct (Z.leb_spec (Z.max lo 0) r); lia).
      rewrite orb_assoc. f_equal. apply orb_comm.
    - destruct (IH t Hl) as [A' B']. split; [exact A'|]. rewrite B'.
      destruct (Z.leb_spec lo r); cbn; [lia | reflexivity].
  Qed.

  Lemma mark_class_get cl t r : length t = 128%nat -> 0 <= r < 128 ->
    length (mark_class u t cl) = 128%nat /\ tab_get (mark_class u t cl) r = in_class u cl r || tab_get t r.
  Proof.
    intros Hl Hr. unfold mark_class.
    assert (Hgen : forall rs t0, length t0 = 128%nat -> (forall x, In x rs -> 0 <= x < 128) ->
      let t' := fold_left (fun t x => if in_class u cl x then set_tab t x else t) rs t0 in
      length t' = 128%nat /\ tab_get t' r = (existsb (Z.eqb r) rs && in_class u cl r) || tab_get t0 r).
    { induction rs as [|x rs IHrs]; intros t0 Hl0 Hin; cbn [fold_left existsb]; [split; auto|].
      assert (Hx : 0 <= x < 128) by (apply Hin; left; reflexivity).
      assert (Hin' : forall y, In y rs -> 0 <= y < 128) by (intros; apply Hin; right; auto).
      destruct (in_class u cl x) eqn:Ec.
      - destruct (IHrs (set_tab t0 x)) as [A B]; [rewrite set_tab_length; exact Hl0 | exact Hin' |].
        split; [exact A|]. rewrite B, set_tab_get by assumption.
        destruct (Z.eqb_spec r x); [subst; rewrite Ec; cbn; rewrite ?orb_true_r; reflexivity|]. cbn. reflexivity.
      - destruct (IHrs t0 Hl0 Hin') as [A B]. split; [exact A|]. rewrite B.
        destruct (Z.eqb_spec r x); [subst; rewrite Ec; cbn; rewrite andb_false_r; reflexivity|]. reflexivity. }
    destruct (Hgen ascii_runes t Hl) as [A B].
    { intros x Hx. unfold ascii_runes in Hx. apply in_map_iff in Hx as [k [<- Hk]]. apply in_seq in Hk. lia. }
    split; [exact A|]. rewrite B.
    assert (Hex : existsb (Z.eqb r) ascii_runes = true).
    { apply existsb_exists. exists r. split; [|apply Z.eqb_refl].
      unfold ascii_runes. apply in_map_iff. exists (Z.to_nat r). split; [lia | apply in_seq; lia]. }
    rewrite Hex. reflexivity.
  Qed.

  Lemma fold_classes_get classes : forall t r, length t = 128%nat -> 0 <= r < 128 ->
    length (fold_left (mark_class u) classes t) = 128%nat /\
    tab_get (fold_left (mark_class u) classes t) r = existsb (fun cl => in_class u cl r) classes || tab_get t r.
  Proof.
    induction classes as [|cl classes IH]; intros t r Hl Hr.
    - split; [exact Hl | reflexivity].
    - rewrite !fold_left_cons, existsb_cons.
      destruct (mark_class_get cl t r Hl Hr) as [A B].
      destruct (IH (mark_class u t cl) r A Hr) as [A' B']. split; [exact A'|]. rewrite B', B.
      rewrite orb_assoc. f_equal. apply orb_comm.
  Qed.

  (* without the i flag the precomputed decision of every Basic Latin rune is the
     decision of the general matching procedure - for every class, every Unicode library *)
  Theorem table_eq_slow_nofold chars ranges classes inv r : 0 <= r < 128 ->
    table_decide (basic_latin u chars ranges classes false) inv r = slow_decide u chars ranges classes false inv r.
  Proof.
    intros Hr. unfold table_decide, slow_decide, class_decide, lower_runes, basic_latin.
    match goal with |- context [nth (Z.to_nat r) ?t false] => change (nth (Z.to_nat r) t false) with (tab_get t r) end.
    destruct (fold_chars_get chars (repeat false 128) r (repeat_length _ _) Hr) as [A1 B1].
    destruct (mark_ranges_get ranges _ r A1 Hr) as [A2 B2].
    destruct (fold_classes_get classes _ r A2 Hr) as [A3 B3].
    rewrite B3, B2, B1.
    assert (H0 : tab_get (repeat false 128) r = false).
    { unfold tab_get. apply nth_repeat. }
    rewrite H0, orb_false_r.
    set (a := existsb (Z.eqb r) chars). set (b := in_ranges r ranges). set (d := existsb (fun cl => in_class u cl r) classes).
    destruct a, b, d, inv; reflexivity.
  Qed.
End NoFold.

(* for any flags: the exhaustive check over the 128 runes is sound and complete *)
Theorem table_agrees_b_spec u chars ranges classes ic inv :
  table_agrees_b u chars ranges classes ic inv = true <->
  forall r, 0 <= r < 128 ->
    table_decide (basic_latin u chars ranges classes ic) inv r = slow_decide u chars ranges classes ic inv r.
Proof.
  unfold table_agrees_b. rewrite forallb_forall. split.
  - intros H r Hr. apply eqb_prop. apply H. unfold ascii_runes. apply in_map_iff.
    exists (Z.to_nat r). split; [lia | apply in_seq; lia].
  - intros H r Hin. unfold ascii_runes in Hin. apply in_map_iff in Hin as [k [<- Hk]]. apply in_seq in Hk.
    rewrite H by lia. apply eqb_reflx.
Qed.

(* runes outside Basic Latin and invalid bytes take the general procedure in both parsers *)
Lemma nonascii_same_path c cv chars ranges classes ic inv table s :
  128 <= sp_rn (pt s) ->
  parseCharClassMatcher c cv chars ranges classes ic inv table s =
  (if is_eof s then cls_fail cv (pt s) s
   else if class_decide (cU c) chars ranges classes ic inv (sp_rn (pt s))
        then cls_match c cv (pt s) s else cls_fail cv (pt s) s).
Proof.
  intros H. unfold parseCharClassMatcher.
  destruct (Z.ltb_spec (sp_rn (pt s)) 128); [lia|]. rewrite andb_false_r. reflexivity.
Qed.
