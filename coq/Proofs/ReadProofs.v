(* Properties of [read] (static_code.go: func (p *parser) read()). *)
From PV Require Import Lib.Base Lib.Utf8 Syntax.RGrammar Syntax.Code Model.PState Spec.Pos Model.Runtime Proofs.Utf8Proofs.
Local Open Scope nat_scope.

(* A savepoint is coherent with the input when its cached suffix is data[offset:],
   (rn, w) is what DecodeRune returns there, and the offset lies within the input. *)
Definition sp_ok (d : bytes) (p : savepoint) : Prop :=
  sp_rest p = skipn (offset (sp_pos p)) d /\ (sp_rn p, sp_w p) = decode (sp_rest p) /\
  offset (sp_pos p) <= length d.

Lemma adv_facts p :
  sp_rest (adv p) = skipn (sp_w p) (sp_rest p) /\
  offset (sp_pos (adv p)) = offset (sp_pos p) + sp_w p /\
  (sp_rn (adv p), sp_w (adv p)) = decode (sp_rest (adv p)).
Proof.
  unfold adv. destruct (decode (skipn (sp_w p) (sp_rest p))) as [rn n] eqn:Hd.
  destruct (Z.eqb rn 10); cbn; rewrite ?Hd; auto.
Qed.

Lemma read_pt_adv c s : pt (read c s) = adv (pt s).
Proof.
  unfold read. destruct (Z.eqb _ _ && Nat.eqb _ _); [destruct (o_allowinvalid (cO c))|]; reflexivity.
Qed.

Lemma read_pt c s :
  let p := pt s in
  let rest' := skipn (sp_w p) (sp_rest p) in
  sp_rest (pt (read c s)) = rest' /\
  offset (sp_pos (pt (read c s))) = offset (sp_pos p) + sp_w p /\
  (sp_rn (pt (read c s)), sp_w (pt (read c s))) = decode rest'.
Proof.
  cbv zeta. rewrite read_pt_adv. destruct (adv_facts (pt s)) as (A & B & C). rewrite <- A. auto.
Qed.

Lemma skipn_skipn' {A} (n m : nat) (l : list A) : skipn n (skipn m l) = skipn (m + n) l.
Proof.
  revert l; induction m as [|m IH]; intros l; cbn [skipn plus]; [reflexivity|].
  destruct l as [|x l]; [destruct n; reflexivity|]. apply IH.
Qed.

Lemma read_sp_ok c s :
  sp_rest (pt s) = skipn (offset (sp_pos (pt s))) (cData c) ->
  offset (sp_pos (pt s)) + sp_w (pt s) <= length (cData c) ->
  sp_ok (cData c) (pt (read c s)).
Proof.
  intros H Hl. destruct (read_pt c s) as (Hr & Ho & Hd). cbv zeta in *.
  split; [|split].
  - rewrite Hr, Ho, H. apply skipn_skipn'.
  - rewrite Hd, Hr. reflexivity.
  - rewrite Ho. exact Hl.
Qed.

(* the width of the rune at a coherent savepoint stays within the input *)
Lemma sp_ok_width d p : sp_ok d p -> offset (sp_pos p) + sp_w p <= length d.
Proof.
  intros (A & B & L).
  assert (Hw : sp_w p <= length (sp_rest p)).
  { pose proof (decode_width_le (sp_rest p)) as H. rewrite <- B in H. exact H. }
  rewrite A in Hw. rewrite skipn_length in Hw. lia.
Qed.

(* errs after read: exactly one "invalid encoding" error is appended iff the byte
   landed on is invalid and AllowInvalidUTF8 is off. *)
Lemma read_errs c s :
  let rest' := skipn (sp_w (pt s)) (sp_rest (pt s)) in
  (decode rest' = (RuneError, 1) /\ o_allowinvalid (cO c) = false /\
     exists e, errs (read c s) = errs s ++ [e] /\ pe_msg e = msg_invalid_encoding /\
               pe_pos e = sp_pos (pt (read c s)))
  \/ ((decode rest' <> (RuneError, 1) \/ o_allowinvalid (cO c) = true) /\ errs (read c s) = errs s).
Proof.
  cbv zeta. destruct (adv_facts (pt s)) as (A & _ & C). rewrite <- A, <- C.
  unfold read.
  destruct (Z.eqb_spec (sp_rn (adv (pt s))) RuneError) as [Er|Er];
    destruct (Nat.eqb_spec (sp_w (adv (pt s))) 1) as [En|En]; cbn [andb].
  - destruct (o_allowinvalid (cO c)) eqn:Ha.
    + right. split; [right; reflexivity|]. reflexivity.
    + left. rewrite Er, En. split; [reflexivity|]. split; [reflexivity|].
      eexists. split; [reflexivity|]. split; reflexivity.
  - right. split; [left; intros E; inversion E; contradiction|]. reflexivity.
  - right. split; [left; intros E; inversion E; contradiction|]. reflexivity.
  - right. split; [left; intros E; inversion E; contradiction|]. reflexivity.
Qed.
