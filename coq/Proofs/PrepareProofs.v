(* C07 (one direction): whatever cycle PrepareGrammar reports is a left-recursive cycle of
   the specification - for every iteration order of the rules map, every amount of fuel and
   every setting of the analysis quirks.  Hence a grammar without such a cycle is accepted. *)
From PV Require Import Lib.Base Syntax.RGrammar Syntax.Ast Model.Prepare Spec.LRRel.
From Coq Require Import Relations.Relation_Operators Lia.

Section PrepareSound.
  Variable q : pquirks.
  Variable g : agrammar.

  (* node identities: which sub-expression of the grammar carries flag n *)
  Definition nid_of (e : aexpr) : option nid :=
    match e with
    | ASeq n _ | AAlt n _ | AAct n _ _ | ARec n _ _ _ | ARef n _ => Some n
    | _ => None
    end.

  Fixpoint subs (e : aexpr) : list aexpr :=
    e :: match e with
         | ASeq _ es | AAlt _ es => flat_map subs es
         | AStar e' | APlus e' | AOpt e' | AAnd e' | ANot e' | ALab _ e' | AAct _ _ e' => subs e'
         | ARec _ e' rc _ => subs e' ++ subs rc
         | _ => []
         end.

  Definition all_subs : list aexpr := flat_map (fun r => subs (a_expr r)) g.

  (* every flag-carrying node of the grammar has its own identity (the Go nodes are distinct objects) *)
  Definition ids_unique : Prop :=
    forall e e' n, In e all_subs -> In e' all_subs -> nid_of e = Some n -> nid_of e' = Some n -> e = e'.

  Definition flag_sound (s : pst) : Prop :=
    forall e n, In e all_subs -> nid_of e = Some n -> getf n s = true -> nullable_x g e.

  Lemma getf_setf_same n b s : getf n (setf n b s) = b.
  Proof. unfold getf, setf. cbn. rewrite N.eqb_refl. reflexivity. Qed.

  Lemma getf_setf_other n m b s : n <> m -> getf m (setf n b s) = getf m s.
  Proof. intros H. unfold getf, setf. cbn. destruct (N.eqb_spec n m); [contradiction | reflexivity]. Qed.

  Hypothesis Huniq : ids_unique.

  Lemma flag_sound_setf e n b s :
    In e all_subs -> nid_of e = Some n -> (b = true -> nullable_x g e) -> flag_sound s -> flag_sound (setf n b s).
  Proof.
    intros Hin Hid Hb Hs e' m Hin' Hid' Hg.
    destruct (N.eq_dec n m) as [<-|Hne].
    - rewrite getf_setf_same in Hg. rewrite (Huniq e' e n Hin' Hin Hid' Hid). apply Hb. exact Hg.
    - rewrite getf_setf_other in Hg by exact Hne. eapply Hs; eauto.
  Qed.

  Lemma flag_sound_other s s' : nf s' = nf s -> flag_sound s -> flag_sound s'.
  Proof. intros E Hs e n Hin Hid Hg. unfold getf in Hg. rewrite E in Hg. eapply Hs; eauto. Qed.

  (* ---------- closure of the sub-expression list ---------- *)
  Lemma subs_self e : In e (subs e).
  Proof. destruct e; cbn; left; reflexivity. Qed.

  Lemma subs_trans : forall e e' e'', In e' (subs e) -> In e'' (subs e') -> In e'' (subs e).
  Proof.
    intros e. induction e using aexpr_ind2; intros e' e'' H1 H2; cbn in H1 |- *;
      (destruct H1 as [<-|H1]; [exact H2|]); try contradiction; right.
    - apply in_flat_map in H1 as [x [Hx H1]]. apply in_flat_map. exists x. split; [exact Hx|].
      rewrite Forall_forall in H. eapply H; eauto.
    - apply in_flat_map in H1 as [x [Hx H1]]. apply in_flat_map. exists x. split; [exact Hx|].
      rewrite Forall_forall in H. eapply H; eauto.
    - eapply IHe; eauto.
    - eapply IHe; eauto.
    - eapply IHe; eauto.
    - eapply IHe; eauto.
    - eapply IHe; eauto.
    - eapply IHe; eauto.
    - eapply IHe; eauto.
    - apply in_app_or in H1 as [H1|H1]; apply in_or_app; [left; eapply IHe1 | right; eapply IHe2]; eauto.
  Qed.

  Lemma all_subs_closed e e' : In e all_subs -> In e' (subs e) -> In e' all_subs.
  Proof.
    unfold all_subs. intros H1 H2. apply in_flat_map in H1 as [r [Hr H1]]. apply in_flat_map. exists r.
    split; [exact Hr | eapply subs_trans; eauto].
  Qed.

  Lemma find_arule_In nm G r : find_arule nm G = Some r -> In r G.
  Proof.
    unfold find_arule. assert (Hgen : forall acc, fold_left (fun acc r0 => if bytes_eqb (a_name r0) nm then Some r0 else acc) G acc = Some r ->
                                 acc = Some r \/ In r G).
    { induction G as [|x G IH]; intros acc Hf; cbn in *; [left; exact Hf|].
      destruct (IH _ Hf) as [E|Hin]; [|right; right; exact Hin].
      destruct (bytes_eqb (a_name x) nm); [inversion E; right; left; reflexivity | left; exact E]. }
    intros Hf. destruct (Hgen None Hf) as [E|Hin]; [discriminate | exact Hin].
  Qed.

  Lemma rule_body_in_subs r ru : find_arule r g = Some ru -> In (a_expr ru) all_subs.
  Proof.
    intros H. apply find_arule_In in H. unfold all_subs. apply in_flat_map. exists ru. split; [exact H | apply subs_self].
  Qed.

  (* ---------- NullableVisit only ever claims what the specification allows ---------- *)
  Lemma nvisit_sound : forall fuel e s, In e all_subs -> flag_sound s ->
    (fst (nvisit q g fuel e s) = true -> nullable_x g e) /\ flag_sound (snd (nvisit q g fuel e s)).
  Proof.
    induction fuel as [|f IH]; intros e s Hin Hs; cbn [nvisit]; [split; [discriminate | exact Hs]|].
    destruct e.
    - (* lit *) cbn. split; [|exact Hs]. destruct val; [intros _; constructor | discriminate].
    - (* cls *) cbn. split; [|exact Hs]. unfold cls_empty. destruct chars, ranges, classes; try discriminate. intros _; constructor.
    - cbn. split; [discriminate | exact Hs].
    - (* seq *)
      assert (Hsub : forall x, In x es -> In x all_subs).
      { intros x Hx. eapply all_subs_closed; [exact Hin|]. cbn. right. apply in_flat_map. exists x. split; [exact Hx | apply subs_self]. }
      assert (Hgo : forall l pre s0, es = pre ++ l -> Forall (nullable_x g) pre -> flag_sound s0 ->
        let r := (fix go (l : list aexpr) (s : pst) : bool * pst :=
               match l with
               | [] => (true, setf n true s)
               | x :: l' => let '(b, s1) := nvisit q g f x s in if b then go l' s1 else (false, setf n false s1)
               end) l s0 in
        (fst r = true -> nullable_x g (ASeq n es)) /\ flag_sound (snd r)).
      { induction l as [|x l IHl]; intros pre s0 E Hpre Hs0; cbn.
        - rewrite app_nil_r in E. subst pre. split; [intros _; constructor; exact Hpre|].
          apply (flag_sound_setf (ASeq n es) n _ _ Hin eq_refl); auto. intros _. constructor. exact Hpre.
        - assert (Hx : In x all_subs) by (apply Hsub; rewrite E; apply in_or_app; right; left; reflexivity).
          destruct (IH x s0 Hx Hs0) as [A B]. destruct (nvisit q g f x s0) as [b s1]. cbn in A, B. destruct b.
          + apply (IHl (pre ++ [x]) s1); [rewrite <- app_assoc; exact E | apply Forall_app; split; [exact Hpre | constructor; [apply A; reflexivity | constructor]] | exact B].
          + cbn. split; [intros Hb; discriminate Hb|]. apply (flag_sound_setf (ASeq n es) n _ _ Hin eq_refl); auto; try (intros Hb; discriminate Hb). }
      apply (Hgo es [] s); [reflexivity | constructor | exact Hs].
    - (* alt *)
      assert (Hsub : forall x, In x es -> In x all_subs).
      { intros x Hx. eapply all_subs_closed; [exact Hin|]. cbn. right. apply in_flat_map. exists x. split; [exact Hx | apply subs_self]. }
      assert (Hrest : forall l s0, (forall x, In x l -> In x es) -> flag_sound s0 ->
                flag_sound (fold_left (fun s2 y => snd (nvisit q g f y s2)) l s0)).
      { induction l as [|y l IHl]; intros s0 Hl Hs0; cbn; [exact Hs0|].
        apply IHl; [intros z Hz; apply Hl; right; exact Hz|].
        apply (IH y s0); [apply Hsub; apply Hl; left; reflexivity | exact Hs0]. }
      assert (Hgo : forall l s0, (forall x, In x l -> In x es) -> flag_sound s0 ->
        let r := (fix go (l : list aexpr) (s : pst) : bool * pst :=
               match l with
               | [] => (false, setf n false s)
               | x :: l' =>
                   let '(b, s1) := nvisit q g f x s in
                   if b then
                     if pq_short q then (true, setf n true s1)
                     else (true, setf n true (fold_left (fun s2 y => snd (nvisit q g f y s2)) l' s1))
                   else go l' s1
               end) l s0 in
        (fst r = true -> nullable_x g (AAlt n es)) /\ flag_sound (snd r)).
      { induction l as [|x l IHl]; intros s0 Hl Hs0; cbn.
        - split; [intros Hb; discriminate Hb|]. apply (flag_sound_setf (AAlt n es) n _ _ Hin eq_refl); auto; try (intros Hb; discriminate Hb).
        - assert (Hxe : In x es) by (apply Hl; left; reflexivity).
          destruct (IH x s0 (Hsub x Hxe) Hs0) as [A B]. destruct (nvisit q g f x s0) as [b s1]. cbn in A, B. destruct b.
          + assert (Hn : nullable_x g (AAlt n es)) by (econstructor; [exact Hxe | apply A; reflexivity]).
            destruct (pq_short q); cbn; (split; [intros _; exact Hn|]);
              apply (flag_sound_setf (AAlt n es) n _ _ Hin eq_refl); auto.
            apply Hrest; [intros y Hy; apply Hl; right; exact Hy | exact B].
          + apply IHl; [intros y Hy; apply Hl; right; exact Hy | exact B]. }
      apply Hgo; [auto | exact Hs].
    - (* star *) destruct (pq_inner q); cbn; (split; [intros _; constructor|]); [exact Hs|].
      apply IH; [eapply all_subs_closed; [exact Hin | cbn; right; apply subs_self] | exact Hs].
    - (* plus *) destruct (pq_inner q); cbn; (split; [discriminate|]); [exact Hs|].
      apply IH; [eapply all_subs_closed; [exact Hin | cbn; right; apply subs_self] | exact Hs].
    - (* opt *) destruct (pq_inner q); cbn; (split; [intros _; constructor|]); [exact Hs|].
      apply IH; [eapply all_subs_closed; [exact Hin | cbn; right; apply subs_self] | exact Hs].
    - (* and *) destruct (pq_pred q); cbn; (split; [intros _; constructor|]); [exact Hs|].
      apply IH; [eapply all_subs_closed; [exact Hin | cbn; right; apply subs_self] | exact Hs].
    - (* not *) destruct (pq_pred q); cbn; (split; [intros _; constructor|]); [exact Hs|].
      apply IH; [eapply all_subs_closed; [exact Hin | cbn; right; apply subs_self] | exact Hs].
    - (* lab *)
      destruct (IH e s (all_subs_closed _ _ Hin (or_intror (subs_self e))) Hs) as [A B].
      split; [intros Hb; constructor; apply A; exact Hb | exact B].
    - (* act *)
      destruct (IH e s (all_subs_closed _ _ Hin (or_intror (subs_self e))) Hs) as [A B].
      destruct (nvisit q g f e s) as [b s1]. cbn in *.
      split; [intros Hb; constructor; apply A; exact Hb|].
      apply (flag_sound_setf (AAct n code e) n _ _ Hin eq_refl); auto. intros Hb. constructor. apply A. exact Hb.
    - cbn. split; [intros _; constructor | exact Hs].
    - cbn. split; [intros _; constructor | exact Hs].
    - cbn. split; [intros _; constructor | exact Hs].
    - (* ref *)
      destruct (find_arule r g) as [ru|] eqn:Hf.
      + destruct (mem_bytes r (visited s)).
        * cbn. split; [intros Hb; discriminate Hb|]. apply (flag_sound_setf (ARef n r) n _ _ Hin eq_refl); auto; try (intros Hb; discriminate Hb).
        * set (s0 := mkPst (nf s) (r :: visited s) (rnull s)).
          assert (Hs0 : flag_sound s0) by (eapply flag_sound_other; [|exact Hs]; reflexivity).
          destruct (IH (a_expr ru) s0 (rule_body_in_subs _ _ Hf) Hs0) as [A B].
          destruct (nvisit q g f (a_expr ru) s0) as [b s1]. cbn in *.
          assert (Hn : b = true -> nullable_x g (ARef n r)) by (intros Hb; econstructor; [exact Hf | apply A; exact Hb]).
          split; [exact Hn|]. apply (flag_sound_setf (ARef n r) n _ _ Hin eq_refl); auto.
      + cbn. split; [intros Hb; discriminate Hb|]. apply (flag_sound_setf (ARef n r) n _ _ Hin eq_refl); auto; try (intros Hb; discriminate Hb).
    - (* rec *)
      destruct (IH e1 s (all_subs_closed _ _ Hin (or_intror (in_or_app _ _ _ (or_introl (subs_self e1))))) Hs) as [A B].
      destruct (nvisit q g f e1 s) as [b s1]. cbn in A, B. destruct b.
      + assert (Hn : nullable_x g (ARec n e1 e2 ls)) by (apply nx_rec1; apply A; reflexivity).
        destruct (pq_short q); cbn; (split; [intros _; exact Hn|]);
          apply (flag_sound_setf (ARec n e1 e2 ls) n _ _ Hin eq_refl); auto.
        apply (IH e2 s1); [exact (all_subs_closed _ _ Hin (or_intror (in_or_app _ _ _ (or_intror (subs_self e2))))) | exact B].
      + destruct (IH e2 s1 (all_subs_closed _ _ Hin (or_intror (in_or_app _ _ _ (or_intror (subs_self e2))))) B) as [A2 B2].
        destruct (nvisit q g f e2 s1) as [b2 s2]. cbn in *.
        assert (Hn : b2 = true -> nullable_x g (ARec n e1 e2 ls)) by (intros Hb; apply nx_rec2; apply A2; exact Hb).
        split; [exact Hn|]. apply (flag_sound_setf (ARec n e1 e2 ls) n _ _ Hin eq_refl); auto.
    - cbn. split; [intros _; constructor | exact Hs].
  Qed.

  Lemma flag_sound_init : flag_sound (mkPst [] [] []).
  Proof. intros e n _ _ H. discriminate. Qed.

  Lemma rvisit_sound fuel r s : flag_sound s -> flag_sound (rvisit q g fuel r s).
  Proof.
    intros Hs. unfold rvisit. destruct (find_arule r g) as [ru|] eqn:Hf; [|exact Hs].
    destruct (mem_bytes r (visited s)); [exact Hs|].
    set (s0 := mkPst (nf s) (r :: visited s) (rnull s)).
    assert (Hs0 : flag_sound s0) by (eapply flag_sound_other; [|exact Hs]; reflexivity).
    destruct (nvisit_sound fuel (a_expr ru) s0 (rule_body_in_subs _ _ Hf) Hs0) as [_ B].
    destruct (nvisit q g fuel (a_expr ru) s0) as [b s1]. cbn in *.
    eapply flag_sound_other; [|exact B]. reflexivity.
  Qed.

  Lemma compute_nullables_sound fuel ord : flag_sound (compute_nullables q g fuel ord).
  Proof.
    unfold compute_nullables. generalize flag_sound_init. generalize (mkPst [] [] []).
    induction ord as [|r ord IH]; intros s Hs; cbn; [exact Hs|]. apply IH. apply rvisit_sound. exact Hs.
  Qed.

  Section WithFlags.
    Variable s : pst.
    Hypothesis Hs : flag_sound s.
    Let preds := negb (pq_pred q).

    Lemma is_nullable_sound : forall e, In e all_subs -> is_nullable s e = true -> nullable_x g e.
    Proof.
      intros e. induction e using aexpr_ind2; intros Hin Hn; cbn in Hn; try discriminate; try (constructor; fail).
      - destruct v; [constructor | discriminate].
      - unfold cls_empty in Hn. destruct chars, ranges, classes; try discriminate. constructor.
      - eapply Hs; eauto. reflexivity.
      - eapply Hs; eauto. reflexivity.
      - constructor. apply IHe; [eapply all_subs_closed; [exact Hin | cbn; right; apply subs_self] | exact Hn].
      - eapply Hs; eauto. reflexivity.
      - eapply Hs; eauto. reflexivity.
      - eapply Hs; eauto. reflexivity.
    Qed.

    Lemma initial_names_sound : forall e, In e all_subs -> forall r, In r (initial_names q s e) -> firstcall g preds e r.
    Proof.
      intros e. induction e using aexpr_ind2; intros Hin r0 Hr; cbn in Hr; try contradiction.
      - (* seq *)
        assert (Hsub : forall x, In x es -> In x all_subs).
        { intros x Hx. eapply all_subs_closed; [exact Hin|]. cbn. right. apply in_flat_map. exists x. split; [exact Hx | apply subs_self]. }
        assert (Hgo : forall l pre, es = pre ++ l -> Forall (nullable_x g) pre ->
                  In r0 ((fix go (l : list aexpr) : list rname :=
                           match l with
                           | [] => []
                           | x :: l' => initial_names q s x ++ (if is_nullable s x then go l' else [])
                           end) l) -> firstcall g preds (ASeq n es) r0).
        { induction l as [|x l IHl]; intros pre E Hpre Hr'; [destruct Hr'|].
          assert (Hxe : In x es) by (rewrite E; apply in_or_app; right; left; reflexivity).
          apply in_app_or in Hr' as [Hr'|Hr'].
          - rewrite E. apply fc_seq; [exact Hpre|]. rewrite Forall_forall in H. apply H; auto.
          - destruct (is_nullable s x) eqn:En; [|destruct Hr'].
            apply (IHl (pre ++ [x])); [rewrite <- app_assoc; exact E | | exact Hr'].
            apply Forall_app. split; [exact Hpre|]. constructor; [|constructor].
            apply is_nullable_sound; auto. }
        apply (Hgo es []); [reflexivity | constructor | exact Hr].
      - (* alt *)
        apply in_flat_map in Hr as [x [Hx Hr]]. apply fc_alt with (e := x); [exact Hx|].
        rewrite Forall_forall in H. apply H; auto.
        eapply all_subs_closed; [exact Hin|]. cbn. right. apply in_flat_map. exists x. split; [exact Hx | apply subs_self].
      - constructor. apply IHe; auto. eapply all_subs_closed; [exact Hin | cbn; right; apply subs_self].
      - constructor. apply IHe; auto. eapply all_subs_closed; [exact Hin | cbn; right; apply subs_self].
      - constructor. apply IHe; auto. eapply all_subs_closed; [exact Hin | cbn; right; apply subs_self].
      - (* and *) unfold preds. destruct (pq_pred q); [destruct Hr|]. apply fc_and; [reflexivity|].
        apply IHe; auto. eapply all_subs_closed; [exact Hin | cbn; right; apply subs_self].
      - unfold preds. destruct (pq_pred q); [destruct Hr|]. apply fc_not; [reflexivity|].
        apply IHe; auto. eapply all_subs_closed; [exact Hin | cbn; right; apply subs_self].
      - constructor. apply IHe; auto. eapply all_subs_closed; [exact Hin | cbn; right; apply subs_self].
      - constructor. apply IHe; auto. eapply all_subs_closed; [exact Hin | cbn; right; apply subs_self].
      - destruct Hr as [<-|[]]. constructor.
      - apply in_app_or in Hr as [Hr|Hr].
        + apply fc_rec1. apply IHe1; auto. eapply all_subs_closed; [exact Hin | cbn; right; apply in_or_app; left; apply subs_self].
        + apply fc_rec2. apply IHe2; auto. eapply all_subs_closed; [exact Hin | cbn; right; apply in_or_app; right; apply subs_self].
    Qed.

    Lemma graph_edge_lcall a b : In b (graph_edges q g s a) -> lcall g preds a b.
    Proof.
      unfold graph_edges. destruct (find_arule a g) as [ru|] eqn:Hf; [|intros []].
      intros Hin. exists ru. split; [exact Hf|]. apply initial_names_sound; [eapply rule_body_in_subs; eauto | exact Hin].
    Qed.

    Lemma mem_bytes_In x l : mem_bytes x l = true <-> In x l.
    Proof.
      induction l as [|y l IH]; cbn; [split; [discriminate|contradiction]|].
      rewrite Bool.orb_true_iff, IH, bytes_eqb_eq. split; intros [E|E]; auto.
    Qed.

    Lemma nodup_bytes_In x l : In x (nodup_bytes l) -> In x l.
    Proof.
      induction l as [|y l IH]; cbn; [auto|]. destruct (mem_bytes y l); [intros H; right; auto|].
      intros [<-|H]; [left; reflexivity | right; auto].
    Qed.

    (* everything reach_n adds is reachable by a non-empty lcall path from some start vertex *)
    Lemma reach_n_sound a : forall n from, (forall x, In x from -> clos_trans rname (lcall g preds) a x) ->
      forall x, In x (reach_n q g s n from) -> clos_trans rname (lcall g preds) a x.
    Proof.
      induction n as [|n IH]; intros from Hfrom x Hx; cbn in Hx; [apply Hfrom; exact Hx|].
      apply (IH (nodup_bytes (from ++ flat_map (graph_edges q g s) from))); [|exact Hx].
      intros y Hy. apply nodup_bytes_In in Hy. apply in_app_or in Hy as [Hy|Hy]; [apply Hfrom; exact Hy|].
      apply in_flat_map in Hy as [z [Hz Hy]]. eapply t_trans; [apply Hfrom; exact Hz|]. apply t_step. apply graph_edge_lcall. exact Hy.
    Qed.

    Lemma reaches_sound a b : reaches q g s a b = true -> clos_trans rname (lcall g preds) a b.
    Proof.
      unfold reaches. intros H. apply mem_bytes_In in H. eapply reach_n_sound; [|exact H].
      intros x Hx. apply t_step. apply graph_edge_lcall. exact Hx.
    Qed.
  End WithFlags.

  (* PrepareGrammar reports left recursion (or fails to find a leader) only if the
     specification has a left-recursive cycle *)
  Theorem prepare_reports_only_real_cycles fuel ord :
    (match prepare q g fuel ord with PrepOk true _ _ | PrepNoLeader => True | PrepOk false _ _ => False end) ->
    lr_cycle_rel g (negb (pq_pred q)).
  Proof.
    unfold prepare. set (s := compute_nullables q g fuel ord).
    pose proof (compute_nullables_sound fuel ord) as Hs. fold s in Hs.
    cbv zeta. fold s.
    match goal with |- context [fold_left _ ?l (PrepOk false [] [])] => set (reps := l) end.
    assert (Hgen : forall l acc,
      (match acc with PrepOk true _ _ | PrepNoLeader => lr_cycle_rel g (negb (pq_pred q)) | PrepOk false _ _ => True end) ->
      match fold_left (fun acc v =>
         match acc with
         | PrepNoLeader => PrepNoLeader
         | PrepOk have lrs leaders =>
             let comp := scc_of q g s v in
             match comp with
             | [_] => if mem_bytes v (graph_edges q g s v) then PrepOk true (v :: lrs) (v :: leaders) else acc
             | _ => match find_leader q g s comp with
                    | None => PrepNoLeader
                    | Some k => PrepOk true (comp ++ lrs) (k :: leaders)
                    end
             end
         end) l acc with
      | PrepOk true _ _ | PrepNoLeader => lr_cycle_rel g (negb (pq_pred q))
      | PrepOk false _ _ => True
      end).
    { induction l as [|v l IH]; intros acc Hacc; cbn [fold_left]; [exact Hacc|].
      apply IH. destruct acc as [have lrs leaders|]; [|exact Hacc].
      assert (Hcyc : forall w, negb (bytes_eqb w v) && reaches q g s v w && reaches q g s w v = true ->
                      lr_cycle_rel g (negb (pq_pred q))).
      { intros w Hw. apply Bool.andb_true_iff in Hw as [Hw H2]. apply Bool.andb_true_iff in Hw as [_ H1].
        exists v. eapply t_trans; [eapply reaches_sound; eauto | eapply reaches_sound; eauto]. }
      unfold scc_of.
      destruct (filter (fun w0 => negb (bytes_eqb w0 v) && reaches q g s v w0 && reaches q g s w0 v) (graph_vertices q g s)) as [|w ws] eqn:Ef.
      - destruct (mem_bytes v (graph_edges q g s v)) eqn:Em; [|exact Hacc].
        exists v. apply t_step. eapply graph_edge_lcall; eauto. apply mem_bytes_In. exact Em.
      - assert (Hw : In w (filter (fun w0 => negb (bytes_eqb w0 v) && reaches q g s v w0 && reaches q g s w0 v) (graph_vertices q g s)))
          by (rewrite Ef; left; reflexivity).
        apply filter_In in Hw as [_ Hw]. pose proof (Hcyc w Hw) as Hc.
        destruct (find_leader q g s (v :: w :: ws)); exact Hc. }
    intros H. specialize (Hgen reps (PrepOk false [] []) Logic.I).
    match goal with H0 : match ?x with _ => _ end |- _ => destruct x as [[|] lrs leaders|] end; auto; contradiction.
  Qed.
End PrepareSound.

(* when nothing is reported the result carries no flags at all: it is the same for every
   iteration order *)
Lemma prepare_false_empty q g fuel ord lrs leaders :
  prepare q g fuel ord = PrepOk false lrs leaders -> lrs = [] /\ leaders = [].
Proof.
  unfold prepare. cbv zeta.
  match goal with |- context [fold_left ?f ?l (PrepOk false [] [])] => generalize l; set (F := f) end.
  assert (Hgen : forall l acc, (forall a b, acc = PrepOk false a b -> a = [] /\ b = []) ->
            forall a b, fold_left F l acc = PrepOk false a b -> a = [] /\ b = []).
  { induction l as [|v l IH]; intros acc Hacc a b E; cbn in E; [eapply Hacc; eauto|].
    eapply IH; [|exact E]. intros a' b' E'. unfold F in E'.
    destruct acc as [have lrs0 leaders0|]; [|discriminate].
    destruct (scc_of q g (compute_nullables q g fuel ord) v) as [|x [|y ys]].
    - destruct (find_leader _ _ _ _); discriminate.
    - destruct (mem_bytes v _); [discriminate|]. eapply Hacc; eauto.
    - destruct (find_leader _ _ _ _); discriminate. }
  intros l E. eapply Hgen; [|exact E]. intros a b E'. inversion E'. auto.
Qed.

Theorem no_cycle_order_free q g (Huniq : ids_unique g) :
  ~ lr_cycle_rel g (negb (pq_pred q)) ->
  forall fuel ord, prepare q g fuel ord = PrepOk false [] [].
Proof.
  intros Hn fuel ord. pose proof (prepare_reports_only_real_cycles q g Huniq fuel ord) as H.
  destruct (prepare q g fuel ord) as [[|] lrs leaders|] eqn:E.
  - exfalso. apply Hn. apply H. exact Logic.I.
  - destruct (prepare_false_empty _ _ _ _ _ _ E) as [-> ->]. reflexivity.
  - exfalso. apply Hn. apply H. exact Logic.I.
Qed.
