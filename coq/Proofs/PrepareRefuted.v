(* Witnesses for the findings in the left-recursion analysis of the pinned tree. *)
From PV Require Import Lib.Base Syntax.RGrammar Syntax.Ast Model.Prepare Spec.LRRel Proofs.PrepareProofs.
From Coq Require Import Relations.Relation_Operators.

Definition nA : bytes := [65%N]. Definition nB : bytes := [66%N].
Definition nS : bytes := [83%N]. Definition nZ : bytes := [90%N]. Definition nM : bytes := [77%N].

Definition pinned : pquirks := mkPq true true true.

(* A <- (B A)? 'y' ; B <- 'x'?   -- A reaches itself behind the nullable B inside an optional *)
Definition g_inner : agrammar :=
  [mkARule nA [] (ASeq 1%N [AOpt (ASeq 2%N [ARef 3%N nB; ARef 4%N nA]); ALit [121%N] false]);
   mkARule nB [] (AOpt (ALit [120%N] false))].

Lemma g_inner_accepted : forall ord, In ord [[nA; nB]; [nB; nA]] -> prepare pinned g_inner 100 ord = PrepOk false [] [].
Proof. intros ord [<-|[<-|[]]]; vm_compute; reflexivity. Qed.

Lemma g_inner_cycle : lr_cycle_rel g_inner false.
Proof.
  exists nA. apply t_step. eexists. split; [reflexivity|]. cbn.
  apply (fc_seq g_inner false 1%N [] (AOpt (ASeq 2%N [ARef 3%N nB; ARef 4%N nA])) [ALit [121%N] false] nA); [constructor|].
  apply fc_opt.
  apply (fc_seq g_inner false 2%N [ARef 3%N nB] (ARef 4%N nA) [] nA); [|constructor].
  constructor; [|constructor]. eapply nx_ref; [reflexivity|]. cbn. constructor.
Qed.

(* repaired analysis (sub-expressions of ? * + are visited): the cycle is found *)
Lemma g_inner_repaired : prepare (mkPq false true true) g_inner 100 [nA; nB] = PrepOk true [nA] [nA].
Proof. vm_compute. reflexivity. Qed.

(* A <- &A 'x'   -- through a lookahead predicate *)
Definition g_pred : agrammar :=
  [mkARule nA [] (ASeq 1%N [AAnd (ARef 2%N nA); ALit [120%N] false])].

Lemma g_pred_accepted : prepare pinned g_pred 100 [nA] = PrepOk false [] [].
Proof. vm_compute. reflexivity. Qed.

Lemma g_pred_cycle : lr_cycle_rel g_pred true.
Proof.
  exists nA. apply t_step. eexists. split; [reflexivity|]. cbn.
  apply (fc_seq g_pred true 1%N [] (AAnd (ARef 2%N nA)) [ALit [120%N] false] nA); [constructor|].
  apply fc_and; [reflexivity | constructor].
Qed.

(* S <- Z ; Z <- M Z / 'y' ; M <- Z / ""   -- the leader depends on the iteration order *)
Definition g_order : agrammar :=
  [mkARule nS [] (ARef 1%N nZ);
   mkARule nZ [] (AAlt 2%N [ASeq 3%N [ARef 4%N nM; ARef 5%N nZ]; ALit [121%N] false]);
   mkARule nM [] (AAlt 6%N [ARef 7%N nZ; ALit [] false])].

Lemma g_order_depends :
  prepare pinned g_order 100 [nS; nZ; nM] <> prepare pinned g_order 100 [nS; nM; nZ].
Proof. vm_compute. discriminate. Qed.
