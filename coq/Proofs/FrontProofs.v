(* The class reader of the front-end recovers exactly the class a text denotes, for every
   spelling of every member (raw, \], single-character escapes, \xNN, \uNNNN, \UNNNNNNNN, \NNN),
   when an escaped rune is never taken for the range operator. *)
From PV Require Import Lib.Base Model.Front.
From Coq Require Import ZifyBool.
Local Open Scope Z_scope.

(* ---------- digits ---------- *)
Lemma hexval_hexdigit d : 0 <= d < 16 -> hexval (hexdigit d) = Some d.
Proof.
  intros Hd. unfold hexval, hexdigit.
  destruct (d <? 10) eqn:E.
  - replace ((48 <=? 48 + d) && (48 + d <=? 57)) with true by lia. f_equal. lia.
  - replace ((48 <=? 87 + d) && (87 + d <=? 57)) with false by lia.
    replace ((97 <=? 87 + d) && (87 + d <=? 102)) with true by lia. f_equal. lia.
Qed.

Lemma take_digits_app b n : 2 <= b <= 16 -> forall v acc rest, 0 <= v < b ^ Z.of_nat n ->
  take_digits b n acc (digits b n v ++ rest) = Some (acc * b ^ Z.of_nat n + v, rest).
Proof.
  intros Hb. induction n as [|n IH]; intros v acc rest Hv.
  - cbn [take_digits digits app]. change (Z.of_nat 0) with 0 in *. rewrite Z.pow_0_r in *. f_equal. f_equal. lia.
  - rewrite Nat2Z.inj_succ, Z.pow_succ_r in * by lia.
    set (p := b ^ Z.of_nat n) in *.
    assert (Hp : 0 < p) by (apply Z.pow_pos_nonneg; lia).
    assert (Hq : 0 <= v / p < b).
    { split. apply Z.div_pos; lia. apply Z.div_lt_upper_bound; lia. }
    pose proof (Z.mod_pos_bound v p Hp) as Hm.
    cbn [digits app take_digits]. fold p.
    rewrite hexval_hexdigit by lia.
    replace (v / p <? b) with true by lia.
    rewrite (IH (v mod p) _ rest Hm). fold p.
    f_equal. f_equal. pose proof (Z.div_mod v p ltac:(lia)). nia.
Qed.

(* ---------- phase 1 on printed members ---------- *)
Definition is_esc (s : spell) : bool := match s with SRaw => false | _ => true end.

Lemma scan_char f r s tl chars classes : spell_ok r s = true ->
  scan (S f) (print_char r s ++ tl) chars classes = scan f tl ((r, is_esc s) :: chars) classes.
Proof.
  intros Hok. destruct s; cbn [spell_ok is_esc] in *.
  - (* raw *)
    cbn [print_char app scan]. replace (r =? r_bslash) with false by (unfold r_bslash, r_rbrack in *; lia). reflexivity.
  - (* single-character escape, \] *)
    unfold print_char. unfold esc_letter in *.
    repeat match goal with
    | H : context [if ?x =? ?k then _ else _] |- _ => destruct (Z.eqb_spec x k); [subst; reflexivity|]
    end. discriminate.
  - (* \xNN *)
    unfold print_char. cbn -[digits take_digits]. 
    rewrite (take_digits_app 16 2 ltac:(lia) r 0 tl) by (change (16 ^ Z.of_nat 2) with 256; lia).
    replace (0 * 16 ^ Z.of_nat 2 + r) with r by lia. reflexivity.
  - unfold print_char. cbn -[digits take_digits].
    rewrite (take_digits_app 16 4 ltac:(lia) r 0 tl) by (change (16 ^ Z.of_nat 4) with 65536; lia).
    replace (0 * 16 ^ Z.of_nat 4 + r) with r by lia. reflexivity.
  - unfold print_char. cbn -[digits take_digits].
    rewrite (take_digits_app 16 8 ltac:(lia) r 0 tl) by (change (16 ^ Z.of_nat 8) with 4294967296; lia).
    replace (0 * 16 ^ Z.of_nat 8 + r) with r by lia. reflexivity.
  - (* \NNN *)
    unfold print_char.
    change (digits 8 3 r) with (hexdigit (r / 64) :: digits 8 2 (r mod 64)).
    assert (Hd : 0 <= r / 64 < 4) by (split; [apply Z.div_pos; lia | apply Z.div_lt_upper_bound; lia]).
    assert (He : hexdigit (r / 64) = 48 + r / 64) by (unfold hexdigit; replace (r / 64 <? 10) with true by lia; reflexivity).
    rewrite He. set (e := 48 + r / 64) in *.
    cbn [app scan]. unfold r_bslash, r_rbrack, r_p, r_x, r_u, r_U.
    replace (92 =? 92) with true by reflexivity.
    replace (e =? 93) with false by lia. replace (e =? 112) with false by lia.
    replace (e =? 120) with false by lia. replace (e =? 117) with false by lia.
    replace (e =? 85) with false by lia.
    replace ((48 <=? e) && (e <=? 55)) with true by lia.
    pose proof (Z.mod_pos_bound r 64 ltac:(lia)) as Hm.
    rewrite (take_digits_app 8 2 ltac:(lia) (r mod 64) (e - 48) tl) by (change (8 ^ Z.of_nat 2) with 64; lia).
    replace ((e - 48) * 8 ^ Z.of_nat 2 + r mod 64) with r; [reflexivity|].
    change (8 ^ Z.of_nat 2) with 64. pose proof (Z.div_mod r 64 ltac:(lia)). lia.
Qed.

Definition flat_item (it : citem) : list (rune * bool) :=
  match it with
  | IChar r s => [(r, is_esc s)]
  | IRange lo sl hi sh => [(lo, is_esc sl); (r_dash, false); (hi, is_esc sh)]
  | IUni _ _ => []
  end.
Definition flat (items : list citem) : list (rune * bool) := concat (map flat_item items).

Lemma take_until_rbrace_app name : forall acc tl,
  existsb (fun r => r =? r_rbrace) name = false ->
  take_until_rbrace (name ++ r_rbrace :: tl) acc = Some (rev acc ++ name, tl).
Proof.
  induction name as [|c name IH]; intros acc tl Hn.
  - cbn. rewrite app_nil_r. reflexivity.
  - cbn [existsb] in Hn. apply orb_false_iff in Hn as [Hc Hn].
    cbn [app take_until_rbrace]. rewrite Hc. rewrite IH by exact Hn. cbn [rev]. rewrite <- app_assoc. reflexivity.
Qed.

Definition cost (it : citem) : nat := match it with IRange _ _ _ _ => 3 | _ => 1 end.

Lemma scan_item f it tl chars classes : item_ok it = true ->
  scan (cost it + f) (print_item it ++ tl) chars classes =
  scan f tl (rev (flat_item it) ++ chars) (match it with IUni n _ => n :: classes | _ => classes end).
Proof.
  intros Hok. destruct it as [r s | lo sl hi sh | name braced]; cbn [item_ok] in Hok; cbn [cost Nat.add].
  - cbn [print_item flat_item rev app]. apply scan_char. exact Hok.
  - apply andb_true_iff in Hok as [Hok Hp2]. apply andb_true_iff in Hok as [Hok Hp1].
    apply andb_true_iff in Hok as [Hlo Hhi].
    cbn [print_item flat_item rev app]. rewrite <- app_assoc.
    rewrite (scan_char _ lo sl _ chars classes Hlo).
    cbn [app]. change (scan (S (S f)) (r_dash :: print_char hi sh ++ tl) ((lo, is_esc sl) :: chars) classes)
      with (scan (S f) (print_char hi sh ++ tl) ((r_dash, false) :: (lo, is_esc sl) :: chars) classes).
    rewrite (scan_char _ hi sh _ _ classes Hhi). reflexivity.
  - apply andb_true_iff in Hok as [Hok Hb]. apply andb_true_iff in Hok as [Hn Hs].
    cbn [flat_item rev app].
    destruct braced.
    + cbn [print_item app].
      change (scan (S f) (r_bslash :: r_p :: r_lbrace :: (name ++ [r_rbrace]) ++ tl) chars classes)
        with (match take_until_rbrace ((name ++ [r_rbrace]) ++ tl) [] with
              | Some (nm, l4) => scan f l4 chars (nm :: classes) | None => None end).
      rewrite <- app_assoc. cbn [app]. rewrite take_until_rbrace_app by (apply negb_true_iff; exact Hn).
      reflexivity.
    + destruct name as [|c [|c2 name]]; try discriminate.
      cbn [print_item app].
      assert (Hc : (c =? r_lbrace) = false) by (apply negb_true_iff; exact Hb).
      change (scan (S f) (r_bslash :: r_p :: c :: tl) chars classes)
        with (if c =? r_lbrace then
                match take_until_rbrace tl [] with Some (nm, l4) => scan f l4 chars (nm :: classes) | None => None end
              else scan f tl chars ([c] :: classes)).
      rewrite Hc. reflexivity.
Qed.

Definition total_cost (items : list citem) : nat := fold_right (fun it n => cost it + n)%nat 0%nat items.

Lemma cost_le_length it : item_ok it = true -> (cost it <= length (print_item it))%nat.
Proof.
  destruct it as [r s | lo sl hi sh | name braced]; intros Hok; cbn [cost print_item].
  - destruct s; cbn; try lia. destruct (esc_letter r); cbn; lia.
  - rewrite !app_length. cbn [length].
    assert (forall r s, (1 <= length (print_char r s))%nat).
    { intros r s. destruct s; cbn; try lia. destruct (esc_letter r); cbn; lia. }
    pose proof (H lo sl). pose proof (H hi sh). lia.
  - destruct braced; cbn; lia.
Qed.

Lemma scan_items items : forall f chars classes, forallb item_ok items = true ->
  scan (total_cost items + S f) (concat (map print_item items)) chars classes =
  Some (rev chars ++ flat items, rev classes ++ denote_classes items).
Proof.
  induction items as [|it items IH]; intros f chars classes Hok.
  - cbn. rewrite !app_nil_r. reflexivity.
  - cbn [forallb] in Hok. apply andb_true_iff in Hok as [Hit Hok].
    cbn [total_cost fold_right map concat]. fold (total_cost items).
    rewrite <- Nat.add_assoc. rewrite scan_item by exact Hit.
    rewrite IH by exact Hok.
    unfold flat, denote_classes. cbn [map concat].
    rewrite rev_app_distr, rev_involutive, <- app_assoc.
    destruct it; cbn [rev app]; try reflexivity. rewrite <- app_assoc. reflexivity.
Qed.

Lemma total_cost_le items : forallb item_ok items = true ->
  (total_cost items <= length (concat (map print_item items)))%nat.
Proof.
  induction items as [|it items IH]; intros Hok; [cbn; lia|].
  cbn [forallb] in Hok. apply andb_true_iff in Hok as [Hit Hok].
  cbn [total_cost fold_right map concat]. fold (total_cost items). rewrite app_length.
  pose proof (cost_le_length it Hit). specialize (IH Hok). lia.
Qed.

(* ---------- phase 2 on the members ---------- *)
(* where a raw '-' is a plain member: first (nothing collected yet), right after a range, or last *)
Definition only_classes (items : list citem) : bool :=
  forallb (fun it => match it with IUni _ _ => true | _ => false end) items.

Fixpoint dash_ok (free : bool) (items : list citem) : bool :=
  match items with
  | [] => true
  | IChar r s :: rest => (plain r s || free || only_classes rest) && dash_ok false rest
  | IRange _ _ _ _ :: rest => dash_ok true rest
  | IUni _ _ :: rest => dash_ok free rest
  end.

Lemma extract_char q r esc l' wr cs rs :
  ((r =? r_dash) && negb wr && negb (q && esc)) = false \/ cs = [] \/ l' = [] ->
  extract q ((r, esc) :: l') false wr cs rs = extract q l' false false (r :: cs) rs.
Proof.
  intros H. cbn [extract]. destruct cs as [|c0 cs]; [reflexivity|]. destruct l' as [|x l']; [reflexivity|].
  destruct H as [H|[H|H]]; try discriminate. rewrite H. reflexivity.
Qed.

Lemma plain_cond r s wr : plain r s = true -> ((r =? r_dash) && negb wr && negb (true && is_esc s)) = false.
Proof.
  unfold plain. intros H. destruct (r =? r_dash); [|reflexivity]. destruct s; cbn in *; try discriminate;
    destruct wr; reflexivity.
Qed.

Lemma only_classes_flat items : only_classes items = true -> flat items = [].
Proof.
  induction items as [|it items IH]; intros H; [reflexivity|].
  cbn [only_classes forallb] in H. apply andb_true_iff in H as [Hi H]. destruct it; try discriminate.
  unfold flat. cbn [map concat flat_item app]. apply IH. exact H.
Qed.

Lemma extract_items items : forall free wr cs rs,
  forallb item_ok items = true -> dash_ok free items = true -> (free = true -> wr = true \/ cs = []) ->
  extract true (flat items) false wr cs rs = (rev cs ++ denote_chars items, rev rs ++ denote_ranges items).
Proof.
  induction items as [|it items IH]; intros free wr cs rs Hok Hdf Hfree.
  - cbn. rewrite !app_nil_r. reflexivity.
  - cbn [forallb] in Hok. apply andb_true_iff in Hok as [Hit Hok].
    unfold flat, denote_chars, denote_ranges. cbn [map concat].
    fold (flat items) (denote_chars items) (denote_ranges items).
    destruct it as [r s | lo sl hi sh | name braced]; cbn [dash_ok] in Hdf.
    + cbn [flat_item app]. apply andb_true_iff in Hdf as [Hd Hdf].
      rewrite extract_char.
      * rewrite (IH false) by (assumption || discriminate). cbn [rev]. rewrite <- app_assoc. reflexivity.
      * apply orb_true_iff in Hd as [Hd|Hd]; [(apply orb_true_iff in Hd as [Hd|Hd]) | idtac].
        -- left. apply plain_cond. exact Hd.
        -- subst free. destruct (Hfree eq_refl) as [-> | ->]; [left | right; left; reflexivity].
           destruct (r =? r_dash); reflexivity.
        -- right; right. apply only_classes_flat. exact Hd.
    + cbn [flat_item app]. cbn [item_ok] in Hit.
      apply andb_true_iff in Hit as [Hit Hp2]. apply andb_true_iff in Hit as [Hit Hp1].
      rewrite extract_char by (left; apply plain_cond; exact Hp1).
      cbn [extract]. replace (r_dash =? r_dash) with true by reflexivity. cbn [negb andb].
      rewrite (IH true) by (assumption || (intros _; left; reflexivity)). cbn [rev]. rewrite <- !app_assoc. reflexivity.
    + cbn [flat_item app]. rewrite (IH free) by assumption. reflexivity.
Qed.

(* ---------- the whole reader ---------- *)
Lemma strip_i_no l : strip_i (l ++ [r_rbrack]) = (l ++ [r_rbrack], false).
Proof. unfold strip_i. rewrite rev_app_distr. cbn. reflexivity. Qed.

Lemma strip_i_yes l : strip_i (l ++ [r_rbrack; r_i]) = (l ++ [r_rbrack], true).
Proof.
  unfold strip_i. rewrite rev_app_distr. cbn [rev app]. replace (r_i =? r_i) with true by reflexivity.
  cbn [rev app]. rewrite rev_involutive. reflexivity.
Qed.

Definition lead_ok (items : list citem) (inv : bool) : bool :=
  inv || match concat (map print_item items) with r :: _ => negb (r =? r_caret) | [] => true end.

Theorem parse_print_class items ic inv :
  forallb item_ok items = true -> dash_ok true items = true -> lead_ok items inv = true ->
  parse_class true (print_class items ic inv) =
  Some (mkClass (denote_chars items) (denote_ranges items) (denote_classes items) ic inv).
Proof.
  intros Hok Hdf Hlead. unfold parse_class, print_class.
  set (body := concat (map print_item items)) in *.
  assert (Hstrip : strip_i ([r_lbrack] ++ (if inv then [r_caret] else []) ++ body ++ [r_rbrack] ++ (if ic then [r_i] else []))
                   = (r_lbrack :: (if inv then [r_caret] else []) ++ body ++ [r_rbrack], ic)).
  { destruct ic.
    - replace ([r_lbrack] ++ (if inv then [r_caret] else []) ++ body ++ [r_rbrack] ++ [r_i])
        with ((r_lbrack :: (if inv then [r_caret] else []) ++ body) ++ [r_rbrack; r_i])
        by (cbn [app]; rewrite <- ?app_assoc; reflexivity).
      rewrite strip_i_yes. cbn [app]. rewrite <- app_assoc. reflexivity.
    - replace ([r_lbrack] ++ (if inv then [r_caret] else []) ++ body ++ [r_rbrack] ++ [])
        with ((r_lbrack :: (if inv then [r_caret] else []) ++ body) ++ [r_rbrack])
        by (cbn [app]; rewrite <- ?app_assoc; reflexivity).
      rewrite strip_i_no. cbn [app]. rewrite <- app_assoc. reflexivity. }
  rewrite Hstrip.
  replace ((if inv then [r_caret] else []) ++ body ++ [r_rbrack]) with (((if inv then [r_caret] else []) ++ body) ++ [r_rbrack])
    by (rewrite <- app_assoc; reflexivity).
  rewrite removelast_last.
  assert (Hscan : scan (S (length body)) body [] [] = Some (flat items, denote_classes items)).
  { pose proof (total_cost_le items Hok) as Hc. fold body in Hc.
    replace (S (length body)) with (total_cost items + S (length body - total_cost items))%nat by lia.
    unfold body. rewrite scan_items by exact Hok. reflexivity. }
  destruct inv.
  - (* inverted *)
    cbn [app]. replace (r_caret =? r_caret) with true by reflexivity.
    rewrite Hscan. rewrite (extract_items items true) by (assumption || (intros _; right; reflexivity)). reflexivity.
  - cbn [app]. unfold lead_ok in Hlead. cbn [orb] in Hlead. fold body in Hlead.
    destruct body as [|r body'] eqn:Eb.
    + (* nothing between the brackets *)
      destruct items as [|it items].
      * reflexivity.
      * exfalso. cbn [map concat] in Eb. cbn [forallb] in Hok. apply andb_true_iff in Hok as [Hit _].
        pose proof (cost_le_length it Hit) as Hc. apply app_eq_nil in Eb as [Ep _]. rewrite Ep in Hc. destruct it; cbn in Hc; lia.
    + apply negb_true_iff in Hlead. rewrite Hlead.
      rewrite Hscan. rewrite (extract_items items true) by (assumption || (intros _; right; reflexivity)). reflexivity.
Qed.
