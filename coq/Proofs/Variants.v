(* Two generated parsers for the same grammar that differ only in template flags and
   quirk-irrelevant switches refine the same specification, hence return the same. *)
From PV Require Import Lib.Base Lib.Utf8 Syntax.RGrammar Syntax.Code Model.PState Spec.Pos Model.Runtime
  Spec.Ref Spec.RefParse Proofs.Inv Proofs.InvStep Proofs.Sim Proofs.SimFinal Proofs.TopLevel.

Definition with_tmpl (t : tmpl) (c : cfg) : cfg :=
  mkCfg (cQ c) (cU c) t (cO c) (cData c) (cG c) (cE c).

Lemma rd_with_tmpl t c : rd (with_tmpl t c) = rd c.
Proof. reflexivity. Qed.

Definition hyps (c : cfg) : Prop :=
  state_ok c /\ o_memoize (cO c) = false /\ G_wf c /\ stale_ok c /\ t_leftrec (cT c) = false.

(* what the caller gets: value and error list, or the propagated panic *)
Definition same_result (o1 o2 : outcome) : Prop :=
  match o1, o2 with
  | Returned v1 es1 s1, Returned v2 es2 s2 => v1 = v2 /\ es1 = es2 /\ gs s1 = gs s2 /\ exprCnt s1 = exprCnt s2
  | Panicked pv1 s1, Panicked pv2 s2 => pv1 = pv2 /\ gs s1 = gs s2 /\ exprCnt s1 = exprCnt s2
  | Diverged, Diverged => True
  | _, _ => False
  end.

Theorem variants_agree c1 c2 : rd c1 = rd c2 -> hyps c1 -> hyps c2 ->
  forall fuel, same_result (parse c1 fuel) (parse c2 fuel).
Proof.
  intros Hrd (A1 & A2 & A3 & A4 & A5) (B1 & B2 & B3 & B4 & B5) fuel.
  pose proof (parse_refines_rparse c1 A1 A2 A3 A4 A5 fuel) as H1.
  pose proof (parse_refines_rparse c2 B1 B2 B3 B4 B5 fuel) as H2.
  rewrite Hrd in H1. unfold obs_equiv, same_result in *.
  destruct (parse c1 fuel); destruct (parse c2 fuel); destruct (rparse c2 fuel); try contradiction; auto.
  - destruct H1 as (E1 & E2 & E3 & E4 & _). destruct H2 as (F1 & F2 & F3 & F4 & _). repeat split; congruence.
  - destruct H1 as (E1 & E3 & E4 & _). destruct H2 as (F1 & F3 & F4 & _). repeat split; congruence.
Qed.

Corollary tmpl_variants_agree c t1 t2 : hyps (with_tmpl t1 c) -> hyps (with_tmpl t2 c) ->
  forall fuel, same_result (parse (with_tmpl t1 c) fuel) (parse (with_tmpl t2 c) fuel).
Proof. intros. apply variants_agree; auto. Qed.
