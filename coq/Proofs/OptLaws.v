(* The rewrites of -optimize-grammar, as laws of the specification's combinators.  They are stated
   for every evaluator [ev] that treats the nested node the way Ref defines it, so no fuel appears:
   - a choice nested in a choice may be flattened: nothing observable changes, not even the value;
   - a sequence nested in a sequence may be flattened: position, state, scope and log are unchanged
     and the value is regrouped only (same leaves in the same order);
   - two adjacent literals with the same i flag match exactly where their concatenation matches,
     at the same end position (the events logged for the farthest-failure report differ). *)
From PV Require Import Lib.Base Lib.Utf8 Syntax.RGrammar Syntax.Code Model.PState Spec.Pos Model.Runtime Spec.Ref.
Local Open Scope nat_scope.

Section Laws.
  Variable c : rdata.
  Variable ev : handlers -> option rule -> bool -> expr -> scope -> rsig -> rmu -> rres.
  Variable H : handlers.
  Variable R : option rule.
  Variable inv : bool.

  (* ---------- choice in choice ---------- *)
  Lemma ralt_app a b : forall sc g m,
    ralt ev H R inv (a ++ b) sc g m =
    match ralt ev H R inv a sc g m with RFail m' => ralt ev H R inv b sc g m' | other => other end.
  Proof.
    induction a as [|e a IH]; intros sc g m; cbn [app ralt]; [reflexivity|].
    destruct (ev H R inv e [] g m); try reflexivity. apply IH.
  Qed.

  Lemma ralt_scope es : forall sc sc' g m,
    ralt ev H R inv es sc' g m =
    match ralt ev H R inv es sc g m with ROk v g' _ m' => ROk v g' sc' m' | other => other end.
  Proof.
    induction es as [|e es IH]; intros sc sc' g m; cbn [ralt]; [reflexivity|].
    destruct (ev H R inv e [] g m); try reflexivity. apply IH.
  Qed.

  Theorem choice_in_choice_flattens n a b d sc g m :
    (forall g0 m0, ev H R inv (EAlt n b) [] g0 m0 = ralt ev H R inv b [] g0 m0) ->
    ralt ev H R inv (a ++ EAlt n b :: d) sc g m = ralt ev H R inv (a ++ b ++ d) sc g m.
  Proof.
    intros Hn. rewrite !ralt_app. destruct (ralt ev H R inv a sc g m) as [m1| | |]; try reflexivity.
    rewrite ralt_app. cbn [ralt]. rewrite Hn. rewrite (ralt_scope b [] sc g m1).
    destruct (ralt ev H R inv b [] g m1); reflexivity.
  Qed.

  (* ---------- sequence in sequence ---------- *)
  Fixpoint leaves (v : val) : list val :=
    match v with
    | VList l => (fix go (l : list val) := match l with [] => [] | x :: l' => leaves x ++ go l' end) l
    | other => [other]
    end.
  Definition leaves_list (l : list val) : list val := concat (map leaves l).

  Lemma leaves_VList l : leaves (VList l) = leaves_list l.
  Proof. unfold leaves_list. cbn [leaves]. induction l as [|x l IH]; cbn [map concat]; [reflexivity|]. rewrite IH. reflexivity. Qed.

  Lemma leaves_list_app a b : leaves_list (a ++ b) = leaves_list a ++ leaves_list b.
  Proof. unfold leaves_list. rewrite map_app, concat_app. reflexivity. Qed.

  (* same outcome, values equal up to regrouping *)
  Definition same_upto_grouping (x y : rres) : Prop :=
    match x, y with
    | ROk v g sc m, ROk v' g' sc' m' => leaves v = leaves v' /\ g = g' /\ sc = sc' /\ m = m'
    | RFail m, RFail m' => m = m'
    | RPanic pv m pos r, RPanic pv' m' pos' r' => pv = pv' /\ m = m' /\ pos = pos' /\ r = r'
    | ROut, ROut => True
    | _, _ => False
    end.

  Lemma rseq_app a b : forall acc sc g m,
    rseq ev H R inv (a ++ b) acc sc g m =
    match rseq ev H R inv a acc sc g m with
    | ROk (VList vs) g' sc' m' => rseq ev H R inv b (rev vs) sc' g' m'
    | other => other
    end.
  Proof.
    induction a as [|e a IH]; intros acc sc g m; cbn [app rseq].
    - rewrite rev_involutive. reflexivity.
    - destruct (ev H R inv e sc g m); try reflexivity. apply IH.
  Qed.

  Lemma rseq_is_list es : forall acc sc g m v g' sc' m',
    rseq ev H R inv es acc sc g m = ROk v g' sc' m' -> exists vs, v = VList (rev acc ++ vs).
  Proof.
    induction es as [|e es IH]; intros acc sc g m v g' sc' m' Hr; cbn [rseq] in Hr.
    - inversion Hr; subst. exists []. rewrite app_nil_r. reflexivity.
    - destruct (ev H R inv e sc g m) as [|v1 g1 sc1 m1| |]; try discriminate.
      destruct (IH _ _ _ _ _ _ _ _ Hr) as [vs ->]. exists (v1 :: vs). cbn [rev]. rewrite <- app_assoc. reflexivity.
  Qed.

  Lemma same_refl x : same_upto_grouping x x.
  Proof. destruct x; cbn; auto. Qed.

  (* the accumulator only matters through its leaves *)
  Lemma rseq_acc_leaves es : forall acc1 acc2 sc g m, leaves_list (rev acc1) = leaves_list (rev acc2) ->
    same_upto_grouping (rseq ev H R inv es acc1 sc g m) (rseq ev H R inv es acc2 sc g m).
  Proof.
    induction es as [|e es IH]; intros acc1 acc2 sc g m Hl; cbn [rseq].
    - cbn [same_upto_grouping]. rewrite !leaves_VList. auto.
    - destruct (ev H R inv e sc g m) as [m1|v1 g1 sc1 m1|pv m1 pos r1|]; cbn [same_upto_grouping]; auto.
      apply IH. cbn [rev]. rewrite !leaves_list_app, Hl. reflexivity.
  Qed.

  Lemma rseq_acc_gen es : forall acc0 acc sc g m,
    rseq ev H R inv es (acc0 ++ acc) sc g m =
    match rseq ev H R inv es acc0 sc g m with
    | ROk (VList vs) g' sc' m' => ROk (VList (rev acc ++ vs)) g' sc' m'
    | other => other
    end.
  Proof.
    induction es as [|e es IH]; intros acc0 acc sc g m; cbn [rseq].
    - rewrite rev_app_distr. reflexivity.
    - destruct (ev H R inv e sc g m) as [m1|v1 g1 sc1 m1|pv m1 pos r1|]; try reflexivity.
      change (v1 :: acc0 ++ acc) with ((v1 :: acc0) ++ acc). apply IH.
  Qed.

  Lemma rseq_acc es acc sc g m :
    rseq ev H R inv es acc sc g m =
    match rseq ev H R inv es [] sc g m with
    | ROk (VList vs) g' sc' m' => ROk (VList (rev acc ++ vs)) g' sc' m'
    | other => other
    end.
  Proof. exact (rseq_acc_gen es [] acc sc g m). Qed.

  Theorem sequence_in_sequence_flattens n a b d sc g m :
    (forall sc0 g0 m0, ev H R inv (ESeq n b) sc0 g0 m0 = rseq ev H R inv b [] sc0 g0 m0) ->
    same_upto_grouping (rseq ev H R inv (a ++ ESeq n b :: d) [] sc g m) (rseq ev H R inv (a ++ b ++ d) [] sc g m).
  Proof.
    intros Hn. rewrite !rseq_app.
    destruct (rseq ev H R inv a [] sc g m) as [m1|v1 g1 sc1 m1|pv m1 pos r1|] eqn:Ea; try apply same_refl.
    destruct v1 as [| |vs| |]; try apply same_refl.
    cbn [rseq]. rewrite Hn. rewrite rseq_app.
    rewrite (rseq_acc b (rev vs) sc1 g1 m1).
    destruct (rseq ev H R inv b [] sc1 g1 m1) as [m2|v2 g2 sc2 m2|pv m2 pos r2|] eqn:Eb; try apply same_refl.
    destruct (rseq_is_list _ _ _ _ _ _ _ _ _ Eb) as [vb ->]. cbn [rev app].
    apply rseq_acc_leaves. cbn [rev]. rewrite !rev_involutive, !leaves_list_app.
    unfold leaves_list at 2. cbn [map concat]. rewrite leaves_VList, app_nil_r. reflexivity.
  Qed.

  (* ---------- adjacent literals ---------- *)
  Lemma lit_match_app ic rs1 rs2 : forall o m,
    lit_match c R ic (rs1 ++ rs2) o m =
    match lit_match c R ic rs1 o m with
    | (Some (o1, m1), _) => lit_match c R ic rs2 o1 m1
    | (None, mf) => (None, mf)
    end.
  Proof.
    induction rs1 as [|w rs1 IH]; intros o m; cbn [app lit_match]; [reflexivity|].
    destruct (step_rune c R o m _) as [[o1 m1]|]; [apply IH | reflexivity].
  Qed.

  (* success and end position (state, scope) of an outcome *)
  Definition same_extent (x y : rres) : Prop :=
    match x, y with
    | ROk _ g sc _, ROk _ g' sc' _ => g = g' /\ sc = sc'
    | RFail _, RFail _ => True
    | _, _ => False
    end.

  Theorem adjacent_literals_concatenate lf n1 n2 n rs1 rs2 ic w1 w2 w sc g m :
    (forall nn rs ww sc0 g0 m0, ev H R inv (ELit nn rs ic ww) sc0 g0 m0 = reval_body c ev lf H R inv (ELit nn rs ic ww) sc0 g0 m0) ->
    same_extent (rseq ev H R inv [ELit n1 rs1 ic w1; ELit n2 rs2 ic w2] [] sc g m)
                (reval_body c ev lf H R inv (ELit n (rs1 ++ rs2) ic w) sc g m).
  Proof.
    intros Hl. cbn [rseq]. rewrite !Hl. cbn [reval_body]. rewrite lit_match_app.
    destruct (lit_match c R ic rs1 (g_off g) m) as [[[o1 m1]|] mf1]; cbn [term_result same_extent]; auto.
    rewrite Hl. cbn [reval_body g_off g_st].
    destruct (lit_match c R ic rs2 o1 _) as [[[o2 m2]|] mf2] eqn:E2.
    - (* both match: the second literal starts where the first ended *)
      assert (E : lit_match c R ic rs2 o1 m1 = (fst (lit_match c R ic rs2 o1 m1), snd (lit_match c R ic rs2 o1 m1))) by (destruct (lit_match c R ic rs2 o1 m1); reflexivity).
      cbn [term_result same_extent].
      (* the offsets reached do not depend on the log *)
      assert (Hoff : forall rs o ma mb, match fst (lit_match c R ic rs o ma), fst (lit_match c R ic rs o mb) with
                                        | Some (oa, _), Some (ob, _) => oa = ob | None, None => True | _, _ => False end).
      { induction rs as [|w0 rs IHrs]; intros o ma mb; cbn [lit_match fst]; [reflexivity|].
        unfold step_rune. destruct (rune_at c o) as [r wd]. destruct (Nat.eqb wd 0); [exact I|].
        destruct (Z.eqb _ w0); [apply IHrs | exact I]. }
      specialize (Hoff rs2 o1 (log (RTerm (pos_of (rData c) (g_off g)) w1 true inv) m1) m1). rewrite E2 in Hoff. cbn [fst] in Hoff.
      destruct (lit_match c R ic rs2 o1 m1) as [[[o2' m2']|] mf2']; cbn [fst] in Hoff; [|contradiction].
      cbn [term_result same_extent]. subst. auto.
    - assert (Hoff : forall rs o ma mb, match fst (lit_match c R ic rs o ma), fst (lit_match c R ic rs o mb) with
                                        | Some (oa, _), Some (ob, _) => oa = ob | None, None => True | _, _ => False end).
      { induction rs as [|w0 rs IHrs]; intros o ma mb; cbn [lit_match fst]; [reflexivity|].
        unfold step_rune. destruct (rune_at c o) as [r wd]. destruct (Nat.eqb wd 0); [exact I|].
        destruct (Z.eqb _ w0); [apply IHrs | exact I]. }
      specialize (Hoff rs2 o1 (log (RTerm (pos_of (rData c) (g_off g)) w1 true inv) m1) m1). rewrite E2 in Hoff. cbn [fst] in Hoff.
      destruct (lit_match c R ic rs2 o1 m1) as [[[o2' m2']|] mf2']; cbn [fst] in Hoff; [contradiction|].
      cbn [term_result same_extent]. auto.
  Qed.
End Laws.
