(* The expression counter is bookkeeping only: without an expression budget, two evaluations that
   differ only in the counter they start from proceed identically (same outcome, same value, same
   end position, state and scope, same log and global store).  Together with fuel monotonicity this
   carries the optimizer's laws over to Ref itself. *)
From PV Require Import Lib.Base Lib.Utf8 Syntax.RGrammar Syntax.Code Model.PState Spec.Pos Model.Runtime Spec.Ref Proofs.RefMono Proofs.OptLaws.
Local Open Scope nat_scope.

Section Cnt.
  Variable c : rdata.
  Hypothesis Hbud : o_maxexpr (rO c) = 0%N.

  Definition meq (m1 m2 : rmu) : Prop := u_gs m1 = u_gs m2 /\ u_log m1 = u_log m2.

  Definition rsim (a b : rres) : Prop :=
    match a, b with
    | RFail m, RFail m' => meq m m'
    | ROk v g sc m, ROk v' g' sc' m' => v = v' /\ g = g' /\ sc = sc' /\ meq m m'
    | RPanic pv m pos R, RPanic pv' m' pos' R' => pv = pv' /\ pos = pos' /\ R = R' /\ meq m m'
    | ROut, ROut => True
    | _, _ => False
    end.

  Definition repsim (a b : rrepres) : Prop :=
    match a, b with
    | RepDone vs g m, RepDone vs' g' m' => vs = vs' /\ g = g' /\ meq m m'
    | RepPanic pv m pos R, RepPanic pv' m' pos' R' => pv = pv' /\ pos = pos' /\ R = R' /\ meq m m'
    | RepOut, RepOut => True
    | _, _ => False
    end.

  Lemma meq_refl m : meq m m. Proof. split; reflexivity. Qed.
  Lemma meq_log e m1 m2 : meq m1 m2 -> meq (log e m1) (log e m2).
  Proof. intros [A B]. split; cbn; congruence. Qed.
  Lemma meq_with_gs gs m1 m2 : meq m1 m2 -> meq (with_gs gs m1) (with_gs gs m2).
  Proof. intros [A B]. split; cbn; congruence. Qed.
  Lemma meq_log_err err pos R m1 m2 : meq m1 m2 -> meq (log_err err pos R m1) (log_err err pos R m2).
  Proof. intros Hm. destruct err; cbn [log_err]; [apply meq_log|]; exact Hm. Qed.
  Lemma meq_land R o m1 m2 : meq m1 m2 -> meq (land c R o m1) (land c R o m2).
  Proof. intros Hm. unfold land. destruct (rune_at c o) as [r w]. destruct (_ && _); [apply meq_log|]; exact Hm. Qed.

  Definition ev_sim (ev : handlers -> option rule -> bool -> expr -> scope -> rsig -> rmu -> rres) : Prop :=
    forall H R inv e sc g m1 m2, meq m1 m2 -> rsim (ev H R inv e sc g m1) (ev H R inv e sc g m2).

  Section Step.
    Variable ev : handlers -> option rule -> bool -> expr -> scope -> rsig -> rmu -> rres.
    Hypothesis IH : ev_sim ev.

    Ltac use_ih H R inv e sc g m1 m2 Hm :=
      let X := fresh "X" in
      pose proof (IH H R inv e sc g m1 m2 Hm) as X;
      destruct (ev H R inv e sc g m1), (ev H R inv e sc g m2); cbn [rsim] in X; try contradiction.

    Lemma rseq_sim H R inv es : forall acc sc g m1 m2, meq m1 m2 ->
      rsim (rseq ev H R inv es acc sc g m1) (rseq ev H R inv es acc sc g m2).
    Proof.
      induction es as [|e es IHes]; intros acc sc g m1 m2 Hm; cbn [rseq].
      - cbn. auto.
      - use_ih H R inv e sc g m1 m2 Hm; cbn [rsim]; auto.
        destruct X as (-> & -> & -> & X). apply IHes. exact X.
    Qed.

    Lemma ralt_sim H R inv es : forall sc g m1 m2, meq m1 m2 ->
      rsim (ralt ev H R inv es sc g m1) (ralt ev H R inv es sc g m2).
    Proof.
      induction es as [|e es IHes]; intros sc g m1 m2 Hm; cbn [ralt].
      - cbn. auto.
      - use_ih H R inv e (@nil (label * val)) g m1 m2 Hm; cbn [rsim]; auto.
        destruct X as (-> & -> & _ & X). auto.
    Qed.

    Lemma rrep_sim H R inv e n : forall acc g m1 m2, meq m1 m2 ->
      repsim (rrep ev H R inv n e acc g m1) (rrep ev H R inv n e acc g m2).
    Proof.
      induction n as [|n IHn]; intros acc g m1 m2 Hm; cbn [rrep].
      - cbn. auto.
      - use_ih H R inv e (@nil (label * val)) g m1 m2 Hm; cbn [repsim]; auto.
        destruct X as (-> & -> & _ & X). apply IHn. exact X.
    Qed.

    Lemma rthrow_sim H R inv l hs : forall sc g m1 m2, meq m1 m2 ->
      rsim (rthrow ev H R inv l hs sc g m1) (rthrow ev H R inv l hs sc g m2).
    Proof.
      induction hs as [|[ls rc] hs IHhs]; intros sc g m1 m2 Hm; cbn [rthrow].
      - cbn. auto.
      - destruct (mem_bytes l ls); [|apply IHhs; exact Hm].
        use_ih H R inv rc (@nil (label * val)) g m1 m2 Hm; cbn [rsim]; auto.
        destruct X as (-> & -> & _ & X). auto.
    Qed.

    Definition optsim (a b : option (nat * rmu)) : Prop :=
      match a, b with Some (o1, x), Some (o2, y) => o1 = o2 /\ meq x y | None, None => True | _, _ => False end.

    Lemma step_rune_sim R o m1 m2 ok : meq m1 m2 -> optsim (step_rune c R o m1 ok) (step_rune c R o m2 ok).
    Proof.
      intros Hm. unfold step_rune. destruct (rune_at c o) as [r w]. destruct (Nat.eqb w 0); [exact I|].
      destruct (ok r); cbn; auto. split; [reflexivity | apply meq_land; exact Hm].
    Qed.

    Lemma lit_match_sim R ic rs : forall o m1 m2, meq m1 m2 ->
      optsim (fst (lit_match c R ic rs o m1)) (fst (lit_match c R ic rs o m2)) /\
      meq (snd (lit_match c R ic rs o m1)) (snd (lit_match c R ic rs o m2)).
    Proof.
      induction rs as [|w rs IHrs]; intros o m1 m2 Hm; cbn [lit_match].
      - cbn. auto.
      - pose proof (step_rune_sim R o m1 m2 (fun r => Z.eqb (if ic then to_lower (rU c) r else r) w) Hm) as X.
        destruct (step_rune c R o m1 _) as [[o1 m1']|], (step_rune c R o m2 _) as [[o2 m2']|]; cbn [optsim] in X; try contradiction.
        + destruct X as [-> X]. apply IHrs. exact X.
        + cbn. auto.
    Qed.

    Lemma term_result_sim R inv want sc g m1 m2 r1 r2 f1 f2 : optsim r1 r2 -> meq f1 f2 ->
      rsim (term_result c R inv want sc g m1 r1 f1) (term_result c R inv want sc g m2 r2 f2).
    Proof.
      intros X F. unfold term_result. destruct r1 as [[o1 a1]|], r2 as [[o2 a2]|]; cbn [optsim] in X; try contradiction; cbn [rsim].
      - destruct X as [-> X]. refine (conj eq_refl (conj eq_refl (conj eq_refl _))). apply meq_log. exact X.
      - apply meq_log. exact F.
    Qed.

    Lemma ctx_same id text pos sc g m1 m2 : meq m1 m2 -> block_ctx_ref c id text pos sc g m1 = block_ctx_ref c id text pos sc g m2.
    Proof. intros [A B]. unfold block_ctx_ref. rewrite A. reflexivity. Qed.

    Lemma body_sim loopfuel H R inv e sc g m1 m2 : meq m1 m2 ->
      rsim (reval_body c ev loopfuel H R inv e sc g m1) (reval_body c ev loopfuel H R inv e sc g m2).
    Proof.
      intros Hm.
      destruct e as [nid rs ic want | nid cv chars ranges classes ic cinv tb | nid | nid es | nid es | nid e' | nid e' | nid e'
                    | nid e' | nid e' | nid l e' | nid id e' | nid id | nid id | nid id | nid nm | nid e' rc ls | nid l];
        cbn [reval_body].
      - pose proof (lit_match_sim R ic rs (g_off g) m1 m2 Hm) as [X F].
        destruct (lit_match c R ic rs (g_off g) m1) as [r1 f1], (lit_match c R ic rs (g_off g) m2) as [r2 f2].
        cbn [fst snd] in X, F. apply term_result_sim; assumption.
      - apply term_result_sim; [apply step_rune_sim; exact Hm | exact Hm].
      - apply term_result_sim; [apply step_rune_sim; exact Hm | exact Hm].
      - apply rseq_sim. exact Hm.
      - apply ralt_sim. exact Hm.
      - pose proof (rrep_sim H R inv e' loopfuel (@nil val) g m1 m2 Hm) as X.
        destruct (rrep ev H R inv loopfuel e' [] g m1), (rrep ev H R inv loopfuel e' [] g m2); cbn [repsim] in X; try contradiction; cbn [rsim]; auto.
        destruct X as (-> & -> & X). auto.
      - pose proof (rrep_sim H R inv e' loopfuel (@nil val) g m1 m2 Hm) as X.
        destruct (rrep ev H R inv loopfuel e' [] g m1), (rrep ev H R inv loopfuel e' [] g m2); cbn [repsim] in X; try contradiction; cbn [rsim]; auto.
        destruct X as (-> & -> & X). destruct vs0; cbn [rsim]; auto.
      - use_ih H R inv e' (@nil (label * val)) g m1 m2 Hm; cbn [rsim]; auto. destruct X as (-> & -> & _ & X). auto.
      - use_ih H R inv e' (@nil (label * val)) g m1 m2 Hm; cbn [rsim]; auto. destruct X as (_ & _ & _ & X). auto.
      - use_ih H R (negb inv) e' (@nil (label * val)) g m1 m2 Hm; cbn [rsim]; auto. destruct X as (_ & _ & _ & X). auto.
      - use_ih H R inv e' (@nil (label * val)) g m1 m2 Hm; cbn [rsim]; auto. destruct X as (-> & -> & _ & X). auto.
      - use_ih H R inv e' sc g m1 m2 Hm; cbn [rsim]; auto. destruct X as (_ & -> & -> & X).
        unfold run_block. rewrite (ctx_same id _ _ sc1 g1 m m0 X).
        destruct (ce_act (rE c) id _); cbn [rsim].
        + refine (conj eq_refl (conj eq_refl (conj eq_refl _))). apply meq_log_err. apply meq_with_gs. apply meq_log. exact X.
        + refine (conj eq_refl (conj eq_refl (conj eq_refl _))). apply meq_with_gs. apply meq_log. exact X.
      - unfold run_block. rewrite (ctx_same id _ _ sc g m1 m2 Hm).
        destruct (ce_pred (rE c) id _); cbn [rsim].
        + destruct r; cbn [rsim]; try refine (conj eq_refl (conj eq_refl (conj eq_refl _))); apply meq_log_err; apply meq_with_gs; apply meq_log; exact Hm.
        + refine (conj eq_refl (conj eq_refl (conj eq_refl _))). apply meq_with_gs. apply meq_log. exact Hm.
      - unfold run_block. rewrite (ctx_same id _ _ sc g m1 m2 Hm).
        destruct (ce_pred (rE c) id _); cbn [rsim].
        + destruct r; cbn [rsim]; try refine (conj eq_refl (conj eq_refl (conj eq_refl _))); apply meq_log_err; apply meq_with_gs; apply meq_log; exact Hm.
        + refine (conj eq_refl (conj eq_refl (conj eq_refl _))). apply meq_with_gs. apply meq_log. exact Hm.
      - unfold run_block. rewrite (ctx_same id _ _ sc g m1 m2 Hm).
        destruct (ce_state (rE c) id _); cbn [rsim].
        + refine (conj eq_refl (conj eq_refl (conj eq_refl _))). apply meq_log_err. apply meq_with_gs. apply meq_log. exact Hm.
        + refine (conj eq_refl (conj eq_refl (conj eq_refl _))). apply meq_with_gs. apply meq_log. exact Hm.
      - destruct nm as [|b nm]; [cbn [rsim]; auto|].
        destruct (find_rule (b :: nm) (rG c)) as [r|]; [|cbn [rsim]; apply meq_log; exact Hm].
        use_ih H (Some r) inv (r_expr r) (@nil (label * val)) g m1 m2 Hm; cbn [rsim]; auto. destruct X as (-> & -> & _ & X). auto.
      - apply IH. exact Hm.
      - apply rthrow_sim. exact Hm.
    Qed.
  End Step.

  Theorem counter_is_bookkeeping fuel : ev_sim (reval c fuel).
  Proof.
    induction fuel as [|f IHf]; intros H R inv e sc g m1 m2 Hm; cbn [reval].
    - exact I.
    - unfold over_budget. rewrite Hbud. cbn [N.eqb negb andb].
      apply body_sim; [exact IHf|]. destruct Hm as [A B]. split; cbn; assumption.
  Qed.
End Cnt.
