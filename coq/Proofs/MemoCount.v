(* Memoize bounds the work (second sentence of C06), the part that holds of every grammar:
   with Memoize(true), a standard (not -optimize-parser) parser without left-recursion support
   stores one result per evaluated expression and evaluates nothing on a hit, so the number of
   evaluated expressions equals the number of results stored in the memo table.  When no
   (expression, offset) pair is stored twice - which is what the absence of left recursion buys,
   see C07 - the count is bounded by (number of expressions) x (input length + 1). *)
From PV Require Import Lib.Base Lib.Utf8 Syntax.RGrammar Syntax.Code Model.PState Spec.Pos Model.Runtime
  Proofs.Utf8Proofs Proofs.ReadProofs Proofs.Inv Proofs.InvStep Proofs.TopLevel.
From Coq Require Import ZifyBool ZifyN ZifyNat.
Local Open Scope N_scope.

Definition is_kexpr (en : nat * mkey * rtuple) : bool :=
  match snd (fst en) with KExpr _ => true | KRule _ => false end.

(* the (offset, expression) pairs with a stored result, one per setMemoized *)
Definition expr_keys (m : list (nat * mkey * rtuple)) : list (nat * nid) :=
  flat_map (fun en => match snd (fst en) with KExpr n => [(fst (fst en), n)] | KRule _ => [] end) m.

Definition stored (m : list (nat * mkey * rtuple)) : N := N.of_nat (length (expr_keys m)).

Definition Bal (s s' : pstate) : Prop := exprCnt s' + stored (memo s) = exprCnt s + stored (memo s').

Lemma Bal_refl s : Bal s s. Proof. unfold Bal. lia. Qed.
Lemma Bal_trans a b d : Bal a b -> Bal b d -> Bal a d. Proof. unfold Bal. lia. Qed.
Lemma Bal_same s s' : memo s' = memo s -> exprCnt s' = exprCnt s -> Bal s s'.
Proof. unfold Bal. intros -> ->. lia. Qed.

Definition mc_pres (f : pstate -> pstate) : Prop := forall s, memo (f s) = memo s /\ exprCnt (f s) = exprCnt s.

Definition mspec {A} (m : M A) : Prop := forall s a s', m s = Ok a s' -> Bal s s'.

Lemma mspec_ret {A} (a : A) : mspec (ret a).
Proof. intros s a' s' H. inversion H. apply Bal_refl. Qed.

Lemma mspec_bind {A B} (m : M A) (k : A -> M B) : mspec m -> (forall a, mspec (k a)) -> mspec (bind m k).
Proof.
  intros Hm Hk s b s' H. unfold bind in H. destruct (m s) as [a s1|pv s1|] eqn:E; try discriminate.
  eapply Bal_trans; [eapply Hm; eauto | eapply Hk; eauto].
Qed.

Lemma mspec_modify f : mc_pres f -> mspec (modify f).
Proof. intros Hf s a s' H. inversion H. destruct (Hf s). apply Bal_same; auto. Qed.

Lemma mspec_read {A} (g : pstate -> A) : mspec (fun s => Ok (g s) s).
Proof. intros s a s' H. inversion H. apply Bal_refl. Qed.

Lemma mc_pres_comp f g : mc_pres f -> mc_pres g -> mc_pres (fun s => f (g s)).
Proof. intros Hf Hg s. destruct (Hf (g s)), (Hg s). split; congruence. Qed.

Lemma mc_pres_id : mc_pres (fun s => s). Proof. intros s; auto. Qed.

Ltac mcp := intros s; repeat match goal with
  | |- context [if ?b then _ else _] => destruct b
  | |- context [match ?x with _ => _ end] => destruct x
  end; cbn; auto.

Lemma mc_pushV : mc_pres pushV. Proof. unfold pushV. mcp. Qed.
Lemma mc_popV : mc_pres popV. Proof. unfold popV. mcp. Qed.
Lemma mc_pushRecovery ls e : mc_pres (pushRecovery ls e). Proof. unfold pushRecovery. mcp. Qed.
Lemma mc_popRecovery : mc_pres popRecovery. Proof. unfold popRecovery. mcp. Qed.
Lemma mc_bind_label l v : mc_pres (bind_label l v). Proof. unfold bind_label. intros s. destruct (vstack s); cbn; auto. Qed.
Lemma mc_restore p : mc_pres (restore p). Proof. unfold restore. intros s. destruct (Nat.eqb _ _); cbn; auto. Qed.
Lemma mc_addErrAt c m p ex : mc_pres (addErrAt c m p ex). Proof. unfold addErrAt. intros s; cbn; auto. Qed.
Lemma mc_addErr c m : mc_pres (addErr c m). Proof. unfold addErr. intros s. apply mc_addErrAt. Qed.
Lemma mc_restoreState c x : mc_pres (restoreState c x). Proof. unfold restoreState. intros s. destruct (has_state _); cbn; auto. Qed.
Lemma mc_failAt f p w : mc_pres (failAt f p w).
Proof.
  unfold failAt. intros s. destruct (Bool.eqb _ _); [|auto]. destruct (_ <? _)%nat; [auto|].
  destruct (_ <? _)%nat; cbn; auto.
Qed.
Lemma mc_read c : mc_pres (read c).
Proof.
  unfold read. intros s. destruct (_ && _); [|cbn; auto]. destruct (o_allowinvalid _); [cbn; auto|].
  destruct (mc_addErr c msg_invalid_encoding (set_pt (adv (pt s)) s)) as [A B]. rewrite A, B. cbn; auto.
Qed.
Lemma mc_cloneState c s : memo (snd (cloneState c s)) = memo s /\ exprCnt (snd (cloneState c s)) = exprCnt s.
Proof. unfold cloneState. destruct (has_state _); cbn; auto. Qed.

Lemma mspec_clone c : mspec (fun s => let '(x, s') := cloneState c s in Ok x s').
Proof.
  intros s a s' H. pose proof (mc_cloneState c s) as [A B]. destruct (cloneState c s) as [x s1]. inversion H; subst.
  apply Bal_same; auto.
Qed.

Lemma mspec_run_code {R} c k id (f : cid -> ctx -> cbout R) : mspec (run_code c k id f).
Proof.
  intros s a s' H. unfold run_code in H. destruct (f id _); inversion H; subst. apply Bal_same; cbn; auto.
Qed.

Lemma mspec_if {A} (b : bool) (m1 m2 : M A) : mspec m1 -> mspec m2 -> mspec (if b then m1 else m2).
Proof. destruct b; auto. Qed.

Section Step.
  Variable c : cfg.
  Hypothesis Hmemo : o_memoize (cO c) = true.
  Hypothesis Hopt : t_optimize (cT c) = false.
  Hypothesis Hlr : t_leftrec (cT c) = false.
  Hypothesis Hq1 : q_memo_nocharge (cQ c) = true.
  Hypothesis Hq2 : q_memo_label (cQ c) = true.
  Hypothesis Hq3 : q_memo_expected (cQ c) = true.
  Hypothesis Hbud : o_maxexpr (cO c) = 0.

  Variable wrap : expr -> M (val * bool).
  Variable loopfuel : nat.
  Hypothesis Hwrap : forall e, mspec (wrap e).

  Lemma mc_err_opt (f : bytes -> pstate -> pstate) (err : option bytes) :
    (forall m, mc_pres (f m)) -> mc_pres (fun s => match err with Some m => f m s | None => s end).
  Proof. intros Hf. destruct err; [apply Hf | apply mc_pres_id]. Qed.

  Ltac mcs := first
    [ apply mc_pushV | apply mc_popV | apply mc_restoreState | apply mc_restore
    | apply mc_pushRecovery | apply mc_popRecovery | apply mc_bind_label
    | apply (mc_err_opt (addErr c)); intros; apply mc_addErr
    | apply (mc_err_opt (fun m s => addErrAt c m _ [] s)); intros; apply mc_addErrAt
    | (intros ?s; cbn; solve [auto]) ].

  Ltac ms := repeat first
    [ apply mspec_ret
    | apply Hwrap
    | apply mspec_clone
    | apply mspec_run_code
    | apply mspec_read
    | apply mspec_modify; mcs
    | apply mspec_bind; [|intros]
    | apply mspec_if ].

  Lemma ok_same {A} (a a' : A) s s1 s' : memo s1 = memo s -> exprCnt s1 = exprCnt s -> Ok a s1 = Ok a' s' -> Bal s s'.
  Proof. intros A1 A2 H. inversion H; subst. apply Bal_same; auto. Qed.

  Lemma any_ms : mspec (parseAnyMatcher c).
  Proof.
    intros s a s' H. unfold parseAnyMatcher in H. destruct (is_eof s).
    - eapply ok_same; [| |exact H]; apply mc_failAt.
    - eapply ok_same; [| |exact H].
      + rewrite (proj1 (mc_failAt _ _ _ _)). apply mc_read.
      + rewrite (proj2 (mc_failAt _ _ _ _)). apply mc_read.
  Qed.

  Lemma cls_match_ms cv p : mspec (cls_match c cv p).
  Proof.
    intros s a s' H. unfold cls_match in H. eapply ok_same; [| |exact H].
    - rewrite (proj1 (mc_failAt _ _ _ _)). apply mc_read.
    - rewrite (proj2 (mc_failAt _ _ _ _)). apply mc_read.
  Qed.

  Lemma cls_fail_ms cv p : mspec (cls_fail cv p).
  Proof. intros s a s' H. unfold cls_fail in H. eapply ok_same; [| |exact H]; apply mc_failAt. Qed.

  Lemma cls_ms cv chars ranges classes ic inv table : mspec (parseCharClassMatcher c cv chars ranges classes ic inv table).
  Proof.
    intros s a s' H. unfold parseCharClassMatcher in H.
    repeat match type of H with (if ?b then _ else _) = _ => destruct b end;
      first [eapply cls_fail_ms; exact H | eapply cls_match_ms; exact H].
  Qed.

  Lemma lit_loop_ms ic want start rs : mspec (lit_loop c ic want start rs).
  Proof.
    induction rs as [|w rs IH]; intros s a s' H; cbn [lit_loop] in H.
    - eapply ok_same; [| |exact H]; apply mc_failAt.
    - destruct (_ && _).
      + eapply Bal_trans; [|eapply IH; exact H]. apply Bal_same; apply mc_read.
      + eapply ok_same; [| |exact H].
        * rewrite (proj1 (mc_restore _ _)). apply mc_failAt.
        * rewrite (proj2 (mc_restore _ _)). apply mc_failAt.
  Qed.

  Lemma lit_ms lv ic want : mspec (parseLitMatcher c lv ic want).
  Proof. intros s a s' H. unfold parseLitMatcher in H. eapply lit_loop_ms; exact H. Qed.

  Lemma act_ms id e : mspec (parseActionExpr c wrap id e).
  Proof.
    unfold parseActionExpr. ms. destruct a0 as [v ok]. destruct ok; ms.
    destruct a2 as [actVal err]. ms.
  Qed.

  Lemma fresh_ms : mspec (fresh_ctx c).
  Proof. unfold fresh_ctx. apply mspec_modify. intros s. destruct (q_stale_ctx _); cbn; auto. Qed.

  Lemma codepred_ms k neg id : mspec (parseCodePred c k neg id).
  Proof.
    unfold parseCodePred. apply mspec_bind; [apply fresh_ms|intros]. ms. destruct a1 as [ok err]. ms.
  Qed.

  Lemma statecode_ms id : mspec (parseStateCodeExpr c id).
  Proof.
    unfold parseStateCodeExpr. apply mspec_bind; [apply fresh_ms|intros]. ms. destruct a0 as [x err]. ms.
  Qed.

  Lemma and_ms e : mspec (parseAndExpr c wrap e).
  Proof. unfold parseAndExpr. ms. Qed.

  Lemma not_ms e : mspec (parseNotExpr c wrap e).
  Proof. unfold parseNotExpr. ms. Qed.

  Lemma choice_ms alts : mspec (choice_loop c wrap alts).
  Proof. induction alts as [|a alts IH]; cbn [choice_loop]; ms. exact IH. Qed.

  Lemma labeled_ms l e : mspec (parseLabeledExpr wrap l e).
  Proof. unfold parseLabeledExpr. ms. Qed.

  Lemma seq_loop_ms p saved es : forall acc, mspec (seq_loop c wrap p saved es acc).
  Proof. induction es as [|e es IH]; intros acc; cbn [seq_loop]; ms. apply IH. Qed.

  Lemma seq_ms es : mspec (parseSeqExpr c wrap es).
  Proof. unfold parseSeqExpr. ms. apply seq_loop_ms. Qed.

  Lemma rep_loop_ms n e : forall acc, mspec (rep_loop wrap n e acc).
  Proof.
    induction n as [|n IH]; intros acc; cbn [rep_loop].
    - intros s a s' H. discriminate.
    - ms. apply IH.
  Qed.

  Lemma star_ms e : mspec (parseZeroOrMoreExpr wrap loopfuel e).
  Proof. unfold parseZeroOrMoreExpr. ms. apply rep_loop_ms. Qed.

  Lemma plus_ms e : mspec (parseOneOrMoreExpr wrap loopfuel e).
  Proof. unfold parseOneOrMoreExpr. apply mspec_bind; [apply rep_loop_ms|intros vs]. destruct vs; ms. Qed.

  Lemma opt_ms e : mspec (parseZeroOrOneExpr wrap e).
  Proof. unfold parseZeroOrOneExpr. ms. Qed.

  Lemma recovery_ms e rc ls : mspec (parseRecoveryExpr wrap e rc ls).
  Proof. unfold parseRecoveryExpr. ms. Qed.

  Lemma throw_loop_ms l stack : mspec (throw_loop c wrap l stack).
  Proof.
    induction stack as [|[ls rc] stack IH]; cbn [throw_loop]; ms; try exact IH.
  Qed.

  Lemma throw_ms l : mspec (parseThrowExpr c wrap l).
  Proof. intros s a s' H. unfold parseThrowExpr in H. eapply throw_loop_ms; exact H. Qed.

  Lemma rule_ms r : mspec (parseRule wrap r).
  Proof. unfold parseRule. ms. Qed.

  Lemma stored_set p k r s : stored (memo (setMemoized p k r s)) =
    match k with KExpr _ => stored (memo s) + 1 | KRule _ => stored (memo s) end.
  Proof.
    unfold setMemoized, stored. destruct k; cbn [memo set_memo expr_keys flat_map fst snd app length];
      rewrite ?Nat2N.inj_succ; fold (expr_keys (memo s)); lia.
  Qed.

  Lemma cnt_set p k r s : exprCnt (setMemoized p k r s) = exprCnt s.
  Proof. reflexivity. Qed.

  Lemma rule_memo_ms r : mspec (parseRuleMemoize c wrap r).
  Proof.
    intros s a s' H. unfold parseRuleMemoize in H. rewrite Hq3 in H. cbn [negb andb] in H.
    destruct (getMemoized _ s) as [res|].
    - eapply ok_same; [| |exact H]; apply mc_restore.
    - unfold bind, modify, ret in H. destruct (parseRule wrap r s) as [res s1|pv s1|] eqn:E; try discriminate.
      apply rule_ms in E. inversion H; subst. unfold Bal in *. rewrite stored_set, cnt_set. lia.
  Qed.

  Lemma rulewrap_ms r : mspec (parseRuleWrap c wrap loopfuel r).
  Proof.
    unfold parseRuleWrap. rewrite Hlr, Hopt, Hmemo. cbn. apply rule_memo_ms.
  Qed.

  Lemma ruleref_ms nm : mspec (parseRuleRefExpr c wrap loopfuel nm).
  Proof.
    unfold parseRuleRefExpr. destruct nm as [|b nm]; [intros s a s' H; discriminate|].
    destruct (find_rule _ _) as [r|].
    - apply rulewrap_ms.
    - intros s a s' H. eapply ok_same; [| |exact H]; apply mc_addErr.
  Qed.

  (* one evaluation: the counter moves by one more than the table *)
  Lemma parseExpr_count e s a s' : parseExpr c wrap loopfuel e s = Ok a s' ->
    exprCnt s' + stored (memo s) = exprCnt s + 1 + stored (memo s').
  Proof.
    unfold parseExpr. rewrite Hbud. cbn [N.eqb negb andb]. intros H.
    set (s1 := set_exprCnt (exprCnt s + 1) s) in *.
    assert (B : Bal s1 s').
    { destruct e; try (destruct (has_state (cT c)); [|discriminate]);
        first [ eapply lit_ms; exact H | eapply cls_ms; exact H | eapply any_ms; exact H | eapply seq_ms; exact H
              | eapply choice_ms; exact H | eapply star_ms; exact H | eapply plus_ms; exact H | eapply opt_ms; exact H
              | eapply and_ms; exact H | eapply not_ms; exact H | eapply labeled_ms; exact H | eapply act_ms; exact H
              | eapply codepred_ms; exact H | eapply statecode_ms; exact H | eapply ruleref_ms; exact H
              | eapply recovery_ms; exact H | eapply throw_ms; exact H ]. }
    unfold Bal in B. subst s1. cbn in B. lia.
  Qed.

  Lemma wrapbody_ms e : mspec (parseExprWrapBody c wrap loopfuel e).
  Proof.
    intros s a s' H. unfold parseExprWrapBody, bind, memo_active in H. rewrite Hopt, Hlr, Hmemo, Hq2, Hq3 in H.
    cbn [andb orb] in H. destruct (getMemoized _ s) as [res|].
    - rewrite Hq1 in H. eapply ok_same; [| |exact H]; apply mc_restore.
    - destruct (parseExpr c wrap loopfuel e s) as [r s1|pv s1|] eqn:E; try discriminate.
      apply parseExpr_count in E. unfold modify, ret in H. inversion H; subst.
      unfold Bal. rewrite stored_set, cnt_set. lia.
  Qed.
End Step.

Section Fuel.
  Variable c : cfg.
  Hypothesis Hmemo : o_memoize (cO c) = true.
  Hypothesis Hopt : t_optimize (cT c) = false.
  Hypothesis Hlr : t_leftrec (cT c) = false.
  Hypothesis Hq1 : q_memo_nocharge (cQ c) = true.
  Hypothesis Hq2 : q_memo_label (cQ c) = true.
  Hypothesis Hq3 : q_memo_expected (cQ c) = true.
  Hypothesis Hbud : o_maxexpr (cO c) = 0.

  Lemma wrap_ms fuel : forall e, mspec (parseExprWrap c fuel e).
  Proof.
    induction fuel as [|f IH]; intros e; cbn [parseExprWrap].
    - intros s a s' H. discriminate.
    - apply wrapbody_ms; auto.
  Qed.

  (* the evaluation of the start rule that Parse performs, when there is one *)
  Definition start_eval (fuel : nat) : option (Res (val * bool)) :=
    match cG c with
    | [] => None
    | _ => match entry_name c with
           | None => None
           | Some en => match find_rule en (cG c) with
                        | None => None
                        | Some r => Some (parseRuleWrap c (parseExprWrap c fuel) fuel r (read c (init_state c)))
                        end
           end
    end.

  Definition did_not_panic (fuel : nat) : Prop := forall pv s, start_eval fuel <> Some (Panic pv s).

  Lemma no_match_mc s : memo (no_match_error c s) = memo s /\ exprCnt (no_match_error c s) = exprCnt s.
  Proof. unfold no_match_error. apply mc_addErrAt. Qed.

  (* every evaluation of a whole parse is a stored result *)
  Theorem evaluations_are_stored_results fuel v errors final :
    did_not_panic fuel ->
    parse c fuel = Returned v errors final -> exprCnt final = stored (memo final).
  Proof.
    intros Hnp. unfold did_not_panic, start_eval in Hnp. unfold parse, finish. destruct (cG c) as [|r0 g] eqn:G.
    - intros H. inversion H; subst. reflexivity.
    - destruct (entry_name c) as [en|]; [|discriminate]. destruct (find_rule en _) as [sr|].
      + assert (B0 : mspec (parseRuleWrap c (parseExprWrap c fuel) fuel sr)) by (apply rulewrap_ms; auto; apply wrap_ms).
        pose proof (B0 (read c (init_state c))) as B.
        destruct (parseRuleWrap _ _ _ _ _) as [[v0 ok] s'|pv s'|]; [|exfalso; eapply Hnp; reflexivity|discriminate].
        specialize (B _ _ eq_refl). unfold Bal in B.
        destruct (mc_read c (init_state c)) as [A1 A2]. rewrite A1, A2 in B. cbn in B.
        assert (E : exprCnt s' = stored (memo s')) by (unfold stored in *; cbn in B; lia).
        intros H. destruct ok; [inversion H; subst; exact E|].
        destruct (errs s'); inversion H; subst; [|exact E].
        destruct (no_match_mc s') as [A B']. rewrite A, B'. exact E.
      + intros H. inversion H; subst. reflexivity.
  Qed.

  Corollary evaluations_are_stored_results_without_recover fuel v errors final :
    o_recover (cO c) = false ->
    parse c fuel = Returned v errors final -> exprCnt final = stored (memo final).
  Proof.
    intros Hrec H. apply (evaluations_are_stored_results fuel v errors final); [|exact H].
    intros pv s E. unfold parse in H. unfold start_eval in E.
    destruct (cG c); [discriminate|]. destruct (entry_name c); [|discriminate]. destruct (find_rule _ _); [|discriminate].
    inversion E as [E']. rewrite E', Hrec in H. discriminate.
  Qed.

  (* Memoize bounds the work - partial: the hypothesis that no (offset, expression) pair is stored twice is what the
     absence of left recursion provides (not proved here: decided on the implementation by the C06 check), and the
     finite set the pairs lie in is left to the caller (offsets 0..|input|, expressions of the grammar) *)
  Theorem linear_bound_partial fuel v errors final (offs : list nat) (ids : list nid) :
    did_not_panic fuel ->
    parse c fuel = Returned v errors final ->
    NoDup (expr_keys (memo final)) ->
    incl (expr_keys (memo final)) (list_prod offs ids) ->
    exprCnt final <= N.of_nat (length offs) * N.of_nat (length ids).
  Proof.
    intros Hnp H Hnd Hin. rewrite (evaluations_are_stored_results fuel v errors final Hnp H). unfold stored.
    pose proof (NoDup_incl_length Hnd Hin) as L. rewrite prod_length in L. lia.
  Qed.

  (* stored offsets lie within the input: from the invariant of the run-time model (InvStep) *)
  Lemma keys_within s : I c s -> forall o n, In (o, n) (expr_keys (memo s)) -> (o <= length (cData c))%nat.
  Proof.
    intros [_ Hm _] o n Hin. unfold expr_keys in Hin. apply in_flat_map in Hin as (en & Hen & Hk).
    unfold memo_ok in Hm. rewrite Forall_forall in Hm. specialize (Hm en Hen).
    destruct en as [[o' k] r]. cbn in Hk. destruct k as [n'|rn]; [|contradiction].
    destruct Hk as [E|[]]. inversion E; subst. cbn in Hm. destruct Hm as ((_ & _ & L) & _ & Ho). lia.
  Qed.

  Lemma final_keys_within fuel v errors final :
    did_not_panic fuel -> parse c fuel = Returned v errors final ->
    forall o n, In (o, n) (expr_keys (memo final)) -> (o <= length (cData c))%nat.
  Proof.
    intros Hnp. unfold did_not_panic, start_eval in Hnp. unfold parse, finish. destruct (cG c) as [|r0 g] eqn:G.
    - intros H. inversion H; subst. cbn. intros o n [].
    - destruct (entry_name c) as [en|]; [|discriminate]. destruct (find_rule en _) as [sr|].
      + pose proof (parseRuleWrap_inv c fuel fuel sr _ (I_init c)) as Hs.
        destruct (parseRuleWrap _ _ _ _ _) as [[v0 ok] s'|pv s'|]; [|exfalso; eapply Hnp; reflexivity|discriminate].
        destruct Hs as (HI & _). intros H.
        assert (E : memo final = memo s').
        { destruct ok; [inversion H; reflexivity|]. destruct (errs s'); inversion H; subst; [|reflexivity].
          apply no_match_mc. }
        rewrite E. apply keys_within. exact HI.
      + intros H. inversion H; subst. cbn. intros o n [].
  Qed.

  (* Memoize bounds the work - partial: what is left as a hypothesis is that no (offset, expression) pair is stored
     twice (the absence of left recursion; decided on the implementation by the C06 check) *)
  Theorem linear_bound_nodup fuel v errors final (ids : list nid) :
    did_not_panic fuel ->
    parse c fuel = Returned v errors final ->
    NoDup (expr_keys (memo final)) ->
    (forall o n, In (o, n) (expr_keys (memo final)) -> In n ids) ->
    exprCnt final <= N.of_nat (length ids) * (N.of_nat (length (cData c)) + 1).
  Proof.
    intros Hnp H Hnd Hids.
    pose proof (linear_bound_partial fuel v errors final (seq 0 (S (length (cData c)))) ids Hnp H Hnd) as L.
    rewrite seq_length in L. rewrite Nat2N.inj_succ in L.
    assert (Hin : incl (expr_keys (memo final)) (list_prod (seq 0 (S (length (cData c)))) ids)).
    { intros [o n] Hk. apply in_prod; [|eapply Hids; exact Hk]. apply in_seq.
      pose proof (final_keys_within fuel v errors final Hnp H o n Hk). lia. }
    specialize (L Hin). lia.
  Qed.
End Fuel.

(* ---- the hypotheses are satisfiable: the grammar of the memo witness (MemoRefuted.v), Memoize(true), pinned quirks ---- *)
From PV Require Import Proofs.MemoRefuted.

Definition key_eqb (x y : nat * nid) : bool := Nat.eqb (fst x) (fst y) && N.eqb (snd x) (snd y).
Lemma key_eqb_eq x y : key_eqb x y = true <-> x = y.
Proof.
  destruct x as [a b], y as [a' b']. unfold key_eqb. cbn. rewrite andb_true_iff, Nat.eqb_eq, N.eqb_eq.
  split; [intros [-> ->]; reflexivity | intros E; inversion E; auto].
Qed.
Fixpoint nodupb (l : list (nat * nid)) : bool :=
  match l with [] => true | x :: l' => negb (existsb (key_eqb x) l') && nodupb l' end.
Lemma nodupb_sound l : nodupb l = true -> NoDup l.
Proof.
  induction l as [|x l IH]; cbn; intros H; constructor; apply andb_true_iff in H as [H1 H2]; auto.
  intros Hin. apply negb_true_iff in H1. assert (existsb (key_eqb x) l = true); [|congruence].
  apply existsb_exists. exists x. split; [exact Hin | apply key_eqb_eq; reflexivity].
Qed.
Definition inclb (l k : list (nat * nid)) : bool := forallb (fun x => existsb (key_eqb x) k) l.
Lemma inclb_sound l k : inclb l k = true -> incl l k.
Proof.
  unfold inclb. rewrite forallb_forall. intros H x Hx. specialize (H x Hx). apply existsb_exists in H as (y & Hy & E).
  apply key_eqb_eq in E. subst. exact Hy.
Qed.

Definition example_ids : list nid := map N.of_nat (seq 1 15).

Lemma example_no_panic : did_not_panic (cfg_memo faithful true) 100.
Proof. intros pv s. vm_compute. discriminate. Qed.

Lemma example_bound_hypotheses :
  exists v errs final, parse (cfg_memo faithful true) 100 = Returned v errs final /\
    NoDup (expr_keys (memo final)) /\
    incl (expr_keys (memo final)) (list_prod (seq 0 3) example_ids) /\
    exprCnt final = 20.
Proof.
  eexists. eexists. eexists. split; [vm_compute; reflexivity|].
  split; [apply nodupb_sound; vm_compute; reflexivity|].
  split; [apply inclb_sound; vm_compute; reflexivity|]. reflexivity.
Qed.
