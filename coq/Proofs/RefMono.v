(* Fuel is only a bound on depth: once the specification's evaluation of an expression is defined
   (does not run out of fuel), more fuel gives the same outcome.  This is what lets statements made
   "for some fuel" be read as statements about the expression. *)
From PV Require Import Lib.Base Lib.Utf8 Syntax.RGrammar Syntax.Code Model.PState Spec.Pos Model.Runtime Spec.Ref.
Local Open Scope nat_scope.

Section Mono.
  Variable c : rdata.

  Definition evT := handlers -> option rule -> bool -> expr -> scope -> rsig -> rmu -> rres.
  Definition extends (ev ev' : evT) : Prop :=
    forall H R inv e sc g m, ev H R inv e sc g m <> ROut -> ev' H R inv e sc g m = ev H R inv e sc g m.

  Section Step.
    Variables ev ev' : evT.
    Hypothesis Hext : extends ev ev'.

    Ltac step H R inv e sc g m :=
      let E := fresh "E" in
      destruct (ev H R inv e sc g m) eqn:E;
      [ rewrite (Hext H R inv e sc g m) by (rewrite E; discriminate); rewrite E
      | rewrite (Hext H R inv e sc g m) by (rewrite E; discriminate); rewrite E
      | rewrite (Hext H R inv e sc g m) by (rewrite E; discriminate); rewrite E
      | ].

    Lemma rseq_mono H R inv es : forall acc sc g m,
      rseq ev H R inv es acc sc g m <> ROut -> rseq ev' H R inv es acc sc g m = rseq ev H R inv es acc sc g m.
    Proof.
      induction es as [|e es IH]; intros acc sc g m Hd; cbn [rseq] in *; [reflexivity|].
      step H R inv e sc g m; try reflexivity; [apply IH; exact Hd | congruence].
    Qed.

    Lemma ralt_mono H R inv es : forall sc g m,
      ralt ev H R inv es sc g m <> ROut -> ralt ev' H R inv es sc g m = ralt ev H R inv es sc g m.
    Proof.
      induction es as [|e es IH]; intros sc g m Hd; cbn [ralt] in *; [reflexivity|].
      step H R inv e (@nil (label * val)) g m; try reflexivity; [apply IH; exact Hd | congruence].
    Qed.

    Lemma rrep_mono H R inv e n : forall acc g m,
      rrep ev H R inv n e acc g m <> RepOut -> rrep ev' H R inv (S n) e acc g m = rrep ev H R inv n e acc g m.
    Proof.
      induction n as [|n IH]; intros acc g m Hd; [cbn [rrep] in Hd; congruence|].
      change (rrep ev' H R inv (S (S n)) e acc g m) with
        (match ev' H R inv e [] g m with
         | ROk v g' _ m' => rrep ev' H R inv (S n) e (v :: acc) g' m'
         | RFail m' => RepDone (rev acc) g m'
         | RPanic pv m' pos R' => RepPanic pv m' pos R'
         | ROut => RepOut end).
      cbn [rrep] in *.
      step H R inv e (@nil (label * val)) g m; try reflexivity; [apply IH; exact Hd | congruence].
    Qed.

    Lemma rrep_mono_same H R inv e n : forall acc g m,
      rrep ev H R inv n e acc g m <> RepOut -> rrep ev' H R inv n e acc g m = rrep ev H R inv n e acc g m.
    Proof.
      induction n as [|n IH]; intros acc g m Hd; [reflexivity|]. cbn [rrep] in *.
      step H R inv e (@nil (label * val)) g m; try reflexivity; [apply IH; exact Hd | congruence].
    Qed.

    Lemma rthrow_mono H R inv l hs : forall sc g m,
      rthrow ev H R inv l hs sc g m <> ROut -> rthrow ev' H R inv l hs sc g m = rthrow ev H R inv l hs sc g m.
    Proof.
      induction hs as [|[ls rc] hs IH]; intros sc g m Hd; cbn [rthrow] in *; [reflexivity|].
      destruct (mem_bytes l ls); [|apply IH; exact Hd].
      step H R inv rc (@nil (label * val)) g m; try reflexivity; [apply IH; exact Hd | congruence].
    Qed.

    Lemma body_mono lf H R inv e sc g m :
      reval_body c ev lf H R inv e sc g m <> ROut ->
      reval_body c ev' (S lf) H R inv e sc g m = reval_body c ev lf H R inv e sc g m.
    Proof.
      intros Hd.
      destruct e as [nid rs ic want | nid cv chars ranges classes ic cinv tb | nid | nid es | nid es | nid e' | nid e' | nid e'
                    | nid e' | nid e' | nid l e' | nid id e' | nid id | nid id | nid id | nid nm | nid e' rc ls | nid l];
        cbn [reval_body] in *; try reflexivity.
      - apply rseq_mono. exact Hd.
      - apply ralt_mono. exact Hd.
      - rewrite rrep_mono; [reflexivity|]. intros E. rewrite E in Hd. congruence.
      - rewrite rrep_mono; [reflexivity|]. intros E. rewrite E in Hd. congruence.
      - step H R inv e' (@nil (label * val)) g m; try reflexivity. congruence.
      - step H R inv e' (@nil (label * val)) g m; try reflexivity. congruence.
      - step H R (negb inv) e' (@nil (label * val)) g m; try reflexivity. congruence.
      - step H R inv e' (@nil (label * val)) g m; try reflexivity. congruence.
      - step H R inv e' sc g m; try reflexivity. congruence.
      - destruct nm as [|b nm]; [reflexivity|].
        destruct (find_rule (b :: nm) (rG c)) as [r|]; [|reflexivity].
        step H (Some r) inv (r_expr r) (@nil (label * val)) g m; try reflexivity. congruence.
      - apply Hext. exact Hd.
      - apply rthrow_mono. exact Hd.
    Qed.
  End Step.

  Theorem reval_mono : forall f, extends (reval c f) (reval c (S f)).
  Proof.
    induction f as [|f IH]; intros H R inv e sc g m Hd.
    - cbn [reval] in Hd. congruence.
    - change (reval c (S (S f)) H R inv e sc g m) with
        (let m1 := mkMu (u_gs m) (u_log m) (u_cnt m + 1)%N in
         if over_budget c (u_cnt m1) then RPanic msg_max_expr m1 (pos_of (rData c) (g_off g)) R
         else reval_body c (reval c (S f)) (S f) H R inv e sc g m1).
      cbn [reval] in Hd |- *. cbv zeta. cbn [u_cnt] in Hd |- *.
      destruct (over_budget c (u_cnt m + 1)); [reflexivity|].
      apply body_mono; [exact IH | exact Hd].
  Qed.

  Corollary reval_mono_le f f' H R inv e sc g m : f <= f' ->
    reval c f H R inv e sc g m <> ROut -> reval c f' H R inv e sc g m = reval c f H R inv e sc g m.
  Proof.
    induction 1 as [|f' Hle IH]; intros Hd; [reflexivity|].
    rewrite reval_mono; [apply IH; exact Hd|]. rewrite IH by exact Hd. exact Hd.
  Qed.
End Mono.
