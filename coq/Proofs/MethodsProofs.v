From PV Require Import Lib.Base Model.Methods.
From Coq Require Import String.
Local Open Scope list_scope.

Lemma split_digits_unique (l1 : bytes) : forall l2 x y,
  forallb is_digit l1 = true -> forallb is_digit l2 = true ->
  match x with [] => true | b :: _ => negb (is_digit b) end = true ->
  match y with [] => true | b :: _ => negb (is_digit b) end = true ->
  l1 ++ x = l2 ++ y -> l1 = l2 /\ x = y.
Proof.
  induction l1 as [|d1 l1 IH]; intros l2 x y H1 H2 Hx Hy E.
  - destruct l2 as [|d2 l2]; [split; [reflexivity | exact E]|].
    cbn [app] in E. subst x. cbn [forallb] in H2. apply andb_true_iff in H2 as [Hd _].
    rewrite Hd in Hx. discriminate.
  - destruct l2 as [|d2 l2].
    + cbn [app] in E. subst y. cbn [forallb] in H1. apply andb_true_iff in H1 as [Hd _].
      rewrite Hd in Hy. discriminate.
    + cbn [app] in E. injection E as -> E. cbn [forallb] in H1, H2.
      apply andb_true_iff in H1 as [_ H1]. apply andb_true_iff in H2 as [_ H2].
      destruct (IH l2 x y H1 H2 Hx Hy E) as [-> ->]. split; reflexivity.
Qed.

Section Names.
  Variable itoa : nat -> bytes.
  Hypothesis itoa_inj : forall a b, itoa a = itoa b -> a = b.
  Hypothesis itoa_digits : forall a, forallb is_digit (itoa a) = true.

  Theorem func_name_injective r1 r2 i1 i2 :
    no_trailing_digit r1 = true -> no_trailing_digit r2 = true ->
    func_name itoa r1 i1 = func_name itoa r2 i2 -> r1 = r2 /\ i1 = i2.
  Proof.
    intros N1 N2 E. unfold func_name in E. apply app_inv_head in E.
    apply (f_equal (@rev byte)) in E. rewrite !rev_app_distr in E.
    assert (D : forall a, forallb is_digit (rev (itoa a)) = true).
    { intros a. apply forallb_forall. intros x Hx. apply in_rev in Hx.
      pose proof (itoa_digits a) as Hd. rewrite forallb_forall in Hd. apply Hd. exact Hx. }
    destruct (split_digits_unique (rev (itoa i1)) (rev (itoa i2)) (rev r1) (rev r2) (D i1) (D i2) N1 N2 E) as [Ei Er].
    split.
    - rewrite <- (rev_involutive r1), <- (rev_involutive r2), Er. reflexivity.
    - apply itoa_inj. rewrite <- (rev_involutive (itoa i1)), <- (rev_involutive (itoa i2)), Ei. reflexivity.
  Qed.
End Names.

(* with Go's decimal printer a rule name ending in a digit collides: A, expression 11  vs  A1, expression 1 *)
Lemma func_name_collision :
  func_name dec_nat (bytes_of_string "A") 11 = func_name dec_nat (bytes_of_string "A1") 1.
Proof. vm_compute. reflexivity. Qed.
