(* The seed-growing loop of a left-recursive leader (parseRuleRecursiveLeader): what the last,
   non-extending attempt did to the error list and to the state store is not retained. *)
From PV Require Import Lib.Base Lib.Utf8 Syntax.RGrammar Syntax.Code Model.PState Spec.Pos Model.Runtime.
Local Open Scope nat_scope.

Section LR.
  Variable c : cfg.
  Variable wrap : expr -> M (val * bool).

  (* the state the attempt starts from: the clone is taken, the current result is planted as the seed *)
  Definition attempt_start (r : rule) (sm : savepoint) (last : rtuple) (s : pstate) : pstate :=
    setMemoized sm (KRule (r_name r)) last (snd (cloneState c s)).

  Definition not_extending (depth : nat) (last : rtuple) (b : bool) (s2 : pstate) : Prop :=
    b = false \/ (offset (sp_pos (pt s2)) <= offset (sp_pos (rt_end last)) /\ depth <> 0).

  Lemma last_attempt_not_retained n r sm depth last lastErrs s v b s2 :
    parseRule wrap r (attempt_start r sm last s) = Ok (v, b) s2 ->
    not_extending depth last b s2 ->
    exists s3,
      leader_loop c wrap (S n) r sm depth last lastErrs s = Ok last s3 /\
      errs s3 = lastErrs /\
      (has_state (cT c) = true -> st s3 = st s) /\
      gs s3 = gs s2 /\ trace s3 = trace s2.
  Proof.
    intros Hp Hne. unfold attempt_start in Hp.
    cbn [leader_loop]. unfold bind, modify, ret.
    destruct (cloneState c s) as [saved s1] eqn:Ec. cbn [snd] in Hp.
    rewrite Hp. cbn [snd].
    assert (Hcond : negb b || (offset (sp_pos (pt s2)) <=? offset (sp_pos (rt_end last))) && negb (Nat.eqb depth 0) = true).
    { destruct Hne as [->|[Hle Hd]]; [reflexivity|].
      apply orb_true_iff. right. apply andb_true_iff. split.
      - apply Nat.leb_le. exact Hle.
      - apply negb_true_iff. apply Nat.eqb_neq. exact Hd. }
    rewrite Hcond.
    eexists. split; [reflexivity|]. unfold cloneState in Ec. unfold restoreState.
    destruct (has_state (cT c)); inversion Ec; subst; cbn; repeat split; auto; discriminate.
  Qed.
End LR.
