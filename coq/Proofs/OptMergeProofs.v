(* The terminal-merging pass of the grammar optimizer (Model/OptMerge.v) preserves what a choice matches:
   for every flat choice of alternatives, the choice the optimizer leaves behind gives, under Ref, the same
   success/failure, value, end position and state from every position of every input. *)
From PV Require Import Lib.Base Lib.Utf8 Syntax.RGrammar Syntax.Code Model.PState Spec.Pos Model.Runtime Spec.Ref
  Proofs.Determinacy Model.OptMerge.
From Coq Require Import Bool Btauto.
Local Open Scope nat_scope.

(* ---------- the class algebra (no grammar, no input) ---------- *)
Section ClassAlgebra.
  Variable u : ulib.

  Lemma list_ind2 {A} (P : list A -> Prop) :
    P [] -> (forall x, P [x]) -> (forall x y l, P l -> P (x :: y :: l)) -> forall l, P l.
  Proof.
    intros H0 H1 H2. fix IH 1. intros [|x [|y l]]; [exact H0 | apply H1 | apply H2, IH].
  Qed.

  Lemma in_ranges_app cur r0 : forall r1, Nat.even (length r0) = true ->
    in_ranges cur (r0 ++ r1) = in_ranges cur r0 || in_ranges cur r1.
  Proof.
    induction r0 as [|lo|lo hi r0 IH] using list_ind2; intros r1 Hev; cbn [app in_ranges].
    - reflexivity.
    - discriminate.
    - rewrite IH; [apply orb_assoc | exact Hev].
  Qed.

  Lemma class_decide_app c0 r0 k0 c1 r1 k1 ic cur : Nat.even (length r0) = true ->
    class_decide u (c0 ++ c1) (r0 ++ r1) (k0 ++ k1) ic false cur =
    class_decide u c0 r0 k0 ic false cur || class_decide u c1 r1 k1 ic false cur.
  Proof.
    intros Hev. unfold class_decide. rewrite !xorb_false_r, !existsb_app, in_ranges_app by exact Hev.
    unfold rune in *. btauto.
  Qed.

  Lemma existsb_same {A} (p : A -> bool) l1 l2 : (forall x, In x l1 <-> In x l2) -> existsb p l1 = existsb p l2.
  Proof.
    intros Hin. apply eq_true_iff_eq. rewrite !existsb_exists. split; intros (x & Hx & Hp); exists x; split; auto; apply Hin; auto.
  Qed.

  Lemma dedupe_z_in seen l : forall x, In x (dedupe_z seen l) \/ In x seen <-> In x l \/ In x seen.
  Proof.
    revert seen. induction l as [|y l IH]; intros seen x; cbn [dedupe_z].
    - tauto.
    - destruct (existsb (Z.eqb y) seen) eqn:E.
      + apply existsb_exists in E as (z & Hz & Ez). apply Z.eqb_eq in Ez. subst z.
        rewrite IH. cbn [In]. split; [tauto|]. intros [[->|Hx]|Hx]; auto.
      + cbn [In]. specialize (IH (y :: seen) x). cbn [In] in IH. tauto.
  Qed.

  Lemma dedupe_b_in seen l : forall x, In x (dedupe_b seen l) \/ In x seen <-> In x l \/ In x seen.
  Proof.
    revert seen. induction l as [|y l IH]; intros seen x; cbn [dedupe_b].
    - tauto.
    - destruct (existsb (bytes_eqb y) seen) eqn:E.
      + apply existsb_exists in E as (z & Hz & Ez). apply bytes_eqb_eq in Ez. subst z.
        rewrite IH. cbn [In]. split; [tauto|]. intros [[->|Hx]|Hx]; auto.
      + cbn [In]. specialize (IH (y :: seen) x). cbn [In] in IH. tauto.
  Qed.

  (* ranges as pairs *)
  Fixpoint pairs (l : list rune) : list (rune * rune) :=
    match l with lo :: hi :: l' => (lo, hi) :: pairs l' | _ => [] end.

  Lemma in_ranges_pairs cur l : in_ranges cur l = existsb (fun p => Z.leb (fst p) cur && Z.leb cur (snd p)) (pairs l).
  Proof.
    induction l as [|lo|lo hi l IH] using list_ind2; cbn [in_ranges pairs existsb fst snd]; try reflexivity.
    rewrite IH; reflexivity.
  Qed.

  Lemma pairs_map f l : pairs (map f l) = map (fun p => (f (fst p), f (snd p))) (pairs l).
  Proof.
    induction l as [|lo|lo hi l IH] using list_ind2; cbn [map pairs fst snd]; try reflexivity.
    rewrite IH; reflexivity.
  Qed.

  Lemma dedupe_pairs_in l : forall seen p, In p (pairs (dedupe_pairs seen l)) \/ In p seen <-> In p (pairs l) \/ In p seen.
  Proof.
    induction l as [|lo|lo hi l IH] using list_ind2; intros seen p; cbn [dedupe_pairs pairs]; try tauto.
    destruct (existsb (fun p0 => Z.eqb (fst p0) lo && Z.eqb (snd p0) hi) seen) eqn:E.
    - apply existsb_exists in E as ([a b] & Hz & Ez). cbn [fst snd] in Ez. apply andb_true_iff in Ez as [E1 E2].
      apply Z.eqb_eq in E1, E2. subst a b.
      rewrite IH. cbn [In]. split; [tauto|]. intros [[<-|Hx]|Hx]; auto.
    - cbn [pairs In]. specialize (IH ((lo, hi) :: seen) p). cbn [In] in IH. tauto.
  Qed.

  Lemma class_decide_cleanup cs rs ks ic inv (f : rune -> rune) cur :
    class_decide u (map f (dedupe_z [] cs)) (map f (dedupe_pairs [] rs)) (dedupe_b [] ks) ic inv cur =
    class_decide u (map f cs) (map f rs) ks ic inv cur.
  Proof.
    unfold class_decide. set (cur' := if ic then to_lower u cur else cur). f_equal. f_equal; [f_equal|].
    - apply existsb_same. intros x. rewrite !in_map_iff. split; intros (y & <- & Hy); exists y; split; auto.
      + pose proof (dedupe_z_in [] cs y) as X. cbn [In] in X. tauto.
      + pose proof (dedupe_z_in [] cs y) as X. cbn [In] in X. tauto.
    - rewrite !in_ranges_pairs, !pairs_map. apply existsb_same. intros x. rewrite !in_map_iff.
      split; intros (y & <- & Hy); exists y; split; auto.
      + pose proof (dedupe_pairs_in rs [] y) as X. cbn [In] in X. tauto.
      + pose proof (dedupe_pairs_in rs [] y) as X. cbn [In] in X. tauto.
    - apply existsb_same. intros x. pose proof (dedupe_b_in [] ks x) as X. cbn [In] in X. tauto.
  Qed.
End ClassAlgebra.

(* ---------- the laws of Ref the pass relies on ---------- *)
Section MergeLaws.
  Variable c : rdata.
  Hypothesis Hbud : o_maxexpr (rO c) = 0%N.
  Hypothesis Hact : forall id x y, ctx_eq x y -> out_eq (ce_act (rE c) id x) (ce_act (rE c) id y).
  Hypothesis Hpred : forall id x y, ctx_eq x y -> out_eq (ce_pred (rE c) id x) (ce_pred (rE c) id y).
  Hypothesis Hstate : forall id x y, ctx_eq x y -> out_eq (ce_state (rE c) id x) (ce_state (rE c) id y).
  Let U := rU c.

  (* an alternative that matches exactly one rune, and the test it makes on it (after the builder's lower-casing) *)
  Definition ok_of (a : alt) : option (rune -> bool) :=
    match lower_alt U a with
    | MLit [w] ic => Some (fun r => Z.eqb (if ic then to_lower U r else r) w)
    | MLit _ _ => None
    | MCls cs rs ks ic inv => Some (class_decide U cs rs ks ic inv)
    | MAny => Some (fun _ => true)
    end.

  (* e is an expression the builder can emit for a (node number, text shown in errors and lookup table are free) *)
  Definition denotes (a : alt) (e : expr) : Prop :=
    match lower_alt U a, e with
    | MLit rs ic, ELit _ rs' ic' _ => rs' = rs /\ ic' = ic
    | MCls cs rs ks ic inv, ECls _ _ cs' rs' ks' ic' inv' _ => cs' = cs /\ rs' = rs /\ ks' = ks /\ ic' = ic /\ inv' = inv
    | MAny, EAny _ => True
    | _, _ => False
    end.

  Definition mk (a : alt) : expr :=
    match lower_alt U a with
    | MLit rs ic => ELit 0%N rs ic []
    | MCls cs rs ks ic inv => ECls 0%N [] cs rs ks ic inv []
    | MAny => EAny 0%N
    end.

  Lemma denotes_mk a : denotes a (mk a).
  Proof. unfold denotes, mk. destruct (lower_alt U a); auto 6. Qed.

  Definition tick (m : rmu) : rmu := mkMu (u_gs m) (u_log m) (u_cnt m + 1)%N.

  Section Fuel.
    Variable f : nat.
    Let ev := reval c (S f).

    Lemma ev_hist : ev_ok ev.
    Proof. apply (outcome_is_history_independent c Hbud Hact Hpred Hstate). Qed.

    (* a one-rune terminal: the outcome is decided by the rune at the position *)
    Lemma terminal_outcome a e ok H R inv sc g m : denotes a e -> ok_of a = Some ok ->
      match ev H R inv e sc g m with
      | ROk v g' sc' _ =>
          snd (rune_at c (g_off g)) <> 0 /\ ok (fst (rune_at c (g_off g))) = true /\
          v = VBytes (slice c (g_off g) (g_off g + snd (rune_at c (g_off g)))) /\
          g' = mkSig (g_off g + snd (rune_at c (g_off g))) (g_st g) /\ sc' = sc
      | RFail _ => snd (rune_at c (g_off g)) = 0 \/ ok (fst (rune_at c (g_off g))) = false
      | _ => False
      end.
    Proof.
      unfold denotes, ok_of. intros Hd Hok. subst ev. cbn [reval]. unfold over_budget. rewrite Hbud. cbn [N.eqb negb andb].
      destruct (lower_alt U a) as [rs ic|cs rs ks ic inv0|]; destruct e; try contradiction.
      - destruct Hd as [-> ->]. destruct rs as [|w [|w2 rs]]; try discriminate. injection Hok as <-.
        cbn [reval_body lit_match]. unfold step_rune. destruct (rune_at c (g_off g)) as [r wd]. cbn [fst snd].
        destruct (Nat.eqb wd 0) eqn:Ew; [cbn; left; apply Nat.eqb_eq; exact Ew|].
        destruct (Z.eqb _ w) eqn:Eo; cbn [term_result]; [|right; reflexivity].
        apply Nat.eqb_neq in Ew. auto.
      - destruct Hd as (-> & -> & -> & -> & ->). injection Hok as <-.
        cbn [reval_body]. unfold step_rune. destruct (rune_at c (g_off g)) as [r wd]. cbn [fst snd].
        destruct (Nat.eqb wd 0) eqn:Ew; [cbn; left; apply Nat.eqb_eq; exact Ew|].
        destruct (class_decide _ _ _ _ _ _ r) eqn:Eo; cbn [term_result]; [|right; reflexivity].
        apply Nat.eqb_neq in Ew. auto.
      - injection Hok as <-.
        cbn [reval_body]. unfold step_rune. destruct (rune_at c (g_off g)) as [r wd]. cbn [fst snd].
        destruct (Nat.eqb wd 0) eqn:Ew; [cbn; left; apply Nat.eqb_eq; exact Ew|].
        cbn [term_result]. apply Nat.eqb_neq in Ew. auto.
    Qed.

    (* ... and it never does anything else: with a rune there, success or failure follows the test *)
    Lemma terminal_complete a e ok H R inv sc g m : denotes a e -> ok_of a = Some ok ->
      match ev H R inv e sc g m with
      | ROk _ _ _ _ => True
      | RFail _ => True
      | _ => False
      end.
    Proof.
      intros Hd Hok. pose proof (terminal_outcome a e ok H R inv sc g m Hd Hok) as X.
      destruct (ev H R inv e sc g m); auto.
    Qed.

    Definition Req (L1 L2 : list expr) : Prop :=
      forall H R inv sc g m m', res_eq (ralt ev H R inv L1 sc g m) (ralt ev H R inv L2 sc g m').

    Lemma res_eq_trans x y z : res_eq x y -> res_eq y z -> res_eq x z.
    Proof. destruct x, y, z; cbn; try tauto; intuition congruence. Qed.

    Lemma Req_refl L : Req L L.
    Proof. intros H R inv sc g m m'. apply ralt_eq. exact ev_hist. Qed.

    Lemma Req_trans A B D : Req A B -> Req B D -> Req A D.
    Proof. intros X Y H R inv sc g m m'. eapply res_eq_trans; [apply (X H R inv sc g m m) | apply Y]. Qed.

    (* the same alternative in front of equivalent tails *)
    Lemma Req_cons e L1 L2 : Req L1 L2 -> Req (e :: L1) (e :: L2).
    Proof.
      intros X H R inv sc g m m'. cbn [ralt].
      pose proof (ev_hist H R inv e [] g m m') as Y.
      destruct (ev H R inv e [] g m), (ev H R inv e [] g m'); cbn [res_eq] in Y; try contradiction; cbn [res_eq]; auto;
        try apply X.
      destruct Y as (-> & -> & _). auto.
    Qed.

    (* two expressions emitted for the same alternative *)
    Lemma denotes_same a e e' H R inv sc g m m' : denotes a e -> denotes a e' ->
      res_eq (ev H R inv e sc g m) (ev H R inv e' sc g m').
    Proof.
      unfold denotes. intros Hd Hd'. subst ev. cbn [reval]. unfold over_budget. rewrite Hbud. cbn [N.eqb negb andb].
      destruct (lower_alt U a) as [rs ic|cs rs ks ic inv0|]; destruct e; try contradiction; destruct e'; try contradiction.
      - destruct Hd as [-> ->], Hd' as [-> ->]. cbn [reval_body].
        pose proof (lit_match_eq c R ic rs (g_off g) (tick m) (tick m')) as X. unfold tick in X.
        destruct (lit_match c R ic rs (g_off g) _) as [[[o1 ma]|] mf1], (lit_match c R ic rs (g_off g) _) as [[[o2 mb]|] mf2];
          cbn [fst opt_eq] in X; try contradiction; cbn [term_result res_eq]; auto. subst o2. auto.
      - destruct Hd as (-> & -> & -> & -> & ->), Hd' as (-> & -> & -> & -> & ->). cbn [reval_body].
        pose proof (step_rune_eq c R (g_off g) (tick m) (tick m') (class_decide (rU c) cs rs ks ic inv0)) as X. unfold tick in X.
        destruct (step_rune c R (g_off g) _ _) as [[o1 ma]|], (step_rune c R (g_off g) _ _) as [[o2 mb]|];
          cbn [opt_eq] in X; try contradiction; cbn [term_result res_eq]; auto. subst o2. auto.
      - cbn [reval_body].
        pose proof (step_rune_eq c R (g_off g) (tick m) (tick m') (fun _ => true)) as X. unfold tick in X.
        destruct (step_rune c R (g_off g) _ _) as [[o1 ma]|], (step_rune c R (g_off g) _ _) as [[o2 mb]|];
          cbn [opt_eq] in X; try contradiction; cbn [term_result res_eq]; auto. subst o2. auto.
    Qed.

    Lemma Req_same a e e' L1 L2 : denotes a e -> denotes a e' -> Req L1 L2 -> Req (e :: L1) (e' :: L2).
    Proof.
      intros Hd Hd' X H R inv sc g m m'. cbn [ralt].
      pose proof (denotes_same a e e' H R inv [] g m m' Hd Hd') as Y.
      destruct (ev H R inv e [] g m), (ev H R inv e' [] g m'); cbn [res_eq] in Y; try contradiction; cbn [res_eq]; auto;
        try apply X.
      destruct Y as (-> & -> & _). auto.
    Qed.

    (* one-rune terminals whose tests agree are interchangeable *)
    Lemma Req_subst a a' e e' ok ok' L1 L2 : denotes a e -> denotes a' e' -> ok_of a = Some ok -> ok_of a' = Some ok' ->
      (forall r, ok' r = ok r) -> Req L1 L2 -> Req (e :: L1) (e' :: L2).
    Proof.
      intros Hd Hd' Ho Ho' Hsame X H R inv sc g m m'. cbn [ralt].
      pose proof (terminal_outcome a e ok H R inv [] g m Hd Ho) as Y1.
      pose proof (terminal_outcome a' e' ok' H R inv [] g m' Hd' Ho') as Y2.
      destruct (ev H R inv e [] g m), (ev H R inv e' [] g m'); try contradiction; cbn [res_eq].
      - apply X.
      - exfalso. destruct Y2 as (Y2 & Y3 & _). rewrite Hsame in Y3. destruct Y1; congruence.
      - exfalso. destruct Y1 as (Y1 & Y3 & _). rewrite <- Hsame in Y3. destruct Y2; congruence.
      - destruct Y1 as (_ & _ & -> & -> & _), Y2 as (_ & _ & -> & -> & _). auto.
    Qed.

    (* two adjacent one-rune terminals and one that tests the disjunction *)
    Lemma Req_merge a1 a2 am e1 e2 em ok1 ok2 okm L1 L2 :
      denotes a1 e1 -> denotes a2 e2 -> denotes am em ->
      ok_of a1 = Some ok1 -> ok_of a2 = Some ok2 -> ok_of am = Some okm ->
      (forall r, okm r = ok1 r || ok2 r) -> Req L1 L2 -> Req (e1 :: e2 :: L1) (em :: L2).
    Proof.
      intros Hd1 Hd2 Hdm Ho1 Ho2 Hom Hor X H R inv sc g m m'. cbn [ralt].
      pose proof (terminal_outcome a1 e1 ok1 H R inv [] g m Hd1 Ho1) as Y1.
      pose proof (terminal_outcome am em okm H R inv [] g m' Hdm Hom) as Ym.
      destruct (ev H R inv e1 [] g m) as [m1|v1 g1 s1 m1| |]; try contradiction.
      - pose proof (terminal_outcome a2 e2 ok2 H R inv [] g m1 Hd2 Ho2) as Y2.
        destruct (ev H R inv e2 [] g m1) as [m2|v2 g2 s2 m2| |]; try contradiction;
          destruct (ev H R inv em [] g m') as [mm|vm gm sm mm| |]; try contradiction; cbn [res_eq].
        + apply X.
        + exfalso. destruct Ym as (Ya & Yb & _). rewrite Hor in Yb. apply orb_true_iff in Yb.
          destruct Y1 as [|Y1], Y2 as [|Y2]; try congruence. destruct Yb; congruence.
        + exfalso. destruct Y2 as (Ya & Yb & _). destruct Ym as [|Ym]; [congruence|]. rewrite Hor, Yb, orb_true_r in Ym. discriminate.
        + destruct Y2 as (_ & _ & -> & -> & _), Ym as (_ & _ & -> & -> & _). auto.
      - destruct (ev H R inv em [] g m') as [mm|vm gm sm mm| |]; try contradiction; cbn [res_eq].
        + destruct Y1 as (Ya & Yb & _). destruct Ym as [|Ym]; [congruence|]. rewrite Hor, Yb in Ym. discriminate.
        + destruct Y1 as (_ & _ & -> & -> & _), Ym as (_ & _ & -> & -> & _). auto.
    Qed.

    (* ---------- the pass ---------- *)
    Definition wf_alt (a : alt) : Prop :=
      match a with MCls _ rs _ _ _ => Nat.even (length rs) = true | _ => True end.

    Lemma decide_chars_app cs c1 rs ks ic r :
      class_decide U (cs ++ c1) rs ks ic false r = class_decide U cs rs ks ic false r || class_decide U c1 [] [] ic false r.
    Proof. unfold class_decide. rewrite !xorb_false_r, existsb_app. cbn [in_ranges existsb]. unfold rune in *. btauto. Qed.

    Lemma decide_one w ic r : class_decide U [w] [] [] ic false r = Z.eqb (if ic then to_lower U r else r) w.
    Proof. unfold class_decide. cbn [existsb in_ranges]. rewrite !orb_false_r, xorb_false_r. reflexivity. Qed.

    Lemma decide_two x y ic r : class_decide U [x; y] [] [] ic false r =
      Z.eqb (if ic then to_lower U r else r) x || Z.eqb (if ic then to_lower U r else r) y.
    Proof. unfold class_decide. cbn [existsb in_ranges]. rewrite !orb_false_r, xorb_false_r. reflexivity. Qed.

    Lemma combine_ok a x m : combine a x = Some m -> wf_alt a -> wf_alt x ->
      wf_alt m /\ exists ok1 ok2 okm, ok_of a = Some ok1 /\ ok_of x = Some ok2 /\ ok_of m = Some okm /\
                                   forall r, okm r = ok1 r || ok2 r.
    Proof.
      unfold combine, ok_of. intros Hc Wa Wx.
      destruct a as [[|w1 [|? ?]] i0|c0 r0 k0 i0 v0|]; try discriminate;
        destruct x as [[|w2 [|? ?]] i1|c1 r1 k1 i1 v1|]; try discriminate.
      - (* "a" / "b" *)
        destruct (Bool.eqb i0 i1) eqn:Ei; [|discriminate]. apply eqb_prop in Ei. subst i1. injection Hc as <-.
        split; [reflexivity|]. destruct i0; cbn [lower_alt map]; do 3 eexists; (split; [reflexivity|]); (split; [reflexivity|]);
          (split; [reflexivity|]); intros r; cbn beta; apply decide_two.
      - (* "a" / [bc] *)
        destruct (Bool.eqb i0 i1 && negb v1) eqn:Ei; [|discriminate]. apply andb_true_iff in Ei as [Ei Ev].
        apply eqb_prop in Ei. subst i1. apply negb_true_iff in Ev. subst v1. injection Hc as <-.
        split; [exact Wx|]. destruct i0; cbn [lower_alt map]; rewrite ?map_app; cbn [map]; do 3 eexists;
          (split; [reflexivity|]); (split; [reflexivity|]); (split; [reflexivity|]); intros r; cbn beta;
          rewrite decide_chars_app, decide_one; apply orb_comm.
      - (* [ab] / "c" *)
        destruct (Bool.eqb i0 i1 && negb v0) eqn:Ei; [|discriminate]. apply andb_true_iff in Ei as [Ei Ev].
        apply eqb_prop in Ei. subst i1. apply negb_true_iff in Ev. subst v0. injection Hc as <-.
        split; [exact Wa|]. destruct i0; cbn [lower_alt map]; rewrite ?map_app; cbn [map]; do 3 eexists;
          (split; [reflexivity|]); (split; [reflexivity|]); (split; [reflexivity|]); intros r; cbn beta;
          rewrite decide_chars_app, decide_one; reflexivity.
      - (* [ab] / [cd] *)
        destruct (Bool.eqb i0 i1 && negb v0 && negb v1) eqn:Ei; [|discriminate]. apply andb_true_iff in Ei as [Ei Ev1].
        apply andb_true_iff in Ei as [Ei Ev0]. apply eqb_prop in Ei. subst i1.
        apply negb_true_iff in Ev0, Ev1. subst v0 v1. injection Hc as <-.
        cbn [wf_alt] in *. split; [rewrite app_length, Nat.even_add, Wa, Wx; reflexivity|].
        destruct i0; cbn [lower_alt]; rewrite ?map_app; do 3 eexists;
          (split; [reflexivity|]); (split; [reflexivity|]); (split; [reflexivity|]); intros r; cbn beta;
          apply class_decide_app; rewrite ?map_length; exact Wa.
    Qed.

    Lemma pass_wf : forall rest a, Forall wf_alt (a :: rest) -> Forall wf_alt (pass a rest).
    Proof.
      fix IH 1. intros [|x rest'] a Hwf; cbn [pass]; [exact Hwf|].
      inversion Hwf as [|? ? Wa Hwf1]; subst. inversion Hwf1 as [|? ? Wx Hwf2]; subst.
      destruct (combine a x) as [m|] eqn:Ec.
      - constructor; [apply (combine_ok a x m Ec Wa Wx)|].
        destruct rest' as [|y rest'']; [constructor|]. apply IH. exact Hwf2.
      - constructor; [exact Wa|]. apply IH. exact Hwf1.
    Qed.

    Lemma pass_Req : forall n rest, length rest <= n -> forall a L L',
      Forall wf_alt (a :: rest) -> Forall2 denotes (a :: rest) L -> Forall2 denotes (pass a rest) L' -> Req L L'.
    Proof.
      induction n as [|n IHn]; intros rest Hlen a L L' Hwf HL HL'.
      - destruct rest; [|cbn in Hlen; lia]. cbn [pass] in HL'.
        inversion HL as [|? e ? Lt Hd Ht]; subst. inversion Ht; subst.
        inversion HL' as [|? e' ? Lt' Hd' Ht']; subst. inversion Ht'; subst.
        eapply Req_same; eauto. apply Req_refl.
      - destruct rest as [|x rest'].
        + cbn [pass] in HL'.
          inversion HL as [|? e ? Lt Hd Ht]; subst. inversion Ht; subst.
          inversion HL' as [|? e' ? Lt' Hd' Ht']; subst. inversion Ht'; subst.
          eapply Req_same; eauto. apply Req_refl.
        + cbn [pass] in HL'. cbn [length] in Hlen.
          inversion Hwf as [|? ? Wa Hwf1]; subst. inversion Hwf1 as [|? ? Wx Hwf2]; subst.
          inversion HL as [|? e1 ? L1 Hd1 HL1]; subst.
          destruct (combine a x) as [mm|] eqn:Ec.
          * inversion HL1 as [|? e2 ? Lr Hd2 HLr]; subst.
            inversion HL' as [|? em ? Lr' Hdm HLr']; subst.
            destruct (combine_ok a x mm Ec Wa Wx) as (_ & ok1 & ok2 & okm & Ho1 & Ho2 & Hom & Hor).
            eapply Req_merge; eauto.
            destruct rest' as [|y rest''].
            -- inversion HLr; subst. inversion HLr'; subst. apply Req_refl.
            -- apply (IHn rest'' ltac:(cbn [length] in Hlen; lia) y); assumption.
          * inversion HL' as [|? e1' ? Lx' Hd1' HLx']; subst.
            eapply Req_same; eauto.
            apply (IHn rest' ltac:(lia) x); assumption.
    Qed.

    Lemma denotes_all l : Forall2 denotes l (map mk l).
    Proof. induction l; cbn [map]; constructor; auto using denotes_mk. Qed.

    Lemma pass_list_Req l L L' : Forall wf_alt l -> Forall2 denotes l L -> Forall2 denotes (pass_list l) L' -> Req L L'.
    Proof.
      destruct l as [|a rest]; cbn [pass_list]; intros Hwf HL HL'.
      - inversion HL; subst. inversion HL'; subst. apply Req_refl.
      - eapply pass_Req; eauto.
    Qed.

    Lemma pass_list_wf l : Forall wf_alt l -> Forall wf_alt (pass_list l).
    Proof. destruct l; cbn [pass_list]; auto using pass_wf. Qed.

    Lemma same_Req : forall l L L', Forall2 denotes l L -> Forall2 denotes l L' -> Req L L'.
    Proof.
      induction l as [|a l IHl]; intros L L' HL HL'.
      - inversion HL; subst. inversion HL'; subst. apply Req_refl.
      - inversion HL; subst. inversion HL'; subst. eapply Req_same; eauto.
    Qed.

    Lemma iter_Req n : forall l L L', Forall wf_alt l -> Forall2 denotes l L -> Forall2 denotes (iter n pass_list l) L' -> Req L L'.
    Proof.
      induction n as [|n IHn]; intros l L L' Hwf HL HL'; cbn [iter] in HL'.
      - eapply same_Req; eauto.
      - apply (Req_trans L (map mk (pass_list l)) L').
        + apply (pass_list_Req l); [exact Hwf | exact HL | apply denotes_all].
        + apply (IHn (pass_list l)); [apply pass_list_wf; exact Hwf | apply denotes_all | exact HL'].
    Qed.

    Lemma iter_wf n : forall l, Forall wf_alt l -> Forall wf_alt (iter n pass_list l).
    Proof. induction n; intros l Hwf; cbn [iter]; auto using pass_list_wf. Qed.

    (* cleanup: the class decides the same; other alternatives are untouched *)
    Lemma cleanup_Req : forall l L L', Forall2 denotes l L -> Forall2 denotes (map cleanup l) L' -> Req L L'.
    Proof.
      induction l as [|a l IHl]; intros L L' HL HL'; cbn [map] in HL'.
      - inversion HL; subst. inversion HL'; subst. apply Req_refl.
      - inversion HL as [|? e ? Lt Hd Ht]; subst. inversion HL' as [|? e' ? Lt' Hd' Ht']; subst.
        destruct a as [rs ic|cs rs ks ic inv0|]; cbn [cleanup] in Hd'.
        + eapply Req_same; eauto.
        + destruct ic.
          * eapply (Req_subst (MCls cs rs ks true inv0) (MCls (dedupe_z [] cs) (dedupe_pairs [] rs) (dedupe_b [] ks) true inv0));
              [exact Hd | exact Hd' | reflexivity | reflexivity | | eauto].
            intros r. cbn beta. apply class_decide_cleanup.
          * eapply (Req_subst (MCls cs rs ks false inv0) (MCls (dedupe_z [] cs) (dedupe_pairs [] rs) (dedupe_b [] ks) false inv0));
              [exact Hd | exact Hd' | reflexivity | reflexivity | | eauto].
            intros r. cbn beta.
            pose proof (class_decide_cleanup U cs rs ks false inv0 (fun x => x) r) as X. rewrite !map_id in X. exact X.
        + eapply Req_same; eauto.
    Qed.

    Theorem optimize_choice_Req l L L' :
      Forall wf_alt l -> Forall2 denotes l L -> Forall2 denotes (optimize_choice l) L' -> Req L L'.
    Proof.
      unfold optimize_choice. intros Hwf HL HL'.
      apply (Req_trans L (map mk (iter (length l) pass_list l)) L').
      - apply (iter_Req (length l) l); [exact Hwf | exact HL | apply denotes_all].
      - apply (cleanup_Req (iter (length l) pass_list l)); [apply denotes_all | exact HL'].
    Qed.
  End Fuel.

  (* the statement for Ref itself: the choice before and after the pass *)
  Theorem merge_pass_preserves_choice l L L' :
    Forall wf_alt l -> Forall2 denotes l L -> Forall2 denotes (optimize_choice l) L' ->
    forall f H R inv n n' sc g m,
      res_eq (reval c (S (S f)) H R inv (EAlt n L) sc g m) (reval c (S (S f)) H R inv (EAlt n' L') sc g m).
  Proof.
    intros Hwf HL HL' f H R inv n n' sc g m.
    change (reval c (S (S f)) H R inv (EAlt n L) sc g m) with
      (if over_budget c (u_cnt (tick m)) then RPanic msg_max_expr (tick m) (pos_of (rData c) (g_off g)) R
       else ralt (reval c (S f)) H R inv L sc g (tick m)).
    change (reval c (S (S f)) H R inv (EAlt n' L') sc g m) with
      (if over_budget c (u_cnt (tick m)) then RPanic msg_max_expr (tick m) (pos_of (rData c) (g_off g)) R
       else ralt (reval c (S f)) H R inv L' sc g (tick m)).
    unfold over_budget. rewrite Hbud. cbn [N.eqb negb andb].
    apply (optimize_choice_Req f l L L' Hwf HL HL').
  Qed.

  (* when one alternative is left the optimizer puts it in the place of the choice *)
  Theorem single_alternative a e ok : denotes a e -> ok_of a = Some ok ->
    forall f H R inv n sc g m,
      res_eq (reval c (S (S f)) H R inv (EAlt n [e]) sc g m) (reval c (S f) H R inv e sc g m).
  Proof.
    intros Hd Ho f H R inv n sc g m.
    change (reval c (S (S f)) H R inv (EAlt n [e]) sc g m) with
      (if over_budget c (u_cnt (tick m)) then RPanic msg_max_expr (tick m) (pos_of (rData c) (g_off g)) R
       else ralt (reval c (S f)) H R inv [e] sc g (tick m)).
    unfold over_budget. rewrite Hbud. cbn [N.eqb negb andb ralt].
    pose proof (terminal_outcome f a e ok H R inv [] g (tick m) Hd Ho) as Y1.
    pose proof (terminal_outcome f a e ok H R inv sc g m Hd Ho) as Y2.
    destruct (reval c (S f) H R inv e [] g (tick m)), (reval c (S f) H R inv e sc g m); try contradiction; cbn [res_eq]; auto.
    - destruct Y2 as (Ya & Yb & _). destruct Y1; congruence.
    - destruct Y1 as (Ya & Yb & _). destruct Y2; congruence.
    - destruct Y1 as (_ & _ & -> & -> & _), Y2 as (_ & _ & -> & -> & ->). auto.
  Qed.
End MergeLaws.
