(* C12: the incremental farthest-failure bookkeeping (failAt) computes the batch
   definition over the list of relevant terminal attempts. *)
From PV Require Import Lib.Base Lib.Utf8 Syntax.RGrammar Syntax.Code Model.PState Spec.Pos Model.Runtime
  Spec.Ref Spec.RefParse Proofs.Sim.
Local Open Scope nat_scope.

Notation term := (position * bytes * bool)%type.
Definition toff (t : term) : nat := offset (fst (fst t)).
Definition trender (t : term) : bytes := if snd t then b_bang ++ snd (fst t) else snd (fst t).

Lemma far_offset_app ts t : far_offset (ts ++ [t]) = Nat.max (far_offset ts) (toff t).
Proof. unfold far_offset. rewrite fold_left_app. reflexivity. Qed.

Lemma far_offset_ge ts : forall t, In t ts -> toff t <= far_offset ts.
Proof.
  induction ts as [|x ts IH] using rev_ind; intros t Hin; [destruct Hin|].
  rewrite far_offset_app. apply in_app_or in Hin as [Hin|[<-|[]]]; [specialize (IH _ Hin)|]; lia.
Qed.

Definition mf_inv (ts : list term) : Prop :=
  mf_fold ts = (far_pos ts, far_expected ts) /\ offset (far_pos ts) = far_offset ts.

Lemma far_pos_unfold ts :
  far_pos ts = match find (fun t : term => Nat.eqb (toff t) (far_offset ts) && negb (Nat.eqb (far_offset ts) 0)) ts with
               | Some t => fst (fst t) | None => mkPos 1 1 0 end.
Proof. reflexivity. Qed.

Lemma find_none_lt (f : term -> bool) ts : (forall t, In t ts -> f t = false) -> find f ts = None.
Proof. induction ts as [|x ts IH]; intros H; cbn; [reflexivity|]. rewrite (H x (or_introl eq_refl)). apply IH. intros; apply H; right; auto. Qed.

Lemma find_app_l (f : term -> bool) ts us t : find f ts = Some t -> find f (ts ++ us) = Some t.
Proof. induction ts as [|x ts IH]; cbn; [discriminate|]. destruct (f x); auto. Qed.

Lemma find_app_none (f : term -> bool) ts us : find f ts = None -> find f (ts ++ us) = find f us.
Proof. induction ts as [|x ts IH]; cbn; [reflexivity|]. destruct (f x); [discriminate|auto]. Qed.

Lemma find_ext (f g : term -> bool) ts : (forall t, In t ts -> f t = g t) -> find f ts = find g ts.
Proof.
  induction ts as [|x ts IH]; intros H; cbn; [reflexivity|].
  rewrite (H x (or_introl eq_refl)). destruct (g x); [reflexivity|]. apply IH. intros; apply H; right; auto.
Qed.

Lemma filter_ext' (f g : term -> bool) ts : (forall t, In t ts -> f t = g t) -> filter f ts = filter g ts.
Proof.
  induction ts as [|x ts IH]; intros H; cbn; [reflexivity|].
  rewrite (H x (or_introl eq_refl)). rewrite IH; [reflexivity|]. intros; apply H; right; auto.
Qed.

Lemma filter_none (f : term -> bool) ts : (forall t, In t ts -> f t = false) -> filter f ts = [].
Proof. induction ts as [|x ts IH]; intros H; cbn; [reflexivity|]. rewrite (H x (or_introl eq_refl)). apply IH. intros; apply H; right; auto. Qed.

Theorem mf_fold_batch : forall ts, mf_inv ts.
Proof.
  induction ts as [|t ts IH] using rev_ind.
  - split; reflexivity.
  - destruct IH as [IH1 IH2]. unfold mf_inv.
    rewrite far_pos_unfold in *. unfold far_expected in *.
    pose proof (far_offset_app ts t) as Hfo. pose proof (far_offset_ge ts) as Hge.
    unfold mf_fold in *. rewrite fold_left_app. cbn [fold_left]. rewrite IH1.
    destruct t as [[pos want] inv]. unfold mf_step.
    change (offset pos) with (toff (pos, want, inv)) in *.
    set (t := (pos, want, inv)) in *. set (far := far_offset ts) in *.
    rewrite IH2.
    destruct (Nat.ltb_spec (toff t) far) as [Hlt|Hge'].
    + (* earlier than the farthest failure: ignored *)
      assert (Hmax : far_offset (ts ++ [t]) = far) by lia. rewrite Hmax.
      assert (Hft : (Nat.eqb (toff t) far) = false) by (apply Nat.eqb_neq; lia).
      rewrite filter_app. cbn [filter]. fold (toff t). rewrite Hft, app_nil_r.
      split; [f_equal|].
      * destruct (find _ ts) as [u|] eqn:Hf.
        -- rewrite (find_app_l _ _ _ _ Hf); first [reflexivity | exact IH2].
        -- rewrite find_app_none by exact Hf. cbn [find]. fold (toff t). rewrite Hft. reflexivity.
      * destruct (find _ ts) as [u|] eqn:Hf.
        -- rewrite (find_app_l _ _ _ _ Hf); first [reflexivity | exact IH2].
        -- rewrite find_app_none by exact Hf. cbn [find]. fold (toff t). rewrite Hft. cbn. exact IH2.
    + destruct (Nat.ltb_spec far (toff t)) as [Hgt|Hle].
      * (* strictly farther: restart the expected list *)
        assert (Hmax : far_offset (ts ++ [t]) = toff t) by lia. rewrite Hmax.
        assert (Hnone : forall u, In u ts -> (Nat.eqb (toff u) (toff t)) = false).
        { intros u Hu. apply Nat.eqb_neq. specialize (Hge u Hu). fold far in Hge. lia. }
        assert (Hnz : Nat.eqb (toff t) 0 = false) by (apply Nat.eqb_neq; lia).
        rewrite filter_app. rewrite (filter_none _ ts) by exact Hnone. cbn [filter app]. fold (toff t).
        rewrite Nat.eqb_refl. cbn [map].
        rewrite find_app_none.
        2: { apply find_none_lt. intros u Hu. rewrite (Hnone u Hu). reflexivity. }
        cbn [find]. fold (toff t). rewrite Nat.eqb_refl, Hnz. cbn. split; reflexivity.
      * (* at the farthest position: append *)
        assert (Heq : toff t = far) by lia.
        assert (Hmax : far_offset (ts ++ [t]) = far) by lia. rewrite Hmax.
        rewrite filter_app, map_app. cbn [filter]. fold (toff t). rewrite Heq, Nat.eqb_refl. cbn [map].
        split; [f_equal|].
        -- destruct (find _ ts) as [u|] eqn:Hf.
           ++ rewrite (find_app_l _ _ _ _ Hf); first [reflexivity | exact IH2].
           ++ rewrite find_app_none by exact Hf. cbn [find]. fold (toff t). rewrite Heq, Nat.eqb_refl. cbn [andb].
              destruct (Nat.eqb_spec far 0) as [E0|E0]; cbn [negb]; [reflexivity|].
              (* far > 0 is attained inside ts, contradiction with find = None *)
              exfalso. cbn in IH2. lia.
        -- destruct (find _ ts) as [u|] eqn:Hf.
           ++ rewrite (find_app_l _ _ _ _ Hf); first [reflexivity | exact IH2].
           ++ rewrite find_app_none by exact Hf. cbn [find]. fold (toff t). rewrite Heq, Nat.eqb_refl. cbn [andb].
              destruct (Nat.eqb_spec far 0) as [E0|E0]; cbn [negb]; [cbn; lia|].
              exfalso. cbn in IH2. lia.
Qed.

Corollary mf_fold_far ts : mf_fold ts = (far_pos ts, far_expected ts).
Proof. apply mf_fold_batch. Qed.
