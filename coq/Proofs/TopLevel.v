(* Parse (the model of the generated parser's entry point) against Ref.rparse. *)
From PV Require Import Lib.Base Lib.Utf8 Syntax.RGrammar Syntax.Code Model.PState Spec.Pos Model.Runtime
  Spec.Ref Spec.RefParse Proofs.Utf8Proofs Proofs.ReadProofs Proofs.PosProofs Proofs.Inv Proofs.InvStep
  Proofs.Sim Proofs.SimStep Proofs.SimFinal Proofs.FailProofs.
Local Open Scope nat_scope.

Section Top.
  Variable c : cfg.
  Let d := cData c.
  Hypothesis Hst : state_ok c.
  Hypothesis Hmemo : o_memoize (cO c) = false.
  Hypothesis HG : G_wf c.
  Hypothesis Hstale : stale_ok c.
  Hypothesis Hnolr : t_leftrec (cT c) = false.

  (* what a caller (and the harness) can observe of a finished parse *)
  Definition obs_equiv (o : outcome) (r : routcome) : Prop :=
    match o, r with
    | Returned v es s, RReturned v' es' m =>
        v = v' /\ es = es' /\ gs s = u_gs m /\ exprCnt s = u_cnt m /\
        Forall2 ev_eqv (trace s) (blocks_of_log (u_log m))
    | Panicked pv s, RPanicked pv' m =>
        pv = pv' /\ gs s = u_gs m /\ exprCnt s = u_cnt m /\
        Forall2 ev_eqv (trace s) (blocks_of_log (u_log m))
    | Diverged, RDiverged => True
    | _, _ => False
    end.

  Lemma I_init : I c (read c (init_state c)).
  Proof.
    constructor.
    - apply read_sp_ok; [reflexivity | cbn; lia].
    - destruct (read_other c (init_state c)) as (_ & _ & _ & _ & _ & _ & _ & Hm & _). rewrite Hm. constructor.
    - unfold cnt_ok. destruct (read_other c (init_state c)) as (Hc & _). rewrite Hc. cbn.
      destruct (o_maxexpr (cO c)); [left; reflexivity | right; lia].
  Qed.

  Lemma Sim_init r :
    Sim c (pushV (set_rstack [r] (read c (init_state c)))) [] (mkSig 0 (o_initstate (cO c))) (land c None 0 (mu0)) [] (Some r) false.
  Proof.
    assert (Hadv : pt (read c (init_state c)) = adv (save0 d)) by (rewrite read_pt_adv; reflexivity).
    pose proof (reach_init d) as Hr. pose proof (reach_ok _ _ Hr) as (A & B & _).
    assert (Hoff : offset (sp_pos (adv (save0 d))) = 0) by (rewrite adv_off; reflexivity).
    assert (Hrune : rune_at c 0 = (sp_rn (adv (save0 d)), sp_w (adv (save0 d)))).
    { unfold rune_at; cbn [rd rData rU rO rG rE]. fold d. rewrite B. f_equal. rewrite A, Hoff. reflexivity. }
    assert (Hpos : sp_pos (adv (save0 d)) = pos_of d 0).
    { pose proof (reach_pos_of d _ Hr) as Hp. rewrite Hoff in Hp. exact Hp. }
    unfold land; cbn [rd rData rU rO rG rE]. rewrite Hrune. unfold read. cbn [pt init_state].
    fold d.
    destruct (Z.eqb (sp_rn (adv (save0 d))) RuneError && Nat.eqb (sp_w (adv (save0 d))) 1); cbn [andb];
      [destruct (o_allowinvalid (cO c)); cbn [negb]|].
    all: constructor; cbn; auto; try (eexists; reflexivity); try constructor.
    unfold ref_perr, err_prefix, ref_prefix; cbn [rd rData rU rO rG rE]. cbn. rewrite Hpos. reflexivity.
  Qed.

  Lemma errs_init_single msg :
    errs (addErr c msg (init_state c)) = [ref_perr c msg pos0 None []].
  Proof. reflexivity. Qed.

  Theorem parse_refines_rparse : forall fuel, obs_equiv (parse c fuel) (rparse c fuel).
  Proof.
    intros fuel. unfold parse, rparse, entry_name; cbn [rd rData rU rO rG rE].
    destruct (cG c) as [|r0 G0] eqn:EG.
    { cbn. repeat split; auto; try constructor. }
    rewrite <- EG.
    destruct (entry_of (cO c) (cG c)) as [en|]; [|exact Logic.I].
    destruct (find_rule en (cG c)) as [r|] eqn:Hf.
    2: { cbn. repeat split; auto; try constructor. }
    pose proof (find_rule_In _ _ _ Hf) as Hin.
    pose proof HG as HG'. unfold G_wf in HG'. rewrite Forall_forall in HG'. destruct (HG' r Hin) as [Hwf Hlr].
    rewrite (parseRuleWrap_plain c _ Hmemo fuel r _ Hlr).
    unfold parseRule, bind, modify, ret.
    assert (Hrs : rstack (read c (init_state c)) = []).
    { destruct (read_other c (init_state c)) as (_ & _ & _ & _ & Q & _). rewrite Q. reflexivity. }
    rewrite Hrs.
    set (s1 := set_rstack [r] (read c (init_state c))).
    assert (HI1 : I c s1) by (pose proof I_init as [A B C0]; constructor; auto).
    change (pushV (set_rstack [r] (read c (init_state c)))) with (pushV s1).
    pose proof (impl_refines_ref c Hst Hmemo HG Hstale Hnolr fuel (r_expr r) (pushV s1) [] (mkSig 0 (o_initstate (cO c)))
                  (land c None 0 mu0) [] (Some r) false Hwf (Forall_nil _) (I_pushV c _ HI1) (Sim_init r)) as Hs.
    pose proof (parseExprWrap_inv c fuel (r_expr r) (pushV s1) (I_pushV c _ HI1)) as Hw.
    unfold sim_res in Hs.
    destruct (parseExprWrap c fuel (r_expr r) (pushV s1)) as [[v [|]] s2|pv s2|];
      destruct (reval c fuel [] (Some r) false (r_expr r) [] (mkSig 0 (o_initstate (cO c))) (land c None 0 mu0)) as [m'|v' g' sc' m'|pv' m' pos R'|];
      cbn in Hs; try contradiction; try exact Logic.I.
    - (* success *)
      destruct Hs as [E [S1 S2 S3 S4 S5 S6 S7 S8 S9 S10 S11 S12]]. cbn. repeat split; auto. rewrite S5. reflexivity.
    - (* failure *)
      destruct Hs as [E [sc' [S1 S2 S3 S4 S5 S6 S7 S8 S9 S10 S11 S12]]]. cbn.
      destruct Hw as (_ & _ & [_ _ F3 _ _] & _). cbn in F3.
      destruct (errs s2) as [|e0 es0] eqn:Ee; rewrite <- S5.
      + cbn. repeat split; auto.
        f_equal. unfold no_match_error, no_match_perr; cbn [rd rData rU rO rG rE]. cbn [errs set_rstack popV set_vstack].
        rewrite mf_fold_far in S7. inversion S7 as [[Hp He]].
        unfold addErrAt. cbn. rewrite Ee. cbn. unfold ref_perr; cbn [rd rData rU rO rG rE]. f_equal.
        unfold err_prefix, ref_prefix; cbn [rd rData rU rO rG rE]. cbn. rewrite F3. cbn. rewrite Hp, He. reflexivity.
      + cbn. repeat split; auto. rewrite Ee. reflexivity.
    - (* panic *)
      destruct Hs as [E [P1 P2 P3 P4 P5 P6]]. subst pv'.
      destruct (o_recover (cO c)); cbn.
      + repeat split; auto. f_equal. unfold addErr, addErrAt. cbn. rewrite P3. f_equal.
        unfold ref_perr; cbn [rd rData rU rO rG rE]. rewrite err_prefix_ref, P6, P1. reflexivity.
      + repeat split; auto.
  Qed.
End Top.
