From PV Require Import Lib.Base Lib.Utf8 Model.Front Model.FrontLit Proofs.FrontProofs.
From Coq Require Import ZifyBool.
Local Open Scope Z_scope.

Lemma unq_elem f q e tl acc : lelem_ok q e = true -> (q =? r_dquote) || (q =? r_squote) = true ->
  unq (S f) q (print_lelem q e ++ tl) acc = unq f q tl (acc ++ denote_lelem e).
Proof.
  intros Hok Hq.
  assert (Hqv : q = 34 \/ q = 39) by (unfold r_dquote, r_squote in Hq; lia).
  destruct e as [r s | b | b]; cbn [lelem_ok denote_lelem] in *.
  - destruct s.
    + cbn [print_lelem app unq]. replace (r =? r_bslash) with false by (unfold r_bslash in *; lia). reflexivity.
    + unfold print_lelem. unfold lesc_letter in *.
      destruct (r =? q) eqn:Erq.
      * assert (r = q) by lia. subst r. cbn [app unq]. unfold r_bslash, r_x, r_u, r_U.
        replace (92 =? 92) with true by reflexivity.
        destruct Hqv as [-> | ->]; cbn; reflexivity.
      * repeat match goal with
        | H : context [if ?x =? ?k then _ else _] |- _ =>
            destruct (Z.eqb_spec x k); [subst; cbn [app unq]; unfold str_escape, single_escape, r_bslash, r_x, r_u, r_U;
                                        destruct Hqv as [-> | ->]; cbn; reflexivity|]
        end. discriminate.
    + unfold print_lelem. cbn -[digits take_digits encode].
      unfold scalarb in Hok.
      rewrite (take_digits_app 16 4 ltac:(lia) r 0 tl) by (change (16 ^ Z.of_nat 4) with 65536; lia).
      replace (0 * 16 ^ Z.of_nat 4 + r) with r by lia. reflexivity.
    + unfold print_lelem. cbn -[digits take_digits encode].
      unfold scalarb in Hok.
      rewrite (take_digits_app 16 8 ltac:(lia) r 0 tl) by (change (16 ^ Z.of_nat 8) with 4294967296; lia).
      replace (0 * 16 ^ Z.of_nat 8 + r) with r by lia. reflexivity.
  - unfold print_lelem. cbn -[digits take_digits encode].
    rewrite (take_digits_app 16 2 ltac:(lia) b 0 tl) by (change (16 ^ Z.of_nat 2) with 256; lia).
    replace (0 * 16 ^ Z.of_nat 2 + b) with b by lia. reflexivity.
  - unfold print_lelem.
    change (digits 8 3 b) with (hexdigit (b / 64) :: digits 8 2 (b mod 64)).
    assert (Hd : 0 <= b / 64 < 4) by (split; [apply Z.div_pos; lia | apply Z.div_lt_upper_bound; lia]).
    assert (He : hexdigit (b / 64) = 48 + b / 64) by (unfold hexdigit; replace (b / 64 <? 10) with true by lia; reflexivity).
    rewrite He. set (e := 48 + b / 64) in *.
    cbn [app unq]. unfold r_bslash, r_x, r_u, r_U.
    replace (92 =? 92) with true by reflexivity.
    replace (e =? 120) with false by lia. replace (e =? 117) with false by lia. replace (e =? 85) with false by lia.
    replace ((48 <=? e) && (e <=? 55)) with true by lia.
    pose proof (Z.mod_pos_bound b 64 ltac:(lia)) as Hm.
    rewrite (take_digits_app 8 2 ltac:(lia) (b mod 64) (e - 48) tl) by (change (8 ^ Z.of_nat 2) with 64; lia).
    replace ((e - 48) * 8 ^ Z.of_nat 2 + b mod 64) with b; [reflexivity|].
    change (8 ^ Z.of_nat 2) with 64. pose proof (Z.div_mod b 64 ltac:(lia)). lia.
Qed.

Lemma unq_elems q es : forall f acc, forallb (lelem_ok q) es = true -> (q =? r_dquote) || (q =? r_squote) = true ->
  unq (length es + S f) q (concat (map (print_lelem q) es)) acc = Some (acc ++ concat (map denote_lelem es)).
Proof.
  induction es as [|e es IH]; intros f acc Hok Hq.
  - cbn. rewrite app_nil_r. reflexivity.
  - cbn [forallb] in Hok. apply andb_true_iff in Hok as [He Hok].
    cbn [length map concat Nat.add]. rewrite unq_elem by assumption.
    rewrite IH by assumption. rewrite <- app_assoc. reflexivity.
Qed.

Lemma print_lelem_nonempty q e : (1 <= length (print_lelem q e))%nat.
Proof. destruct e as [r s|b|b]; [destruct s|..]; cbn; try lia. destruct (lesc_letter q r); cbn; lia. Qed.

Lemma length_elems_le q es : (length es <= length (concat (map (print_lelem q) es)))%nat.
Proof.
  induction es as [|e es IH]; cbn [map concat length]; [lia|]. rewrite app_length.
  pose proof (print_lelem_nonempty q e). lia.
Qed.

Theorem unquote_print_string q es :
  (q =? r_dquote) || (q =? r_squote) = true -> forallb (lelem_ok q) es = true ->
  unquote (print_string q es) = Some (concat (map denote_lelem es)).
Proof.
  intros Hq Hok. unfold unquote, print_string. cbn [app].
  rewrite removelast_last.
  assert (Hb : (q =? r_bquote) = false) by (unfold r_dquote, r_squote, r_bquote in *; lia).
  rewrite Hb, Hq.
  pose proof (length_elems_le q es) as Hl.
  replace (S (length (concat (map (print_lelem q) es))))
    with (length es + S (length (concat (map (print_lelem q) es)) - length es))%nat by lia.
  rewrite unq_elems by assumption. reflexivity.
Qed.
