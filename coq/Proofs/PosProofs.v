(* Save points reachable by scanning from the start of the input are a function of
   their byte offset: [reach d p -> save_at d (offset p) = p]. *)
From PV Require Import Lib.Base Lib.Utf8 Syntax.RGrammar Syntax.Code Model.PState Spec.Pos Model.Runtime
  Proofs.Utf8Proofs Proofs.ReadProofs.
Local Open Scope nat_scope.

Inductive chain : savepoint -> savepoint -> Prop :=
| chain_refl p : chain p p
| chain_step p q : sp_w p > 0 -> chain (adv p) q -> chain p q.

Definition reach (d : bytes) (p : savepoint) : Prop := chain (adv (save0 d)) p.

Lemma chain_snoc p q : chain p q -> sp_w q > 0 -> chain p (adv q).
Proof.
  induction 1 as [p|p q Hw Hc IH]; intros Hq.
  - apply chain_step; [exact Hq | apply chain_refl].
  - apply chain_step; [exact Hw | apply IH; exact Hq].
Qed.

Lemma adv_off p : offset (sp_pos (adv p)) = offset (sp_pos p) + sp_w p.
Proof. apply adv_facts. Qed.

Lemma chain_off p q : chain p q -> p = q \/ offset (sp_pos p) < offset (sp_pos q).
Proof.
  induction 1 as [p|p q Hw Hc IH]; [left; reflexivity|].
  right. rewrite adv_off in IH. destruct IH as [<-|IH]; [rewrite adv_off|]; lia.
Qed.

Lemma walk_chain p q : chain p q ->
  forall fuel, offset (sp_pos q) - offset (sp_pos p) <= fuel -> walk fuel p (offset (sp_pos q)) = q.
Proof.
  induction 1 as [p|p q Hw Hc IH]; intros fuel Hf.
  - destruct fuel; cbn; rewrite Nat.eqb_refl; reflexivity.
  - pose proof (chain_off _ _ Hc) as Ho. rewrite adv_off in Ho.
    assert (Hlt : offset (sp_pos p) < offset (sp_pos q)).
    { destruct Ho as [<-|Ho]; [rewrite adv_off|]; lia. }
    destruct fuel as [|f]; [lia|]. cbn [walk].
    destruct (Nat.eqb_spec (offset (sp_pos p)) (offset (sp_pos q))); [lia|].
    destruct (Nat.eqb_spec (sp_w p) 0); [lia|].
    apply IH. rewrite adv_off. lia.
Qed.

(* coherence with the input along the scan *)
Lemma sp_ok_adv d p : sp_rest p = skipn (offset (sp_pos p)) d -> offset (sp_pos p) + sp_w p <= length d -> sp_ok d (adv p).
Proof.
  intros H Hl. destruct (adv_facts p) as (A & B & C). split; [|split; [exact C|]].
  - rewrite A, B, H. apply skipn_skipn'.
  - rewrite B. exact Hl.
Qed.

Lemma chain_ok d p q : chain p q -> sp_ok d p -> sp_ok d q.
Proof.
  induction 1 as [p|p q Hw Hc IH]; intros Hp; [exact Hp|].
  apply IH. apply sp_ok_adv; [apply Hp | apply sp_ok_width; exact Hp].
Qed.

Lemma reach_ok d p : reach d p -> sp_ok d p.
Proof. intros H. eapply chain_ok; [exact H|]. apply sp_ok_adv; [reflexivity | cbn; lia]. Qed.

Lemma sp_ok_off_le d p : sp_ok d p -> offset (sp_pos p) <= length d -> offset (sp_pos p) + sp_w p <= length d.
Proof.
  intros H _. apply sp_ok_width. exact H.
Qed.

Lemma chain_off_le d p0 q : chain p0 q -> sp_ok d p0 -> offset (sp_pos p0) <= length d -> offset (sp_pos q) <= length d.
Proof.
  induction 1 as [p|p q Hw Hc IH]; intros Hp Hl; [exact Hl|].
  apply IH; [apply sp_ok_adv; [apply Hp | apply sp_ok_width; exact Hp]|].
  rewrite adv_off. apply sp_ok_off_le; assumption.
Qed.

Lemma reach_off_le d p : reach d p -> offset (sp_pos p) <= length d.
Proof.
  intros H. eapply chain_off_le; [exact H | apply sp_ok_adv; [reflexivity | cbn; lia] |].
  rewrite adv_off. cbn. lia.
Qed.

Theorem reach_save_at d p : reach d p -> save_at d (offset (sp_pos p)) = p.
Proof.
  intros H. unfold save_at. apply walk_chain; [exact H|].
  pose proof (reach_off_le d p H). lia.
Qed.

(* the position is a pure function of the input and the byte offset *)
Corollary reach_functional d p q :
  reach d p -> reach d q -> offset (sp_pos p) = offset (sp_pos q) -> p = q.
Proof. intros Hp Hq E. rewrite <- (reach_save_at d p Hp), <- (reach_save_at d q Hq), E. reflexivity. Qed.

Corollary reach_pos_of d p : reach d p -> sp_pos p = pos_of d (offset (sp_pos p)).
Proof. intros H. unfold pos_of. rewrite reach_save_at; auto. Qed.

Lemma reach_init d : reach d (adv (save0 d)).
Proof. apply chain_refl. Qed.

Lemma reach_adv d p : reach d p -> sp_w p > 0 -> reach d (adv p).
Proof. apply chain_snoc. Qed.

(* not at end of input <-> positive width, for coherent save points *)
Lemma sp_ok_eof d p : sp_ok d p -> (sp_w p = 0 <-> (Z.eqb (sp_rn p) RuneError && Nat.eqb (sp_w p) 0 = true)).
Proof.
  intros (A & B & _). split.
  - intros Hw. assert (Hs : snd (decode (sp_rest p)) = 0) by (rewrite <- B; exact Hw).
    apply decode_width_zero in Hs. rewrite Hs in B. cbn in B. inversion B as [[E1 E2]].
    rewrite E1, E2. reflexivity.
  - intros H. apply andb_true_iff in H as [_ H]. apply Nat.eqb_eq in H. exact H.
Qed.
