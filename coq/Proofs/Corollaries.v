(* Corollaries of the invariant and of the refinement, in the form the property
   theorems quote them. *)
From PV Require Import Lib.Base Lib.Utf8 Syntax.RGrammar Syntax.Code Model.PState Spec.Pos Model.Runtime
  Spec.Ref Spec.RefParse Proofs.Utf8Proofs Proofs.ReadProofs Proofs.PosProofs Proofs.Inv Proofs.InvStep
  Proofs.Sim Proofs.SimStep Proofs.SimFinal Proofs.FailProofs Proofs.TopLevel.
From Coq Require Import ZifyBool ZifyN ZifyNat.
Local Open Scope nat_scope.

(* ---- every expression, every template variant, Memoize on or off, left recursion or not ---- *)
Lemma fail_consumes_nothing c fuel e s v s' :
  I c s -> parseExprWrap c fuel e s = Ok (v, false) s' ->
  cur_off s' = cur_off s /\ (has_state (cT c) = true -> st s' = st s).
Proof.
  intros HI E. pose proof (parseExprWrap_inv c fuel e s HI) as Hs. rewrite E in Hs.
  destruct Hs as (_ & _ & _ & _ & Hb). apply Hb. reflexivity.
Qed.

Lemma success_moves_forward c fuel e s v b s' :
  I c s -> parseExprWrap c fuel e s = Ok (v, b) s' -> cur_off s <= cur_off s'.
Proof.
  intros HI E. pose proof (parseExprWrap_inv c fuel e s HI) as Hs. rewrite E in Hs. apply Hs.
Qed.

Lemma savepoint_coherent c fuel e s r s' :
  I c s -> parseExprWrap c fuel e s = Ok r s' -> sp_ok (cData c) (pt s').
Proof.
  intros HI E. pose proof (parseExprWrap_inv c fuel e s HI) as Hs. rewrite E in Hs. destruct r. apply Hs.
Qed.

Lemma stacks_balanced c fuel e s r s' :
  I c s -> parseExprWrap c fuel e s = Ok r s' ->
  tl (vstack s') = tl (vstack s) /\ length (vstack s') = length (vstack s) /\
  rstack s' = rstack s /\ rcvstack s' = rcvstack s /\ maxFailInvert s' = maxFailInvert s.
Proof.
  intros HI E. pose proof (parseExprWrap_inv c fuel e s HI) as Hs. rewrite E in Hs. destruct r.
  destruct Hs as (_ & _ & [F1 F2 F3 F4 F5] & _). auto.
Qed.

Lemma errors_only_grow c fuel e s :
  I c s ->
  match parseExprWrap c fuel e s with
  | Ok _ s' | Panic _ s' => exists l, errs s' = errs s ++ l
  | OutOfFuel => True
  end.
Proof.
  intros HI. pose proof (parseExprWrap_inv c fuel e s HI) as Hs.
  destruct (parseExprWrap c fuel e s) as [[v b] s'|pv s'|]; auto.
  - destruct Hs as (_ & [M1 _ _ _] & _). exact M1.
  - destruct Hs as ([M1 _ _ _] & _). exact M1.
Qed.

Lemma budget_respected c fuel e s :
  I c s -> o_maxexpr (cO c) <> 0%N ->
  match parseExprWrap c fuel e s with
  | Ok _ s' => (exprCnt s' <= o_maxexpr (cO c))%N
  | Panic _ s' => (exprCnt s' <= o_maxexpr (cO c) + 1)%N
  | OutOfFuel => True
  end.
Proof.
  intros HI Hn. pose proof (parseExprWrap_inv c fuel e s HI) as Hs.
  destruct (parseExprWrap c fuel e s) as [[v b] s'|pv s'|]; auto.
  - destruct Hs as ([_ _ C0] & _). destruct C0; [contradiction|assumption].
  - destruct Hs as (_ & [C0|C0]); [contradiction|assumption].
Qed.

(* ---- the growing loop of a left-recursive leader terminates ---- *)
Lemma growth_terminates c fuel n r s :
  I c s ->
  (forall s', parseRule (parseExprWrap c fuel) r s' <> OutOfFuel) ->
  length (cData c) + 2 <= n ->
  parseRuleRecursiveLeader c (parseExprWrap c fuel) n r s <> OutOfFuel.
Proof.
  intros HI Hnf Hn. apply leader_terminates; auto.
  intros e s0 H0. apply parseExprWrap_inv. exact H0.
Qed.

(* ---- the whole parse ---- *)
Definition final_state (o : outcome) : option pstate :=
  match o with Returned _ _ s | Panicked _ s => Some s | Diverged => None end.

Lemma parse_budget c fuel s' :
  o_maxexpr (cO c) <> 0%N -> final_state (parse c fuel) = Some s' ->
  (exprCnt s' <= o_maxexpr (cO c) + 1)%N.
Proof.
  intros Hn. unfold parse.
  destruct (cG c) as [|r0 G0]; [cbn; intros E; inversion E; cbn; lia|].
  destruct (entry_name c) as [en|]; [|discriminate].
  destruct (find_rule en (r0 :: G0)) as [r|]; [|cbn; intros E; inversion E; cbn; lia].
  pose proof (parseRuleWrap_inv c fuel fuel r _ (I_init c)) as Hs.
  destruct (parseRuleWrap c (parseExprWrap c fuel) fuel r (read c (init_state c))) as [[v b] s2|pv s2|]; [| |discriminate].
  - destruct Hs as ([_ _ C0] & _). assert (Hc : (exprCnt s2 <= o_maxexpr (cO c))%N) by (destruct C0; [contradiction|assumption]).
    destruct b; cbn; [intros E; inversion E; subst; lia|].
    destruct (errs s2); cbn; intros E; inversion E; subst; cbn; lia.
  - destruct Hs as (_ & [C0|C0]); [contradiction|].
    destruct (o_recover (cO c)); cbn; intros E; inversion E; subst; cbn; lia.
Qed.

(* a panic (from a code block or from the expression budget) never escapes Parse when
   Recover is on: it becomes the last recorded error and the value is nil *)
Lemma parse_panic_contained c fuel r en pv s' :
  cG c <> [] -> entry_name c = Some en -> find_rule en (cG c) = Some r ->
  parseRuleWrap c (parseExprWrap c fuel) fuel r (read c (init_state c)) = Panic pv s' ->
  parse c fuel =
    if o_recover (cO c) then Returned VNil (dedupe (errs s' ++ [mkPerr pv (sp_pos (pt s')) (err_prefix c (sp_pos (pt s')) s') []])) (addErr c pv s')
    else Panicked pv s'.
Proof.
  intros HG He Hf Hp. unfold parse. destruct (cG c) as [|r0 G0] eqn:EG; [contradiction|].
  rewrite He. rewrite Hf, Hp. destruct (o_recover (cO c)); reflexivity.
Qed.

(* ---- errList.dedupe: first occurrences, in order ---- *)
Lemma dedupe_go_sub seen l e : In e (dedupe_go seen l) -> In e l /\ mem_bytes (perr_string e) seen = false.
Proof.
  revert seen. induction l as [|x l IH]; intros seen Hin; cbn in *; [contradiction|].
  destruct (mem_bytes (perr_string x) seen) eqn:Hm.
  - destruct (IH _ Hin) as [A B]. split; [right; exact A | exact B].
  - destruct Hin as [<-|Hin]; [split; [left; reflexivity | exact Hm]|].
    destruct (IH _ Hin) as [A B]. split; [right; exact A|].
    cbn in B. apply orb_false_iff in B. apply B.
Qed.

Lemma mem_bytes_In x l : mem_bytes x l = true <-> In x l.
Proof.
  induction l as [|y l IH]; cbn; [split; [discriminate|contradiction]|].
  rewrite orb_true_iff, IH, bytes_eqb_eq. split; intros [E|E]; auto.
Qed.

Lemma dedupe_go_nodup seen l : NoDup (map perr_string (dedupe_go seen l)).
Proof.
  revert seen. induction l as [|x l IH]; intros seen; cbn; [constructor|].
  destruct (mem_bytes (perr_string x) seen) eqn:Hm; [apply IH|].
  cbn. constructor; [|apply IH].
  intros Hin. apply in_map_iff in Hin as [e [He Hin]].
  apply dedupe_go_sub in Hin as [_ Hs]. cbn in Hs. rewrite He, bytes_eqb_refl in Hs. discriminate.
Qed.

Lemma dedupe_go_complete seen l e : In e l ->
  mem_bytes (perr_string e) seen = true \/ In (perr_string e) (map perr_string (dedupe_go seen l)).
Proof.
  revert seen. induction l as [|x l IH]; intros seen Hin; [contradiction|]. cbn.
  destruct Hin as [<-|Hin].
  - destruct (mem_bytes (perr_string x) seen) eqn:Hm; [left; reflexivity | right; left; reflexivity].
  - destruct (mem_bytes (perr_string x) seen) eqn:Hm.
    + apply IH. exact Hin.
    + destruct (IH (perr_string x :: seen) Hin) as [Hs|Hs].
      * cbn in Hs. apply orb_true_iff in Hs as [Hs|Hs]; [|left; exact Hs].
        apply bytes_eqb_eq in Hs. right. left. symmetry. exact Hs.
      * right. right. exact Hs.
Qed.

Theorem dedupe_spec l :
  NoDup (map perr_string (dedupe l)) /\
  (forall e, In e (dedupe l) -> In e l) /\
  (forall e, In e l -> In (perr_string e) (map perr_string (dedupe l))).
Proof.
  unfold dedupe. split; [apply dedupe_go_nodup|]. split.
  - intros e Hin. apply (dedupe_go_sub [] l e Hin).
  - intros e Hin. destruct (dedupe_go_complete [] l e Hin) as [H|H]; [discriminate | exact H].
Qed.

(* the first error of every distinct message is the one that is kept, in order *)
Lemma dedupe_keeps_first x l : exists l', dedupe (x :: l) = x :: l'.
Proof. unfold dedupe. cbn. eexists. reflexivity. Qed.
