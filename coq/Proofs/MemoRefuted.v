(* Witness for C06: a memo hit on a label-binding expression skips the binding.
     S <- R "z" / "a" R ;  R <- Q x:A {x} ;  Q <- "a"? ;  A <- "b"     input "ab"
   (corpus/kf_memo_label.txt).  First alternative: R at 0 = Q "a", x:A "b", then "z" fails.
   Second alternative: "a", then R at 1: Q matches "", x:A at 1 is a memo hit: x is not bound. *)
From PV Require Import Lib.Base Lib.Utf8 Syntax.RGrammar Syntax.Code Model.PState Spec.Pos Model.Runtime Spec.Ref Spec.RefParse.
From Coq Require Import String.
Local Open Scope string_scope.
Local Open Scope list_scope.

Definition nm (s : string) : bytes := bytes_of_string s.
Definition u0 : ulib := mkUlib (fun r => r) (fun r => r) (fun _ => false) (fun _ _ => false).
Definition lx : label := nm "x".

(* the action returns its label x *)
Definition env_x : codeenv :=
  mkEnv (fun _ => [lx]) (fun _ c => CbRet (arg_lookup lx (c_args c)) None (c_state c) (c_gstore c))
        (fun _ c => CbRet true None (c_state c) (c_gstore c)) (fun _ c => CbRet tt None (c_state c) (c_gstore c)).

Definition lit1 (n : N) (ch : Z) (w : string) : expr := ELit n [ch] false (nm w).

Definition g_memo : grammar :=
  [ mkRule (nm "S") [] (EAlt 1%N [ESeq 2%N [ERef 3%N (nm "R"); lit1 4%N 122%Z """z"""]; ESeq 5%N [lit1 6%N 97%Z """a"""; ERef 7%N (nm "R")]]) false false;
    mkRule (nm "R") [] (EAct 8%N 1%N (ESeq 9%N [ERef 10%N (nm "Q"); ELab 11%N lx (ERef 12%N (nm "A"))])) false false;
    mkRule (nm "Q") [] (EOpt 13%N (lit1 14%N 97%Z """a""")) false false;
    mkRule (nm "A") [] (lit1 15%N 98%Z """b""") false false ].

Definition cfg_memo (q : quirks) (memo : bool) : cfg :=
  mkCfg q u0 (mkTmpl false false false false) (mkOpts memo false false true false 0%N [] [] [])
        [97; 98]%N g_memo env_x.

Definition value_of (o : outcome) : option val := match o with Returned v _ _ => Some v | _ => None end.
Definition rvalue_of (o : routcome) : option val := match o with RReturned v _ _ => Some v | _ => None end.

Definition expected : val := VList [VBytes [97%N]; VBytes [98%N]].

Lemma spec_value : rvalue_of (rparse (rd (cfg_memo faithful false)) 100) = Some expected.
Proof. vm_compute. reflexivity. Qed.
Lemma default_options_value : value_of (parse (cfg_memo faithful false) 100) = Some expected.
Proof. vm_compute. reflexivity. Qed.
Lemma memoize_changes_value : value_of (parse (cfg_memo faithful true) 100) = Some (VList [VBytes [97%N]; VNil]).
Proof. vm_compute. reflexivity. Qed.
(* not memoising the results of label-binding expressions restores the equivalence on the witness *)
Definition no_label_memo : quirks := mkQuirks true true true true false true true.
Lemma memoize_without_label_memo : value_of (parse (cfg_memo no_label_memo true) 100) = Some expected.
Proof. vm_compute. reflexivity. Qed.

(* Second witness: the expected set of the final report.
     S <- !A "x" / A ;  A <- "a"      input "b"
   A at 0 is first evaluated inside the ! predicate, where its failure is not an expectation; the second alternative
   reaches A at 0 again, outside: by default the failure of "a" is recorded, with Memoize(true) the hit records nothing. *)
Definition g_exp : grammar :=
  [ mkRule (nm "S") [] (EAlt 1%N [ESeq 2%N [ENot 3%N (ERef 4%N (nm "A")); lit1 5%N 120%Z """x"""]; ERef 6%N (nm "A")]) false false;
    mkRule (nm "A") [] (lit1 7%N 97%Z """a""") false false ].

Definition cfg_exp (q : quirks) (memo : bool) : cfg :=
  mkCfg q u0 (mkTmpl false false false false) (mkOpts memo false false true false 0%N [] [] [])
        [98]%N g_exp env_x.

Definition errors_of (o : outcome) : list bytes := match o with Returned _ es _ => map perr_string es | _ => [] end.
Definition rerrors_of (o : routcome) : list bytes := match o with RReturned _ es _ => map perr_string es | _ => [] end.

Definition both_expected : list bytes := [nm "1:1 (0): no match found, expected: ""a"" or ""x"""].
Definition only_x : list bytes := [nm "1:1 (0): no match found, expected: ""x"""].

Lemma exp_spec : rerrors_of (rparse (rd (cfg_exp faithful false)) 100) = both_expected.
Proof. vm_compute. reflexivity. Qed.
Lemma exp_default : errors_of (parse (cfg_exp faithful false) 100) = both_expected.
Proof. vm_compute. reflexivity. Qed.
Lemma exp_memoize : errors_of (parse (cfg_exp faithful true) 100) = only_x.
Proof. vm_compute. reflexivity. Qed.
(* not using the table inside ! predicates restores the equivalence on the witness *)
Definition no_expected_memo : quirks := mkQuirks true true true true true true false.
Lemma exp_memoize_repaired : errors_of (parse (cfg_exp no_expected_memo true) 100) = both_expected.
Proof. vm_compute. reflexivity. Qed.
Lemma exp_differ : both_expected <> only_x.
Proof. intros H. apply (f_equal (fun l : list bytes => List.length (hd (@nil byte) l))) in H. vm_compute in H. discriminate H. Qed.
