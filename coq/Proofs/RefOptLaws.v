(* The choice-in-choice law for Ref itself, at any fuel at which the nested form is defined:
   obtained from the fuel-free law's ingredients, fuel monotonicity and counter insensitivity. *)
From PV Require Import Lib.Base Lib.Utf8 Syntax.RGrammar Syntax.Code Model.PState Spec.Pos Model.Runtime Spec.Ref
  Proofs.RefMono Proofs.OptLaws Proofs.CntInsens.
Local Open Scope nat_scope.

Section RefLaws.
  Variable c : rdata.
  Hypothesis Hbud : o_maxexpr (rO c) = 0%N.

  (* same outcome up to the counter; the scope handed back by a choice is the caller's *)
  Lemma rsim_refl r : rsim r r.
  Proof. destruct r; cbn; auto using meq_refl. Qed.

  Lemma rsim_trans a b d : rsim a b -> rsim b d -> rsim a d.
  Proof.
    unfold rsim, meq. destruct a, b, d; intuition congruence.
  Qed.

  Lemma rsim_out_l a b : rsim a b -> a <> ROut -> b <> ROut.
  Proof. destruct a, b; cbn; try contradiction; congruence. Qed.

  (* a choice evaluated with less fuel and a different counter, for the same caller scope *)
  Lemma ralt_fuel_cnt f H R inv es : forall sc sc0 g m1 m2, meq m1 m2 ->
    ralt (reval c f) H R inv es sc0 g m1 <> ROut ->
    rsim (match ralt (reval c f) H R inv es sc0 g m1 with ROk v g' _ m' => ROk v g' sc m' | other => other end)
         (ralt (reval c (S f)) H R inv es sc g m2).
  Proof.
    induction es as [|e es IH]; intros sc sc0 g m1 m2 Hm Hd; cbn [ralt] in *.
    - cbn. exact Hm.
    - destruct (reval c f H R inv e [] g m1) as [ma|va ga sa ma|pva ma posa Ra|] eqn:E1; [| | |congruence].
      + (* the alternative fails: so it does with more fuel and the other counter *)
        pose proof (reval_mono c f H R inv e [] g m1 ltac:(rewrite E1; discriminate)) as M. rewrite E1 in M.
        pose proof (counter_is_bookkeeping c Hbud (S f) H R inv e [] g m1 m2 Hm) as S1. rewrite M in S1.
        destruct (reval c (S f) H R inv e [] g m2); cbn [rsim] in S1; try contradiction.
        apply IH; [exact S1 | exact Hd].
      + pose proof (reval_mono c f H R inv e [] g m1 ltac:(rewrite E1; discriminate)) as M. rewrite E1 in M.
        pose proof (counter_is_bookkeeping c Hbud (S f) H R inv e [] g m1 m2 Hm) as S1. rewrite M in S1.
        destruct (reval c (S f) H R inv e [] g m2); cbn [rsim] in S1; try contradiction.
        destruct S1 as (-> & -> & _ & S1). cbn [rsim]. auto.
      + pose proof (reval_mono c f H R inv e [] g m1 ltac:(rewrite E1; discriminate)) as M. rewrite E1 in M.
        pose proof (counter_is_bookkeeping c Hbud (S f) H R inv e [] g m1 m2 Hm) as S1. rewrite M in S1.
        destruct (reval c (S f) H R inv e [] g m2); cbn [rsim] in S1; try contradiction.
        exact S1.
  Qed.

  Theorem ref_choice_in_choice_flattens f H R inv n n' a b d sc g m :
    reval c (S (S f)) H R inv (EAlt n (a ++ EAlt n' b :: d)) sc g m <> ROut ->
    rsim (reval c (S (S f)) H R inv (EAlt n (a ++ EAlt n' b :: d)) sc g m)
         (reval c (S (S f)) H R inv (EAlt n (a ++ b ++ d)) sc g m).
  Proof.
    intros Hd.
    change (reval c (S (S f)) H R inv (EAlt n (a ++ EAlt n' b :: d)) sc g m) with
      (let m1 := mkMu (u_gs m) (u_log m) (u_cnt m + 1)%N in
       if over_budget c (u_cnt m1) then RPanic msg_max_expr m1 (pos_of (rData c) (g_off g)) R
       else ralt (reval c (S f)) H R inv (a ++ EAlt n' b :: d) sc g m1) in *.
    change (reval c (S (S f)) H R inv (EAlt n (a ++ b ++ d)) sc g m) with
      (let m1 := mkMu (u_gs m) (u_log m) (u_cnt m + 1)%N in
       if over_budget c (u_cnt m1) then RPanic msg_max_expr m1 (pos_of (rData c) (g_off g)) R
       else ralt (reval c (S f)) H R inv (a ++ b ++ d) sc g m1).
    cbv zeta in *. unfold over_budget in *. rewrite Hbud in *. cbn [N.eqb negb andb] in *.
    set (m1 := mkMu (u_gs m) (u_log m) (u_cnt m + 1)%N) in *.
    rewrite !ralt_app in *.
    destruct (ralt (reval c (S f)) H R inv a sc g m1) as [m2| | |]; try apply rsim_refl.
    rewrite ralt_app. cbn [ralt] in *.
    (* the nested choice, one level of fuel down, after one tick of the counter *)
    change (reval c (S f) H R inv (EAlt n' b) [] g m2) with
      (let m3 := mkMu (u_gs m2) (u_log m2) (u_cnt m2 + 1)%N in
       if over_budget c (u_cnt m3) then RPanic msg_max_expr m3 (pos_of (rData c) (g_off g)) R
       else ralt (reval c f) H R inv b [] g m3) in *.
    cbv zeta in *. unfold over_budget in *. rewrite Hbud in *. cbn [N.eqb negb andb] in *.
    set (m3 := mkMu (u_gs m2) (u_log m2) (u_cnt m2 + 1)%N) in *.
    assert (Hm : meq m3 m2) by (split; reflexivity).
    assert (Hdb : ralt (reval c f) H R inv b [] g m3 <> ROut).
    { intros E. rewrite E in Hd. congruence. }
    pose proof (ralt_fuel_cnt f H R inv b sc [] g m3 m2 Hm Hdb) as X.
    destruct (ralt (reval c f) H R inv b [] g m3) as [mb|vb gb sb mb|pvb mb posb Rb|]; [| | |congruence].
    - destruct (ralt (reval c (S f)) H R inv b sc g m2); cbn [rsim] in X; try contradiction.
      apply (ralt_sim (reval c (S f)) (counter_is_bookkeeping c Hbud (S f))). exact X.
    - destruct (ralt (reval c (S f)) H R inv b sc g m2); cbn [rsim] in X; try contradiction. exact X.
    - destruct (ralt (reval c (S f)) H R inv b sc g m2); cbn [rsim] in X; try contradiction. exact X.
  Qed.
End RefLaws.
