(* Witness for C08: indirect left recursion entered through a rule that is not the leader.
     Start <- Sum ; Sum <- Lhs "+" P / P ; Lhs <- Sum ; P <- "1"
   builder.PrepareGrammar makes Lhs the leader (leader/leftRecursive flags as emitted by the real tool,
   checked by the correspondence run on corpus/kf_leader_not_entry.txt). *)
From PV Require Import Lib.Base Lib.Utf8 Syntax.RGrammar Syntax.Code Model.PState Spec.Pos Model.Runtime Spec.Ref Spec.RefParse Spec.LRIter.
From Coq Require Import String.
Local Open Scope string_scope.
Local Open Scope list_scope.

Definition nm (s : string) : bytes := bytes_of_string s.

Definition u0 : ulib := mkUlib (fun r => r) (fun r => r) (fun _ => false) (fun _ _ => false).
Definition env0 : codeenv :=
  mkEnv (fun _ => []) (fun _ x => CbRet VNil None (c_state x) (c_gstore x))
        (fun _ x => CbRet true None (c_state x) (c_gstore x)) (fun _ x => CbRet tt None (c_state x) (c_gstore x)).

Definition lit1 (n : N) (ch : Z) (w : string) : expr := ELit n [ch] false (nm w).

Definition g_entry (leader_is_sum : bool) : grammar :=
  [ mkRule (nm "Start") [] (ERef 1%N (nm "Sum")) false false;
    mkRule (nm "Sum") [] (EAlt 2%N [ESeq 3%N [ERef 4%N (nm "Lhs"); lit1 5%N 43%Z """+"""; ERef 6%N (nm "P")]; ERef 7%N (nm "P")]) leader_is_sum true;
    mkRule (nm "Lhs") [] (ERef 8%N (nm "Sum")) (negb leader_is_sum) true;
    mkRule (nm "P") [] (lit1 9%N 49%Z """1""") false false ].

Definition cfg_entry (leader_is_sum : bool) : cfg :=
  mkCfg faithful u0 (mkTmpl false false true false) (mkOpts false false false true false 0%N [] [] [])
        [49; 43; 49]%N (g_entry leader_is_sum) env0.

Definition value_of (o : outcome) : option val := match o with Returned v _ _ => Some v | _ => None end.
Definition rvalue_of (o : routcome) : option val := match o with RReturned v _ _ => Some v | _ => None end.

Definition whole : val := VList [VBytes [49%N]; VBytes [43%N]; VBytes [49%N]].

(* the iteration the grammar denotes consumes "1+1" *)
Lemma spec_parses_whole : rvalue_of (lrparse (rd (cfg_entry false)) 200) = Some whole.
Proof. vm_compute. reflexivity. Qed.

(* the run-time with the leader the analysis picks (Lhs) stops after "1" *)
Lemma impl_stops_short : value_of (parse (cfg_entry false) 200) = Some (VBytes [49%N]).
Proof. vm_compute. reflexivity. Qed.

(* with the leader on the rule through which the cycle is entered it parses the whole input *)
Lemma impl_with_entered_leader : value_of (parse (cfg_entry true) 200) = Some whole.
Proof. vm_compute. reflexivity. Qed.
