From PV Require Import Lib.Base Lib.Utf8 Syntax.RGrammar Syntax.Code Model.PState Spec.Pos Model.Runtime
  Spec.Ref Spec.RefParse Proofs.Utf8Proofs Proofs.ReadProofs Proofs.PosProofs Proofs.Inv Proofs.InvStep Proofs.Sim.
From Coq Require Import ZifyBool ZifyN ZifyNat.
Local Open Scope nat_scope.

Section SimPrim.
  Variable c : cfg.
  Let d := cData c.

  Lemma Sim_rune s sc g m H R inv : Sim c s sc g m H R inv ->
    rune_at c (g_off g) = (sp_rn (pt s), sp_w (pt s)).
  Proof.
    intros S. pose proof (reach_ok _ _ (S_reach _ _ _ _ _ _ _ _ S)) as (A & B & Lb).
    unfold rune_at; cbn [rd rData rU rO rG rE]. cbn [rd rData]. rewrite <- (S_off _ _ _ _ _ _ _ _ S). unfold cur_off. rewrite <- A. symmetry. exact B.
  Qed.

  Lemma Sim_eof s sc g m H R inv : Sim c s sc g m H R inv ->
    is_eof s = Nat.eqb (sp_w (pt s)) 0.
  Proof.
    intros S. pose proof (reach_ok _ _ (S_reach _ _ _ _ _ _ _ _ S)) as Hok.
    unfold is_eof. destruct (Nat.eq_dec (sp_w (pt s)) 0) as [E|E].
    - rewrite (proj1 (sp_ok_eof _ _ Hok) E). rewrite E. reflexivity.
    - rewrite (proj2 (Nat.eqb_neq _ _) E). apply andb_false_r.
  Qed.

  (* read, when not at end of input, is Ref's "advance and land" *)
  Lemma Sim_read s sc g m H R inv : Sim c s sc g m H R inv -> sp_w (pt s) > 0 ->
    Sim c (read c s) sc (mkSig (g_off g + sp_w (pt s)) (g_st g)) (land c R (g_off g + sp_w (pt s)) m) H R inv.
  Proof.
    intros S Hw. pose proof S as [S1 S2 S3 S4 S5 S6 S7 S8 S9 S10 S11 S12].
    pose proof (reach_adv _ _ S1 Hw) as Hr.
    pose proof (reach_ok _ _ Hr) as (A & B & Lb).
    assert (Hoff : offset (sp_pos (adv (pt s))) = g_off g + sp_w (pt s)).
    { rewrite adv_off. unfold cur_off in S2. rewrite S2. reflexivity. }
    assert (Hrune : rune_at c (g_off g + sp_w (pt s)) = (sp_rn (adv (pt s)), sp_w (adv (pt s)))).
    { unfold rune_at; cbn [rd rData rU rO rG rE]. rewrite <- Hoff, <- A. symmetry. exact B. }
    assert (Hpos : sp_pos (adv (pt s)) = pos_of d (g_off g + sp_w (pt s))).
    { rewrite <- Hoff. apply reach_pos_of. exact Hr. }
    unfold land; cbn [rd rData rU rO rG rE]. rewrite Hrune. unfold read.
    destruct (Z.eqb (sp_rn (adv (pt s))) RuneError && Nat.eqb (sp_w (adv (pt s))) 1) eqn:Hinv; cbn [andb].
    - destruct (o_allowinvalid (cO c)); cbn [negb].
      + constructor; cbn; auto.
      + constructor; cbn; auto.
        rewrite S5. f_equal. unfold addErr, addErrAt, ref_perr; cbn [rd rData rU rO rG rE]. cbn. rewrite err_prefix_ref. cbn.
        rewrite S11, Hpos. reflexivity.
    - constructor; cbn; auto.
  Qed.

  Lemma mf_fold_app ts t : mf_fold (ts ++ [t]) = mf_step (mf_fold ts) t.
  Proof. unfold mf_fold. rewrite fold_left_app. reflexivity. Qed.

  (* failAt is "log the terminal attempt" *)
  Lemma Sim_failAt matched pos want s sc g m H R inv : Sim c s sc g m H R inv ->
    Sim c (failAt matched pos want s) sc g (log (RTerm pos want matched inv) m) H R inv.
  Proof.
    intros [S1 S2 S3 S4 S5 S6 S7 S8 S9 S10 S11 S12].
    unfold failAt. rewrite S12.
    destruct (Bool.eqb matched inv) eqn:Em.
    2: { constructor; cbn; rewrite ?Em; auto. }
    destruct (offset pos <? offset (maxFailPos s)) eqn:E1;
      [|destruct (offset (maxFailPos s) <? offset pos) eqn:E2];
      constructor; cbn; rewrite ?Em; auto;
      rewrite fold_left_app; fold (mf_fold (relevant_terms (u_log m))); rewrite <- S7;
      cbn [fold_left]; unfold mf_step; rewrite E1, ?E2; cbn; rewrite ?S12; reflexivity.
  Qed.

  Lemma sliceFrom_slice start s o :
    sp_ok d start -> offset (sp_pos start) = o ->
    sliceFrom start s = slice c o (cur_off s).
  Proof. intros [A _] E. unfold sliceFrom, slice; cbn [rd rData rU rO rG rE]. rewrite A, E. reflexivity. Qed.

  (* going back to an earlier save point: Ref simply keeps using the earlier position *)
  Lemma Sim_restore p s sc g m H R inv g0 :
    Sim c s sc g m H R inv -> reach d p -> offset (sp_pos p) = g_off g0 -> g_st g0 = g_st g ->
    Sim c (restore p s) sc g0 m H R inv.
  Proof.
    intros [S1 S2 S3 S4 S5 S6 S7 S8 S9 S10 S11 S12] Hr Ho Hs.
    destruct (restore_other p s) as (Q1 & Q2 & Q3 & Q4 & Q5 & Q6 & Q7 & Q8 & Q9 & Q10 & Q11).
    constructor.
    - unfold restore. destruct (Nat.eqb _ _); [exact S1 | exact Hr].
    - rewrite restore_off. exact Ho.
    - rewrite Q10, Hs. exact S3.
    - rewrite Q11. exact S4.
    - rewrite Q1. exact S5.
    - rewrite Q3. exact S6.
    - unfold restore. destruct (Nat.eqb _ _); exact S7.
    - rewrite Q2. exact S8.
    - rewrite Q5. exact S9.
    - rewrite Q7. exact S10.
    - rewrite Q6. exact S11.
    - rewrite Q8. exact S12.
  Qed.

  Lemma failAt_pt f p w s : pt (failAt f p w s) = pt s.
  Proof. apply failAt_other. Qed.

  Lemma Sim_I_read s : I c s -> I c (read c s).
  Proof. apply read_I. Qed.
End SimPrim.

Section SimTerm.
  Variable c : cfg.
  Let d := cData c.

  Lemma sim_term_fail want s sc g m H R inv : Sim c s sc g m H R inv ->
    sim_res c sc g H R inv (Ok (VNil, false) (failAt false (sp_pos (pt s)) want s))
            (term_result c R inv want sc g m None m).
  Proof.
    intros S. cbn. split; [reflexivity|]. exists sc.
    rewrite (Sim_pos _ _ _ _ _ _ _ _ S). apply Sim_failAt. exact S.
  Qed.

  Lemma sim_term_match want s sc g m H R inv : Sim c s sc g m H R inv -> sp_w (pt s) > 0 ->
    let s1 := read c s in
    let s2 := failAt true (sp_pos (pt s)) want s1 in
    sim_res c sc g H R inv (Ok (VBytes (sliceFrom (pt s) s2), true) s2)
            (term_result c R inv want sc g m
               (Some (g_off g + sp_w (pt s), land c R (g_off g + sp_w (pt s)) m)) m).
  Proof.
    intros S Hw. cbv zeta. cbn. split.
    - f_equal. erewrite sliceFrom_slice; [| apply (reach_ok _ _ (S_reach _ _ _ _ _ _ _ _ S)) | apply S].
      f_equal. rewrite failAt_off, read_off. rewrite (S_off _ _ _ _ _ _ _ _ S). reflexivity.
    - rewrite (Sim_pos _ _ _ _ _ _ _ _ S). apply Sim_failAt. apply Sim_read; assumption.
  Qed.

  Lemma sim_any s sc g m H R inv : Sim c s sc g m H R inv ->
    sim_res c sc g H R inv (parseAnyMatcher c s)
            (term_result c R inv b_dot sc g m (step_rune c R (g_off g) m (fun _ => true)) m).
  Proof.
    intros S. unfold parseAnyMatcher, step_rune; cbn [rd rData rU rO rG rE]. rewrite (Sim_eof _ _ _ _ _ _ _ _ S), (Sim_rune _ _ _ _ _ _ _ _ S).
    destruct (Nat.eqb_spec (sp_w (pt s)) 0) as [E|E].
    - apply sim_term_fail. exact S.
    - apply sim_term_match; [exact S | lia].
  Qed.

  Lemma sim_cls cv chars ranges classes ic cinv table s sc g m H R inv :
    table_ok c chars ranges classes ic cinv table -> Sim c s sc g m H R inv ->
    sim_res c sc g H R inv (parseCharClassMatcher c cv chars ranges classes ic cinv table s)
            (term_result c R inv cv sc g m
               (step_rune c R (g_off g) m (class_decide (cU c) chars ranges classes ic cinv)) m).
  Proof.
    intros Ht S. unfold parseCharClassMatcher, step_rune, cls_fail, cls_match; cbn [rd rData rU rO rG rE].
    rewrite (Sim_eof _ _ _ _ _ _ _ _ S), (Sim_rune _ _ _ _ _ _ _ _ S).
    pose proof (reach_ok _ _ (S_reach _ _ _ _ _ _ _ _ S)) as (A & B & Lb).
    assert (Hnn : (0 <= sp_rn (pt s))%Z).
    { pose proof (decode_nonneg (sp_rest (pt s))) as Hd. rewrite <- B in Hd. exact Hd. }
    destruct (t_basiclatin (cT c) && (sp_rn (pt s) <? 128)%Z) eqn:Hbl.
    - apply andb_true_iff in Hbl as [Hbl Hlt]. apply Z.ltb_lt in Hlt.
      assert (Hw : sp_w (pt s) <> 0).
      { intros E. apply (sp_ok_eof _ _ (conj A (conj B Lb))) in E. apply andb_true_iff in E as [E _].
        apply Z.eqb_eq in E. unfold RuneError in E. lia. }
      destruct (Nat.eqb_spec (sp_w (pt s)) 0) as [E|E]; [contradiction|].
      destruct Ht as [Ht|Ht]; [congruence|].
      specialize (Ht (sp_rn (pt s)) (conj Hnn Hlt)).
      destruct (Bool.eqb (nth (Z.to_nat (sp_rn (pt s))) table false) cinv); cbn in Ht; rewrite <- Ht.
      + apply sim_term_fail. exact S.
      + apply sim_term_match; [exact S | lia].
    - destruct (Nat.eqb_spec (sp_w (pt s)) 0) as [E|E].
      + apply sim_term_fail. exact S.
      + destruct (class_decide (cU c) chars ranges classes ic cinv (sp_rn (pt s))).
        * apply sim_term_match; [exact S | lia].
        * apply sim_term_fail. exact S.
  Qed.
End SimTerm.

Section SimLit.
  Variable c : cfg.
  Let d := cData c.

  Lemma sim_lit_loop ic want start s0 sc g0 m0 H R inv :
    Sim c s0 sc g0 m0 H R inv -> start = pt s0 ->
    forall rs s o m,
      Sim c s sc (mkSig o (g_st g0)) m H R inv -> lit_ok c rs ic ->
      let '(res, mf) := lit_match c R ic rs o m in
      sim_res c sc g0 H R inv (lit_loop c ic want start rs s) (term_result c R inv want sc g0 m0 res mf).
  Proof.
    intros S0 Hstart. induction rs as [|w rs IH]; intros s o m S Hok; cbn [lit_match lit_loop].
    - cbn. split.
      + f_equal. erewrite sliceFrom_slice; [| subst start; apply (reach_ok _ _ (S_reach _ _ _ _ _ _ _ _ S0)) | subst start; apply S0].
        f_equal. rewrite failAt_off. apply (S_off _ _ _ _ _ _ _ _ S).
      + subst start. rewrite (Sim_pos _ _ _ _ _ _ _ _ S0). apply Sim_failAt. exact S.
    - cbv zeta. unfold step_rune; cbn [rd rData rU rO rG rE]. pose proof (Sim_rune _ _ _ _ _ _ _ _ S) as Hrn. cbn [g_off] in Hrn. rewrite Hrn. cbv beta.
      rewrite (Sim_eof _ _ _ _ _ _ _ _ S).
      assert (Hfail : sim_res c sc g0 H R inv
                (Ok (VNil, false) (restore start (failAt false (sp_pos start) want s)))
                (term_result c R inv want sc g0 m0 None m)).
      { cbn. split; [reflexivity|]. exists sc. subst start.
        rewrite (Sim_pos _ _ _ _ _ _ _ _ S0).
        pose proof (Sim_failAt c false (pos_of d (g_off g0)) want _ _ _ _ _ _ _ S) as S1.
        eapply Sim_restore; [exact S1 | apply S0 | apply S0 | reflexivity]. }
      destruct (Nat.eqb_spec (sp_w (pt s)) 0) as [E|E]; cbn [negb].
      + (* end of input: no rune matches *)
        rewrite orb_false_r.
        match goal with |- context [Z.eqb ?a ?b] => destruct (Z.eqb_spec a b) as [Ew|Ew] end;
          cbn [andb]; [|exact Hfail].
        destruct (q_lit_eof (cQ c)) eqn:Hq; [|exact Hfail].
        exfalso. destruct Hok as [Hok|Hok]; [congruence|]. apply Hok.
        pose proof (reach_ok _ _ (S_reach _ _ _ _ _ _ _ _ S)) as Hsp.
        apply (sp_ok_eof _ _ Hsp) in E. apply andb_true_iff in E as [E _]. apply Z.eqb_eq in E.
        rewrite E in Ew. left. symmetry. exact Ew.
      + rewrite orb_true_r, andb_true_r. unfold rune in *.
        match goal with |- context [Z.eqb ?a ?b] => destruct (Z.eqb a b) end; [|exact Hfail].
        apply IH.
        * apply (Sim_read c s sc (mkSig o (g_st g0)) m H R inv S). lia.
        * destruct Hok as [Hok|Hok]; [left; exact Hok | right; intros Hin; apply Hok; right; exact Hin].
  Qed.

  Lemma sim_lit lv ic want s sc g m H R inv :
    lit_ok c lv ic -> Sim c s sc g m H R inv ->
    sim_res c sc g H R inv (parseLitMatcher c lv ic want s)
      (let '(res, mf) := lit_match c R ic lv (g_off g) m in term_result c R inv want sc g m res mf).
  Proof.
    intros Hok S. unfold parseLitMatcher.
    pose proof (sim_lit_loop ic want (pt s) s sc g m H R inv S eq_refl lv s (g_off g) m) as Hl.
    destruct (lit_match c R ic lv (g_off g) m) as [res mf]. apply Hl; [|exact Hok].
    destruct g; exact S.
  Qed.
End SimLit.

Section SimComp.
  Variable c : cfg.
  Let d := cData c.
  Variable wrap : expr -> M (val * bool).
  Variable ev : handlers -> option rule -> bool -> expr -> scope -> rsig -> rmu -> rres.
  Hypothesis Hwrap : wrap_spec c wrap.
  Hypothesis Hsim : sim_spec c wrap ev.
  Hypothesis Hst : state_ok c.
  (* in a template without a store the specification never changes the store either *)
  Hypothesis Hev_st : has_state (cT c) = false -> forall H R inv e sc g m v g' sc' m',
    ev H R inv e sc g m = ROk v g' sc' m' -> g_st g' = g_st g.
  Hypothesis Hmemo : o_memoize (cO c) = false.
  Hypothesis HG : G_wf c.
  Hypothesis Hstale : stale_ok c.

  Definition set_scope (sc : scope) (r : rres) : rres :=
    match r with ROk v g _ m => ROk v g sc m | x => x end.

  (* scope-closed expressions: the specification ignores the incoming scope and the
     implementation leaves the variable stack as it found it *)
  Hypothesis Hclosed_ref : forall H R inv e sc g m, scope_closed e = true ->
    ev H R inv e sc g m = set_scope sc (ev H R inv e [] g m).
  Hypothesis Hclosed_impl : forall e s r s', I c s -> scope_closed e = true ->
    wrap e s = Ok r s' -> vstack s' = vstack s.

  (* ---------- small state changes ---------- *)
  Lemma Sim_pushV s sc g m H R inv : Sim c s sc g m H R inv -> Sim c (pushV s) [] g m H R inv.
  Proof. intros [S1 S2 S3 S4 S5 S6 S7 S8 S9 S10 S11 S12]. constructor; cbn; auto. eexists; reflexivity. Qed.

  Lemma Sim_popV s2 sc2 g m H R inv sc vs :
    Sim c s2 sc2 g m H R inv -> tl (vstack s2) = sc :: vs -> Sim c (popV s2) sc g m H R inv.
  Proof.
    intros [S1 S2 S3 S4 S5 S6 S7 S8 S9 S10 S11 S12] Ht. constructor; cbn; auto. exists vs. exact Ht.
  Qed.

  Lemma I_pushV s : I c s -> I c (pushV s).
  Proof. intros [A B C0]. constructor; auto. Qed.
  Lemma I_popV s : I c s -> I c (popV s).
  Proof. intros [A B C0]. constructor; auto. Qed.

  Lemma Sim_scope_irrel s sc sc' g m H R inv vs :
    Sim c s sc g m H R inv -> vstack s = sc' :: vs -> sc = sc'.
  Proof. intros S E. destruct (S_top _ _ _ _ _ _ _ _ S) as [vs' E']. congruence. Qed.

  (* the common "fresh scope" pattern: pushV; parseExprWrap e; popV *)
  Definition scoped_res (sc : scope) (g : rsig) (H : handlers) (R : option rule) (inv : bool)
             (ri : Res (val * bool)) (rr : rres) : Prop :=
    match ri, rr with
    | Ok (v, true) s2, ROk v' g' _ m' => v = v' /\ Sim c (popV s2) sc g' m' H R inv /\ I c (popV s2)
    | Ok (v, false) s2, RFail m' => v = VNil /\ Sim c (popV s2) sc g m' H R inv /\ I c (popV s2)
    | Panic pv s', RPanic pv' m' pos R' => pv = pv' /\ SimP c s' m' pos R'
    | OutOfFuel, ROut => True
    | _, _ => False
    end.

  Lemma sim_scoped e s sc g m H R inv :
    wf_e c e -> H_wf c H -> I c s -> Sim c s sc g m H R inv ->
    scoped_res sc g H R inv (wrap e (pushV s)) (ev H R inv e [] g m).
  Proof.
    intros He HH HI S.
    pose proof (Sim_pushV _ _ _ _ _ _ _ S) as S1.
    pose proof (I_pushV _ HI) as HI1.
    pose proof (Hsim e (pushV s) [] g m H R inv He HH HI1 S1) as Hs.
    pose proof (Hwrap e (pushV s) HI1) as Hw.
    destruct (S_top _ _ _ _ _ _ _ _ S) as [vs Evs].
    unfold scoped_res, sim_res in *.
    destruct (wrap e (pushV s)) as [[v [|]] s2|pv s2|]; destruct (ev H R inv e [] g m) as [m'|v' g' sc' m'|pv' m' pos R'|];
      cbn in *; try contradiction; try exact Logic.I; try exact Hs.
    - destruct Hs as [E S2]. split; [exact E|].
      destruct Hw as (A & _ & [F1 _ _ _ _] & _). cbn in F1.
      split; [eapply Sim_popV; [exact S2 | rewrite F1; exact Evs] | apply I_popV; exact A].
    - destruct Hs as [E [sc'' S2]]. split; [exact E|].
      destruct Hw as (A & _ & [F1 _ _ _ _] & _). cbn in F1.
      split; [eapply Sim_popV; [exact S2 | rewrite F1; exact Evs] | apply I_popV; exact A].
  Qed.

  Ltac scoped e s S HI He HH :=
    let Hsc := fresh "Hsc" in
    pose proof (sim_scoped e s _ _ _ _ _ _ He HH HI S) as Hsc;
    unfold scoped_res in Hsc;
    match type of Hsc with
    | match ?ri with _ => _ end =>
        destruct ri as [[?v [|]] ?s2|?pv ?s2|]
    end;
    match type of Hsc with
    | match ?rr with _ => _ end => destruct rr as [?m'|?v' ?g' ?sc' ?m'|?pv' ?m' ?pos ?R'|]
    end; cbn in *; try contradiction; try exact Logic.I; try exact Hsc.

  (* ---------- e? ---------- *)
  Lemma sim_opt n e s sc g m H R inv :
    wf_e c e -> H_wf c H -> I c s -> Sim c s sc g m H R inv ->
    sim_res c sc g H R inv (parseZeroOrOneExpr wrap e s) (reval_body c ev 0 H R inv (EOpt n e) sc g m).
  Proof.
    intros He HH HI S. unfold parseZeroOrOneExpr, bind, modify, ret. cbn [reval_body].
    scoped e s S HI He HH.
    - destruct Hsc as (E & S2 & _). split; [exact E | exact S2].
    - destruct Hsc as (E & S2 & _). split; [exact E | exact S2].
  Qed.

  (* ---------- labelled expression ---------- *)
  Lemma Sim_bind l v s sc g m H R inv :
    Sim c s sc g m H R inv -> Sim c (bind_label l v s) (aset l v sc) g m H R inv.
  Proof.
    intros [S1 S2 S3 S4 S5 S6 S7 S8 [vs S9] S10 S11 S12]. unfold bind_label. rewrite S9.
    constructor; cbn; auto. eexists; reflexivity.
  Qed.

  Lemma sim_lab n l e s sc g m H R inv :
    wf_e c e -> H_wf c H -> I c s -> Sim c s sc g m H R inv ->
    sim_res c sc g H R inv (parseLabeledExpr wrap l e s) (reval_body c ev 0 H R inv (ELab n l e) sc g m).
  Proof.
    intros He HH HI S. unfold parseLabeledExpr, bind, modify, ret. cbn [reval_body].
    scoped e s S HI He HH.
    - destruct Hsc as (E & S2 & _). subst v'. unfold bind_scope.
      destruct l as [|x l]; cbn; (split; [reflexivity|]); [exact S2 | apply Sim_bind; exact S2].
    - destruct Hsc as (E & S2 & _). split; [exact E|]. destruct l; cbn; eexists; exact S2.
  Qed.

  (* ---------- rollback used by & ! and sequences ---------- *)
  Lemma Sim_rollback p x s2 sc g2 m2 H R inv g :
    Sim c s2 sc g2 m2 H R inv -> reach d p -> offset (sp_pos p) = g_off g ->
    (has_state (cT c) = true -> x = g_st g) -> (has_state (cT c) = false -> g_st g2 = g_st g) ->
    Sim c (restore p (restoreState c x s2)) sc g m2 H R inv.
  Proof.
    intros S Hr Ho Hx Hg.
    assert (S' : Sim c (restoreState c x s2) sc (mkSig (g_off g2) (g_st g)) m2 H R inv).
    { destruct S as [S1 S2 S3 S4 S5 S6 S7 S8 S9 S10 S11 S12]. unfold restoreState.
      destruct (has_state (cT c)) eqn:Hh; constructor; cbn; auto. rewrite S3. apply Hg. reflexivity. }
    exact (Sim_restore c p _ sc _ m2 H R inv g S' Hr Ho eq_refl).
  Qed.

  Lemma I_rollback p x s2 : I c s2 -> sp_ok d p -> I c (restore p (restoreState c x s2)).
  Proof.
    intros HI2 Hp. assert (HI3 : I c (restoreState c x s2)) by (apply StepEq_restoreState; exact HI2).
    destruct HI3 as [A B C0]. destruct (restore_other p (restoreState c x s2)) as (Q1 & Q2 & Q3 & Q4 & Q5 & Q6 & Q7 & Q8 & Q9 & Q10 & Q11).
    constructor; [apply restore_pt_ok; auto | rewrite Q9; exact B | unfold cnt_ok in *; rewrite Q2; exact C0].
  Qed.

  Lemma Sim_pool x s sc g m H R inv : Sim c s sc g m H R inv -> Sim c (set_pool x s) sc g m H R inv.
  Proof. intros [S1 S2 S3 S4 S5 S6 S7 S8 S9 S10 S11 S12]. constructor; cbn; auto. Qed.

  Lemma I_pool x s : I c s -> I c (set_pool x s).
  Proof. intros [A B C0]. constructor; auto. Qed.

  (* cloneState: the saved store is the current one; the state is otherwise unchanged *)
  Lemma clone_sim s sc g m H R inv saved s1 :
    cloneState c s = (saved, s1) -> I c s -> Sim c s sc g m H R inv ->
    Sim c s1 sc g m H R inv /\ I c s1 /\ pt s1 = pt s /\ (has_state (cT c) = true -> saved = g_st g).
  Proof.
    unfold cloneState. intros E HI S. destruct (has_state (cT c)); inversion E; subst.
    - split; [apply Sim_pool; exact S|]. split; [apply I_pool; exact HI|]. split; [reflexivity|]. intros _. apply S.
    - split; [exact S|]. split; [exact HI|]. split; [reflexivity|]. discriminate.
  Qed.

  (* ---------- &e ---------- *)
  Lemma sim_and n e s sc g m H R inv :
    wf_e c e -> H_wf c H -> I c s -> Sim c s sc g m H R inv ->
    sim_res c sc g H R inv (parseAndExpr c wrap e s) (reval_body c ev 0 H R inv (EAnd n e) sc g m).
  Proof.
    intros He HH HI S. unfold parseAndExpr, bind, modify, ret. cbn [reval_body].
    destruct (cloneState c s) as [saved s1] eqn:Hc.
    destruct (clone_sim _ _ _ _ _ _ _ _ _ Hc HI S) as (S1 & HI1 & Hpt & Hsv).
    rewrite <- Hpt.
    pose proof (Hev_st) as Hevs.
    destruct (ev H R inv e [] g m) as [m'|v' g' sc' m'|pv' m' pos R'|] eqn:Eev.
    all: pose proof (sim_scoped e s1 _ _ _ _ _ _ He HH HI1 S1) as Hsc; unfold scoped_res in Hsc; rewrite Eev in Hsc.
    all: destruct (wrap e (pushV s1)) as [[v [|]] s2|pv s2|]; cbn in *; try contradiction; try exact Logic.I; try exact Hsc.
    - destruct Hsc as (E & S2 & HI2). split; [reflexivity|]. exists sc.
      eapply Sim_rollback; [exact S2 | apply S1 | apply S1 | exact Hsv | reflexivity].
    - destruct Hsc as (E & S2 & HI2). split; [reflexivity|].
      eapply Sim_rollback; [exact S2 | apply S1 | apply S1 | exact Hsv | intros Hh; eapply Hevs; eauto].
  Qed.

  (* ---------- !e ---------- *)
  Lemma Sim_flip s sc g m H R inv :
    Sim c s sc g m H R inv -> Sim c (set_maxFailInvert (negb (maxFailInvert s)) s) sc g m H R (negb inv).
  Proof.
    intros [S1 S2 S3 S4 S5 S6 S7 S8 S9 S10 S11 S12]. constructor; cbn; auto. rewrite S12. reflexivity.
  Qed.

  Lemma I_flip b s : I c s -> I c (set_maxFailInvert b s).
  Proof. intros [A B C0]. constructor; auto. Qed.

  Lemma sim_not n e s sc g m H R inv :
    wf_e c e -> H_wf c H -> I c s -> Sim c s sc g m H R inv ->
    sim_res c sc g H R inv (parseNotExpr c wrap e s) (reval_body c ev 0 H R inv (ENot n e) sc g m).
  Proof.
    intros He HH HI S. unfold parseNotExpr, bind, modify, ret. cbn [reval_body].
    destruct (cloneState c s) as [saved s1] eqn:Hc.
    destruct (clone_sim _ _ _ _ _ _ _ _ _ Hc HI S) as (S1 & HI1 & Hpt & Hsv).
    rewrite <- Hpt.
    (* the flip commutes with pushV *)
    change (set_maxFailInvert (negb (maxFailInvert (pushV s1))) (pushV s1))
      with (pushV (set_maxFailInvert (negb (maxFailInvert s1)) s1)).
    set (s1' := set_maxFailInvert (negb (maxFailInvert s1)) s1).
    assert (S1' : Sim c s1' sc g m H R (negb inv)) by (apply Sim_flip; exact S1).
    assert (HI1' : I c s1') by (apply I_flip; exact HI1).
    change (pt s1) with (pt s1').
    pose proof (Hev_st) as Hevs.
    destruct (ev H R (negb inv) e [] g m) as [m'|v' g' sc' m'|pv' m' pos R'|] eqn:Eev.
    all: pose proof (sim_scoped e s1' _ _ _ _ _ _ He HH HI1' S1') as Hsc; unfold scoped_res in Hsc; rewrite Eev in Hsc.
    all: destruct (wrap e (pushV s1')) as [[v [|]] s2|pv s2|]; cbn in *; try contradiction; try exact Logic.I; try exact Hsc.
    - destruct Hsc as (E & S2 & HI2). split; [reflexivity|].
      pose proof (Sim_flip _ _ _ _ _ _ _ S2) as S3. rewrite Bool.negb_involutive in S3.
      change (popV (set_maxFailInvert (negb (maxFailInvert s2)) s2))
        with (set_maxFailInvert (negb (maxFailInvert (popV s2))) (popV s2)).
      eapply Sim_rollback; [exact S3 | apply S1' | apply S1' | exact Hsv | reflexivity].
    - destruct Hsc as (E & S2 & HI2). split; [reflexivity|]. exists sc.
      pose proof (Sim_flip _ _ _ _ _ _ _ S2) as S3. rewrite Bool.negb_involutive in S3.
      change (popV (set_maxFailInvert (negb (maxFailInvert s2)) s2))
        with (set_maxFailInvert (negb (maxFailInvert (popV s2))) (popV s2)).
      eapply Sim_rollback; [exact S3 | apply S1' | apply S1' | exact Hsv | intros Hh; eapply Hevs; eauto].
  Qed.

  Lemma Sim_restoreState_same x s2 sc g m H R inv :
    Sim c s2 sc g m H R inv -> (has_state (cT c) = true -> x = g_st g) ->
    Sim c (restoreState c x s2) sc g m H R inv.
  Proof.
    intros [S1 S2 S3 S4 S5 S6 S7 S8 S9 S10 S11 S12] Hx. unfold restoreState.
    destruct (has_state (cT c)); constructor; cbn; auto.
  Qed.

  Lemma I_restoreState x s : I c s -> I c (restoreState c x s).
  Proof. intros HI. apply StepEq_restoreState. exact HI. Qed.

  (* ---------- ordered choice ---------- *)
  Lemma sim_choice alts : wf_list c alts -> forall s sc g m H R inv,
    H_wf c H -> I c s -> Sim c s sc g m H R inv ->
    sim_res c sc g H R inv (choice_loop c wrap alts s) (ralt ev H R inv alts sc g m).
  Proof.
    induction alts as [|a alts IH]; intros Hwf s sc g m H R inv HH HI S; cbn [choice_loop ralt].
    - cbn. split; [reflexivity|]. exists sc. exact S.
    - destruct Hwf as [Ha Hwf].
      unfold bind, modify, ret.
      destruct (cloneState c s) as [saved s1] eqn:Hc.
      destruct (clone_sim _ _ _ _ _ _ _ _ _ Hc HI S) as (S1 & HI1 & Hpt & Hsv).
      scoped a s1 S1 HI1 Ha HH.
      + destruct Hsc as (E & S2 & _). split; [exact E | exact S2].
      + destruct Hsc as (E & S2 & HI2).
        apply IH; [exact Hwf | exact HH | apply I_restoreState; exact HI2 | apply Sim_restoreState_same; [exact S2 | exact Hsv]].
  Qed.

  (* ---------- sequence ---------- *)
  Lemma sim_seq_loop s0 g0 saved : reach d (pt s0) -> offset (sp_pos (pt s0)) = g_off g0 ->
    (has_state (cT c) = true -> saved = g_st g0) ->
    forall es, wf_list c es -> forall acc s sc g m H R inv,
      H_wf c H -> I c s -> Sim c s sc g m H R inv -> (has_state (cT c) = false -> g_st g = g_st g0) ->
      sim_res c sc g0 H R inv (seq_loop c wrap (pt s0) saved es acc s) (rseq ev H R inv es acc sc g m).
  Proof.
    intros Hr Ho Hsv. induction es as [|e es IH]; intros Hwf acc s sc g m H R inv HH HI S Hg; cbn [seq_loop rseq].
    - cbn. split; [reflexivity | exact S].
    - destruct Hwf as [He Hwf]. unfold bind, modify, ret.
      pose proof (Hsim e s sc g m H R inv He HH HI S) as Hs.
      pose proof (Hwrap e s HI) as Hw.
      unfold sim_res in Hs.
      destruct (wrap e s) as [[v [|]] s2|pv s2|]; destruct (ev H R inv e sc g m) as [m'|v' g' sc' m'|pv' m' pos R'|] eqn:Eev;
        cbn in *; try contradiction; try exact Logic.I; try exact Hs.
      + destruct Hs as [E S2]. subst v'. apply IH; [exact Hwf | exact HH | apply Hw | exact S2 |].
        intros Hh. rewrite (Hev_st Hh _ _ _ _ _ _ _ _ _ _ _ Eev). apply Hg. exact Hh.
      + destruct Hs as [E [sc'' S2]]. split; [reflexivity|]. exists sc''.
        eapply Sim_rollback; [exact S2 | exact Hr | exact Ho | exact Hsv | exact Hg].
  Qed.

  Lemma sim_seq n es s sc g m H R inv :
    wf_list c es -> H_wf c H -> I c s -> Sim c s sc g m H R inv ->
    sim_res c sc g H R inv (parseSeqExpr c wrap es s) (reval_body c ev 0 H R inv (ESeq n es) sc g m).
  Proof.
    intros Hwf HH HI S. unfold parseSeqExpr, bind. cbn [reval_body].
    destruct (cloneState c s) as [saved s1] eqn:Hc.
    destruct (clone_sim _ _ _ _ _ _ _ _ _ Hc HI S) as (S1 & HI1 & Hpt & Hsv).
    rewrite <- Hpt.
    apply (sim_seq_loop s1 g saved); [apply S1 | apply S1 | exact Hsv | exact Hwf | exact HH | exact HI1 | exact S1 | reflexivity].
  Qed.

  (* ---------- repetition ---------- *)
  Definition rep_res (sc : scope) (g : rsig) (nacc : nat) (H : handlers) (R : option rule) (inv : bool)
             (ri : Res (list val)) (rr : rrepres) : Prop :=
    match ri, rr with
    | Ok vs s', RepDone vs' g' m' =>
        vs = vs' /\ Sim c s' sc g' m' H R inv /\ nacc <= length vs' /\ (length vs' = nacc -> g' = g)
    | Panic pv s', RepPanic pv' m' pos R' => pv = pv' /\ SimP c s' m' pos R'
    | OutOfFuel, RepOut => True
    | _, _ => False
    end.

  Lemma sim_rep e : wf_e c e -> forall n acc s sc g m H R inv,
    H_wf c H -> I c s -> Sim c s sc g m H R inv ->
    rep_res sc g (length acc) H R inv (rep_loop wrap n e acc s) (rrep ev H R inv n e acc g m).
  Proof.
    intros He. induction n as [|n IH]; intros acc s sc g m H R inv HH HI S; cbn [rep_loop rrep]; [exact Logic.I|].
    unfold bind, modify, ret.
    scoped e s S HI He HH.
    - destruct Hsc as (E & S2 & HI2). subst v'.
      pose proof (IH (v :: acc) _ sc g' m' H R inv HH HI2 S2) as Hr. unfold rep_res in *.
      destruct (rep_loop wrap n e (v :: acc) (popV s2)) as [vs s'|pv s'|];
        destruct (rrep ev H R inv n e (v :: acc) g' m') as [vs' g'' m''|pv'' m'' pos'' R''|];
        cbn in *; try contradiction; try exact Logic.I; try exact Hr.
      destruct Hr as (E1 & E2 & E3 & E4). split; [exact E1|]. split; [exact E2|]. split; [lia|]. intros; lia.
    - destruct Hsc as (E & S2 & HI2). split; [reflexivity|]. split; [exact S2|]. rewrite rev_length. split; [lia|reflexivity].
  Qed.

  Lemma sim_star n0 n e s sc g m H R inv :
    wf_e c e -> H_wf c H -> I c s -> Sim c s sc g m H R inv ->
    sim_res c sc g H R inv (parseZeroOrMoreExpr wrap n e s) (reval_body c ev n H R inv (EStar n0 e) sc g m).
  Proof.
    intros He HH HI S. unfold parseZeroOrMoreExpr, bind, ret. cbn [reval_body].
    pose proof (sim_rep e He n [] s sc g m H R inv HH HI S) as Hr. unfold rep_res in Hr.
    destruct (rep_loop wrap n e [] s) as [vs s'|pv s'|]; destruct (rrep ev H R inv n e [] g m) as [vs' g' m'|pv' m' pos R'|];
      cbn in *; try contradiction; try exact Logic.I; try exact Hr.
    destruct Hr as (E & S2 & _). subst vs'. split; [reflexivity | exact S2].
  Qed.

  Lemma sim_plus n0 n e s sc g m H R inv :
    wf_e c e -> H_wf c H -> I c s -> Sim c s sc g m H R inv ->
    sim_res c sc g H R inv (parseOneOrMoreExpr wrap n e s) (reval_body c ev n H R inv (EPlus n0 e) sc g m).
  Proof.
    intros He HH HI S. unfold parseOneOrMoreExpr, bind, ret. cbn [reval_body].
    pose proof (sim_rep e He n [] s sc g m H R inv HH HI S) as Hr. unfold rep_res in Hr.
    destruct (rep_loop wrap n e [] s) as [vs s'|pv s'|]; destruct (rrep ev H R inv n e [] g m) as [vs' g' m'|pv' m' pos R'|];
      cbn in *; try contradiction; try exact Logic.I; try exact Hr.
    destruct Hr as (E & S2 & _ & Hz). subst vs'. destruct vs as [|v0 vs]; cbn.
    - split; [reflexivity|]. exists sc. rewrite <- (Hz eq_refl). exact S2.
    - split; [reflexivity | exact S2].
  Qed.

  (* ---------- recovery operator and throw ---------- *)
  Lemma sim_rec n e rc ls s sc g m H R inv :
    wf_e c e -> wf_e c rc -> rc_ok c rc -> H_wf c H -> I c s -> Sim c s sc g m H R inv ->
    sim_res c sc g H R inv (parseRecoveryExpr wrap e rc ls s) (reval_body c ev 0 H R inv (ERec n e rc ls) sc g m).
  Proof.
    intros He Hrc Hok HH HI S. unfold parseRecoveryExpr, bind, modify, ret, pushRecovery, popRecovery. cbn [reval_body].
    set (s1 := set_rcvstack ((ls, rc) :: rcvstack s) s).
    assert (S1 : Sim c s1 sc g m ((ls, rc) :: H) R inv).
    { destruct S as [S1 S2 S3 S4 S5 S6 S7 S8 S9 S10 S11 S12]. constructor; cbn; auto. rewrite S10. reflexivity. }
    assert (HI1 : I c s1) by (destruct HI; constructor; auto).
    assert (HH1 : H_wf c ((ls, rc) :: H)) by (constructor; [split; assumption | exact HH]).
    pose proof (Hsim e s1 sc g m _ R inv He HH1 HI1 S1) as Hs.
    unfold sim_res in Hs.
    destruct (wrap e s1) as [[v [|]] s2|pv s2|]; destruct (ev ((ls, rc) :: H) R inv e sc g m) as [m'|v' g' sc' m'|pv' m' pos R'|];
      cbn in *; try contradiction; try exact Logic.I; try exact Hs.
    - destruct Hs as [E [S1' S2 S3 S4 S5 S6 S7 S8 S9 S10 S11 S12]]. split; [exact E|].
      constructor; cbn; auto. rewrite S10. reflexivity.
    - destruct Hs as [E [sc'' [S1' S2 S3 S4 S5 S6 S7 S8 S9 S10 S11 S12]]]. split; [exact E|]. exists sc''.
      constructor; cbn; auto. rewrite S10. reflexivity.
  Qed.

  Lemma sim_throw_loop l H R inv : forall hs, H_wf c hs -> H_wf c H -> forall s sc g m,
    I c s -> Sim c s sc g m H R inv ->
    sim_res c sc g H R inv (throw_loop c wrap l hs s) (rthrow ev H R inv l hs sc g m).
  Proof.
    induction hs as [|[ls rc] hs IH]; intros Hhs' HH s sc g m HI S; cbn [throw_loop rthrow].
    - cbn. split; [reflexivity|]. exists sc. exact S.
    - inversion Hhs' as [|x l0 [Hrc Hok] Hrest]; subst. cbn [snd] in *.
      destruct (mem_bytes l ls); [|apply IH; assumption].
      unfold bind, modify, ret.
      destruct (q_recover_scope (cQ c)) eqn:Hq.
      + (* the recovery expression runs in the thrower's scope; it is scope-closed *)
        destruct Hok as [Hok|Hok]; [congruence|].
        pose proof (Hsim rc s sc g m H R inv Hrc HH HI S) as Hs.
        rewrite (Hclosed_ref H R inv rc sc g m Hok) in Hs.
        pose proof (Hwrap rc s HI) as Hw.
        pose proof (Hclosed_impl rc s) as Hv.
        unfold sim_res in Hs.
        destruct (wrap rc s) as [[v [|]] s2|pv s2|]; destruct (ev H R inv rc [] g m) as [m'|v' g' sc' m'|pv' m' pos R'|];
          cbn in *; try contradiction; try exact Logic.I; try exact Hs.
        destruct Hs as [E [sc'' S2]].
        assert (Esc : sc'' = sc).
        { destruct (S_top _ _ _ _ _ _ _ _ S) as [vs Evs]. specialize (Hv _ _ HI Hok eq_refl).
          eapply Sim_scope_irrel; [exact S2 | rewrite Hv; exact Evs]. }
        subst sc''. apply IH; [exact Hrest | exact HH | apply Hw | exact S2].
      + scoped rc s S HI Hrc HH.
        * destruct Hsc as (E & S2 & _). split; [exact E | exact S2].
        * destruct Hsc as (E & S2 & HI2). apply IH; assumption.
  Qed.

  Lemma sim_throw n l s sc g m H R inv :
    H_wf c H -> I c s -> Sim c s sc g m H R inv ->
    sim_res c sc g H R inv (parseThrowExpr c wrap l s) (reval_body c ev 0 H R inv (EThrow n l) sc g m).
  Proof.
    intros HH HI S. unfold parseThrowExpr. cbn [reval_body]. rewrite (S_rcv _ _ _ _ _ _ _ _ S).
    apply sim_throw_loop; assumption.
  Qed.

  (* ---------- code blocks ---------- *)
  Lemma ctx_eqv_refl k x : ctx_eqv k x x.
  Proof. destruct k; cbn; auto. Qed.

  Lemma top_scope_Sim s sc g m H R inv : Sim c s sc g m H R inv -> top_scope s = sc.
  Proof. intros S. destruct (S_top _ _ _ _ _ _ _ _ S) as [vs E]. unfold top_scope. rewrite E. reflexivity. Qed.

  Lemma sim_act n id e s sc g m H R inv :
    wf_e c e -> H_wf c H -> I c s -> Sim c s sc g m H R inv ->
    sim_res c sc g H R inv (parseActionExpr c wrap id e s) (reval_body c ev 0 H R inv (EAct n id e) sc g m).
  Proof.
    intros He HH HI S. unfold parseActionExpr, bind, modify, ret. cbn [reval_body].
    pose proof (Hsim e s sc g m H R inv He HH HI S) as Hs. unfold sim_res in Hs.
    destruct (wrap e s) as [[v [|]] s2|pv s2|]; destruct (ev H R inv e sc g m) as [m'|v' g' sc' m'|pv' m' pos R'|];
      cbn in *; try contradiction; try exact Logic.I; try exact Hs.
    destruct Hs as [_ S2].
    pose proof S2 as [T1 T2 T3 T4 T5 T6 T7 T8 T9 T10 T11 T12].
    set (s3 := set_cur_text (sliceFrom (pt s) s2) (set_cur_pos (sp_pos (pt s)) s2)).
    assert (Hctx : forall x, block_ctx c id (set_pool x s3)
                   = block_ctx_ref c id (slice c (g_off g) (g_off g')) (pos_of (cData c) (g_off g)) sc' g' m').
    { intros x. unfold block_ctx, block_ctx_ref, s3; cbn [rd rData rU rO rG rE]. cbn.
      change (top_scope (set_pool x (set_cur_text (sliceFrom (pt s) s2) (set_cur_pos (sp_pos (pt s)) s2))))
        with (top_scope s2). rewrite (top_scope_Sim _ _ _ _ _ _ _ S2).
      rewrite T3, T4, (Sim_pos _ _ _ _ _ _ _ _ S). fold d.
      erewrite sliceFrom_slice; [| apply (reach_ok _ _ (S_reach _ _ _ _ _ _ _ _ S)) | apply S].
      rewrite T2. reflexivity. }
    assert (Hctx0 : block_ctx c id s3
                   = block_ctx_ref c id (slice c (g_off g) (g_off g')) (pos_of (cData c) (g_off g)) sc' g' m').
    { rewrite <- (Hctx (pool s3)). reflexivity. }
    set (xr := block_ctx_ref c id (slice c (g_off g) (g_off g')) (pos_of (cData c) (g_off g)) sc' g' m') in *.
    assert (Hfree : has_state (cT c) = false -> out_st_same (ce_act (cE c) id xr) xr).
    { intros Hh. destruct Hst as [Hs|[_ (Ha & _)]]; [congruence | apply Ha]. }
    unfold cloneState, restoreState, run_code, run_block.
    destruct (has_state (cT c)) eqn:Hh; cbn; rewrite ?Hctx, ?Hctx0; fold xr;
      destruct (ce_act (cE c) id xr) as [r [msg|] st' gs'|pv st' gs']; cbn;
      (split; [reflexivity|]); constructor; cbn; auto;
      try (rewrite T5; f_equal; unfold ref_perr; rewrite err_prefix_ref; cbn; rewrite T11, (Sim_pos _ _ _ _ _ _ _ _ S); reflexivity);
      try (constructor; [|exact T6]; repeat split; cbn; reflexivity);
      try (unfold cur_off in T2; rewrite <- T2; apply reach_pos_of; exact T1);
      try (specialize (Hfree eq_refl); cbn in Hfree; rewrite Hfree; reflexivity).
  Qed.

  Definition fresh_state (s : pstate) : pstate :=
    if q_stale_ctx (cQ c) then s else set_cur_text [] (set_cur_pos (sp_pos (pt s)) s).

  Lemma Sim_fresh s sc g m H R inv : Sim c s sc g m H R inv -> Sim c (fresh_state s) sc g m H R inv.
  Proof.
    intros S. unfold fresh_state. destruct (q_stale_ctx (cQ c)); [exact S|].
    destruct S as [S1 S2 S3 S4 S5 S6 S7 S8 S9 S10 S11 S12]. constructor; cbn; auto.
  Qed.

  Lemma pred_ctx_rel id x s sc g m H R inv : Sim c s sc g m H R inv ->
    let xi := block_ctx c id (set_pool x (fresh_state s)) in
    let xr := block_ctx_ref c id [] (pos_of d (g_off g)) sc g m in
    (c_args xi = c_args xr /\ c_state xi = c_state xr /\ c_gstore xi = c_gstore xr) /\
    (q_stale_ctx (cQ c) = false -> xi = xr).
  Proof.
    intros S. cbv zeta. unfold block_ctx, block_ctx_ref, fresh_state; cbn [rd rData rU rO rG rE].
    pose proof (top_scope_Sim _ _ _ _ _ _ _ S) as Et.
    destruct S as [S1 S2 S3 S4 S5 S6 S7 S8 S9 S10 S11 S12].
    destruct (q_stale_ctx (cQ c)); cbn.
    - change (top_scope (set_pool x s)) with (top_scope s). rewrite Et, S3, S4. split; [auto | discriminate].
    - change (top_scope (set_pool x (set_cur_text [] (set_cur_pos (sp_pos (pt s)) s)))) with (top_scope s).
      rewrite Et, S3, S4. split; [auto|]. intros _. f_equal.
      unfold cur_off in S2. rewrite <- S2. apply reach_pos_of. exact S1.
  Qed.

  Lemma sim_pred k neg id s sc g m H R inv : (k = KAnd \/ k = KNot) ->
    I c s -> Sim c s sc g m H R inv ->
    sim_res c sc g H R inv (parseCodePred c k neg id s)
      (match run_block k id (ce_pred (cE c)) (block_ctx_ref c id [] (pos_of d (g_off g)) sc g m) m with
       | inl (ok, err, _, m') =>
           let m'' := log_err err (pos_of d (g_off g)) R m' in
           if (if neg then negb ok else ok) then ROk VNil g sc m'' else RFail m''
       | inr (pv, m') => RPanic pv m' (pos_of d (g_off g)) R
       end).
  Proof.
    intros Hk HI S. unfold parseCodePred, fresh_ctx, bind, modify, ret, cloneState, restoreState, run_code, run_block.
    assert (Hfree : has_state (cT c) = false -> forall x, out_st_same (ce_pred (cE c) id x) x).
    { intros Hh. destruct Hst as [Hs|[_ (_ & Hp & _)]]; [congruence | apply Hp]. }
    destruct (has_state (cT c)) eqn:Hh; cbn; fold (fresh_state s);
      [ set (px := PoolGet :: pool (fresh_state s))
      | change (block_ctx c id (fresh_state s)) with (block_ctx c id (set_pool [] (fresh_state s))); set (px := @nil poolop) ].
    all: destruct (pred_ctx_rel id px s sc g m H R inv S) as [(Ha & Hs' & Hg) Heq].
    all: set (xi := block_ctx c id (set_pool px (fresh_state s))) in *.
    all: set (xr := block_ctx_ref c id [] (pos_of d (g_off g)) sc g m) in *.
    all: assert (Hres : ce_pred (cE c) id xi = ce_pred (cE c) id xr)
           by (destruct Hstale as [Hq|[Hfr _]]; [rewrite (Heq Hq); reflexivity | apply Hfr; cbn; auto]).
    all: assert (Hev : ev_eqv (mkEvent k id xi) (mkEvent k id xr))
           by (repeat split; cbn; auto; destruct Hk; subst k; cbn; auto).
    all: rewrite Hres.
    all: pose proof (Sim_fresh _ _ _ _ _ _ _ S) as [S1 S2 S3 S4 S5 S6 S7 S8 S9 S10 S11 S12].
    all: assert (Hpos : sp_pos (pt (fresh_state s)) = pos_of d (g_off g))
           by (unfold cur_off in S2; rewrite <- S2; apply reach_pos_of; exact S1).
    all: pose proof (fun Hf => Hfree Hf xr) as Hfr'.
    all: destruct (ce_pred (cE c) id xr) as [r [msg|] st' gs'|pv st' gs']; cbn.
    all: try (destruct neg, r; cbn).
    all: (split; [reflexivity|]); try (exists sc);
        (constructor; cbn; auto;
         try (unfold addErr, addErrAt; cbn; rewrite S5; f_equal; unfold ref_perr; rewrite err_prefix_ref; cbn; rewrite S11, Hpos; reflexivity);
         try (constructor; [exact Hev | exact S6]);
         try (specialize (Hfr' eq_refl); cbn in Hfr'; rewrite Hfr'; reflexivity)).
  Qed.

  Lemma sim_stc id s sc g m H R inv :
    I c s -> Sim c s sc g m H R inv ->
    sim_res c sc g H R inv (parseStateCodeExpr c id s)
      (match run_block KState id (ce_state (cE c)) (block_ctx_ref c id [] (pos_of d (g_off g)) sc g m) m with
       | inl (_, err, st', m') => ROk VNil (mkSig (g_off g) st') sc (log_err err (pos_of d (g_off g)) R m')
       | inr (pv, m') => RPanic pv m' (pos_of d (g_off g)) R
       end).
  Proof.
    intros HI S. unfold parseStateCodeExpr, fresh_ctx, bind, modify, ret, run_code, run_block.
    cbn. fold (fresh_state s).
    pose proof (Sim_fresh _ _ _ _ _ _ _ S) as Sf.
    pose proof (top_scope_Sim _ _ _ _ _ _ _ Sf) as Et.
    pose proof Sf as [S1 S2 S3 S4 S5 S6 S7 S8 S9 S10 S11 S12].
    assert (Hpos : sp_pos (pt (fresh_state s)) = pos_of d (g_off g)).
    { unfold cur_off in S2. rewrite <- S2. apply reach_pos_of. exact S1. }
    set (xi := block_ctx c id (fresh_state s)).
    set (xr := block_ctx_ref c id [] (pos_of d (g_off g)) sc g m).
    assert (Hrel : (c_args xi = c_args xr /\ c_state xi = c_state xr /\ c_gstore xi = c_gstore xr) /\
                   (q_stale_ctx (cQ c) = false -> xi = xr)).
    { unfold xi, xr, block_ctx, block_ctx_ref; cbn [rd rData rU rO rG rE]. rewrite Et, S3, S4. cbn. split; [auto|].
      intros Hq. f_equal; unfold fresh_state in *; rewrite Hq in *; cbn; auto. }
    destruct Hrel as [(Ha & Hs' & Hg) Heq].
    assert (Hres : ce_state (cE c) id xi = ce_state (cE c) id xr).
    { destruct Hstale as [Hq|[_ Hfree]]; [rewrite (Heq Hq); reflexivity|]. apply Hfree. cbn. auto. }
    assert (Hev : ev_eqv (mkEvent KState id xi) (mkEvent KState id xr)) by (repeat split; cbn; auto).
    rewrite Hres.
    destruct (ce_state (cE c) id xr) as [r [msg|] st' gs'|pv st' gs']; cbn; (split; [reflexivity|]);
        (constructor; cbn; auto;
         try (unfold addErr, addErrAt; cbn; rewrite S5; f_equal; unfold ref_perr; rewrite err_prefix_ref; cbn; rewrite S11, Hpos; reflexivity);
         try (constructor; [exact Hev | exact S6])).
  Qed.

  Lemma Sim_addErr msg s sc g m H R inv : Sim c s sc g m H R inv ->
    Sim c (addErr c msg s) sc g (log (RErr msg (pos_of d (g_off g)) R) m) H R inv.
  Proof.
    intros S. pose proof (Sim_pos _ _ _ _ _ _ _ _ S) as Hpos.
    destruct S as [S1 S2 S3 S4 S5 S6 S7 S8 S9 S10 S11 S12].
    unfold addErr, addErrAt. constructor; cbn; auto.
    rewrite S5. f_equal. unfold ref_perr; cbn [rd rData rU rO rG rE]. rewrite err_prefix_ref, S11, Hpos. reflexivity.
  Qed.

  (* ---------- rule reference ---------- *)
  Lemma find_rule_In nm G r : find_rule nm G = Some r -> In r G.
  Proof.
    unfold find_rule. assert (Hgen : forall acc, fold_left (fun acc r0 => if bytes_eqb (r_name r0) nm then Some r0 else acc) G acc = Some r ->
                                 acc = Some r \/ In r G).
    { induction G as [|x G IH]; intros acc Hf; cbn in *; [left; exact Hf|].
      destruct (IH _ Hf) as [E|Hin]; [|right; right; exact Hin].
      destruct (bytes_eqb (r_name x) nm); [inversion E; right; left; reflexivity | left; exact E]. }
    intros Hf. destruct (Hgen None Hf) as [E|Hin]; [discriminate | exact Hin].
  Qed.

  Lemma parseRuleWrap_plain n r s : r_leftrec r = false -> parseRuleWrap c wrap n r s = parseRule wrap r s.
  Proof.
    intros Hr. unfold parseRuleWrap. rewrite Hmemo, Hr. cbn.
    destruct (t_leftrec (cT c)); destruct (t_optimize (cT c)); reflexivity.
  Qed.

  Lemma sim_ref n0 n nm s sc g m H R inv :
    H_wf c H -> I c s -> Sim c s sc g m H R inv ->
    sim_res c sc g H R inv (parseRuleRefExpr c wrap n nm s) (reval_body c ev 0 H R inv (ERef n0 nm) sc g m).
  Proof.
    intros HH HI S. unfold parseRuleRefExpr. cbn [reval_body]. cbn [rd rData rU rO rG rE].
    destruct nm as [|x nm].
    - cbn. split; [reflexivity|]. eapply Sim_to_P. exact S.
    - destruct (find_rule (x :: nm) (cG c)) as [r|] eqn:Hf.
      + pose proof (find_rule_In _ _ _ Hf) as Hin.
        unfold G_wf in HG. rewrite Forall_forall in HG. destruct (HG r Hin) as [Hwf Hlr].
        rewrite parseRuleWrap_plain by exact Hlr.
        unfold parseRule, bind, modify, ret.
        set (s0 := set_rstack (r :: rstack s) s).
        assert (S0 : Sim c s0 sc g m H (Some r) inv).
        { destruct S as [S1 S2 S3 S4 S5 S6 S7 S8 S9 S10 S11 S12]. constructor; cbn; auto. }
        assert (HI0 : I c s0) by (destruct HI; constructor; auto).
        pose proof (Hwrap (r_expr r) (pushV s0) (I_pushV _ HI0)) as Hw.
        scoped (r_expr r) s0 S0 HI0 Hwf HH.
        * destruct Hsc as (E & [S1 S2 S3 S4 S5 S6 S7 S8 S9 S10 S11 S12] & _). split; [exact E|].
          destruct Hw as (_ & _ & [_ _ F3 _ _] & _). cbn in F3.
          constructor; cbn; auto. rewrite F3. cbn. apply S.
        * destruct Hsc as (E & [S1 S2 S3 S4 S5 S6 S7 S8 S9 S10 S11 S12] & _). split; [exact E|]. exists sc.
          destruct Hw as (_ & _ & [_ _ F3 _ _] & _). cbn in F3.
          constructor; cbn; auto. rewrite F3. cbn. apply S.
      + unfold sim_res. split; [reflexivity|]. exists sc. apply Sim_addErr. exact S.
  Qed.
End SimComp.
