(* The specification of left recursion as relations (least fixpoints):
   nullable_x e  : e can succeed without consuming input (syntactic over-approximation used by
                   PEG well-formedness: & ! ? * state blocks, code predicates and throw count as nullable);
   firstcall e r : e may invoke rule r at the position where e starts;
   lcall a b     : rule a may invoke rule b at a's first position;  lr_cycle : some rule reaches itself. *)
From PV Require Import Lib.Base Syntax.RGrammar Syntax.Ast.
From Coq Require Import Relations.Relation_Operators.

Section LRRel.
  Variable g : agrammar.
  (* whether the bodies of lookahead predicates count as first positions (the property says yes) *)
  Variable preds : bool.

  Inductive nullable_x : aexpr -> Prop :=
  | nx_lit ic : nullable_x (ALit [] ic)
  | nx_cls raw ic inv : nullable_x (ACls raw [] [] [] ic inv)
  | nx_seq n es : Forall nullable_x es -> nullable_x (ASeq n es)
  | nx_alt n es e : In e es -> nullable_x e -> nullable_x (AAlt n es)
  | nx_star e : nullable_x (AStar e)
  | nx_opt e : nullable_x (AOpt e)
  | nx_and e : nullable_x (AAnd e)
  | nx_not e : nullable_x (ANot e)
  | nx_andc c : nullable_x (AAndC c)
  | nx_notc c : nullable_x (ANotC c)
  | nx_stc c : nullable_x (AStC c)
  | nx_throw l : nullable_x (AThrow l)
  | nx_plus e : nullable_x e -> nullable_x (APlus e)
  | nx_lab l e : nullable_x e -> nullable_x (ALab l e)
  | nx_act n c e : nullable_x e -> nullable_x (AAct n c e)
  | nx_ref n r ru : find_arule r g = Some ru -> nullable_x (a_expr ru) -> nullable_x (ARef n r)
  | nx_rec1 n e rc ls : nullable_x e -> nullable_x (ARec n e rc ls)
  | nx_rec2 n e rc ls : nullable_x rc -> nullable_x (ARec n e rc ls).

  Inductive firstcall : aexpr -> rname -> Prop :=
  | fc_seq n pre e post r : Forall nullable_x pre -> firstcall e r -> firstcall (ASeq n (pre ++ e :: post)) r
  | fc_alt n es e r : In e es -> firstcall e r -> firstcall (AAlt n es) r
  | fc_star e r : firstcall e r -> firstcall (AStar e) r
  | fc_plus e r : firstcall e r -> firstcall (APlus e) r
  | fc_opt e r : firstcall e r -> firstcall (AOpt e) r
  | fc_lab l e r : firstcall e r -> firstcall (ALab l e) r
  | fc_act n c e r : firstcall e r -> firstcall (AAct n c e) r
  | fc_ref n r : firstcall (ARef n r) r
  | fc_rec1 n e rc ls r : firstcall e r -> firstcall (ARec n e rc ls) r
  | fc_rec2 n e rc ls r : firstcall rc r -> firstcall (ARec n e rc ls) r
  | fc_and e r : preds = true -> firstcall e r -> firstcall (AAnd e) r
  | fc_not e r : preds = true -> firstcall e r -> firstcall (ANot e) r.

  Definition lcall (a b : rname) : Prop :=
    exists ru, find_arule a g = Some ru /\ firstcall (a_expr ru) b.

  Definition lr_cycle_rel : Prop := exists r, clos_trans rname lcall r r.
End LRRel.
