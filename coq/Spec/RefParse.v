(* Top level of the specification: entry point, projections of the event log
   (error list, code-block trace, farthest-failure report) and the result of Parse. *)
From PV Require Import Lib.Base Lib.Utf8 Syntax.RGrammar Syntax.Code Model.PState Spec.Pos Model.Runtime Spec.Ref.
Local Open Scope nat_scope.

Section RefParse.
  Variable c : rdata.
  Let d := rData c.

  (* "file:line:col (offset): rule NAME" *)
  Definition ref_prefix (pos : position) (R : option rule) : bytes :=
    let fn := o_filename (rO c) in
    let b2 := match fn with [] => [] | _ => fn ++ b_colon end in
    let b3 := b2 ++ dec_nat (line pos) ++ b_colon ++ dec_nat (col pos)
                 ++ [32%N; 40%N] ++ dec_nat (offset pos) ++ [41%N] in
    match R with
    | None => b3
    | Some r => b3 ++ b_colon_sp ++ b_rule_sp ++ match r_display r with [] => r_name r | dn => dn end
    end.

  Definition ref_perr (msg : bytes) (pos : position) (R : option rule) (expected : list bytes) : perr :=
    mkPerr msg pos (ref_prefix pos R) expected.

  (* projections of the log (stored newest first) *)
  Fixpoint errs_of_log (l : list revent) : list perr :=
    match l with
    | [] => []
    | RErr msg pos R :: l' => errs_of_log l' ++ [ref_perr msg pos R []]
    | _ :: l' => errs_of_log l'
    end.

  Fixpoint blocks_of_log (l : list revent) : list event :=   (* newest first, like [trace] *)
    match l with
    | [] => []
    | RBlock k id x :: l' => mkEvent k id x :: blocks_of_log l'
    | _ :: l' => blocks_of_log l'
    end.

  (* terminal attempts that count for the failure report: failures outside, successes inside a ! *)
  Fixpoint relevant_terms (l : list revent) : list (position * bytes * bool) :=   (* oldest first *)
    match l with
    | [] => []
    | RTerm pos want matched inv :: l' =>
        if Bool.eqb matched inv then relevant_terms l' ++ [(pos, want, inv)] else relevant_terms l'
    | _ :: l' => relevant_terms l'
    end.

  Definition far_offset (ts : list (position * bytes * bool)) : nat :=
    fold_left (fun a (t : position * bytes * bool) => Nat.max a (offset (fst (fst t)))) ts 0.

  (* the batch definition of the "no match found" report *)
  Definition far_pos (ts : list (position * bytes * bool)) : position :=
    let far := far_offset ts in
    match find (fun t : position * bytes * bool => Nat.eqb (offset (fst (fst t))) far && negb (Nat.eqb far 0)) ts with
    | Some t => fst (fst t)
    | None => mkPos 1 1 0
    end.

  Definition far_expected (ts : list (position * bytes * bool)) : list bytes :=
    let far := far_offset ts in
    map (fun t : position * bytes * bool => if snd t then b_bang ++ snd (fst t) else snd (fst t))
        (filter (fun t : position * bytes * bool => Nat.eqb (offset (fst (fst t))) far) ts).

  Definition no_match_perr (l : list revent) : perr :=
    let ts := relevant_terms l in
    let exp := nodup_bytes (far_expected ts) in
    let eof := mem_bytes b_not_any exp in
    let sorted := sort_bytes (filter (fun x => negb (bytes_eqb x b_not_any)) exp) in
    let expected := if eof then sorted ++ [b_eof] else sorted in
    let pos := far_pos ts in
    (* the error is added after the start rule has been popped: no rule context *)
    ref_perr (msg_no_match ++ listJoin expected) pos None expected.

  Inductive routcome :=
  | RReturned (v : val) (errors : list perr) (m : rmu)
  | RPanicked (pv : bytes) (m : rmu)
  | RDiverged.

  Definition mu0 : rmu := mkMu [] [] 0%N.

  Definition rparse (fuel : nat) : routcome :=
    match rG c with
    | [] => RReturned VNil (dedupe [ref_perr msg_no_rule pos0 None []]) mu0
    | _ =>
        match entry_of (rO c) (rG c) with
        | None => RDiverged
        | Some en =>
            match find_rule en (rG c) with
            | None => RReturned VNil (dedupe [ref_perr msg_invalid_entrypoint pos0 None []]) mu0
            | Some r =>
                let m0 := land c None 0 mu0 in
                match reval c fuel [] (Some r) false (r_expr r) [] (mkSig 0 (o_initstate (rO c))) m0 with
                | ROut => RDiverged
                | RPanic pv m pos R =>
                    if o_recover (rO c)
                    then RReturned VNil (dedupe (errs_of_log (log (RErr pv pos R) m).(u_log))) (log (RErr pv pos R) m)
                    else RPanicked pv m
                | ROk v _ _ m => RReturned v (dedupe (errs_of_log (u_log m))) m
                | RFail m =>
                    match errs_of_log (u_log m) with
                    | [] => RReturned VNil (dedupe [no_match_perr (u_log m)]) m
                    | es => RReturned VNil (dedupe es) m
                    end
                end
            end
        end
    end.
End RefParse.
