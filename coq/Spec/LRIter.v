(* Specification of left-recursive rules (C08): a rule of the form
       A <- [x:]A a1 [{..}] / ... / [x:]A an [{..}] / b1 / ... / bm
   (the recursive reference possibly through one alias rule M <- A) denotes the iteration
       (b1 / ... / bm) followed by greedily repeated (a1 / ... / an),
   the recursive reference standing for the left-nested result so far; an action attached to a
   recursive alternative sees the text from the start of A.  Everything else is Ref.
   What the last, non-extending attempt did is not retained (state is passed by value; the errors it
   logged are dropped); the code blocks it ran stay in the log, as in the implementation. *)
From PV Require Import Lib.Base Lib.Utf8 Syntax.RGrammar Syntax.Code Model.PState Spec.Pos Model.Runtime Spec.Ref Spec.RefParse.
Local Open Scope nat_scope.

Section LRIter.
  Variable c : rdata.
  Let d := rData c.

  Definition alias_of (nm : rname) : option rname :=
    match find_rule nm (rG c) with
    | Some r => match r_expr r with ERef _ n => Some n | _ => None end
    | None => None
    end.

  (* e is a reference to [self], directly or through one alias rule *)
  Definition refers (self : rname) (e : expr) : bool :=
    match e with
    | ERef _ n => bytes_eqb n self || match alias_of n with Some n' => bytes_eqb n' self | None => false end
    | _ => false
    end.

  Definition strip_lab (e : expr) : label * expr :=
    match e with ELab _ l e' => (l, e') | _ => ([], e) end.

  Definition rec_alt (self : rname) (e : expr) : option (label * list expr * option cid) :=
    let '(body, act) := match e with EAct _ id b => (b, Some id) | _ => (e, None) end in
    match body with
    | ESeq _ (first :: rest) =>
        let '(l, f) := strip_lab first in
        if refers self f then Some (l, rest, act) else None
    | _ => None
    end.

  (* recursive alternatives first, then the others; None when the rule is not of the form *)
  Fixpoint split_alts (self : rname) (alts : list expr) (recs : list (label * list expr * option cid))
    : option (list (label * list expr * option cid) * list expr) :=
    match alts with
    | [] => match recs with [] => None | _ => Some (rev recs, []) end
    | a :: alts' =>
        match rec_alt self a with
        | Some ra => split_alts self alts' (ra :: recs)
        | None =>
            match recs with
            | [] => None
            | _ => if existsb (fun x => match rec_alt self x with Some _ => true | None => false end) alts'
                   then None else Some (rev recs, a :: alts')
            end
        end
    end.

  Definition lr_shape (r : rule) : option (list (label * list expr * option cid) * list expr) :=
    match r_expr r with
    | EAlt _ alts => split_alts (r_name r) alts []
    | _ => None
    end.

  Definition drop_new_errs (before after : rmu) : rmu :=
    let n := length (u_log after) - length (u_log before) in
    let fresh := firstn n (u_log after) in
    mkMu (u_gs after)
         (filter (fun e => match e with RErr _ _ _ => false | _ => true end) fresh ++ skipn n (u_log after))
         (u_cnt after).

  Section Rule.
    Variable ev : handlers -> option rule -> bool -> expr -> scope -> rsig -> rmu -> rres.
    Variable H : handlers.
    Variable inv : bool.
    Variable r : rule.
    Variable start : rsig.

    (* one recursive alternative continued from the result so far *)
    Definition try_rec (ra : label * list expr * option cid) (v : val) (g : rsig) (m : rmu) : rres :=
      let '(l, rest, act) := ra in
      match rseq ev H (Some r) inv rest [v] (bind_scope l v []) g m with
      | ROk vs g' sc' m' =>
          match act with
          | None => ROk vs g' [] m'
          | Some id =>
              let here := pos_of d (g_off start) in
              let x := block_ctx_ref c id (slice c (g_off start) (g_off g')) here sc' g' m' in
              match run_block KAct id (ce_act (rE c)) x m' with
              | inl (res, err, _, m'') => ROk res g' [] (log_err err here (Some r) m'')
              | inr (pv, m'') => RPanic pv m'' (pos_of d (g_off g')) (Some r)
              end
          end
      | other => other
      end.

    Fixpoint try_recs (recs : list (label * list expr * option cid)) (v : val) (g : rsig) (m : rmu) : rres :=
      match recs with
      | [] => RFail m
      | ra :: recs' =>
          match try_rec ra v g m with
          | RFail m' => try_recs recs' v g m'
          | other => other
          end
      end.

    Fixpoint grow (n : nat) (recs : list (label * list expr * option cid)) (v : val) (g : rsig) (m : rmu) : rres :=
      match n with
      | O => ROut
      | S n' =>
          match try_recs recs v g m with
          | ROk v' g' _ m' =>
              if g_off g <? g_off g' then grow n' recs v' g' m'
              else ROk v g [] (drop_new_errs m m')
          | RFail m' => ROk v g [] (drop_new_errs m m')
          | other => other
          end
      end.

    Definition lr_rule (loopfuel : nat) (recs : list (label * list expr * option cid)) (bases : list expr) (m : rmu) : rres :=
      match ralt ev H (Some r) inv bases [] start m with
      | ROk v g _ m' => grow loopfuel recs v g m'
      | RFail m' => RFail (drop_new_errs m m')     (* the first attempt is the last one: nothing of it is retained *)
      | other => other
      end.
  End Rule.

  Fixpoint lreval (fuel : nat) (H : handlers) (R : option rule) (inv : bool) (e : expr)
           (sc : scope) (g : rsig) (m : rmu) : rres :=
    match fuel with
    | O => ROut
    | S f =>
        let m1 := mkMu (u_gs m) (u_log m) (u_cnt m + 1)%N in
        if over_budget c (u_cnt m1) then RPanic msg_max_expr m1 (pos_of d (g_off g)) R
        else
          match e with
          | ERef _ nm =>
              match find_rule nm (rG c) with
              | Some r =>
                  match lr_shape r with
                  | Some (recs, bases) =>
                      match lr_rule (lreval f) H inv r g f recs bases m1 with
                      | ROk v g' _ m' => ROk v g' sc m'
                      | other => other
                      end
                  | None => reval_body c (lreval f) f H R inv e sc g m1
                  end
              | None => reval_body c (lreval f) f H R inv e sc g m1
              end
          | _ => reval_body c (lreval f) f H R inv e sc g m1
          end
    end.

  Definition lrparse (fuel : nat) : routcome :=
    match rG c with
    | [] => RReturned VNil (dedupe [ref_perr c msg_no_rule pos0 None []]) mu0
    | _ =>
        match entry_of (rO c) (rG c) with
        | None => RDiverged
        | Some en =>
            match find_rule en (rG c) with
            | None => RReturned VNil (dedupe [ref_perr c msg_invalid_entrypoint pos0 None []]) mu0
            | Some r =>
                let m0 := land c None 0 mu0 in
                match lreval fuel [] None false (ERef 0%N en) [] (mkSig 0 (o_initstate (rO c))) m0 with
                | ROut => RDiverged
                | RPanic pv m pos R =>
                    if o_recover (rO c)
                    then RReturned VNil (dedupe (errs_of_log c (log (RErr pv pos R) m).(u_log))) (log (RErr pv pos R) m)
                    else RPanicked pv m
                | ROk v _ _ m => RReturned v (dedupe (errs_of_log c (u_log m))) m
                | RFail m =>
                    match errs_of_log c (u_log m) with
                    | [] => RReturned VNil (dedupe [no_match_perr c (u_log m)]) m
                    | es => RReturned VNil (dedupe es) m
                    end
                end
            end
        end
    end.
End LRIter.
