(* Positions: line, col and offset as a pure function of the input and a byte offset.
   [adv] is one step of the scanner (what read() does to the save point), [save_at]
   scans from the start of the input to a byte offset. *)
From PV Require Import Lib.Base Lib.Utf8 Syntax.RGrammar Syntax.Code Model.PState.
Local Open Scope nat_scope.

Definition pos0 : position := mkPos 1 0 0.
Definition save0 (d : bytes) : savepoint := mkSave pos0 0%Z 0 d.

(* advance to the next rune: offset += width; decode; col++ or (line++, col = 0) on newline *)
Definition adv (p : savepoint) : savepoint :=
  let rest' := skipn (sp_w p) (sp_rest p) in
  let off' := offset (sp_pos p) + sp_w p in
  let '(rn, n) := decode rest' in
  let pos' := if Z.eqb rn 10%Z then mkPos (S (line (sp_pos p))) 0 off'
              else mkPos (line (sp_pos p)) (S (col (sp_pos p))) off' in
  mkSave pos' rn n rest'.

Fixpoint walk (fuel : nat) (p : savepoint) (target : nat) : savepoint :=
  if Nat.eqb (offset (sp_pos p)) target then p
  else match fuel with
       | O => p
       | S f => if Nat.eqb (sp_w p) 0 then p else walk f (adv p) target
       end.

(* the save point at byte offset o (o must be a rune boundary of the scan) *)
Definition save_at (d : bytes) (o : nat) : savepoint := walk (S (length d)) (adv (save0 d)) o.
Definition pos_of (d : bytes) (o : nat) : position := sp_pos (save_at d o).
