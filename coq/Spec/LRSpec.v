(* LRSpec: the declarative reading of "some rule can reach itself at the same input
   position".  nullable is the least fixpoint; first e lists the rules e may invoke at
   its first position (through nullable prefixes, all alternatives, repetition and optional
   bodies, labels and actions; [preds] says whether the bodies of & and ! count, [recs]
   whether recovery expressions count). *)
From PV Require Import Lib.Base Syntax.RGrammar Syntax.Ast.

Section LRSpec.
  Variable g : agrammar.
  Variable preds : bool.
  (* whether a throw counts as invoking, at its position, the recovery expressions listing its label *)
  Variable throws : bool.

  (* nullable relative to an approximation of the nullable rules *)
  Fixpoint nullable_e (nr : list rname) (e : aexpr) : bool :=
    match e with
    | ALit v _ => match v with [] => true | _ => false end
    | ACls _ chars ranges classes _ _ =>
        match chars, ranges, classes with [], [], [] => true | _, _, _ => false end   (* as in the code: [] and [^] *)
    | AAny => false
    | ASeq _ es => forallb (nullable_e nr) es
    | AAlt _ es => existsb (nullable_e nr) es
    | AStar _ | AOpt _ | AAnd _ | ANot _ | AAndC _ | ANotC _ | AStC _ | AThrow _ => true
    | APlus _ => false                                      (* as in the code *)
    | ALab _ e' | AAct _ _ e' => nullable_e nr e'
    | ARef _ r => mem_bytes r nr
    | ARec _ e' rc _ => nullable_e nr e' || nullable_e nr rc
    end.

  Definition nullable_step (nr : list rname) : list rname :=
    map a_name (filter (fun r => nullable_e nr (a_expr r)) g).

  Fixpoint iter {A} (n : nat) (f : A -> A) (x : A) : A :=
    match n with O => x | S n' => iter n' f (f x) end.

  (* least fixpoint: |g| rounds suffice (monotone, at most one new rule per round or stable) *)
  Definition nullable_rules : list rname := iter (S (length g)) nullable_step [].

  (* all recovery expressions of the grammar listing label l *)
  Fixpoint recs_of (l : label) (e : aexpr) : list aexpr :=
    match e with
    | ASeq _ es | AAlt _ es => flat_map (recs_of l) es
    | AStar e' | APlus e' | AOpt e' | AAnd e' | ANot e' | ALab _ e' | AAct _ _ e' => recs_of l e'
    | ARec _ e' rc ls => (if mem_bytes l ls then [rc] else []) ++ recs_of l e' ++ recs_of l rc
    | _ => []
    end.

  Definition handlers_of (l : label) : list aexpr := flat_map (fun r => recs_of l (a_expr r)) g.

  Section First.
    (* rules first-invoked by a throw of label l (computed at a lower expansion depth) *)
    Variable thr : label -> list rname.

    Fixpoint first_e (nr : list rname) (e : aexpr) : list rname :=
      match e with
      | ASeq _ es =>
          (fix go (l : list aexpr) : list rname :=
             match l with
             | [] => []
             | x :: l' => first_e nr x ++ (if nullable_e nr x then go l' else [])
             end) es
      | AAlt _ es => flat_map (first_e nr) es
      | AStar e' | APlus e' | AOpt e' | ALab _ e' | AAct _ _ e' => first_e nr e'
      | AAnd e' | ANot e' => if preds then first_e nr e' else []
      | ARef _ r => [r]
      | ARec _ e' rc _ => first_e nr e' ++ first_e nr rc
      | AThrow l => if throws then thr l else []
      | _ => []
      end.
  End First.

  (* throws inside recovery expressions are expanded to a bounded depth *)
  Fixpoint thr_n (td : nat) (nr : list rname) (l : label) : list rname :=
    match td with
    | O => []
    | S td' => flat_map (first_e (thr_n td' nr) nr) (handlers_of l)
    end.

  Definition first (nr : list rname) (e : aexpr) : list rname := first_e (thr_n 3 nr) nr e.

  Definition edges_of (r : rname) : list rname :=
    match find_arule r g with
    | Some ru => first nullable_rules (a_expr ru)
    | None => []
    end.

  (* reachability in at most n steps *)
  Fixpoint reach_n (n : nat) (from : list rname) : list rname :=
    match n with
    | O => from
    | S n' => reach_n n' (from ++ flat_map edges_of from)
    end.

  Definition vertices : list rname := map a_name g.

  Definition reaches_self (r : rname) : bool :=
    mem_bytes r (reach_n (length g) (edges_of r)).

  Definition lr_cycle : bool := existsb reaches_self vertices.
  Definition lr_rules : list rname := filter reaches_self vertices.
End LRSpec.
