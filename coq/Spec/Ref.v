(* Ref: the specification.  A value-passing PEG semantics with labelled failures:
   position and state store are passed by value (nothing is ever "rolled back"),
   label scopes are lexical values, recovery handlers are an environment, and every
   observable side effect is an event appended to a log that survives failure.
   Meant to be read in minutes; Impl (Model/Runtime.v) is proved to refine it.

   Only the data of [cfg] is used here (input, Unicode library, options, grammar,
   code environment); template flags and quirk switches are not. *)
From PV Require Import Lib.Base Lib.Utf8 Syntax.RGrammar Syntax.Code Model.PState Spec.Pos Model.Runtime.
Local Open Scope nat_scope.

(* ---- backtracked and threaded components ---- *)
Record rsig := mkSig { g_off : nat; g_st : store }.

Inductive revent :=
| RBlock (k : bkind) (id : cid) (x : ctx)                       (* a code block ran *)
| RErr (msg : bytes) (pos : position) (r : option rule)        (* an error was recorded *)
| RTerm (pos : position) (want : bytes) (matched inv : bool).  (* a terminal was tried *)

Record rmu := mkMu { u_gs : gstore; u_log : list revent; u_cnt : N }.   (* log: newest first *)

Definition log (e : revent) (m : rmu) : rmu := mkMu (u_gs m) (e :: u_log m) (u_cnt m).

Inductive rres :=
| RFail (m : rmu)
| ROk (v : val) (g : rsig) (sc : scope) (m : rmu)
| RPanic (pv : bytes) (m : rmu) (pos : position) (r : option rule)
| ROut.

Definition handlers := list (list label * expr).

Inductive rrepres :=
| RepDone (vs : list val) (g : rsig) (m : rmu)
| RepPanic (pv : bytes) (m : rmu) (pos : position) (r : option rule)
| RepOut.

Section Ref.
  Variable c : rdata.
  Let d := rData c.

  Definition rune_at (o : nat) : rune * nat := decode (skipn o d).

  (* arriving at offset o: an invalid byte is reported unless AllowInvalidUTF8 *)
  Definition land (R : option rule) (o : nat) (m : rmu) : rmu :=
    let '(r, w) := rune_at o in
    if Z.eqb r RuneError && Nat.eqb w 1 && negb (o_allowinvalid (rO c))
    then log (RErr msg_invalid_encoding (pos_of d o) R) m else m.

  Definition slice (a b : nat) : bytes := firstn (b - a) (skipn a d).

  Definition term_result (R : option rule) (inv : bool) (want : bytes) (sc : scope)
             (g : rsig) (m : rmu) (res : option (nat * rmu)) (mfail : rmu) : rres :=
    match res with
    | Some (o', m') =>
        ROk (VBytes (slice (g_off g) o')) (mkSig o' (g_st g)) sc
            (log (RTerm (pos_of d (g_off g)) want true inv) m')
    | None => RFail (log (RTerm (pos_of d (g_off g)) want false inv) mfail)
    end.

  (* one rune, when not at end of input *)
  Definition step_rune (R : option rule) (o : nat) (m : rmu) (ok : rune -> bool) : option (nat * rmu) :=
    let '(r, w) := rune_at o in
    if Nat.eqb w 0 then None
    else if ok r then Some (o + w, land R (o + w) m) else None.

  (* literal: rune by rune; the errors of landings made before a mismatch are kept *)
  Fixpoint lit_match (R : option rule) (ic : bool) (rs : list rune) (o : nat) (m : rmu)
    : option (nat * rmu) * rmu :=
    match rs with
    | [] => (Some (o, m), m)
    | w :: rs' =>
        match step_rune R o m (fun r => Z.eqb (if ic then to_lower (rU c) r else r) w) with
        | Some (o', m') => lit_match R ic rs' o' m'
        | None => (None, m)
        end
    end.

  Definition bind_scope (l : label) (v : val) (sc : scope) : scope :=
    match l with [] => sc | _ => aset l v sc end.

  Definition block_ctx_ref (id : cid) (text : bytes) (pos : position) (sc : scope) (g : rsig) (m : rmu) : ctx :=
    mkCtx text pos (map (fun l => (l, arg_lookup l sc)) (ce_params (rE c) id)) (g_st g) (u_gs m).

  Definition with_gs (gs' : gstore) (m : rmu) : rmu := mkMu gs' (u_log m) (u_cnt m).

  Definition log_err (err : option bytes) (pos : position) (R : option rule) (m : rmu) : rmu :=
    match err with Some msg => log (RErr msg pos R) m | None => m end.

  Section Eval.
    (* evaluation at lower fuel *)
    Variable ev : handlers -> option rule -> bool -> expr -> scope -> rsig -> rmu -> rres.
    Variable loopfuel : nat.
    Variable H : handlers.
    Variable R : option rule.
    Variable inv : bool.

    (* sequence: left to right in the same scope; failure forgets position and state *)
    Fixpoint rseq (es : list expr) (acc : list val) (sc : scope) (g : rsig) (m : rmu) : rres :=
      match es with
      | [] => ROk (VList (rev acc)) g sc m
      | e :: es' =>
          match ev H R inv e sc g m with
          | ROk v g' sc' m' => rseq es' (v :: acc) sc' g' m'
          | other => other
          end
      end.

    (* ordered choice: each alternative starts from the same position and state, in a fresh scope *)
    Fixpoint ralt (es : list expr) (sc : scope) (g : rsig) (m : rmu) : rres :=
      match es with
      | [] => RFail m
      | e :: es' =>
          match ev H R inv e [] g m with
          | ROk v g' _ m' => ROk v g' sc m'
          | RFail m' => ralt es' sc g m'
          | other => other
          end
      end.

    (* greedy repetition: each iteration in a fresh scope *)
    Fixpoint rrep (n : nat) (e : expr) (acc : list val) (g : rsig) (m : rmu) : rrepres :=
      match n with
      | O => RepOut
      | S n' =>
          match ev H R inv e [] g m with
          | ROk v g' _ m' => rrep n' e (v :: acc) g' m'
          | RFail m' => RepDone (rev acc) g m'
          | RPanic pv m' pos R' => RepPanic pv m' pos R'
          | ROut => RepOut
          end
      end.

    (* throw: innermost handler listing the label first; a failing recovery expression
       falls through to the next enclosing one; each runs at the throw position in its own scope *)
    Fixpoint rthrow (l : label) (hs : handlers) (sc : scope) (g : rsig) (m : rmu) : rres :=
      match hs with
      | [] => RFail m
      | (ls, rc) :: hs' =>
          if mem_bytes l ls then
            match ev H R inv rc [] g m with
            | ROk v g' _ m' => ROk v g' sc m'
            | RFail m' => rthrow l hs' sc g m'
            | other => other
            end
          else rthrow l hs' sc g m
      end.

    Definition run_block {A} (k : bkind) (id : cid) (f : cid -> ctx -> cbout A) (x : ctx) (m : rmu)
      : (A * option bytes * store * rmu) + (bytes * rmu) :=
      let m1 := log (RBlock k id x) m in
      match f id x with
      | CbRet r err st' gs' => inl (r, err, st', with_gs gs' m1)
      | CbPanic pv st' gs' => inr (pv, with_gs gs' m1)
      end.

    Definition reval_body (e : expr) (sc : scope) (g : rsig) (m : rmu) : rres :=
      let here := pos_of d (g_off g) in
      match e with
      | ELit _ rs ic want =>
          let '(res, mf) := lit_match R ic rs (g_off g) m in
          term_result R inv want sc g m res mf
      | ECls _ cv chars ranges classes ic cinv _ =>
          term_result R inv cv sc g m
            (step_rune R (g_off g) m (class_decide (rU c) chars ranges classes ic cinv)) m
      | EAny _ => term_result R inv b_dot sc g m (step_rune R (g_off g) m (fun _ => true)) m
      | ESeq _ es => rseq es [] sc g m
      | EAlt _ es => ralt es sc g m
      | EStar _ e' =>
          match rrep loopfuel e' [] g m with
          | RepDone vs g' m' => ROk (VList vs) g' sc m'
          | RepPanic pv m' pos R' => RPanic pv m' pos R'
          | RepOut => ROut
          end
      | EPlus _ e' =>
          match rrep loopfuel e' [] g m with
          | RepDone [] _ m' => RFail m'
          | RepDone vs g' m' => ROk (VList vs) g' sc m'
          | RepPanic pv m' pos R' => RPanic pv m' pos R'
          | RepOut => ROut
          end
      | EOpt _ e' =>
          match ev H R inv e' [] g m with
          | ROk v g' _ m' => ROk v g' sc m'
          | RFail m' => ROk VNil g sc m'
          | other => other
          end
      | EAnd _ e' =>                       (* consumes nothing, keeps the store *)
          match ev H R inv e' [] g m with
          | ROk _ _ _ m' => ROk VNil g sc m'
          | other => other
          end
      | ENot _ e' =>
          match ev H R (negb inv) e' [] g m with
          | ROk _ _ _ m' => RFail m'
          | RFail m' => ROk VNil g sc m'
          | other => other
          end
      | ELab _ l e' =>
          match ev H R inv e' [] g m with
          | ROk v g' _ m' => ROk v g' (bind_scope l v sc) m'
          | other => other
          end
      | EAct _ id e' =>
          match ev H R inv e' sc g m with
          | ROk _ g' sc' m' =>
              let x := block_ctx_ref id (slice (g_off g) (g_off g')) here sc' g' m' in
              match run_block KAct id (ce_act (rE c)) x m' with
              | inl (r, err, _, m'') => ROk r g' sc' (log_err err here R m'')     (* state changes discarded *)
              | inr (pv, m'') => RPanic pv m'' (pos_of d (g_off g')) R
              end
          | other => other
          end
      | EAndC _ id =>
          match run_block KAnd id (ce_pred (rE c)) (block_ctx_ref id [] here sc g m) m with
          | inl (ok, err, _, m') =>
              let m'' := log_err err here R m' in
              if ok then ROk VNil g sc m'' else RFail m''
          | inr (pv, m') => RPanic pv m' here R
          end
      | ENotC _ id =>
          match run_block KNot id (ce_pred (rE c)) (block_ctx_ref id [] here sc g m) m with
          | inl (ok, err, _, m') =>
              let m'' := log_err err here R m' in
              if ok then RFail m'' else ROk VNil g sc m''
          | inr (pv, m') => RPanic pv m' here R
          end
      | EStC _ id =>
          match run_block KState id (ce_state (rE c)) (block_ctx_ref id [] here sc g m) m with
          | inl (_, err, st', m') => ROk VNil (mkSig (g_off g) st') sc (log_err err here R m')   (* state changes kept *)
          | inr (pv, m') => RPanic pv m' here R
          end
      | ERef _ nm =>
          match nm with
          | [] => RPanic (pos_string pos0 ++ msg_missing_name) m here R
          | _ =>
              match find_rule nm (rG c) with
              | None => RFail (log (RErr (msg_undefined_rule ++ nm) here R) m)
              | Some r =>
                  match ev H (Some r) inv (r_expr r) [] g m with
                  | ROk v g' _ m' => ROk v g' sc m'
                  | other => other
                  end
              end
          end
      | ERec _ e' rc ls => ev ((ls, rc) :: H) R inv e' sc g m
      | EThrow _ l => rthrow l H sc g m
      end.
  End Eval.

  Definition over_budget (n : N) : bool :=
    negb (N.eqb (o_maxexpr (rO c)) 0) && N.ltb (o_maxexpr (rO c)) n.

  Fixpoint reval (fuel : nat) (H : handlers) (R : option rule) (inv : bool) (e : expr)
           (sc : scope) (g : rsig) (m : rmu) : rres :=
    match fuel with
    | O => ROut
    | S f =>
        let m1 := mkMu (u_gs m) (u_log m) (u_cnt m + 1)%N in
        if over_budget (u_cnt m1) then RPanic msg_max_expr m1 (pos_of d (g_off g)) R
        else reval_body (reval f) f H R inv e sc g m1
    end.
End Ref.
