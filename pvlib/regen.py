"""Regeneration of the checked-in generated artifacts from their sources with the flags the
Makefile documents (C20), using binaries built from a given tree."""
import os, re, subprocess, shutil
from . import common as C

VARS = {"ROOT": ".", "BINDIR": "./bin", "EXAMPLES_DIR": "./examples", "TEST_DIR": "./test", "BUILDER_DIR": "./builder",
        "AST_DIR": "./ast", "BOOTSTRAP_DIR": "./bootstrap", "BOOTSTRAPBUILD_DIR": "./bootstrap/cmd/bootstrap-build",
        "BOOTSTRAPPIGEON_DIR": "./bootstrap/cmd/bootstrap-pigeon", "STATICCODEGENERATOR_DIR": "./bootstrap/cmd/static_code_generator",
        "GRAMMAR_DIR": "./grammar", "BOOTSTRAP_GRAMMAR": "./grammar/bootstrap.peg", "PIGEON_GRAMMAR": "./grammar/pigeon.peg"}

def expand(s):
    for _ in range(4):
        s = re.sub(r"\$\((\w+)\)", lambda m: VARS.get(m.group(1), m.group(0)), s)
    return s

def makefile_rules(repo):
    """[(target, first prerequisite, recipe words)] for rules whose recipe writes the target with one of the tools"""
    with open(os.path.join(repo, "Makefile")) as f:
        text = f.read().replace("\\\n", " ")
    rules = []
    lines = text.split("\n")
    for i, l in enumerate(lines):
        m = re.match(r"^(\S+):\s*(.*)$", l)
        if not m or l.startswith("\t") or i + 1 >= len(lines) or not lines[i + 1].startswith("\t"):
            continue
        target = expand(m.group(1))
        prereq = [expand(x) for x in m.group(2).split()]
        recipe = expand(lines[i + 1].strip())
        if not target.endswith(".go") or not prereq:
            continue
        recipe = recipe.replace("$<", prereq[0]).replace("$@", target)
        rules.append((target, prereq[0], recipe))
    return rules

def build_tools(repo, outdir):
    os.makedirs(outdir, exist_ok=True)
    env = C.go_env()
    for name, pkg in (("pigeon", "."), ("bootstrap-build", "./bootstrap/cmd/bootstrap-build"),
                      ("bootstrap-pigeon", "./bootstrap/cmd/bootstrap-pigeon"),
                      ("static_code_generator", "./bootstrap/cmd/static_code_generator")):
        C.run(["go", "build", "-o", os.path.join(outdir, name), pkg], cwd=repo, env=env, timeout=900)
    return outdir

def regenerate(repo, bindir, scratch):
    """Runs every generation rule with the given binaries; returns [(target, same?, detail)]"""
    res = []
    for target, src, recipe in makefile_rules(repo):
        words = recipe.split()
        tool = os.path.basename(words[0])
        if tool not in ("pigeon", "bootstrap-build", "bootstrap-pigeon", "static_code_generator"):
            continue
        out = os.path.join(scratch, "regen", target.lstrip("./").replace("/", "__"))
        os.makedirs(os.path.dirname(out), exist_ok=True)
        if tool == "static_code_generator":
            # static_code_generator SRC DST VAR
            args = [os.path.join(bindir, tool), words[1], out, words[3]]
            p = subprocess.run(args, cwd=repo, stdout=subprocess.PIPE, stderr=subprocess.PIPE, text=True, timeout=300)
        else:
            args = [os.path.join(bindir, tool)] + [w for w in words[1:] if w not in (">", target)]
            with open(out, "wb") as fo:
                p = subprocess.run(args, cwd=repo, stdout=fo, stderr=subprocess.PIPE, timeout=300)
        if p.returncode != 0:
            res.append((target, False, "tool failed: %s" % (p.stderr if isinstance(p.stderr, str) else p.stderr.decode())[:300]))
            continue
        with open(out, "rb") as a, open(os.path.join(repo, target), "rb") as b:
            same = a.read() == b.read()
        res.append((target, same, " ".join(words[1:])))
    return res
