"""Properties decided on the run-time model (Impl = model of static_code.go):
C01 C02 C05 C06 C08 C10 C11 C12 C14 C16 C17 C18."""
import os, re, subprocess
from . import common as C
from . import corr
from .props import prop, run_corr

INVALID_MSG = "invalid encoding"

def errs_of(obs):
    e = obs.get("errs", "")
    if not e:
        return []
    out = []
    for h in e.split(","):
        try:
            out.append(bytes.fromhex(h).decode("utf-8", "replace"))
        except ValueError:
            out.append(h)
    return out

def invalid_offsets(data: bytes):
    """Offsets of bytes that are not part of a valid UTF-8 sequence (independent of
    both the model and Go: Python's strict decoder, one rune at a time)."""
    bad = set()
    i = 0
    n = len(data)
    while i < n:
        ok = False
        for w in (1, 2, 3, 4):
            if i + w <= n:
                try:
                    s = data[i:i + w].decode("utf-8", "strict")
                    if len(s) == 1:
                        ok = True
                        i += w
                        break
                except UnicodeDecodeError:
                    pass
        if not ok:
            bad.add(i)
            i += 1
    return bad

ERR_POS = re.compile(r"(?:^|:)(\d+):(\d+) \((\d+)\)")

# ------------------------------------------------------------------ C17
def c17_oracle(case_line, impl, model):
    if impl.get("out") != "ret":
        return None
    o = corr.case_opts(case_line)
    data = corr.case_input(case_line)
    bad = invalid_offsets(data)
    for e in errs_of(impl):
        if e.endswith(INVALID_MSG):
            if o["allowinv"]:
                return "AllowInvalidUTF8(true) but an 'invalid encoding' error was reported: %r" % e
            m = ERR_POS.search(e)
            if not m or int(m.group(3)) not in bad:
                return "'invalid encoding' reported at a byte that is part of a valid sequence: %r" % e
    return None

@prop("C17")
def c17(ctx, rep):
    # (a) decoder of the model vs utf8.DecodeRune: exhaustive 1-2 byte strings, structured 3-5 byte sweep
    tool = C.build_harness_tool(ctx.sc, "utf8sweep")
    p = C.run([tool], timeout=300)
    sweep = ctx.sc.path("sweep.txt")
    with open(sweep, "w") as f:
        f.write(p.stdout)
    q = subprocess.run([ctx.model(), "-decode", sweep], stdout=subprocess.PIPE, text=True, timeout=600)
    a, b = p.stdout.splitlines(), q.stdout.splitlines()
    rep.cov["decode_sweep_strings"] = len(a)
    for x, y in zip(a, b):
        if x != y:
            rep.violation("Utf8.decode (model) differs from utf8.DecodeRune", {"go": x, "model": y}, found=False)
            break
    if len(a) != len(b):
        rep.violation("decode sweep length mismatch", {"go": len(a), "model": len(b)}, found=False)
    # (b) run-time correspondence with invalid bytes at every position class
    run_corr(ctx, rep, [("utf8", 300, 6000)], fields=["out", "val", "errs", "trace"], oracle=c17_oracle)
