"""Properties decided on the run-time model (Impl = model of static_code.go):
C01 C02 C05 C06 C08 C10 C11 C12 C14 C16 C17 C18."""
import os, re, subprocess
from . import common as C
from . import corr
from .props import prop, run_corr

INVALID_MSG = "invalid encoding"

def errs_of(obs):
    e = obs.get("errs", "")
    if not e:
        return []
    out = []
    for h in e.split(","):
        try:
            out.append(bytes.fromhex(h).decode("utf-8", "replace"))
        except ValueError:
            out.append(h)
    return out

def invalid_offsets(data: bytes):
    """Offsets of bytes that are not part of a valid UTF-8 sequence (independent of
    both the model and Go: Python's strict decoder, one rune at a time)."""
    bad = set()
    i = 0
    n = len(data)
    while i < n:
        ok = False
        for w in (1, 2, 3, 4):
            if i + w <= n:
                try:
                    s = data[i:i + w].decode("utf-8", "strict")
                    if len(s) == 1:
                        ok = True
                        i += w
                        break
                except UnicodeDecodeError:
                    pass
        if not ok:
            bad.add(i)
            i += 1
    return bad

ERR_POS = re.compile(r"(?:^|:)(\d+):(\d+) \((\d+)\)")

# ------------------------------------------------------------------ C17
def c17_oracle(case_line, impl, model):
    if impl.get("out") != "ret":
        return None
    o = corr.case_opts(case_line)
    data = corr.case_input(case_line)
    bad = invalid_offsets(data)
    for e in errs_of(impl):
        if e.endswith(INVALID_MSG):
            if o["allowinv"]:
                return "AllowInvalidUTF8(true) but an 'invalid encoding' error was reported: %r" % e
            m = ERR_POS.search(e)
            if not m or int(m.group(3)) not in bad:
                return "'invalid encoding' reported at a byte that is part of a valid sequence: %r" % e
    return None

@prop("C17")
def c17(ctx, rep):
    # (a) decoder of the model vs utf8.DecodeRune: exhaustive 1-2 byte strings, structured 3-5 byte sweep
    tool = C.build_harness_tool(ctx.sc, "utf8sweep")
    p = C.run([tool], timeout=300)
    sweep = ctx.sc.path("sweep.txt")
    with open(sweep, "w") as f:
        f.write(p.stdout)
    q = subprocess.run([ctx.model(), "-decode", sweep], stdout=subprocess.PIPE, text=True, timeout=600)
    a, b = p.stdout.splitlines(), q.stdout.splitlines()
    rep.cov["decode_sweep_strings"] = len(a)
    for x, y in zip(a, b):
        if x != y:
            rep.violation("Utf8.decode (model) differs from utf8.DecodeRune", {"go": x, "model": y}, found=False)
            break
    if len(a) != len(b):
        rep.violation("decode sweep length mismatch", {"go": len(a), "model": len(b)}, found=False)
    # (b) run-time correspondence with invalid bytes at every position class
    run_corr(ctx, rep, [("utf8", 300, 6000)], fields=["out", "val", "errs", "trace"], ref_fields=["out", "val", "errs"],
             known_quirks=known_quirks_for("C17"), foreign_quirks=foreign_quirks_for("C17"), oracle=c17_oracle, emitted=(24, 300))
    # every option hands back the option that restores the previous setting: AllowInvalidUTF8 (and the others) applied
    # and undone before the parse must leave the result as it is
    from .props import same_on
    sample = [l for cid, l in rep.case_lines.items() if "~" not in cid and rep.impl_obs.get(cid, {}).get("out") not in corr.NONTERM][: ctx.q(400, 6000)]
    hosts_u = {k: v + " -undo" for k, v in ctx.hosts().items()}
    und = corr.run_impl(ctx.sc, hosts_u, sample, 3000)
    for l in sample:
        cid = corr.case_id(l)
        a, i = und.get(cid, {}), rep.impl_obs.get(cid, {})
        if a and a.get("out") not in corr.NONTERM and not same_on(["out", "val", "errs", "trace"], a, i):
            rep.violation("applying an option and then the option it returned changes the result (AllowInvalidUTF8, MaxExpressions, Recover, Entrypoint, Memoize, Debug toggled and undone)",
                          {"case": l, "plain": i, "after_toggle_and_undo": a}, found=True)
    rep.cov["option_toggle_and_undo_cases"] = len(sample)

# ------------------------------------------------------------------ known findings (run-time)
def replay_runtime_known(ctx, k):
    """A known finding reproduces when, on its witness, the implementation still shows the
    recorded behaviour AND the faithful model agrees with the implementation."""
    path = os.path.join(C.VERIF, k["witness"])
    with open(path) as f:
        lines = [l.rstrip("\n") for l in f if l.startswith("(")]
    from .props import same_on
    model = corr.run_model(ctx.sc, ctx.model(), ctx.tables(), lines, tag="kf_model")
    div = [l for l in lines if model[corr.case_id(l)].get("out") in corr.NONTERM]
    impl = corr.run_impl(ctx.sc, ctx.hosts(), [l for l in lines if l not in div], 4000)
    impl.update(corr.run_impl(ctx.sc, ctx.hosts(), div, 1500))
    fields = k.get("fields", ["out", "val", "errs"])
    for l in lines:
        cid = corr.case_id(l)
        if not same_on(["out", "val", "errs", "trace", "cnt"], model.get(cid, {}), impl.get(cid, {})):
            return False
    kind = k.get("replay")
    if kind == "ref_mismatch":
        ref = corr.run_model(ctx.sc, ctx.model(), ctx.tables(), lines, extra=k.get("spec", "-ref"), tag="kf_ref")
        return any(not same_on(fields, impl.get(corr.case_id(l), {}), ref.get(corr.case_id(l), {})) for l in lines)
    if kind == "diverges":
        return all(impl.get(corr.case_id(l), {}).get("out") in corr.NONTERM for l in lines)
    if kind == "pair_mismatch":
        a, b = impl.get(corr.case_id(lines[0]), {}), impl.get(corr.case_id(lines[1]), {})
        return not same_on(fields, a, b)
    return False

def known_quirks_for(prop_id):
    return {k["quirk"]: k["id"] for k in C.known_findings().get("findings", [])
            if "quirk" in k and k["property"] == prop_id and k.get("status") == "known"}

def foreign_quirks_for(prop_id):
    """quirks recorded as known findings of OTHER properties: a disagreement they explain is that property's to report"""
    return {k["quirk"]: k["id"] for k in C.known_findings().get("findings", [])
            if "quirk" in k and k["property"] != prop_id and k.get("status") == "known"}

ALL_FIELDS = ["out", "val", "errs", "cnt", "maxfail", "gs", "trace"]

# ------------------------------------------------------------------ C01
@prop("C01", replay_known=replay_runtime_known)
def c01(ctx, rep):
    run_corr(ctx, rep, [("c01", 1500, 20000), ("class", 300, 4000), ("enum", 400, 0), ("pack", 250, 0)], fields=["out", "val", "errs"],
             ref_fields=["out", "val"], known_quirks=known_quirks_for("C01"), emitted=(48, 600), api=(400, 6000))

# ------------------------------------------------------------------ C02
def c02_oracle(case_line, impl, model):
    """Independent of model and Ref: every action event's text is input[off:off+len] and its
    position's offset is a rune boundary consistent with line/col counted in Python."""
    if impl.get("out") in corr.NONTERM or not impl.get("trace"):
        return None
    data = corr.case_input(case_line)
    for ev in impl["trace"].split(";"):
        parts = dict(p.split("=", 1) for p in ev.split(":")[1:] if "=" in p)
        if not ev.startswith("A"):
            continue
        text = bytes.fromhex(parts.get("t", ""))
        l, c_, off = (int(x) for x in parts["p"].split("."))
        if data[off:off + len(text)] != text:
            return "action text is not the input slice at its position: %s" % ev
        pre = data[:off]
        # line = 1 + newlines up to and including the rune at off; col = runes since the last newline
        upto = data[:off + 1] if off < len(data) else data
        line = 1 + upto.count(b"\n")
        if line != l:
            return "action pos line %d but %d newlines precede/at offset %d: %s" % (l, line - 1, off, ev)
    return None

@prop("C02", replay_known=replay_runtime_known)
def c02(ctx, rep):
    run_corr(ctx, rep, [("c02", 500, 12000), ("pack", 20, 400)], fields=["out", "val", "trace"],
             ref_fields=["out", "val", "trace"], oracle=c02_oracle, known_quirks=known_quirks_for("C02"), emitted=(24, 300))

# ------------------------------------------------------------------ C05
@prop("C05", replay_known=replay_runtime_known)
def c05(ctx, rep):
    run_corr(ctx, rep, [("c05", 1200, 20000)], fields=["out", "val", "trace", "gs", "st"],
             ref_fields=["out", "val", "trace_noctx", "gs"], known_quirks=known_quirks_for("C05"), emitted=(24, 300))

# ------------------------------------------------------------------ C11
def c11_oracle(case_line, impl, model):
    if impl.get("out") in corr.NONTERM:
        return None
    e = impl.get("errs", "")
    if "BADTYPE" in e or "BADELEM" in e or "BADWRAP" in e:
        return "returned error is not a list of *parserError wrapping the original error: %s" % e
    es = errs_of(impl)
    if len(set(es)) != len(es):
        return "duplicate messages in the returned error list: %r" % es
    o = corr.case_opts(case_line)
    for m in es:
        pre = (bytes.fromhex(o["file"][1:]).decode() + ":") if len(o["file"]) > 1 else ""
        if not m.startswith(pre) or not ERR_POS.search(m):
            return "error without file / line:col (offset) prefix: %r" % m
    if impl.get("out", "").startswith("panic:") and o["recover"]:
        return "a panic escaped Parse although Recover is on"
    return None

@prop("C11", replay_known=replay_runtime_known)
def c11(ctx, rep):
    run_corr(ctx, rep, [("c11", 500, 12000), ("c08", 250, 5000)], fields=["out", "val", "errs"],
             ref_fields=["out", "val", "errs"], oracle=c11_oracle, known_quirks=known_quirks_for("C11"), emitted=(24, 300), api=(300, 4000))

# ------------------------------------------------------------------ C12
@prop("C12", replay_known=replay_runtime_known)
def c12(ctx, rep):
    run_corr(ctx, rep, [("c12", 600, 15000), ("pack", 20, 200)], fields=["out", "errs", "maxfail"],
             ref_fields=["out", "errs", "maxfail"], known_quirks=known_quirks_for("C12"), emitted=(24, 300))

# ------------------------------------------------------------------ C14
@prop("C14", replay_known=replay_runtime_known)
def c14(ctx, rep):
    run_corr(ctx, rep, [("c14", 500, 12000), ("pack", 20, 400)], fields=["out", "val", "errs", "trace"],
             ref_fields=["out", "val", "errs", "trace_noctx"], known_quirks=known_quirks_for("C14"), emitted=(24, 300))

# ------------------------------------------------------------------ C16
MAXEXPR_MSG = "max number of expressions parsed"

def c16_oracle(case_line, impl, model):
    o = corr.case_opts(case_line)
    n = o["maxexpr"]
    if n <= 0:
        return None
    out = impl.get("out", "")
    if out in corr.NONTERM:
        return "MaxExpressions(%d) but Parse did not return (%s)" % (n, out)
    cnt = int(impl.get("cnt", "0"))
    if cnt > n + 1:
        return "evaluated %d expressions with MaxExpressions(%d)" % (cnt, n)
    if cnt == n + 1:
        reported = any(m.endswith(MAXEXPR_MSG) for m in errs_of(impl)) or \
            (out.startswith("panic:") and bytes.fromhex(out[6:]).decode("utf-8", "replace") == MAXEXPR_MSG)
        if not reported:
            return "budget exhausted but the 'max number of expressions parsed' error is not reported"
    return None

def c16_derive(lines):
    """twin of every budgeted case without the budget is added by the generator profile; here:
    nothing to derive (kept for symmetry)."""
    return []

@prop("C16", replay_known=replay_runtime_known)
def c16(ctx, rep):
    run_corr(ctx, rep, [("c16", 500, 12000)], fields=["out", "val", "errs", "cnt"],
             ref_fields=["out", "val", "errs", "cnt"], oracle=c16_oracle, known_quirks=known_quirks_for("C16"),
             classify=c16_classify, emitted=(24, 300))
    # a budget that is not exhausted must not change the result: re-run those cases unbounded
    unb = []
    for cid, l in rep.case_lines.items():
        o = corr.case_opts(l)
        io = rep.impl_obs.get(cid, {})
        if o["maxexpr"] > 0 and io.get("out") == "ret" and int(io.get("cnt", "0")) <= o["maxexpr"] \
           and not any(m.endswith(MAXEXPR_MSG) for m in errs_of(io)):
            i = l.index("(opts ")
            j = l.index(")", i)
            f = l[i:j].split(" ")
            f[6] = "0"
            unb.append(l[:i] + " ".join(f) + l[j:])
    unb = unb[: ctx.q(400, 5000)]
    impl2 = corr.run_impl(ctx.sc, ctx.hosts(), unb, 3000)
    from .props import same_on
    for l in unb:
        cid = corr.case_id(l)
        if not same_on(["out", "val", "errs", "cnt", "trace", "gs"], impl2.get(cid, {}), rep.impl_obs.get(cid, {})):
            rep.violation("result under an unexhausted budget differs from the unbounded parse",
                          {"case": l, "bounded": rep.impl_obs.get(cid), "unbounded": impl2.get(cid)}, found=True)
    rep.cov["unexhausted_budget_pairs"] = len(unb)
    # "under every combination of the other runtime options": a Statistics collector that has been used before (its
    # ExprCnt is already beyond the budget).  The parse still has to return, having evaluated at most n expressions,
    # and report the exhausted budget.
    PRE = 1000000
    used = []
    for cid, l in rep.case_lines.items():
        o = corr.case_opts(l)
        if o["maxexpr"] > 0 and not corr.case_tmpl(l)[0] and "~" not in cid:
            t = set_opt(l, 2, "1", "PS") or l.replace("(case " + cid + " ", "(case " + cid + "~PS ", 1)
            used.append(t)
    used = used[: ctx.q(300, 4000)]
    hosts_ps = {k: v + " -prestats %d" % PRE for k, v in ctx.hosts().items()}
    impl3 = corr.run_impl(ctx.sc, hosts_ps, used, 3000)
    for l in used:
        cid = corr.case_id(l)
        io = impl3.get(cid, {})
        n = corr.case_opts(l)["maxexpr"]
        if io.get("out") in corr.NONTERM:
            rep.violation("MaxExpressions(%d) with a used Statistics collector: Parse did not return (%s)" % (n, io.get("out")),
                          {"case": l, "stats_exprcnt_before": PRE, "impl": io}, found=True)
            continue
        if not io.get("cnt"):
            continue
        done = int(io["cnt"]) - PRE
        reported = any(m.endswith(MAXEXPR_MSG) for m in errs_of(io)) or \
            (io.get("out", "").startswith("panic:") and bytes.fromhex(io["out"][6:]).decode("utf-8", "replace") == MAXEXPR_MSG)
        if done > n + 1 or (done >= 1 and not reported):     # done == 0: nothing was evaluated (e.g. invalid entrypoint)
            rep.violation("MaxExpressions(%d) with a used Statistics collector (ExprCnt %d before the parse): %d expressions evaluated, exhausted budget %sreported"
                          % (n, PRE, done, "" if reported else "not "), {"case": l, "stats_exprcnt_before": PRE, "impl": io}, found=True)
    rep.cov["used_statistics_collector_cases"] = len(used)

def c16_classify(case_line, impl, model, problem):
    """Memoize(true) + budget + no return: the known uncharged-memo-hit divergence, provided the
    model with exactly that quirk repaired does return on this case (checked by run_corr through
    known_quirks when Ref applies; here for memoised cases outside Ref's scope)."""
    o = corr.case_opts(case_line)
    if "did not return" in problem and o["memo"] and model.get("out") in corr.NONTERM:
        return "C16-MEMO-NOCHARGE"
    return None

# ------------------------------------------------------------------ C10
def flip_opt(line):
    """the same case on the template variant with -optimize-parser (None when the pair is not
    meaningful: without GlobalState the optimised template has no store at all)."""
    t = corr.case_tmpl(line)
    if t[0]:
        return None
    uses_state = any(k in line for k in ("(stc ", "(set ", "(add ", "(push ", "(statege ", "(state "))
    if uses_state and not t[1]:
        return None
    i = line.index("(tmpl ") + 6
    cid = corr.case_id(line)
    twin = line[:i] + "1" + line[i + 1:]
    return twin.replace("(case " + cid + " ", "(case " + cid + "~O ", 1)

def c10_derive(lines):
    out = []
    for l in lines:
        t = flip_opt(l)
        if t:
            out.append(t)
    return out

@prop("C10", replay_known=replay_runtime_known)
def c10(ctx, rep):
    # c12: grammars without code blocks and state, rich in predicates, on failing inputs - the template variant without a
    # state store, where the error report is all there is to compare
    run_corr(ctx, rep, [("c10", 400, 10000), ("c12", 250, 5000), ("pack", 20, 200), ("c08", 250, 5000)], fields=["out", "val", "errs", "gs", "st", "cnt"],
             ref_fields=["out", "val", "errs"], known_quirks=known_quirks_for("C10"), derive=c10_derive, emitted=(24, 300))
    from .props import same_on
    pairs = skipped = 0
    for cid, l in rep.case_lines.items():
        if cid.endswith("~O"):
            base = cid[:-2]
            a, b = rep.impl_obs.get(base, {}), rep.impl_obs.get(cid, {})
            # C10 speaks about default run-time options: a pair in which either parser ran into the
            # MaxExpressions budget (or the watchdog) is outside it - the two templates count differently
            hit = lambda o: o.get("out") in corr.NONTERM or MAXEXPR_MSG.encode().hex() in (o.get("errs") or "")
            if hit(a) or hit(b) or corr.case_opts(l)["memo"]:
                # (Memoize is not a default option either: the optimized template ignores it, and on
                # left-recursive grammars it changes the error list, known finding C08-MEMO-DISCARDED-ERRS)
                skipped += 1
                continue
            pairs += 1
            if not same_on(["out", "val", "errs"], a, b):
                rep.violation("-optimize-parser changes the result (value / error list)",
                              {"case": rep.case_lines.get(base), "standard": a, "optimized": b}, found=True)
    rep.cov["optimize_pairs_compared"] = pairs
    rep.cov["optimize_pairs_outside_default_options (budget hit or Memoize)"] = skipped

# ------------------------------------------------------------------ C08 (left-recursive rules)
def c08_skip(line, impl, ref):
    """outside the statement: the expression budget was hit (the two sides count differently), a
    parse that does not return, or a rule that is not of the form A <- A a.. / b.. (the specification diverges)"""
    hit = lambda o: o.get("out") in corr.NONTERM or o.get("out") is None or MAXEXPR_MSG.encode().hex() in (o.get("errs") or "")
    if ref.get("lrform") == "0":
        return True      # a left-recursive rule that is not of the stated form A <- A a.. / b..
    if "(stc " in line and (corr.case_opts(line)["memo"] or corr.case_id(line).endswith("~M")):
        # Memoize(true) together with state-change blocks: a memo hit cannot replay a state change (the reason C06
        # excludes state blocks); neither the Memoize case nor its Memoize(false) twin is compared here
        return True
    if corr.case_opts(line)["maxexpr"] not in (0, 3000):
        return True      # the generator's mark of a grammar that is not well-formed (other kinds of cycles): run under a small budget
    return hit(impl) or hit(ref)

def flip_memo(line):
    """the same case with Memoize(false) (None if it already is)"""
    i = line.index("(opts ") + 6
    if line[i] != "1":
        return None
    cid = corr.case_id(line)
    twin = line[:i] + "0" + line[i + 1:]
    return twin.replace("(case " + cid + " ", "(case " + cid + "~M ", 1)

def c08_derive(lines):
    return [t for t in (flip_memo(l) for l in lines) if t]

@prop("C08", replay_known=replay_runtime_known)
def c08(ctx, rep):
    kf = {k["id"] for k in C.known_findings().get("findings", []) if k["property"] == "C08" and k.get("status") == "known"}
    from .props import same_on
    leader_cache = {}
    def swap_leader(line):
        """the same case with the leader flag moved from the alias rule A2 <- R0 to the rule R0 through which
        the generated grammars enter the cycle (None if the case is not of that kind)"""
        import re
        if not re.search(r"\(rule x4132 x[0-9a-f]* 1 1 ", line) or not re.search(r"\(rule x5230 x[0-9a-f]* 0 1 ", line):
            return None
        l2 = re.sub(r"\(rule x4132 (x[0-9a-f]*) 1 1 ", r"(rule x4132 \1 0 1 ", line)
        return re.sub(r"\(rule x5230 (x[0-9a-f]*) 0 1 ", r"(rule x5230 \1 1 1 ", l2)
    def classify(line, impl, model, problem):
        if "specification disagree" in problem and "C08-LEADER-NOT-ENTRY" in kf:
            # the cycle is entered through a rule that is not its leader: attributed when the model with the
            # leader flag moved to the entered rule agrees with the specification
            l2 = swap_leader(line)
            if l2:
                cid = corr.case_id(line)
                if cid not in leader_cache:
                    mm = corr.run_model(ctx.sc, ctx.model(), ctx.tables(), [l2], tag="swap")
                    ref = getattr(rep, "spec_live", {}).get(cid, {})
                    leader_cache[cid] = same_on(["out", "val"], mm.get(cid, {}), ref)
                if leader_cache[cid]:
                    return "C08-LEADER-NOT-ENTRY"
        # Memoize(true): a rule memoised during a growth attempt that is then discarded keeps its memo entry while
        # the errors it logged are rolled back; a later hit does not log them again.  Recognised by the twin of the
        # case with Memoize(false): it has exactly the specification's error list and the same value.
        if "specification disagree on errs" not in problem or "C08-MEMO-DISCARDED-ERRS" not in kf:
            return None
        twin = getattr(rep, "impl_live", {}).get(corr.case_id(line) + "~M")
        if twin and twin.get("val") == impl.get("val") and twin.get("out") == impl.get("out") and twin.get("errs") != impl.get("errs"):
            ref = rep.spec_live.get(corr.case_id(line) + "~M", {}) if hasattr(rep, "spec_live") else {}
            if ref.get("errs") == twin.get("errs"):
                return "C08-MEMO-DISCARDED-ERRS"
        return None
    run_corr(ctx, rep, [("c08", 300, 8000)], fields=["out", "val", "errs", "gs", "st", "cnt"],
             ref_fields=["out", "val", "errs"], scope=lambda l: True, spec_flag="-lrspec", ref_skip=c08_skip,
             known_quirks=known_quirks_for("C08"), derive=c08_derive, classify=classify, emitted=(24, 300))
    # Memoize on/off pairs give the same value (error lists: see the known finding)
    pairs = 0
    for cid, l in rep.case_lines.items():
        if cid.endswith("~M"):
            a, b = rep.impl_obs.get(cid[:-2], {}), rep.impl_obs.get(cid, {})
            if c08_skip(l, a, b):
                continue
            pairs += 1
            if not same_on(["out", "val"], a, b):
                rep.violation("Memoize changes the result of a left-recursive grammar", {"case": rep.case_lines.get(cid[:-2]), "memo": a, "nomemo": b}, found=True)
    rep.cov["memoize_pairs_compared"] = pairs

# ------------------------------------------------------------------ C06 (Memoize / Debug / Statistics)
def set_opt(line, idx, val, tag):
    """twin of a case with option number idx (0 memo, 1 debug, 2 stats) set to val"""
    i = line.index("(opts ") + 6
    f = line[i:line.index(")", i)].split(" ")
    if f[idx] == val:
        return None
    f[idx] = val
    cid = corr.case_id(line)
    twin = line[:i] + " ".join(f) + line[line.index(")", i):]
    return twin.replace("(case " + cid + " ", "(case " + cid + "~" + tag + " ", 1)

def c06_derive(lines):
    out = []
    probes = [l for l in open(os.path.join(C.VERIF, "corpus", "c06_probes.txt")).read().splitlines() if l.strip()]
    out.extend(probes)
    for l in lines + probes:
        for idx, tag in ((0, "m"), (1, "d"), (2, "s")):
            for val in ("0", "1"):
                t = set_opt(l, idx, val, tag + val)
                if t:
                    out.append(t)
        # everything on
        t = l
        for idx in (0, 1, 2):
            t2 = set_opt(t, idx, "1", "x")
            t = t2 if t2 else t
        if t is not l:
            cid = corr.case_id(l)
            import re
            t = re.sub(r"\(case \S+ ", "(case %s~all " % cid, t, 1)
            out.append(t)
    return out

def n_exprs(line):
    import re
    return len(re.findall(r"\((?:lit|cls|any|seq|alt|star|plus|opt|and|not|lab|act|andc|notc|stc|ref|rec|throw) ", line))

def c06_oracle(line, impl, model):
    """Memoize(true) bounds the work: evaluated expressions <= grammar expressions x (input length + 1)"""
    o = corr.case_opts(line)
    if not o["memo"] or impl.get("out") in corr.NONTERM or not impl.get("cnt"):
        return None
    t = corr.case_tmpl(line)
    if t[0] or t[2]:
        return None          # optimized template has no memo table; left recursion is excluded by the statement
    bound = n_exprs(line) * (len(corr.case_input(line)) + 1)
    if int(impl["cnt"]) > bound:
        return "Memoize(true): %s expressions evaluated, more than %d expressions x (%d + 1) positions" % (impl["cnt"], n_exprs(line), len(corr.case_input(line)))
    # an action node is evaluated at most once per offset, so its code block runs at most once per start position
    if not t[1]:
        seen = set()
        for ev in (impl.get("trace") or "").split(";"):
            if ev.startswith("A"):
                parts = ev.split(":")
                key = (parts[0], next((q for q in parts if q.startswith("p=")), ""))
                if key in seen:
                    return "Memoize(true): the action block %s ran twice at start position %s: its expression was evaluated twice at one offset" % (parts[0][1:], key[1][2:])
                seen.add(key)
    return None

@prop("C06", replay_known=replay_runtime_known)
def c06(ctx, rep):
    from .props import same_on
    # grammars that are not well-formed run under an expression budget (the generator's watchdog): budgets are
    # C16's business and Memoize changes how they are counted, so those cases are outside this property
    nobudget = lambda l: corr.case_opts(l)["maxexpr"] == 0
    # C06 states "the same success or failure, value and code-block errors": the text of the final "no match found,
    # expected: .." report is not part of the claim (a memo hit replays no failAt bookkeeping: S <- !A "x" / A ; A <- "a"
    # on "b" lists "a" or "x" by default and only "x" with Memoize(true); model switch q_memo_expected, DESIGN.md A.4)
    run_corr(ctx, rep, [("c06", 250, 5000)], fields=["out", "val", "errs", "cnt"],
             ref_fields=["out", "val", "cberrs"], scope=nobudget, known_quirks=known_quirks_for("C06"),
             derive=c06_derive, oracle=lambda l, i, m: c06_oracle(l, i, m) if nobudget(l) else None, emitted=(24, 300))
    # every option set against the default options, on the real parsers
    pairs = 0
    known = known_quirks_for("C06")
    for cid, l in rep.case_lines.items():
        if "~" not in cid:
            continue
        base = cid.split("~")[0]
        # the default-options member of the family
        dflt = None
        for cand in (base, base + "~m0", base + "~d0", base + "~s0"):
            cl = rep.case_lines.get(cand)
            if cl:
                o = corr.case_opts(cl)
                if not o["memo"] and not o["debug"] and not o["stats"]:
                    dflt = cand
                    break
        if not dflt or dflt == cid or not nobudget(l):
            continue
        a, b = rep.impl_obs.get(dflt, {}), rep.impl_obs.get(cid, {})
        if a.get("out") in corr.NONTERM or b.get("out") in corr.NONTERM:
            continue
        pairs += 1
        if not same_on(["out", "val", "cberrs"], a, b):
            # differences already attributed to a memo finding through the specification are not repeated
            if cid in getattr(rep, "attributed_cases", set()):
                continue
            rep.violation("an option set changes the result: %s" % {k: v for k, v in corr.case_opts(l).items() if k in ("memo", "debug", "stats")},
                          {"case": l, "default_options": a, "with_options": b}, found=True)
    rep.cov["option_pairs_compared"] = pairs
    # a Statistics collector that has been used before (ExprCnt not zero), no budget: still the same result
    PRE = 1000
    used, base_of = [], {}
    for cid, l in rep.case_lines.items():
        o = corr.case_opts(l)
        if "~" in cid or o["maxexpr"] != 0 or corr.case_tmpl(l)[0]:
            continue
        t = set_opt(l, 2, "1", "PS") or l.replace("(case " + cid + " ", "(case " + cid + "~PS ", 1)
        t2 = set_opt(t, 0, "0", "PS") if False else t
        used.append(t2)
        base_of[corr.case_id(t2)] = cid
    used = used[: ctx.q(300, 4000)]
    hosts_ps = {k: v + " -prestats %d" % PRE for k, v in ctx.hosts().items()}
    impl3 = corr.run_impl(ctx.sc, hosts_ps, used, 3000)
    cmp_ps = 0
    for l in used:
        cid = corr.case_id(l)
        a, b = rep.impl_obs.get(base_of[cid], {}), impl3.get(cid, {})
        if a.get("out") in corr.NONTERM or b.get("out") in corr.NONTERM or not a or not b:
            continue
        if corr.case_opts(rep.case_lines[base_of[cid]])["stats"] is False and corr.case_opts(rep.case_lines[base_of[cid]])["memo"]:
            pass
        cmp_ps += 1
        if not same_on(["out", "val", "cberrs"], a, b):
            rep.violation("Statistics with a collector that has been used before (ExprCnt %d) changes the result" % PRE,
                          {"case": l, "without_the_collector": a, "with_used_collector": b}, found=True)
    rep.cov["used_statistics_collector_pairs"] = cmp_ps
    # Memoize on left-recursive grammars (templates with -support-left-recursion): same success/failure and value
    # (error lists: known finding C08-MEMO-DISCARDED-ERRS, decided by the C08 check)
    n = ctx.q(150, 3000)
    lines, pretty = corr.generate(ctx.sc, ctx.gen(), "c08ns", ctx.seed, n, tag="c06lr")
    lines = [l for l in lines if corr.case_opts(l)["maxexpr"] in (0, 3000)]
    twins = [t for t in (flip_memo(l) for l in lines) if t]
    base = {corr.case_id(t)[:-2] for t in twins}
    sel = [l for l in lines if corr.case_id(l) in base] + twins
    model = corr.run_model(ctx.sc, ctx.model(), ctx.tables(), sel, tag="c06lrm")
    ok = [l for l in sel if model.get(corr.case_id(l), {}).get("out") not in corr.NONTERM
          and not str(model.get(corr.case_id(l), {}).get("out", "")).startswith("model-")]
    impl = corr.run_impl(ctx.sc, ctx.hosts(), ok, 4000)
    lrpairs = 0
    for t in twins:
        a, b = impl.get(corr.case_id(t)[:-2], {}), impl.get(corr.case_id(t), {})
        if not a or not b or c08_skip(t, a, b):
            continue
        if any(str(model.get(cid, {}).get("out", "")).startswith("model-") for cid in (corr.case_id(t)[:-2], corr.case_id(t))):
            continue
        lrpairs += 1
        if not same_on(["out", "val"], a, b):
            rep.violation("Memoize(true) changes the result of a left-recursive grammar",
                          {"case": next(l for l in lines if corr.case_id(l) == corr.case_id(t)[:-2]), "memo": a, "nomemo": b}, found=True)
        for cid in (corr.case_id(t)[:-2], corr.case_id(t)):
            if not same_on(["out", "val", "errs"], model.get(cid, {}), impl.get(cid, {})):
                rep.violation("model/implementation disagree on a left-recursive memo case", {"case": cid, "model": model.get(cid), "impl": impl.get(cid)}, found=False)
    rep.cov["left_recursive_memo_pairs_compared"] = lrpairs
