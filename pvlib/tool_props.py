"""C13 (the tool is total) and C04 (accepted grammars yield Go code that compiles, vets, initialises)."""
import os, subprocess, json, random, re, hashlib, concurrent.futures, collections, shutil
from . import common as C
from . import corr
from .props import prop
from .front_props import hook_dump

FLAGS = ["-cache", "-optimize-basic-latin", "-optimize-grammar", "-optimize-parser", "-support-left-recursion", "-nolint", "-x"]

def mutate(rnd, text):
    b = bytearray(text.encode("utf-8", "surrogatepass"))
    for _ in range(rnd.randint(1, 3)):
        k = rnd.randrange(7)
        if not b:
            b = bytearray(b"A")
        i = rnd.randrange(len(b))
        if k == 0:
            del b[i]
        elif k == 1:
            b.insert(i, rnd.choice(b"{}[]()\"'`\\/*#&!%:<-=?+.;\n \xff\x80iA0"))
        elif k == 2:
            j = rnd.randrange(len(b))
            b[i], b[j] = b[j], b[i]
        elif k == 3:
            b = b[:i]
        elif k == 4:
            b[i] = rnd.randrange(256)
        elif k == 5:
            j = min(len(b), i + rnd.randint(1, 20))
            b = b[:i] + b[i:j] * 2 + b[j:]
        else:
            b = b[:i] + bytearray(rnd.choice([b"//{", b"%{", b"}", b"{", b"\\p{", b"\\u12", b"<-", b"'", b"/*"])) + b[i:]
    return bytes(b)

def rule_names(dump):
    return set(re.findall(r"^ (?:@\S+ )?rule (\S+) ", dump, re.M))

def pretty_texts(path):
    texts, cur = {}, None
    for l in open(path):
        if l.startswith("## "):
            cur = l.split()[1].split("/")[0]
            texts[cur] = []
        elif cur:
            texts[cur].append(l)
    return {k: "{\npackage main\n}\n" + "".join(v) for k, v in texts.items()}

def gather_inputs(ctx, n_front, n_rt, seed):
    """valid grammar texts: front-end syntax coverage + optimizer / left-recursion / throw-recover shapes"""
    tool = C.build_harness_tool(ctx.sc, "fronttool")
    p = C.run([tool, "-seed", str(seed), "-n", str(n_front)], timeout=1200)
    texts = [json.loads(l)["text"] for l in p.stdout.splitlines()]
    for prof in ("c09", "c07", "c14"):
        lines, pretty = corr.generate(ctx.sc, ctx.gen(), prof, seed, n_rt, tag="c13")
        texts += list(pretty_texts(pretty).values())
    return texts

def run_tool(pigeon, data, flags, timeout):
    try:
        p = subprocess.run([pigeon] + flags, input=data, stdout=subprocess.PIPE, stderr=subprocess.PIPE, timeout=timeout)
        return p.returncode, p.stdout, p.stderr.decode("utf-8", "replace")
    except subprocess.TimeoutExpired:
        return "timeout", b"", ""

def known_c13(ctx):
    return {k["id"]: k for k in C.known_findings().get("findings", []) if k["property"] == "C13" and k.get("status") == "known"}

def replay_c13_known(ctx, k):
    """the recorded grammar still makes the tool exceed the time limit (or crash)"""
    rc, out, err = run_tool(ctx.pigeon(), k["grammar"].encode(), k.get("flags", []), k.get("seconds", 20))
    if k.get("kind") == "hang":
        return rc == "timeout"
    return rc not in (0, 3, 5, 9) or "goroutine " in err

@prop("C13", replay_known=replay_c13_known)
def c13(ctx, rep):
    rnd = random.Random(ctx.seed)
    pigeon = ctx.pigeon()
    valid = gather_inputs(ctx, ctx.q(120, 1500), ctx.q(60, 800), ctx.seed)
    jobs = []
    for t in valid:
        jobs.append(("valid", t.encode("utf-8", "surrogatepass")))
        for _ in range(ctx.q(2, 6)):
            jobs.append(("mutated", mutate(rnd, t)))
    for _ in range(ctx.q(150, 3000)):
        n = rnd.choice([0, 1, 2, 5, 20, 80, 400])
        jobs.append(("bytes", bytes(rnd.randrange(256) for _ in range(n))))
    for _ in range(ctx.q(60, 600)):
        alphabet = b"AB <-=/'\"[]a-z()*+?!&{}.:;\n\\x%#`i^"
        jobs.append(("tokens", bytes(rnd.choice(alphabet) for _ in range(rnd.randint(1, 60)))))
    # size families for the grammar analysis (nullable computation, cycle enumeration)
    for n in (8, 16, 24, 32):
        g = "{\npackage main\n}\n" + "".join("N%d <- N%d N%d\n" % (i, i + 1, i + 1) for i in range(n)) + "N%d <- 'x'?\n" % n
        jobs.append(("stress-chain-%d" % n, g.encode()))
    for n in (4, 8, 12):
        alts = " / ".join("R%d" % j for j in range(n)) + " / 'x'"
        g = "{\npackage main\n}\n" + "".join("R%d <- %s\n" % (i, alts) for i in range(n))
        jobs.append(("stress-mutual-%d" % n, g.encode()))
    work = []
    for kind, data in jobs:
        fl = [f for f in FLAGS if rnd.random() < 0.3]
        if kind.startswith("stress"):
            fl = ["-support-left-recursion"] if "mutual" in kind else []
        ep = None
        if not kind.startswith("stress") and rnd.random() < 0.25:
            ep = rnd.choice(["Rule0", "R0", "S", "Nope", "Rule1,Rule2", ""])
            fl += ["-alternate-entrypoints", ep]
        if rnd.random() < 0.1:
            fl += ["-receiver-name", rnd.choice(["p", "cur", "c"])]
        work.append((kind, data, fl, ep))
    tmo = ctx.q(30, 90)
    def one(w):
        kind, data, fl, ep = w
        rc, out, err = run_tool(pigeon, data, fl, tmo)
        hrc, hdump, herr = hook_dump(pigeon, data.decode("utf-8", "replace") if False else "", True) if False else (None, None, None)
        return w, rc, out, err
    stage_lines, stage_meta = [], []
    counts = collections.Counter()
    with concurrent.futures.ThreadPoolExecutor(max_workers=C.NCPU) as ex:
        results = list(ex.map(one, work))
    # the front-end's own verdict (hook) for the cases that reached it
    def verdict(w):
        kind, data, fl, ep = w
        env = dict(os.environ, PIGEON_VERIF_DUMP="ast", PIGEON_VERIF_NOPOS="1")
        try:
            p = subprocess.run([pigeon], input=data, stdout=subprocess.PIPE, stderr=subprocess.PIPE, env=env, timeout=tmo)
            return p.returncode, p.stdout.decode("utf-8", "replace")
        except subprocess.TimeoutExpired:
            return "timeout", ""
    with concurrent.futures.ThreadPoolExecutor(max_workers=C.NCPU) as ex:
        verdicts = list(ex.map(verdict, work))
    kf = known_c13(ctx)
    for (w, rc, out, err), (hrc, hdump) in zip(results, verdicts):
        kind, data, fl, ep = w
        counts["kind:" + kind] += 1
        counts["rc:%s" % rc] += 1
        payload = {"grammar_hex": data.hex() if len(data) < 4000 else data[:4000].hex() + "...", "grammar_text": data.decode("utf-8", "replace")[:3000],
                   "flags": fl, "exit": rc, "stderr": err[-2500:], "how": "pigeon <flags> < grammar"}
        if rc == "timeout":
            hit = None
            for k in kf.values():
                if k.get("kind") == "hang" and kind.startswith(k.get("family", "?")):
                    hit = k["id"]
            if hit:
                counts["known:" + hit] += 1
                continue
            rep.violation("pigeon does not terminate within %d s on a %s input with flags %s" % (tmo, kind, " ".join(fl)), payload, found=True)
            continue
        crash = ("goroutine " in err and "panic" in err) or rc not in (0, 1, 2, 3, 4, 5, 6, 7, 8, 9)
        if crash:
            m = re.search(r"panic: (.*)", err)
            sig = (m.group(1) if m else err[:80])[:120]
            hit = None
            for k in kf.values():
                if k.get("kind") == "crash" and k.get("signature") and k["signature"] in err:
                    hit = k["id"]
            if hit:
                counts["known:" + hit] += 1
            else:
                rep.violation("pigeon crashes (Go panic trace / status %s) on a %s input with flags %s: %s" % (rc, kind, " ".join(fl), sig), payload, found=True)
            continue
        if rc != 0 and not err.strip():
            rep.violation("pigeon exits with status %s without a diagnostic" % rc, payload, found=True)
        if rc == 0:
            if hrc != 0:
                rep.violation("a grammar the front-end rejects produces exit status 0", payload, found=True)
            if "-x" not in fl and (b"func Parse(" not in out or not out.rstrip().endswith(b"}")):
                rep.violation("exit status 0 but the output is not a complete parser", payload, found=True)
        # stage outcomes observed independently where possible -> the model's exit status
        if hrc in (0, 3):
            parse_ok = hrc == 0
            names = rule_names(hdump) if parse_ok else set()
            entry_ok = all((not e) or e in names for e in (ep.split(",") if ep is not None else []))
            nobuild = "-x" in fl
            build_ok = "build error" not in err
            format_ok = "format error" not in err
            bits = "101" + "1" + ("1" if parse_ok else "0") + ("1" if entry_ok else "0") + ("1" if nobuild else "0") + "1" + \
                   ("1" if build_ok else "0") + ("1" if format_ok else "0") + "11"
            stage_lines.append(bits)
            stage_meta.append((rc, payload))
    # the model of main.go's exit logic on the observed stage outcomes
    if stage_lines:
        f = ctx.sc.path("exit.txt")
        with open(f, "w") as fh:
            fh.write("\n".join(stage_lines) + "\n")
        q = subprocess.run([ctx.model(), "-exit", f], stdout=subprocess.PIPE, text=True, timeout=600)
        for l, (rc, payload) in zip(q.stdout.splitlines(), stage_meta):
            want = int(l.split()[1])
            if want != rc:
                rep.violation("exit status %s, the model of main.go's stage logic gives %d for the observed stage outcomes %s" % (rc, want, l.split()[0]),
                              dict(payload, stages=l.split()[0]), found=(rc == 0))
    rep.cov["evaluations"] = len(work)
    rep.cov["distinct_nontrivial"] = len({hashlib.sha1(w[1]).hexdigest() + " ".join(w[2]) for w in work})
    rep.cov["distribution"] = dict(counts)
    rep.cov["time_limit_s"] = tmo
    rep.samples.append({"flags": work[0][2], "grammar_text": work[0][1].decode("utf-8", "replace")[:400]})
