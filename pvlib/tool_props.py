"""C13 (the tool is total) and C04 (accepted grammars yield Go code that compiles, vets, initialises)."""
import os, subprocess, json, random, re, hashlib, concurrent.futures, collections, shutil
from . import common as C
from . import corr
from .props import prop
from .front_props import hook_dump

FLAGS = ["-cache", "-optimize-basic-latin", "-optimize-grammar", "-optimize-parser", "-support-left-recursion", "-nolint", "-x"]

def mutate(rnd, text):
    b = bytearray(text.encode("utf-8", "surrogatepass"))
    for _ in range(rnd.randint(1, 3)):
        k = rnd.randrange(7)
        if not b:
            b = bytearray(b"A")
        i = rnd.randrange(len(b))
        if k == 0:
            del b[i]
        elif k == 1:
            b.insert(i, rnd.choice(b"{}[]()\"'`\\/*#&!%:<-=?+.;\n \xff\x80iA0"))
        elif k == 2:
            j = rnd.randrange(len(b))
            b[i], b[j] = b[j], b[i]
        elif k == 3:
            b = b[:i]
        elif k == 4:
            b[i] = rnd.randrange(256)
        elif k == 5:
            j = min(len(b), i + rnd.randint(1, 20))
            b = b[:i] + b[i:j] * 2 + b[j:]
        else:
            b = b[:i] + bytearray(rnd.choice([b"//{", b"%{", b"}", b"{", b"\\p{", b"\\u12", b"<-", b"'", b"/*",
                                              b"[\\p{L]]", b"[\\p{Foo]] ", b"[a-", b"[\\", b"\"\\x4", b"'ab'", b"(", b")?*", b"x:", b"&{", b"#{ return nil }"])) + b[i:]
    return bytes(b)

def rule_names(dump):
    return set(re.findall(r"^ (?:@\S+ )?rule (\S+) ", dump, re.M))

def pretty_texts(path):
    texts, cur = {}, None
    for l in open(path):
        if l.startswith("## "):
            cur = l.split()[1].split("/")[0]
            texts[cur] = []
        elif cur:
            texts[cur].append(l)
    return {k: "{\npackage main\n}\n" + "".join(v) for k, v in texts.items()}

def gather_inputs(ctx, n_front, n_rt, seed):
    """valid grammar texts: front-end syntax coverage + optimizer / left-recursion / throw-recover shapes"""
    tool = C.build_harness_tool(ctx.sc, "fronttool")
    p = C.run([tool, "-seed", str(seed), "-n", str(n_front)], timeout=1200)
    texts = [json.loads(l)["text"] for l in p.stdout.splitlines()]
    for prof in ("c09", "c07", "c14"):
        lines, pretty = corr.generate(ctx.sc, ctx.gen(), prof, seed, n_rt, tag="c13")
        texts += list(pretty_texts(pretty).values())
    return texts

def run_tool(pigeon, data, flags, timeout):
    try:
        p = subprocess.run([pigeon] + flags, input=data, stdout=subprocess.PIPE, stderr=subprocess.PIPE, timeout=timeout)
        return p.returncode, p.stdout, p.stderr.decode("utf-8", "replace")
    except subprocess.TimeoutExpired:
        return "timeout", b"", ""

MUST_REJECT = [r'a = "\U80000000"', r"a = 'x\Uffffffffy'", r'a = [a-\UFFFF0000]', r'a = "\ud800"', r'a = "\udfff"', r'a = "\U00110000"', r'a = "\U0000D800"',
    r'a = [\ud800]', r'a = [\U00110000-\U00110001]', r'a = "\xZZ"', r'a = "\x1"', r'a = "\u12"', r'a = "\U0001"', r'a = "\q"', r'a = [\q]', r"a = '\"'x",
    r'a = "\8"', r'a = [\xZ]', r'a = [\u12]', r'a = [\p{Foo}]', r'a = [\pX]', r'a = [\p{}]', r'a = [\p{Latin]', r'a = "abc', r"a = 'abc", r'a = `abc', r'a = [abc',
    r'a = "a" { return nil, nil', r'a = "a" /* open', 'a = "a\nb"', "a = 'a\nb'", 'a = [a\nb]', r'a = "\"', 'a = "a"\\', r'a = ', r'a <- a:', r'a = !', r'a = ( "a"',
    r'a = "a" )', r'a = x:', r'a = "a" //{', r'a = "a" //{} "b"', r'a = %{', r'a = %{}', r'= "a"', r'a "x', r'a = b:c:"d" e::f', r'a = func:"x" { return nil, nil }',
    r'a = "a" / / "b"', r'a = "a" **', r'a = &', r'a = #', r'a = #{ return nil', r'a = &{ return true, nil']

def known_c13(ctx):
    return {k["id"]: k for k in C.known_findings().get("findings", []) if k["property"] == "C13" and k.get("status") == "known"}

def replay_c13_known(ctx, k):
    """the recorded grammar still makes the tool exceed the time limit (or crash)"""
    rc, out, err = run_tool(ctx.pigeon(), k["grammar"].encode(), k.get("flags", []), k.get("seconds", 20))
    if k.get("kind") == "hang":
        return rc == "timeout"
    return rc not in (0, 3, 5, 9) or "goroutine " in err

@prop("C13", replay_known=replay_c13_known)
def c13(ctx, rep):
    rnd = random.Random(ctx.seed)
    pigeon = ctx.pigeon()
    valid = gather_inputs(ctx, ctx.q(120, 1500), ctx.q(60, 800), ctx.seed)
    jobs = []
    for t in valid:
        jobs.append(("valid", t.encode("utf-8", "surrogatepass")))
        for _ in range(ctx.q(2, 6)):
            jobs.append(("mutated", mutate(rnd, t)))
    for _ in range(ctx.q(150, 3000)):
        n = rnd.choice([0, 1, 2, 5, 20, 80, 400])
        jobs.append(("bytes", bytes(rnd.randrange(256) for _ in range(n))))
    for _ in range(ctx.q(60, 600)):
        alphabet = b"AB <-=/'\"[]a-z()*+?!&{}.:;\n\\x%#`i^"
        jobs.append(("tokens", bytes(rnd.choice(alphabet) for _ in range(rnd.randint(1, 60)))))
    # size families for the grammar analysis (nullable computation, cycle enumeration)
    for n in (8, 16, 24, 32):
        g = "{\npackage main\n}\n" + "".join("N%d <- N%d N%d\n" % (i, i + 1, i + 1) for i in range(n)) + "N%d <- 'x'?\n" % n
        jobs.append(("stress-chain-%d" % n, g.encode()))
    for n in (4, 8, 12):
        alts = " / ".join("R%d" % j for j in range(n)) + " / 'x'"
        g = "{\npackage main\n}\n" + "".join("R%d <- %s\n" % (i, alts) for i in range(n))
        jobs.append(("stress-mutual-%d" % n, g.encode()))
    # texts that are NOT in the documented syntax, by our reading of it (an oracle independent of the front-end's own
    # verdict): invalid escapes in literals and classes (values beyond U+10FFFF, surrogates, short or non-hex digits, unknown
    # letters), unknown Unicode classes, unterminated literals / classes / code blocks / comments, dangling operators
    # code-block texts at the edge of what the lexer accepts: empty bodies, bodies that are only line breaks or comments,
    # closing braces inside strings / runes / comments; in every block position
    BODIES = ["{\n}", "{}", "{ }", "{\n\n}", "{\r\n}", "{\t}", "{\n\n\n}", "{\n//x\n}", "{/*}*/}", "{\n/*\n*/\n}", "{ _ = \"}\" }", "{ _ = '}' }", "{ _ = `}` }",
              "{\n return nil, nil\n}", "{ return nil, nil }\n", "{{}}", "{\n{\n}\n}"]
    for body in BODIES:
        for shape in ("A <- 'a' %s\n", "A <- &%s 'a'\n", "A <- !%s 'a'\n", "A <- #%s 'a'\n", "A <- 'a' %s / 'b' %s\nB <- A\n", "A <- x:'a' y:( 'b' %s ) %s\n"):
            g = "{\npackage main\n}\n" + shape.replace("%s", body)
            jobs.append(("blocks", g.encode()))
        jobs.append(("blocks", (body + "\nA <- 'a'\n").encode()))
    for b in MUST_REJECT:
        jobs.append(("must-reject", ("{\npackage main\n}\n" + b + "\n").encode("utf-8", "surrogatepass")))
    work = []
    for kind, data in jobs:
        fl = [f for f in FLAGS if rnd.random() < 0.3]
        if kind.startswith("stress"):
            fl = ["-support-left-recursion"] if "mutual" in kind else []
        ep = None
        if kind == "blocks":
            # every block text is built (no -x, valid entry point): plain and under one random set of generation flags
            work.append((kind, data, [], None))
            work.append((kind, data, [f for f in fl if f != "-x"], None))
            continue
        if not kind.startswith("stress") and rnd.random() < 0.25:
            ep = rnd.choice(["Rule0", "R0", "S", "Nope", "Rule1,Rule2", ""])
            fl += ["-alternate-entrypoints", ep]
        if rnd.random() < 0.1:
            fl += ["-receiver-name", rnd.choice(["p", "cur", "c"])]
        work.append((kind, data, fl, ep))
    tmo = ctx.q(30, 90)
    def one(w):
        kind, data, fl, ep = w
        rc, out, err = run_tool(pigeon, data, fl, tmo)
        hrc, hdump, herr = hook_dump(pigeon, data.decode("utf-8", "replace") if False else "", True) if False else (None, None, None)
        return w, rc, out, err
    stage_lines, stage_meta = [], []
    counts = collections.Counter()
    with concurrent.futures.ThreadPoolExecutor(max_workers=C.NCPU) as ex:
        results = list(ex.map(one, work))
    # the front-end's own verdict (hook) for the cases that reached it
    def verdict(w):
        kind, data, fl, ep = w
        env = dict(os.environ, PIGEON_VERIF_DUMP="ast", PIGEON_VERIF_NOPOS="1")
        try:
            p = subprocess.run([pigeon], input=data, stdout=subprocess.PIPE, stderr=subprocess.PIPE, env=env, timeout=tmo)
            return p.returncode, p.stdout.decode("utf-8", "replace")
        except subprocess.TimeoutExpired:
            return "timeout", ""
    with concurrent.futures.ThreadPoolExecutor(max_workers=C.NCPU) as ex:
        verdicts = list(ex.map(verdict, work))
    kf = known_c13(ctx)
    for (w, rc, out, err), (hrc, hdump) in zip(results, verdicts):
        kind, data, fl, ep = w
        counts["kind:" + kind] += 1
        counts["rc:%s" % rc] += 1
        payload = {"grammar_hex": data.hex() if len(data) < 4000 else data[:4000].hex() + "...", "grammar_text": data.decode("utf-8", "replace")[:3000],
                   "flags": fl, "exit": rc, "stderr": err[-2500:], "how": "pigeon <flags> < grammar"}
        if rc == "timeout":
            hit = None
            for k in kf.values():
                if k.get("kind") == "hang" and kind.startswith(k.get("family", "?")):
                    hit = k["id"]
            if hit:
                counts["known:" + hit] += 1
                continue
            rep.violation("pigeon does not terminate within %d s on a %s input with flags %s" % (tmo, kind, " ".join(fl)), payload, found=True)
            continue
        crash = ("goroutine " in err and "panic" in err) or rc not in (0, 1, 2, 3, 4, 5, 6, 7, 8, 9)
        if crash:
            m = re.search(r"panic: (.*)", err)
            sig = (m.group(1) if m else err[:80])[:120]
            hit = None
            for k in kf.values():
                if k.get("kind") == "crash" and k.get("signature") and k["signature"] in err:
                    hit = k["id"]
            if hit:
                counts["known:" + hit] += 1
            else:
                rep.violation("pigeon crashes (Go panic trace / status %s) on a %s input with flags %s: %s" % (rc, kind, " ".join(fl), sig), payload, found=True)
            continue
        if rc != 0 and not err.strip():
            rep.violation("pigeon exits with status %s without a diagnostic" % rc, payload, found=True)
        if kind == "must-reject" and rc == 0:
            rep.violation("a grammar text outside the documented syntax is accepted (exit status 0)", payload, found=True)
            continue
        if rc == 0:
            if hrc != 0:
                rep.violation("a grammar the front-end rejects produces exit status 0", payload, found=True)
            if "-x" not in fl and (b"func Parse(" not in out or not out.rstrip().endswith(b"}")):
                rep.violation("exit status 0 but the output is not a complete parser", payload, found=True)
        # stage outcomes observed independently where possible -> the model's exit status
        if hrc in (0, 3):
            parse_ok = hrc == 0
            names = rule_names(hdump) if parse_ok else set()
            entry_ok = all((not e) or e in names for e in (ep.split(",") if ep is not None else []))
            nobuild = "-x" in fl
            build_ok = "build error" not in err
            format_ok = "format error" not in err
            bits = "101" + "1" + ("1" if parse_ok else "0") + ("1" if entry_ok else "0") + ("1" if nobuild else "0") + "1" + \
                   ("1" if build_ok else "0") + ("1" if format_ok else "0") + "11"
            stage_lines.append(bits)
            stage_meta.append((rc, payload))
    # the model of main.go's exit logic on the observed stage outcomes
    if stage_lines:
        f = ctx.sc.path("exit.txt")
        with open(f, "w") as fh:
            fh.write("\n".join(stage_lines) + "\n")
        q = subprocess.run([ctx.model(), "-exit", f], stdout=subprocess.PIPE, text=True, timeout=600)
        for l, (rc, payload) in zip(q.stdout.splitlines(), stage_meta):
            want = int(l.split()[1])
            if want != rc:
                rep.violation("exit status %s, the model of main.go's stage logic gives %d for the observed stage outcomes %s" % (rc, want, l.split()[0]),
                              dict(payload, stages=l.split()[0]), found=(rc == 0))
    # the -o file: what is written to a file that already exists (and is longer) is the parser, nothing else
    nfile = 0
    for t in valid[: ctx.q(8, 60)]:
        data = t.encode("utf-8", "surrogatepass")
        rc0, out0, err0 = run_tool(pigeon, data, [], tmo)
        if rc0 != 0:
            continue
        path = ctx.sc.path("c13out", "parser_%d.go" % nfile)
        with open(path, "wb") as f:
            f.write(b"// stale content\n" * 60000)
        rc1, out1, err1 = run_tool(pigeon, data, ["-o", path], tmo)
        nfile += 1
        got = open(path, "rb").read()
        if rc1 != 0 or got != out0:
            rep.violation("pigeon -o over an existing file: exit status %s, the file holds %d bytes, the parser written to standard output %d" % (rc1, len(got), len(out0)),
                          {"grammar_text": t[:3000], "flags": ["-o", "<existing longer file>"], "stderr": err1[-1000:],
                           "how": "create a large file, run pigeon -o on it, compare with the output of pigeon without -o"}, found=True)
    counts["output_file_overwrites"] = nfile
    rep.cov["evaluations"] = len(work)
    rep.cov["distinct_nontrivial"] = len({hashlib.sha1(w[1]).hexdigest() + " ".join(w[2]) for w in work})
    rep.cov["distribution"] = dict(counts)
    rep.cov["time_limit_s"] = tmo
    rep.samples.append({"flags": work[0][2], "grammar_text": work[0][1].decode("utf-8", "replace")[:400]})

# ------------------------------------------------------------------ C04 (emitted code compiles, vets, initialises)
C04_FLAGS = ["-optimize-parser", "-optimize-grammar", "-optimize-basic-latin", "-support-left-recursion", "-nolint", "-cache"]

def known_c04(ctx):
    return {k["id"]: k for k in C.known_findings().get("findings", []) if k["property"] == "C04" and k.get("status") == "known"}

def build_generated(ctx, src, tag):
    """go build + go vet + run (package initialisation) of an emitted parser; returns (stage, output)"""
    d = ctx.sc.path("c04", tag, "x")
    d = os.path.dirname(d)
    with open(os.path.join(d, "parser.go"), "wb") as f:
        f.write(src)
    with open(os.path.join(d, "main.go"), "w") as f:
        f.write("package main\n\nfunc main() {}\n")
    with open(os.path.join(d, "go.mod"), "w") as f:
        f.write("module c04case\n\ngo 1.25.0\n")
    env = C.go_env()
    p = subprocess.run(["go", "build", "-o", "prog", "."], cwd=d, env=env, stdout=subprocess.PIPE, stderr=subprocess.STDOUT, text=True, timeout=600)
    if p.returncode != 0:
        return "compile", p.stdout[-2500:]
    p = subprocess.run(["go", "vet", "."], cwd=d, env=env, stdout=subprocess.PIPE, stderr=subprocess.STDOUT, text=True, timeout=600)
    if p.returncode != 0:
        return "vet", p.stdout[-2500:]
    p = subprocess.run([os.path.join(d, "prog")], stdout=subprocess.PIPE, stderr=subprocess.STDOUT, text=True, timeout=60)
    if p.returncode != 0:
        return "init", p.stdout[-2500:]
    shutil.rmtree(d, ignore_errors=True)
    return "ok", ""

def replay_c04_known(ctx, k):
    rc, out, err = run_tool(ctx.pigeon(), k["grammar"].encode(), k.get("flags", []), 60)
    if rc != 0:
        return False
    stage, msg = build_generated(ctx, out, "kf_" + k["id"])
    return stage == "compile" and k.get("signature", "") in msg

@prop("C04", replay_known=replay_c04_known)
def c04(ctx, rep):
    rnd = random.Random(ctx.seed)
    pigeon = ctx.pigeon()
    tool = C.build_harness_tool(ctx.sc, "fronttool")
    n = ctx.q(70, 1500)
    cases = []
    for extra in ([], ["-digitnames"]):
        p = C.run([tool, "-seed", str(ctx.seed), "-n", str(n if not extra else max(10, n // 3)), "-compilable"] + extra, timeout=1200)
        for l in p.stdout.splitlines():
            d = json.loads(l)
            d["digitnames"] = bool(extra)
            cases.append(d)
    # shape families: label names shared between rules (inlining), nested actions, method-name arithmetic,
    # every Unicode class name the front-end accepts
    hdr = "{\npackage main\n}\n"
    fam = []
    fam.append(("inline-shared-label", hdr + "A <- B l1:C { return l1, nil }\nB <- l1:'a' { return l1, nil }\nC <- 'c'\n", [[], ["-optimize-grammar"], ["-optimize-grammar", "-optimize-parser"]]))
    og = [[], ["-optimize-grammar"], ["-optimize-grammar", "-optimize-parser"]]
    # a reference under a label, to a rule that uses the same label name itself: after inlining the two scopes nest
    fam.append(("inline-label-over-same-label", hdr + "A <- l1:B 'x' { return l1, nil }\nB <- l1:[a-z]+ { return l1, nil }\n", og))
    fam.append(("inline-label-crossed", hdr + "A <- l1:B l2:C { return []any{l1, l2}, nil }\nB <- l2:'a' { return l2, nil }\nC <- l1:'c' { return l1, nil }\n", og))
    fam.append(("inline-label-chain", hdr + "A <- v:B { return v, nil }\nB <- v:C 'b' { return v, nil }\nC <- v:'c' { return v, nil }\n", og))
    fam.append(("inline-label-predicates", hdr + "A <- v:B &{ return v != nil, nil } !{ return v == nil, nil }\nB <- v:'b' &{ return v != nil, nil }\n", og))
    fam.append(("inline-label-in-choice", hdr + "A <- v:( B / 'z' ) w:B { return []any{v, w}, nil }\nB <- w:'b' v:'c'? { return []any{v, w}, nil }\n", og))
    # code points that Go source can only spell with an escape (non-printable: controls, format characters, private use,
    # noncharacters, in and above the BMP) as class members, range ends and literals, with and without the i flag
    for k, cls in enumerate(["[\\U000E0001K]i", "[\\U000F0000-\\U000FFFFD]i", "[^\\U0010FFFF]i", "[\\u200B\\x7F]i", "[\\x00-\\x1f\\u0085]i", "[\\U000E0001K]", "[\\uFFFE-\\U00010000]i",
                             "\"\\U000E0001\\u200BK\"i", "\"\\x00\\U0010FFFF\"", "'\\U000E0020'i"]):
        fam.append(("nonprintable-%d" % k, hdr + "A <- %s 'x' / B\nB <- 'y' %s\n" % (cls, cls), [[], ["-optimize-grammar"], ["-optimize-parser", "-optimize-basic-latin"]]))
    fam.append(("nested-action", hdr + "A <- ( l1:'a' { return l1, nil } ) l2:'c' { return l2, nil }\n", [[], ["-optimize-grammar"]]))
    for k in range(1, 13):
        fam.append(("method-index-%d" % k, hdr + "Start <- A A1\nA <- %s &{ return true, nil }\nA1 <- &{ return true, nil }\n" % " ".join("'a'" for _ in range(k)),
                    [[], ["-optimize-parser"]]))
    # a leaf rule with a code block under each kind of wrapper, inlined by -optimize-grammar into two rules that survive
    blocks = {"action": "( d:[0-9] { return string(c.text), nil } )", "andcode": "( &{ return true, nil } [0-9] )",
              "notcode": "( !{ return false, nil } [0-9] )", "statecode": "( #{ return nil } [0-9] )"}
    wraps = {"plus": "%s+", "star": "%s* [0-9]", "opt": "%s? 'n'", "label": "v:%s", "and": "&%s [0-9]", "not": "!( %s 'x' ) [0-9]",
             "choice": "( 'z' / %s )", "seq": "( 'n' %s )", "recover": "( %s //{e} [0-9] )"}
    for bk, btxt in blocks.items():
        for wk, wtxt in wraps.items():
            leaf = wtxt % btxt
            fam.append(("inlined-leaf-%s-%s" % (wk, bk),
                        hdr + "Start <- Expr Term !.\nExpr <- Leaf '+' Expr / Leaf\nTerm <- Leaf '*' Term / Leaf\nLeaf <- %s\n" % leaf,
                        [["-optimize-grammar"]]))
    # what the initializer block may contain is Go, not a format string: percent signs as operator, in Printf verbs, in comments
    init_pct = "{\npackage main\n\nimport \"fmt\"\n\n// 100% of the initializer is copied\nfunc rem(a, b int) int { return a % b }\n\nvar banner = fmt.Sprintf(\"%d%% %s %v\", rem(7, 4), \"x\", 1.5)\n}\n"
    fam.append(("init-percent", init_pct + "A <- 'a' { return banner, nil }\n", [[], ["-optimize-parser"], ["-optimize-grammar", "-nolint"], ["-cache"]]))
    # the initializer's first token on the line of the opening brace, a build constraint first, a comment on the brace's line
    for nm, init in (("same-line", "{ package main }\n"), ("same-line-imports", "{ package main\nimport \"fmt\"\nvar _ = fmt.Sprint\n}\n"),
                     ("constraint", "{ //go:build !never\n\npackage main\n}\n"), ("brace-comment", "{ // generated parser\npackage main\n}\n")):
        fam.append(("init-" + nm, init + "A <- 'a' { return 1, nil }\n", [[], ["-nolint"], ["-nolint", "-optimize-parser"], ["-optimize-grammar", "-nolint", "-cache"]]))
    fam.append(("block-percent", hdr + "A <- d:[0-9]+ { return len(c.text) % 3, nil } / &{ return 7%2 == 1, nil } 'x' #{ c.state[\"k\"] = 5 % 4; return nil }\n",
                [[], ["-optimize-parser"], ["-optimize-grammar"]]))
    ucl = re.findall(r'^\t"(\w+)":', open(os.path.join(C.REPO, "unicode_classes.go")).read(), re.M)
    for i in range(0, len(ucl), 40):
        chunk = ucl[i:i + 40]
        fam.append(("unicode-classes-%d" % i, hdr + "A <- " + " / ".join("[\\p{%s}]" % n if len(n) > 1 else "[\\p%s]" % n for n in chunk) + "\n",
                    [[], ["-optimize-basic-latin"], ["-optimize-parser", "-optimize-grammar"]]))
    work = []
    for name, text, flagsets in fam:
        for fl in flagsets:
            cases.append({"text": text, "methods": None, "digitnames": True, "family": name})
            work.append((len(cases) - 1, cases[-1], list(fl)))
    nfam = len(work)
    for i, d in enumerate(cases):
        if d.get("family"):
            continue
        fl = [f for f in C04_FLAGS if rnd.random() < 0.4]
        if rnd.random() < 0.15:
            fl += ["-receiver-name", "p"]
        work.append((i, d, fl))
    kf = known_c04(ctx)
    counts = collections.Counter()
    def one(w):
        i, d, fl = w
        text = d["text"]
        if "-receiver-name" in fl:
            # the blocks are written against the receiver the grammar is generated with
            text = re.sub(r"\bc\.(text|pos|state)\b", r"p.\1", text)
            d["text"] = text
        rc, out, err = run_tool(pigeon, text.encode(), fl, 120)
        if rc != 0:
            return w, rc, err, None, None, out
        stage, msg = build_generated(ctx, out, "c%d" % i)
        return w, rc, err, stage, msg, out
    with concurrent.futures.ThreadPoolExecutor(max_workers=C.NCPU) as ex:
        results = list(ex.map(one, work))
    for (i, d, fl), rc, err, stage, msg, out in results:
        payload = {"grammar_text": d["text"], "flags": fl, "how": "pigeon <flags> -o parser.go; go build; go vet; run"}
        if d.get("family"):
            counts["family:" + d["family"].rstrip("0123456789-")] += 1
        if rc != 0:
            counts["rejected:%s" % rc] += 1
            if rc not in (5,) or "goroutine " in err:
                rep.violation("pigeon does not accept a grammar of the documented syntax with well-typed blocks (status %s): %s" % (rc, err.strip()[:200]),
                              dict(payload, stderr=err[-2000:]), found=True)
            continue
        counts["accepted"] += 1
        counts["stage:" + stage] += 1
        if stage != "ok":
            hit = None
            for k in kf.values():
                if k.get("signature") and k["signature"] in msg and all(f in fl for f in k.get("needs_flags", [])) and \
                   (not k.get("needs_digitnames") or d["digitnames"]):
                    hit = k["id"]
            if hit:
                counts["known:" + hit] += 1
                continue
            rep.violation("the emitted parser fails at '%s': %s" % (stage, msg.strip().splitlines()[-1][:200] if msg.strip() else ""),
                          dict(payload, stage=stage, output=msg), found=True)
            continue
        # one method per code block, with exactly the labels in scope (not comparable after -optimize-grammar rewrote the rules)
        if "-optimize-grammar" not in fl and not d.get("family"):
            recv = "p" if "-receiver-name" in fl else "c"
            meths = re.findall(r"^func \(%s \*current\) (on\w+)\(([^)]*)\)" % recv, out.decode("utf-8", "replace"), re.M)
            got = [[a.strip().split(" ")[0] for a in params.split(",") if a.strip()] for _, params in meths]
            names = [m[0] for m in meths]
            if len(set(names)) != len(names):
                rep.violation("two code blocks share one method name", dict(payload, methods=names), found=True)
            if got != (d["methods"] or []):
                rep.violation("code-block methods do not receive exactly the labels in scope: expected %s, emitted %s" % (d["methods"], got),
                              dict(payload, expected=d["methods"], emitted=got), found=True)
            counts["methods_compared"] += len(got)
    rep.cov["evaluations"] = len(work)
    rep.cov["distinct_nontrivial"] = len({hashlib.sha1((w[1]["text"] + " ".join(w[2])).encode()).hexdigest() for w in work})
    rep.cov["distribution"] = dict(counts)
    rep.samples.append({"flags": work[0][2], "grammar_text": work[0][1]["text"][:400]})
