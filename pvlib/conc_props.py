"""C18: concurrent parses are isolated."""
import os, subprocess, collections
from . import common as C
from . import corr
from .props import prop, same_on

VARIANTS = [(False, True, False, False), (True, True, False, False), (False, True, True, False), (False, False, False, False), (True, True, True, True)]

@prop("C18")
def c18(ctx, rep):
    pigeon = ctx.pigeon()
    # race-detector builds of a few template variants (state store, memo table, left recursion, tables)
    exes = C.pmap(lambda t: C.build_host(ctx.sc, pigeon, t, race=True), VARIANTS)
    hosts = dict(zip([C.variant_name(t) for t in VARIANTS], exes))
    # (1) the real state-store bookkeeping against the Pool model, step by step
    steps = ctx.q(1500, 20000)
    pool_lines = 0
    for name, exe in hosts.items():
        p = subprocess.run([exe, "-pooltest", str(steps), "-poolseed", str(ctx.seed)], stdout=subprocess.PIPE, stderr=subprocess.PIPE, text=True, timeout=1200)
        if "DATA RACE" in p.stderr or p.returncode != 0:
            rep.violation("state-store steps of the real parser objects fail (%s): %s" % (name, p.stderr[-400:]), {"variant": name, "stderr": p.stderr[-3000:]}, found=True)
            continue
        f = ctx.sc.path("pool_%s.txt" % name)
        with open(f, "w") as fh:
            fh.write(p.stdout)
        q = subprocess.run([ctx.model(), "-pool", f], stdout=subprocess.PIPE, stderr=subprocess.PIPE, text=True, timeout=1200)
        real, model = p.stdout.splitlines(), q.stdout.splitlines()
        if real == ["nostate"]:
            continue
        pool_lines += len(real)
        if "SPECDIFF" in q.stdout:
            rep.violation("Pool.view differs from the one-parser specification on a replayed history (theorem C18_each_parser_sees_what_it_sees_alone contradicted: model or driver defect)",
                          {"variant": name}, found=False)
        for i, (a, b) in enumerate(zip(real, model)):
            if a.replace(" ", "") != b.replace(" ", ""):
                rep.violation("after step %d of an interleaving of three parser objects the real state maps differ from what each parser would see alone" % i,
                              {"variant": name, "history": real[: i + 1], "real": a, "model": b,
                               "how": "host(-race) -pooltest %d -poolseed %d" % (steps, ctx.seed)}, found=True)
                break
        if len(real) != len(model):
            rep.violation("model replayed %d of %d state-store steps" % (len(model), len(real)), {"variant": name}, found=False)
    # (2) concurrent Parse calls on one package: same result as alone, no data race
    n = ctx.q(160, 1500)
    lines, pretty = corr.generate(ctx.sc, ctx.gen(), "c18", ctx.seed, n)
    lines = [l for l in lines if C.variant_name(corr.case_tmpl(l)) in hosts]
    # only parses the model finishes quickly take part (divergence and budgets are C16's business); a whole
    # grammar is dropped when one of its inputs is not suitable, since a group shares the package-level grammar
    model = corr.run_model(ctx.sc, ctx.model(), ctx.tables(), lines)
    def quick(l):
        m = model.get(corr.case_id(l), {})
        return m.get("out") == "ret" and int(m.get("cnt", "0") or 0) < 5000
    badg = {corr.case_id(l).split("/")[0] for l in lines if not quick(l)}
    lines = [l for l in lines if corr.case_id(l).split("/")[0] not in badg]
    by_variant = collections.defaultdict(list)
    for l in lines:
        by_variant[C.variant_name(corr.case_tmpl(l))].append(l)
    reps = ctx.q(4, 12)
    solo = {}
    parses = 0
    def one(item):
        name, ls = item
        f = ctx.sc.path("conc", name + ".txt")
        out = ctx.sc.path("conc", name + ".out")
        with open(f, "w") as fh:
            fh.write("\n".join(ls) + "\n")
        p = subprocess.run([hosts[name], "-cases", f, "-out", out, "-concurrent", str(reps)], stdout=subprocess.PIPE, stderr=subprocess.PIPE, text=True, timeout=3000)
        return name, ls, p, open(out).read() if os.path.exists(out) else ""
    for name, ls, p, out in C.pmap(one, list(by_variant.items())):
        if "DATA RACE" in p.stderr:
            rep.violation("the race detector reports a data race during concurrent Parse calls (%s)" % name,
                          {"variant": name, "report": p.stderr[:4000], "cases_file_head": ls[:3]}, found=True)
        elif p.returncode != 0 and "#group-timeout" not in out:
            rep.violation("concurrent run failed (%s): %s" % (name, p.stderr[-300:]), {"variant": name, "stderr": p.stderr[-3000:]}, found=False)
        for l in out.splitlines():
            if "out=concurrent-diff" in l:
                cid = l.split("\t")[0]
                rep.violation("a Parse call returns something else when other parses run at the same time",
                              {"variant": name, "case": next((x for x in ls if corr.case_id(x) == cid), None), "observation": l[:2000]}, found=True)
            elif l.startswith("#group-timeout"):
                rep.violation("a group of concurrent parses did not finish within 60 s although the model finishes each parse quickly: " + l,
                              {"variant": name, "group": l}, found=False)
            elif l.startswith("#group"):
                parses += int(l.split("parses=")[1].split()[0])
            elif "\t" in l:
                o = corr.parse_obs_line(l)
                solo[o["id"]] = o
    # the solo results are those of the model (ties the sequential semantics of these hosts)
    for cid, o in solo.items():
        m = model.get(cid, {})
        if m.get("out") in corr.NONTERM or o.get("out") in corr.NONTERM:
            continue
        if not same_on(["out", "val", "errs"], m, o):
            rep.violation("model/implementation disagree on a case of the concurrency run", {"case": cid, "model": m, "impl": o}, found=False)
    rep.cov["evaluations"] = pool_lines + parses + len(solo)
    rep.cov["distinct_nontrivial"] = len(lines)
    rep.cov["distribution"] = {"state_store_steps_replayed": pool_lines, "concurrent_parses": parses, "solo_parses_compared_with_model": len(solo),
                               "variants": sorted(hosts), "repetitions": reps, "race_detector": "go build -race"}
    rep.samples.append({"case": lines[0][:400] if lines else ""})
