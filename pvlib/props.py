"""Property registry and the generic decision procedure:
  1. proof obligations (coq/Props/Cxx.v) re-checked by coqc,
  2. correspondence model <-> implementation on generated cases (projected observables),
  3. property oracle on the implementation's observations (search for a failing input),
  4. known-finding witnesses replayed,
  5. evidence + verdict."""
import os, json, sys, time, traceback, collections, re
from . import common as C
from . import corr, proofs

REGISTRY = {}

class Ctx:
    def __init__(self, prop, tier, seed):
        self.prop, self.tier, self.seed = prop, tier, seed
        self.sc = C.Scratch()
        self._pigeon = self._tables = self._gen = None
        self._hosts = {}
        self.driver = None
    def pigeon(self):
        if not self._pigeon:
            self._pigeon = C.build_pigeon(self.sc)
        return self._pigeon
    def hosts(self, variants=C.ALL_VARIANTS):
        need = [t for t in variants if C.variant_name(t) not in self._hosts]
        if need:
            self._hosts.update(C.build_hosts(self.sc, self.pigeon(), need))
        return self._hosts
    def gen(self):
        if not self._gen:
            self._gen = C.build_harness_tool(self.sc, "gen")
        return self._gen
    def tables(self):
        if not self._tables:
            self._tables = C.unicode_tables(self.sc)
        return self._tables
    def model(self):
        if not self.driver:
            self.driver = C.ocaml_driver()
        return self.driver
    def q(self, quick, thorough):
        return thorough if self.tier == "thorough" else quick

class Report:
    def __init__(self):
        self.violations = []      # dicts: what, payload, found (bool)
        self.known = []           # strings
        self.cov = collections.OrderedDict()
        self.samples = []
        self.notes = []
    def violation(self, what, payload, found=True):
        self.violations.append({"what": what, "payload": payload, "found": found})

def prop(name, **kw):
    def deco(fn):
        REGISTRY[name] = dict(fn=fn, **kw)
        return fn
    return deco

# ------------------------------------------------------------------ generic PATH-R
def nontrivial_key(case_line, obs):
    """A case is non-trivial when the parse evaluated more than 3 expressions and
    the input is non-empty; distinctness is by (grammar text, input, options)."""
    try:
        cnt = int(obs.get("cnt", "0"))
    except ValueError:
        cnt = 0
    if cnt <= 3:
        return None
    i = case_line.index("(tmpl ")
    return hash(case_line[i:])

QUIRKS = ["lit_eof", "stale_ctx", "recover_scope", "memo_nocharge", "memo_label", "lr_memo_state", "memo_expected"]

def quirk_bits(off=None):
    off = off or ()
    if isinstance(off, str):
        off = (off,)
    return "".join("0" if q in off else "1" for q in QUIRKS)

def quirk_subsets():
    import itertools
    for k in range(1, len(QUIRKS) + 1):
        for sub in itertools.combinations(QUIRKS, k):
            yield sub

def norm_field(f, v):
    """maxfail is printed as pos:invertflag:[expected]; the flag is not part of any claim."""
    if f == "maxfail" and v:
        parts = v.split(":")
        if len(parts) >= 3:
            return parts[0] + ":" + ":".join(parts[2:])
    return v

def strip_pred_ctx(trace):
    """code-block trace with c.text / c.pos of predicate and state blocks blanked (those are
    C02's business: the stale-context finding)."""
    if not trace:
        return trace
    out = []
    for ev in trace.split(";"):
        if ev and ev[0] in "PNS":
            parts = ev.split(":")
            parts = [p for p in parts if not (p.startswith("t=") or p.startswith("p="))]
            ev = ":".join(parts)
        out.append(ev)
    return ";".join(out)

NO_MATCH_HEX = "no match found".encode().hex()

def getf(obs, f):
    if f == "trace_noctx":
        return strip_pred_ctx(obs.get("trace"))
    if f == "cberrs":
        # the error list without the final "no match found" report: errors returned by code blocks, panics,
        # invalid-encoding and budget errors
        return ",".join(e for e in (obs.get("errs") or "").split(",") if e and NO_MATCH_HEX not in e)
    return norm_field(f, obs.get(f))

def same_on(fields, a, b):
    ao, bo = a.get("out"), b.get("out")
    if ao in corr.NONTERM or bo in corr.NONTERM:
        return ao in corr.NONTERM and bo in corr.NONTERM
    for f in fields:
        if getf(a, f) != getf(b, f):
            return False
    return True

def first_diff(fields, a, b):
    ao, bo = a.get("out"), b.get("out")
    if ao in corr.NONTERM or bo in corr.NONTERM:
        return "out"
    for f in fields:
        if getf(a, f) != getf(b, f):
            return f
    return None

def default_scope(case_line):
    """Cases inside the scope of the refinement theorem (parse_refines_rparse), read
    generously: Memoize off (or a template without memoisation), no left-recursive rules."""
    o = corr.case_opts(case_line)
    t = corr.case_tmpl(case_line)
    if o["memo"] and not t[0]:
        return False
    import re
    if re.search(r"\(rule x[0-9a-f]* x[0-9a-f]* (1 [01]|[01] 1) ", case_line):
        return False
    return True

def run_corr(ctx, rep, profiles, fields, oracle=None, classify=None, timeout_ms=4000,
             ref_fields=None, scope=default_scope, known_quirks=None, foreign_quirks=None, derive=None, spec_flag="-ref", spec_name="Ref", ref_skip=None,
             emitted=None, emitted_fields=None, api=None):
    """profiles: list of (profile name, n_quick, n_thorough).
    fields: observables on which the model (faithful quirks) and the implementation must agree.
    ref_fields: observables on which the implementation must agree with the specification Ref
      on the cases selected by scope(); a disagreement is attributed to a quirk when the model
      with exactly that quirk switched off agrees with Ref (and is then a known finding only if
      known_quirks lists it), otherwise it is a violation.
    oracle(case_line, impl_obs, model_obs) -> None | str : property-specific check on the implementation.
    classify(case_line, impl_obs, model_obs, problem) -> finding id | None.
    derive(lines) -> extra case lines (twins) appended to the run.
    emitted: (n_quick, n_thorough) grammars per profile that also go, as text, through the real front-end and builder
      (corr.run_emitted): the emitted parser must behave like the host whose grammar tables the harness lowered itself
      (and so like the model) on emitted_fields (default: fields)."""
    hosts = ctx.hosts()
    tables = ctx.tables()
    driver = ctx.model()
    known_quirks = known_quirks or {}
    total = 0
    nontriv = set()
    dist = collections.Counter()
    known_hits = collections.Counter()
    all_impl, all_lines = {}, {}
    for (pname, nq, nt) in profiles:
        n = ctx.q(nq, nt)
        lines, pretty = corr.generate(ctx.sc, ctx.gen(), pname, ctx.seed, n)
        if derive:
            lines = lines + derive(lines)
        model = corr.run_model(ctx.sc, driver, tables, lines)
        # cases the model cannot evaluate within its per-case time limit (its fuel bounds depth, not work) are left out
        slow = {cid for cid, o in model.items() if o.get("out") == "model-timeout"}
        if slow:
            dist["model_time_limit (skipped)"] += len(slow)
            lines = [l for l in lines if corr.case_id(l) not in slow]
        diverging = {cid for cid, o in model.items() if o.get("out") in corr.NONTERM}
        fast = [l for l in lines if corr.case_id(l) not in diverging]
        slow = [l for l in lines if corr.case_id(l) in diverging]
        impl = corr.run_impl(ctx.sc, hosts, fast, timeout_ms)
        if slow:
            impl.update(corr.run_impl(ctx.sc, hosts, slow, 700))
        by_id = {corr.case_id(l): l for l in lines}
        rep.impl_live = impl          # for classify functions that look at twins of a case
        all_impl.update(impl)
        all_lines.update(by_id)
        total += len(lines)
        for cid, l in by_id.items():
            io = impl.get(cid, {})
            k = nontrivial_key(l, io)
            if k is not None:
                nontriv.add(k)
            dist["out:" + io.get("out", "?").split(":")[0]] += 1
            dist["variant:" + C.variant_name(corr.case_tmpl(l))] += 1
            if io.get("errs"):
                dist["with_errors"] += 1
            if io.get("val", "nil") != "nil":
                dist["value_non_nil"] += 1
            if io.get("trace"):
                dist["with_code_blocks_run"] += 1
        # the specification on the cases in its scope
        ref, inscope, bad_ref = {}, [], set()
        if ref_fields:
            inscope = [l for l in lines if scope(l)]
            ref = corr.run_model(ctx.sc, driver, tables, inscope, extra=spec_flag, tag="ref")
            rep.spec_live = ref
            dist["compared_with_Ref"] += len(inscope)
            slow_ref = {cid for cid, o in ref.items() if o.get("out") == "model-timeout"}
            if slow_ref:
                dist["specification_time_limit (skipped)"] += len(slow_ref)
                inscope = [l for l in inscope if corr.case_id(l) not in slow_ref]
            if ref_skip:
                keep = [l for l in inscope if not ref_skip(l, impl.get(corr.case_id(l), {}), ref.get(corr.case_id(l), {}))]
                dist["outside_the_specification (skipped)"] += len(inscope) - len(keep)
                inscope = keep
            bad_ref = {corr.case_id(l) for l in inscope
                       if not same_on(ref_fields, impl.get(corr.case_id(l), {}), ref.get(corr.case_id(l), {}))}
        # (1) correspondence model(faithful) <-> implementation on the projected fields
        for cid, l in by_id.items():
            m, i = model.get(cid, {}), impl.get(cid, {})
            if not same_on(fields, m, i):
                f = first_diff(fields, m, i)
                problem = "model/implementation disagree on %s" % f
                q = classify(l, i, m, problem) if classify else None
                if q:
                    known_hits[q] += 1
                    continue
                # a failing input is in hand when the implementation also departs from the specification here
                found = (cid in bad_ref) or bool(oracle and oracle(l, i, m))
                rep.violation(problem, {"case": l, "field": f, "model": m, "impl": i, "ref": ref.get(cid), "grammars": pretty_of(pretty, cid)},
                              found=found)
        # (2) the implementation against the specification
        if ref_fields:
            bad = [l for l in inscope if corr.case_id(l) in bad_ref]
            attributed = {}
            todo = list(bad)
            for sub in quirk_subsets():          # smallest set of repaired quirks that explains the difference
                if not todo:
                    break
                mq = corr.run_model(ctx.sc, driver, tables, todo, extra="-quirks " + quirk_bits(off=sub), tag="q_" + "_".join(sub))
                rest = []
                for l in todo:
                    cid = corr.case_id(l)
                    if same_on(ref_fields, mq.get(cid, {}), ref.get(cid, {})):
                        attributed[cid] = sub
                    else:
                        rest.append(l)
                todo = rest
            for l in bad:
                cid = corr.case_id(l)
                i, r = impl.get(cid, {}), ref.get(cid, {})
                f = first_diff(ref_fields, i, r)
                q = attributed.get(cid)
                if q and all(x in known_quirks for x in q):
                    for x in q:
                        known_hits[known_quirks[x]] += 1
                    if not hasattr(rep, "attributed_cases"):
                        rep.attributed_cases = set()
                    rep.attributed_cases.add(cid)
                    continue
                if q and foreign_quirks and all(x in known_quirks or x in foreign_quirks for x in q):
                    # explained by a recorded finding of another property (reported by that property's check)
                    dist["explained_by_a_finding_of_another_property:" + ",".join(sorted(foreign_quirks.get(x, known_quirks.get(x, x)) for x in q))] += 1
                    for x in q:
                        if x in known_quirks:
                            known_hits[known_quirks[x]] += 1
                    continue
                q2 = classify(l, i, model.get(cid, {}), "implementation/specification disagree on %s" % f) if classify else None
                if q2:
                    known_hits[q2] += 1
                    continue
                rep.violation("implementation and specification (Ref) disagree on %s%s" % (f, (" [quirks %s]" % ",".join(q)) if q else ""),
                              {"case": l, "field": f, "ref": r, "impl": i, "model": model.get(cid), "attributed_quirk": q,
                               "grammars": pretty_of(pretty, cid)}, found=True)
        # (1b) the emitted path: the same cases on parsers the real command emitted for their grammar text
        if emitted:
            em, problems, nbuilt = corr.run_emitted(ctx.sc, ctx.pigeon(), pretty, lines, ctx.q(*emitted), timeout_ms)
            dist["emitted:grammars_built"] += nbuilt - len(problems)
            dist["emitted:cases"] += len(em)
            for gid, (kind, msg) in problems.items():
                gl = [l for l in lines if corr.group_id(corr.case_id(l)) == gid]
                wf = all("(tmpl" in l for l in gl)
                if kind == "rejected":
                    # left-recursive grammars on templates without -support-left-recursion are generated on purpose (budget cases)
                    if "left recursion" in msg or "left recursive" in msg:
                        dist["emitted:rejected_left_recursion (skipped)"] += 1
                        continue
                    rep.violation("pigeon rejects the text of a generated grammar: %s" % msg[:200],
                                  {"grammar": open(os.path.join(corr.emit_dir(pretty), gid + ".peg")).read(), "stderr": msg}, found=True)
                else:
                    rep.violation("the parser pigeon emits for a generated grammar does not compile: %s" % msg[:200],
                                  {"grammar": open(os.path.join(corr.emit_dir(pretty), gid + ".peg")).read(), "output": msg}, found=True)
            ef = emitted_fields or fields
            for cid, e in em.items():
                i = impl.get(cid, {})
                if e.get("out") in corr.NONTERM or i.get("out") in corr.NONTERM:
                    continue
                if not same_on(ef, e, i):
                    f = first_diff(ef, e, i)
                    found = cid in ref and not same_on([x for x in (ref_fields or []) if x in ef] or ["out", "val"], e, ref.get(cid, {}))
                    rep.violation("the parser emitted by the real front-end and builder for the grammar text differs on %s from the parser whose tables the harness lowered (= the model)" % f,
                                  {"case": by_id.get(cid), "field": f, "emitted": e, "tables": i, "ref": ref.get(cid),
                                   "grammar_text": open(os.path.join(corr.emit_dir(pretty), corr.group_id(cid) + ".peg")).read()}, found=found)
        # (1c) the public entry functions: Parse / ParseReader / ParseFile must return what newParser + parse return
        if api:
            sample = [l for l in lines if "~" not in corr.case_id(l) and impl.get(corr.case_id(l), {}).get("out") not in corr.NONTERM][: ctx.q(*api)]
            hosts_api = {k: v + " -api" for k, v in hosts.items()}
            ap = corr.run_impl(ctx.sc, hosts_api, sample, timeout_ms)
            dist["public_entry_functions:cases"] += len(ap)
            for l in sample:
                cid = corr.case_id(l)
                a, i = ap.get(cid, {}), impl.get(cid, {})
                if not a or a.get("out") in corr.NONTERM:
                    continue
                if not same_on(["out", "val", "errs"], a, i):
                    rep.violation("Parse / ParseReader / ParseFile return something else than the parser they wrap (%s)" % first_diff(["out", "val", "errs"], a, i),
                                  {"case": l, "public_function": a, "newParser_parse": i, "model": model.get(cid)}, found=True)
        # (3) property oracle on every case
        if oracle:
            for cid, l in by_id.items():
                msg = oracle(l, impl.get(cid, {}), model.get(cid, {}))
                if msg:
                    q = classify(l, impl.get(cid, {}), model.get(cid, {}), msg) if classify else None
                    if q:
                        known_hits[q] += 1
                        continue
                    rep.violation(msg, {"case": l, "impl": impl.get(cid), "model": model.get(cid),
                                        "grammars": pretty_of(pretty, cid)}, found=True)
        if len(rep.samples) < 3 and lines:
            for l in lines[:2]:
                cid = corr.case_id(l)
                rep.samples.append({"case": l[:700], "impl": impl.get(cid), "profile": pname,
                                    "grammar": pretty_of(pretty, cid)})
    rep.cov["evaluations"] = rep.cov.get("evaluations", 0) + total
    rep.cov["distinct_nontrivial"] = rep.cov.get("distinct_nontrivial", 0) + len(nontriv)
    d0 = rep.cov.setdefault("distribution", {})
    for k, v in dist.items():
        d0[k] = d0.get(k, 0) + v
    if known_hits:
        d1 = rep.cov.setdefault("cases_attributed_to_known_findings", {})
        for k, v in known_hits.items():
            d1[k] = d1.get(k, 0) + v
    rep.impl_obs = all_impl
    rep.case_lines = all_lines
    return rep

def pretty_of(pretty_path, cid):
    key = "## " + cid.rsplit("/", 1)[0] + "/"
    out, on = [], False
    try:
        with open(pretty_path) as f:
            for line in f:
                if line.startswith("## "):
                    on = line.startswith(key)
                    if on:
                        out.append(line.rstrip())
                    continue
                if on:
                    out.append(line.rstrip())
    except OSError:
        pass
    return out

# ------------------------------------------------------------------ driver
def run_property(name, tier, seed, replay=None):
    t0 = time.time()
    ent = REGISTRY[name]
    import glob
    for old in glob.glob(os.path.join(C.VERIF, "evidence", "replay", name + "-*.json")):
        os.remove(old)
    ctx = Ctx(name, tier, seed)
    rep = Report()
    rc = 0
    try:
        pr = proofs.check_props(name)
        rep.cov["obligations"] = pr["obligations"]
        rep.cov["discharged"] = pr["discharged"]
        rep.cov["theorems"] = pr["theorems"]
        rep.cov["axioms_reported_by_Print_Assumptions"] = pr["axioms"]
        rep.cov["checker_cmd"] = "make -C /verif coq && cd /verif/coq && coqc -Q . PV Props/%s.v" % name
        rep.cov["trusted_base"] = proofs.TRUSTED_BASE + ent.get("trusted", [])
        ent["fn"](ctx, rep)
        if not pr["ok"]:
            found = any(v["found"] for v in rep.violations)
            if not found:
                rep.violation("proof obligation no longer checks: " + (pr["log"][-600:] or "?"),
                              {"theorems": pr["theorems"], "log": pr["log"][-3000:]}, found=False)
        # known findings
        kf = [k for k in C.known_findings().get("findings", []) if k["property"] == name and k.get("status") == "known"]
        for k in kf:
            ok = ent.get("replay_known", lambda ctx, k: True)(ctx, k)
            if ok:
                rep.known.append("KNOWN-FINDING: property=%s %s: %s" % (name, k["id"], k["what_fails"]))
            else:
                rep.violation("known finding %s no longer reproduces: the model (faithful quirk setting) and the implementation differ on its witness" % k["id"],
                              {"finding": k}, found=False)
    except Exception as e:
        traceback.print_exc()
        rep.violation("check machinery error: %r" % (e,), {"trace": traceback.format_exc()[-3000:]}, found=False)
    finally:
        ctx.sc.cleanup()
    for line in rep.known:
        print(line)
    # de-duplicate violations by message
    seen = set()
    n = 0
    # violations that come with a failing input first (the report is capped)
    for v in sorted(rep.violations, key=lambda x: not x["found"]):
        key = v["what"][:120]
        if key in seen and n >= 5:
            continue
        seen.add(key)
        n += 1
        path = C.write_replay(name, seed, n, {"property": name, "what": v["what"], **v["payload"]})
        print("VIOLATION property=%s replay=%s%s" % (name, path, "" if v["found"] else " no-failing-input-found"))
        if n >= 8:
            break
    if rep.violations:
        rc = 1
    cov = dict(rep.cov)
    cov.setdefault("evaluations", 0)
    cov.setdefault("distinct_nontrivial", 0)
    cov["rule"] = ent.get("rule", "cases are generated from one PRNG seed per grammar (VERIF_SEED, index); a case is non-trivial when the parse evaluated more than 3 expressions; distinct by (template variant, options, grammar, code blocks, input)")
    cov["samples"] = rep.samples[:5] or [{"note": "no sampled cases in this run"}]
    cov["known_findings_reported"] = rep.known
    cov["notes"] = rep.notes
    C.write_evidence(name, tier, seed, cov, time.time() - t0, len(rep.violations),
                     ent.get("assumptions", []) + ["see coverage.trusted_base"])
    return rc

from . import runtime_props, gen_props, front_props, conc_props, tool_props  # noqa: E402,F401  (register properties)
