"""Property registry and the generic decision procedure:
  1. proof obligations (coq/Props/Cxx.v) re-checked by coqc,
  2. correspondence model <-> implementation on generated cases (projected observables),
  3. property oracle on the implementation's observations (search for a failing input),
  4. known-finding witnesses replayed,
  5. evidence + verdict."""
import json, os, sys, time, traceback, collections, re
from . import common as C
from . import corr, proofs

REGISTRY = {}

class Ctx:
    def __init__(self, prop, tier, seed):
        self.prop, self.tier, self.seed = prop, tier, seed
        self.sc = C.Scratch()
        self._pigeon = self._tables = self._gen = None
        self._hosts = {}
        self.driver = None
    def pigeon(self):
        if not self._pigeon:
            self._pigeon = C.build_pigeon(self.sc)
        return self._pigeon
    def hosts(self, variants=C.ALL_VARIANTS):
        need = [t for t in variants if C.variant_name(t) not in self._hosts]
        if need:
            self._hosts.update(C.build_hosts(self.sc, self.pigeon(), need))
        return self._hosts
    def gen(self):
        if not self._gen:
            self._gen = C.build_harness_tool(self.sc, "gen")
        return self._gen
    def tables(self):
        if not self._tables:
            self._tables = C.unicode_tables(self.sc)
        return self._tables
    def model(self):
        if not self.driver:
            self.driver = C.ocaml_driver()
        return self.driver
    def q(self, quick, thorough):
        return thorough if self.tier == "thorough" else quick

class Report:
    def __init__(self):
        self.violations = []      # dicts: what, payload, found (bool)
        self.known = []           # strings
        self.cov = collections.OrderedDict()
        self.samples = []
        self.notes = []
    def violation(self, what, payload, found=True):
        self.violations.append({"what": what, "payload": payload, "found": found})

def prop(name, **kw):
    def deco(fn):
        REGISTRY[name] = dict(fn=fn, **kw)
        return fn
    return deco

# ------------------------------------------------------------------ generic PATH-R
def nontrivial_key(case_line, obs):
    """A case is non-trivial when the parse evaluated more than 3 expressions and
    the input is non-empty; distinctness is by (grammar text, input, options)."""
    try:
        cnt = int(obs.get("cnt", "0"))
    except ValueError:
        cnt = 0
    if cnt <= 3:
        return None
    i = case_line.index("(tmpl ")
    return hash(case_line[i:])

def run_corr(ctx, rep, profiles, fields, oracle=None, classify=None, timeout_ms=4000):
    """profiles: list of (profile name, n_quick, n_thorough).  fields: projected observables.
    oracle(case_line, impl_obs, model_obs) -> None | str (property fails on impl for this case).
    classify(case_line, impl_obs, model_obs, problem) -> quirk id | None (attribution to a known finding)."""
    hosts = ctx.hosts()
    tables = ctx.tables()
    driver = ctx.model()
    total = 0
    nontriv = set()
    dist = collections.Counter()
    known_hits = collections.Counter()
    for (pname, nq, nt) in profiles:
        n = ctx.q(nq, nt)
        lines, pretty = corr.generate(ctx.sc, ctx.gen(), pname, ctx.seed, n)
        model = corr.run_model(ctx.sc, driver, tables, lines)
        impl = corr.run_impl(ctx.sc, hosts, lines, timeout_ms)
        by_id = {corr.case_id(l): l for l in lines}
        total += len(lines)
        for cid, l in by_id.items():
            io = impl.get(cid, {})
            k = nontrivial_key(l, io)
            if k is not None:
                nontriv.add(k)
            dist["out:" + io.get("out", "?").split(":")[0]] += 1
            dist["variant:" + C.variant_name(corr.case_tmpl(l))] += 1
            if io.get("errs"):
                dist["with_errors"] += 1
            if io.get("val", "nil") != "nil":
                dist["value_non_nil"] += 1
            if io.get("trace"):
                dist["with_code_blocks_run"] += 1
        # correspondence on projected fields
        for (cid, field, mv, iv) in corr.compare(model, impl):
            if field not in fields and field not in ("out", "missing"):
                # re-compare only the projected fields
                m, i = model[cid], impl.get(cid, {})
                bad = [f for f in fields if m.get(f) != i.get(f)]
                if not bad:
                    continue
                field, mv, iv = bad[0], m.get(bad[0]), i.get(bad[0])
            l = by_id[cid]
            problem = "model/implementation disagree on %s" % field
            q = classify(l, impl.get(cid, {}), model.get(cid, {}), problem) if classify else None
            if q:
                known_hits[q] += 1
                continue
            rep.violation(problem, {"case": l, "field": field, "model": model.get(cid), "impl": impl.get(cid),
                                    "grammars": pretty_of(pretty, cid)},
                          found=bool(oracle and oracle(l, impl.get(cid, {}), model.get(cid, {}))))
        # property oracle on every case
        if oracle:
            for cid, l in by_id.items():
                msg = oracle(l, impl.get(cid, {}), model.get(cid, {}))
                if msg:
                    q = classify(l, impl.get(cid, {}), model.get(cid, {}), msg) if classify else None
                    if q:
                        known_hits[q] += 1
                        continue
                    rep.violation(msg, {"case": l, "impl": impl.get(cid), "model": model.get(cid),
                                        "grammars": pretty_of(pretty, cid)}, found=True)
        if not rep.samples and lines:
            for l in lines[:3]:
                cid = corr.case_id(l)
                rep.samples.append({"case": l[:600], "impl": impl.get(cid), "profile": pname})
    rep.cov["evaluations"] = rep.cov.get("evaluations", 0) + total
    rep.cov["distinct_nontrivial"] = rep.cov.get("distinct_nontrivial", 0) + len(nontriv)
    rep.cov.setdefault("distribution", {}).update(dist)
    if known_hits:
        rep.cov.setdefault("cases_attributed_to_known_findings", {}).update(known_hits)
    return rep

def pretty_of(pretty_path, cid):
    key = "## " + cid.rsplit("/", 1)[0] + "/"
    out, on = [], False
    try:
        with open(pretty_path) as f:
            for line in f:
                if line.startswith("## "):
                    on = line.startswith(key)
                    if on:
                        out.append(line.rstrip())
                    continue
                if on:
                    out.append(line.rstrip())
    except OSError:
        pass
    return out

# ------------------------------------------------------------------ driver
def run_property(name, tier, seed, replay=None):
    t0 = time.time()
    ent = REGISTRY[name]
    ctx = Ctx(name, tier, seed)
    rep = Report()
    rc = 0
    try:
        pr = proofs.check_props(name)
        rep.cov["obligations"] = pr["obligations"]
        rep.cov["discharged"] = pr["discharged"]
        rep.cov["theorems"] = pr["theorems"]
        rep.cov["axioms_reported_by_Print_Assumptions"] = pr["axioms"]
        rep.cov["checker_cmd"] = "make -C /verif coq && cd /verif/coq && coqc -Q . PV Props/%s.v" % name
        rep.cov["trusted_base"] = proofs.TRUSTED_BASE + ent.get("trusted", [])
        ent["fn"](ctx, rep)
        if not pr["ok"]:
            found = any(v["found"] for v in rep.violations)
            if not found:
                rep.violation("proof obligation no longer checks: " + (pr["log"][-600:] or "?"),
                              {"theorems": pr["theorems"], "log": pr["log"][-3000:]}, found=False)
        # known findings
        kf = [k for k in C.known_findings().get("findings", []) if k["property"] == name and k.get("status") == "known"]
        for k in kf:
            ok = ent.get("replay_known", lambda ctx, k: True)(ctx, k)
            if ok:
                rep.known.append("KNOWN-FINDING: property=%s %s: %s" % (name, k["id"], k["what_fails"]))
            else:
                rep.violation("known finding %s no longer reproduces: the model (faithful quirk setting) and the implementation differ on its witness" % k["id"],
                              {"finding": k}, found=False)
    except Exception as e:
        traceback.print_exc()
        rep.violation("check machinery error: %r" % (e,), {"trace": traceback.format_exc()[-3000:]}, found=False)
    finally:
        ctx.sc.cleanup()
    for line in rep.known:
        print(line)
    # de-duplicate violations by message
    seen = set()
    n = 0
    for v in rep.violations:
        key = v["what"][:120]
        if key in seen and n >= 5:
            continue
        seen.add(key)
        n += 1
        path = C.write_replay(name, seed, n, {"property": name, "what": v["what"], **v["payload"]})
        print("VIOLATION property=%s replay=%s%s" % (name, path, "" if v["found"] else " no-failing-input-found"))
        if n >= 8:
            break
    if rep.violations:
        rc = 1
    cov = dict(rep.cov)
    cov.setdefault("evaluations", 0)
    cov.setdefault("distinct_nontrivial", 0)
    cov["rule"] = ent.get("rule", "cases are generated from one PRNG seed per grammar (VERIF_SEED, index); a case is non-trivial when the parse evaluated more than 3 expressions; distinct by (template variant, options, grammar, code blocks, input)")
    cov["samples"] = rep.samples[:5] or [{"note": "no sampled cases in this run"}]
    cov["known_findings_reported"] = rep.known
    cov["notes"] = rep.notes
    C.write_evidence(name, tier, seed, cov, time.time() - t0, len(rep.violations),
                     ent.get("assumptions", []) + ["see coverage.trusted_base"])
    return rc

from . import runtime_props  # noqa: E402,F401  (registers properties)
