"""Properties decided on the generator-side model (Gen): C15 (Basic-Latin table), ..."""
import os, re, subprocess, collections
from . import common as C
from . import corr
from .props import prop, same_on

def rune_bytes(r):
    return chr(r).encode("utf-8")

# ------------------------------------------------------------------ C15
def replay_c15_known(ctx, k):
    return getattr(ctx, "c15_probe_disagrees", False)

@prop("C15", replay_known=replay_c15_known)
def c15(ctx, rep):
    tool = C.build_harness_tool(ctx.sc, "bltool")
    n = ctx.q(150, 3000)
    p = C.run([tool, "-seed", str(ctx.seed), "-n", str(n)], timeout=600)
    blf = ctx.sc.path("bl.txt")
    with open(blf, "w") as f:
        f.write(p.stdout)
    q = subprocess.run([ctx.model(), "-tables", ctx.tables(), "-bl", blf], stdout=subprocess.PIPE, text=True, timeout=1200)
    go = [l.split("|") for l in p.stdout.splitlines()]
    mo = [l.split() for l in q.stdout.splitlines()]
    if len(go) != len(mo):
        rep.violation("model produced %d tables for %d classes" % (len(mo), len(go)), {}, found=False)
        return
    known = 0
    disagree = {}
    for g, m in zip(go, mo):
        raw = bytes.fromhex(g[0]).decode("utf-8", "replace")
        if g[6] != m[1]:
            # the model of BasicLatinLookup no longer computes what builder.BasicLatinLookup computes
            diff = [i for i in range(128) if g[6][i] != m[1][i]]
            # search for a failing input: a rune on which the real table's decision differs from the general procedure
            # (slow_decide, proved equal to class_decide and tied to the run-time by the C01 class correspondence)
            inv = g[5] == "1"
            bad = [i for i in diff if ((g[6][i] == "1") != inv) != (m[3][i] == "1")] if len(m) > 3 else []
            if bad and g[4] != "1":
                rep.violation("class %s: builder.BasicLatinLookup decides rune %d differently from the general matching procedure" % (raw, bad[0]),
                              {"class": raw, "rune": bad[0], "input_hex": "%02x" % bad[0], "go_table": g[6], "model_table": m[1],
                               "general_procedure": m[3], "how": "generate a parser for this class with and without -optimize-basic-latin and parse the one-byte input"},
                              found=True)
            else:
                rep.violation("Gen.basic_latin (model) and builder.BasicLatinLookup disagree on class %s at runes %s" % (raw, diff[:8]),
                              {"class": raw, "go_table": g[6], "model_table": m[1], "theorem": "C15 table_eq_slow_nofold is about the model table; correspondence Lower.basic_latin ~ builder.BasicLatinLookup broken"}, found=False)
        if m[2] == "0":
            disagree[g[0]] = raw
            if g[4] == "1":
                known += 1
            else:
                rep.violation("class %s without the i flag: the Basic-Latin table disagrees with the general procedure" % raw,
                              {"class": raw, "table": g[6]}, found=True)
    ctx.c15_probe_disagrees = bytes("[@-Z]i", "utf-8").hex() in disagree
    rep.cov["classes"] = len(go)
    rep.cov["classes_with_i_where_table_differs (known finding)"] = known
    # run-time decisions of real parsers with and without -optimize-basic-latin, all 128 runes + non-ASCII + invalid bytes
    inputs = [bytes([i]) for i in range(128)] + [rune_bytes(r) for r in (0xe9, 0x212a, 0x3a3, 0x1f600, 0xfffd)] + [b"\xff", b"\xc3", b""]
    sel = go[: ctx.q(70, 400)]
    lines = []
    nid = 0
    for ci, g in enumerate(sel):
        for bl in (0, 1):
            table = " ".join(g[6]) if bl else ""
            cls = "(cls 1 x%s (chars %s) (ranges %s) (classes %s) %s %s (table%s))" % (
                g[0], g[7], g[8].strip(), " ".join("x" + c for c in g[3].split()), g[4], g[5], (" " + table) if table else "")
            for ii, inp in enumerate(inputs):
                lines.append("(case c15-%d-%d/%d (tmpl 0 0 0 %d) (opts 0 0 0 1 1 0 x x) (rules (rule x53 x 0 0 %s)) (blocks) (input x%s))"
                             % (ci, bl, ii, bl, cls, inp.hex()))
    hosts = ctx.hosts([(False, False, False, False), (False, False, False, True)])
    model = corr.run_model(ctx.sc, ctx.model(), ctx.tables(), lines, tag="c15model")
    impl = corr.run_impl(ctx.sc, hosts, lines, 3000)
    unexplained = 0
    for ci, g in enumerate(sel):
        raw = bytes.fromhex(g[0]).decode("utf-8", "replace")
        for ii, inp in enumerate(inputs):
            a_id, b_id = "c15-%d-0/%d" % (ci, ii), "c15-%d-1/%d" % (ci, ii)
            for cid in (a_id, b_id):
                if not same_on(["out", "val", "errs"], model.get(cid, {}), impl.get(cid, {})):
                    rep.violation("model/implementation disagree on a class decision", {"class": raw, "input": inp.hex(),
                                  "model": model.get(cid), "impl": impl.get(cid)}, found=False)
            if not same_on(["out", "val"], impl.get(a_id, {}), impl.get(b_id, {})):
                if g[0] in disagree and g[4] == "1":
                    continue        # the known finding: i flag
                unexplained += 1
                rep.violation("-optimize-basic-latin changes the decision of class %s on input %s" % (raw, inp.hex()),
                              {"class": raw, "input": inp.hex(), "plain": impl.get(a_id), "basic_latin": impl.get(b_id)}, found=True)
    rep.cov["evaluations"] = len(lines)
    rep.cov["distinct_nontrivial"] = len(sel) * len(inputs)
    rep.cov["runtime_decision_pairs"] = len(sel) * len(inputs)
    rep.samples.append({"class": bytes.fromhex(sel[0][0]).decode("utf-8", "replace"), "go_table": sel[0][6]})
    rep.samples.append({"case": lines[1][:400]})

# ------------------------------------------------------------------ C07 / C19 (PrepareGrammar)
def model_prep_variant(ctx, f, pq):
    q = subprocess.run([ctx.model(), "-pq", pq, "-prep", f], stdout=subprocess.PIPE, stderr=subprocess.PIPE, text=True, timeout=3000)
    out = {}
    for l in q.stdout.splitlines():
        parts = l.split("|")
        out[parts[0]] = set(parts[1].split(";"))
    return out

def run_prep(ctx, profile, n, runs):
    tool = C.build_harness_tool(ctx.sc, "preptool")
    p = C.run([tool, "-profile", profile, "-seed", str(ctx.seed), "-n", str(n), "-runs", str(runs)], timeout=3000)
    f = ctx.sc.path("prep_%s.txt" % profile)
    with open(f, "w") as fh:
        fh.write(p.stdout)
    q = subprocess.run([ctx.model(), "-prep", f], stdout=subprocess.PIPE, stderr=subprocess.PIPE, text=True, timeout=3000)
    if q.returncode != 0:
        raise RuntimeError("model -prep failed: " + q.stderr[-1000:])
    real = {}
    for l in p.stdout.splitlines():
        parts = l.split("|")
        real[parts[0]] = {"ast": parts[1], "outs": set(parts[2].split(";")), "peg": parts[3].replace("\x1f", "\n")}
    model = {}
    for l in q.stdout.splitlines():
        parts = l.split("|")
        model[parts[0]] = {"outs": set(parts[1].split(";")), "nopred": "nopred=1" in parts[2], "pred": " pred=1" in parts[2],
                           "throw": "throw=1" in parts[2]}
    return real, model

def pigeon_verdict(ctx, peg, flags=()):
    """exit status and stderr of the real tool on a grammar text"""
    src = "{\npackage main\n}\n" + peg
    p = subprocess.run([ctx.pigeon(), "-o", os.devnull] + list(flags), input=src, stdout=subprocess.PIPE,
                       stderr=subprocess.PIPE, text=True, timeout=120)
    return p.returncode, p.stderr

def replay_c07_known(ctx, k):
    rc, err = pigeon_verdict(ctx, k["grammar"])
    return rc == 0          # still accepted without -support-left-recursion

@prop("C07", replay_known=replay_c07_known)
def c07(ctx, rep):
    real, model = run_prep(ctx, "c07", ctx.q(400, 8000), ctx.q(12, 60))
    allalts = model_prep_variant(ctx, ctx.sc.path("prep_c07.txt"), "000")     # the analysis with every alternative visited
    known = {k["quirk"]: k["id"] for k in C.known_findings().get("findings", []) if k["property"] == "C07" and k.get("status") == "known"}
    hits = collections.Counter()
    accepted = []
    for gid, r in real.items():
        m = model.get(gid)
        if m is None:
            rep.violation("model produced no result for a grammar", {"grammar": r["peg"]}, found=False)
            continue
        if not r["outs"] <= m["outs"]:
            rep.violation("builder.PrepareGrammar and Gen.prepare (all iteration orders) disagree",
                          {"grammar": r["peg"], "real": sorted(r["outs"]), "model": sorted(m["outs"])}, found=False)
        rejected = any(("have=1" in o) or o == "noleader" for o in r["outs"])
        if not rejected:
            accepted.append(gid)
        if rejected and not m["pred"]:
            rep.violation("a grammar without a left-recursive cycle is rejected",
                          {"grammar": r["peg"], "real": sorted(r["outs"])}, found=True)
        short = all(("have=1" in o) or o == "noleader" for o in allalts.get(gid, {"x"}))
        if not rejected and m["pred"] and short and "choice_short" in known:
            hits[known["choice_short"]] += 1
        elif not rejected and m["nopred"]:
            if "nullable_inner" in known:
                hits[known["nullable_inner"]] += 1
            else:
                rep.violation("left recursion across a nullable prefix inside ?, * or + is not detected: the grammar is accepted without -support-left-recursion",
                              {"grammar": r["peg"], "real": sorted(r["outs"]), "spec": "lr_cycle = true"}, found=True)
        elif not rejected and m["throw"] and not m["pred"]:
            if "throw_first" in known:
                hits[known["throw_first"]] += 1
            else:
                rep.violation("re-entry of a rule through throw -> recovery expression is not detected",
                              {"grammar": r["peg"], "real": sorted(r["outs"])}, found=True)
        elif not rejected and m["pred"]:
            if "pred_first" in known:
                hits[known["pred_first"]] += 1
            else:
                rep.violation("left recursion through a lookahead predicate is not detected",
                              {"grammar": r["peg"], "real": sorted(r["outs"])}, found=True)
    # the command-line tool itself: build error without the flag iff a cycle is found
    sample = list(real.items())[: ctx.q(60, 600)]
    for gid, r in sample:
        rc, err = pigeon_verdict(ctx, r["peg"])
        rejected = any(("have=1" in o) or o == "noleader" for o in r["outs"])
        if rejected != (rc != 0) or (rc != 0 and "left recursion" not in err and "no leadership" not in err):
            rep.violation("pigeon's exit status / diagnostic does not match PrepareGrammar's verdict",
                          {"grammar": r["peg"], "rc": rc, "stderr": err[:400], "prepare": sorted(r["outs"])}, found=True)
        if "goroutine" in err or "panic:" in err:
            rep.violation("pigeon printed a Go panic trace", {"grammar": r["peg"], "stderr": err[:600]}, found=True)
    rep.cov["evaluations"] = len(real)
    rep.cov["distinct_nontrivial"] = len({r["ast"] for r in real.values() if r["ast"].count("(ref ") >= 2})
    rep.cov["distribution"] = {"rejected": len(real) - len(accepted), "accepted": len(accepted),
                               "cycle_only_through_predicate": sum(1 for m in model.values() if m["pred"] and not m["nopred"]),
                               "tool_runs": len(sample)}
    if hits:
        rep.cov["cases_attributed_to_known_findings"] = dict(hits)
    for gid, r in list(real.items())[:3]:
        rep.samples.append({"grammar": r["peg"], "real": sorted(r["outs"]), "model": sorted(model[gid]["outs"])})

def replay_c19_known(ctx, k):
    return getattr(ctx, "c19_order_dependent_seen", False) or c19_witness_reproduces(ctx, k)

def c19_witness_reproduces(ctx, k):
    outs = set()
    src = "{\npackage main\n}\n" + k["grammar"]
    for i in range(40):
        p = subprocess.run([ctx.pigeon(), "-support-left-recursion"], input=src, stdout=subprocess.PIPE,
                           stderr=subprocess.PIPE, text=True, timeout=120)
        outs.add(p.stdout)
        if len(outs) > 1:
            return True
    return False

@prop("C19", replay_known=replay_c19_known)
def c19(ctx, rep):
    import hashlib
    real, model = run_prep(ctx, "c07", ctx.q(300, 6000), ctx.q(24, 100))
    known = {k["quirk"]: k["id"] for k in C.known_findings().get("findings", []) if k["property"] == "C19" and k.get("status") == "known"}
    hits = collections.Counter()
    for gid, r in real.items():
        m = model.get(gid, {"outs": set()})
        if not r["outs"] <= m["outs"]:
            rep.violation("builder.PrepareGrammar and Gen.prepare (all iteration orders) disagree",
                          {"grammar": r["peg"], "real": sorted(r["outs"]), "model": sorted(m["outs"])}, found=False)
        if len(r["outs"]) > 1:
            ctx.c19_order_dependent_seen = True
            if "nullable_order" in known and len(m["outs"]) > 1:
                hits[known["nullable_order"]] += 1
            else:
                rep.violation("repeated builds of one grammar inside one process give different left-recursion flags",
                              {"grammar": r["peg"], "outcomes": sorted(r["outs"])}, found=True)
    # whole tool: byte-identical output across repeated runs, all flag sets
    flagsets = [[], ["-optimize-grammar"], ["-optimize-parser", "-optimize-basic-latin"], ["-support-left-recursion"],
                ["-support-left-recursion", "-optimize-grammar"], ["-cache", "-nolint"]]
    sample = list(real.items())[: ctx.q(40, 400)]
    runs = ctx.q(6, 40)
    nruns = 0
    for gid, r in sample:
        src = "{\npackage main\n}\n" + r["peg"]
        for fl in flagsets:
            hashes = set()
            for i in range(runs):
                p = subprocess.run([ctx.pigeon()] + fl, input=src, stdout=subprocess.PIPE, stderr=subprocess.PIPE, text=True, timeout=120)
                nruns += 1
                hashes.add((p.returncode, hashlib.sha256(p.stdout.encode()).hexdigest()))
                if p.returncode != 0:
                    break
            if len(hashes) > 1:
                m = model.get(gid, {"outs": set()})
                if "-support-left-recursion" in fl and len(m["outs"]) > 1 and "nullable_order" in known:
                    hits[known["nullable_order"]] += 1
                    ctx.c19_order_dependent_seen = True
                else:
                    rep.violation("repeated runs of pigeon %s produce different output" % " ".join(fl),
                                  {"grammar": r["peg"], "flags": fl, "distinct_outputs": len(hashes)}, found=True)
    # the same on grammars rich in literals / classes / actions / shared leaf rules (what -optimize-grammar rewrites)
    lines, pretty = corr.generate(ctx.sc, ctx.gen(), "c09", ctx.seed, ctx.q(60, 600), tag="c19")
    texts, cur = {}, None
    for l in open(pretty):
        if l.startswith("## "):
            cur = l.split()[1].split("/")[0]
            texts[cur] = []
        elif cur:
            texts[cur].append(l)
    optsets = [["-optimize-grammar"], ["-optimize-grammar", "-optimize-parser", "-optimize-basic-latin", "-support-left-recursion"], []]
    jobs = [(gid, "".join(t), fl) for gid, t in texts.items() for fl in optsets]
    def one(job):
        gid, peg, fl = job
        src = "{\npackage main\n}\n" + peg
        hashes = set()
        n = 0
        for i in range(runs):
            p = subprocess.run([ctx.pigeon()] + fl, input=src, stdout=subprocess.PIPE, stderr=subprocess.PIPE, text=True, timeout=120)
            n += 1
            hashes.add((p.returncode, hashlib.sha256((p.stdout + p.stderr).encode()).hexdigest()))
        return gid, peg, fl, hashes, n
    import concurrent.futures
    with concurrent.futures.ThreadPoolExecutor(max_workers=C.NCPU) as ex:
        for gid, peg, fl, hashes, n in ex.map(one, jobs):
            nruns += n
            if len(hashes) > 1:
                rep.violation("repeated runs of pigeon %s produce different output" % " ".join(fl),
                              {"grammar": peg, "flags": fl, "distinct_outputs": len(hashes), "runs": runs}, found=True)
    rep.cov["optimizer_grammars"] = len(texts)
    rep.cov["evaluations"] = len(real) + nruns
    rep.cov["distinct_nontrivial"] = len({r["ast"] for r in real.values() if r["ast"].count("(ref ") >= 2})
    rep.cov["distribution"] = {"grammars": len(real), "tool_runs": nruns,
                               "order_dependent_in_model": sum(1 for m in model.values() if len(m["outs"]) > 1)}
    if hits:
        rep.cov["cases_attributed_to_known_findings"] = dict(hits)
    for gid, r in list(real.items())[:2]:
        rep.samples.append({"grammar": r["peg"], "real": sorted(r["outs"]), "model": sorted(model[gid]["outs"])})

# ------------------------------------------------------------------ C09 (-optimize-grammar)
def flat_bytes(val):
    """concatenated matched text of a structural value (b<hex> leaves in order)"""
    import re
    return "".join(re.findall(r"b([0-9a-f]*)", val or ""))

def leaves_norm(v):
    """leaf sequence of a printed value, adjacent byte leaves concatenated: b42,b4141 == b424141"""
    out = []
    for tok in re.findall(r"b[0-9a-f]*|i-?\d+|s[0-9a-f]*|nil", v):
        if tok.startswith("b") and out and out[-1].startswith("b"):
            out[-1] += tok[1:]
        else:
            out.append(tok)
    return " ".join(out)

def action_trace(trace, keep_params=None):
    """action events (cid, text, pos) and the label values the unoptimised parser passes to the
    block (inlining may put further labels into scope; the block's code cannot name them)"""
    out = []
    for ev in (trace or "").split(";"):
        if not ev.startswith("A"):
            continue
        parts = ev.split(":")
        head = ":".join(p for p in parts if not (p.startswith("a=") or p.startswith("st=") or p.startswith("gs=")))
        args = [p for p in parts if p.startswith("a=")]
        kept = ""
        if args and keep_params is not None:
            cid = parts[0][1:]
            # label values: compared up to regrouping (the structural value of an action-less group may be
            # regrouped, e.g. when adjacent literals are merged): the sequence of leaves, adjacent byte leaves joined;
            # a label that occurs twice in scope after inlining is passed once (the builder declares it once)
            body = args[0][3:-1]
            parts_, depth, cur_ = [], 0, ""
            for ch in body:
                if ch == "[":
                    depth += 1
                elif ch == "]":
                    depth -= 1
                if ch == "," and depth == 0:
                    parts_.append(cur_)
                    cur_ = ""
                else:
                    cur_ += ch
            if cur_:
                parts_.append(cur_)
            items, seen_ = [], set()
            for it in parts_:
                k, _, v = it.partition("=")
                if k in keep_params.get(cid, set()) and k not in seen_:
                    seen_.add(k)
                    items.append(k + "=" + leaves_norm(v))
            kept = ",".join(items)
        out.append(head + ":a=(" + kept + ")")
    return ";".join(out)

def block_params(case_line):
    import re
    res = {}
    for m in re.finditer(r"\(block (\d+) \(params([^)]*)\)", case_line):
        res[m.group(1)] = set(x[1:] for x in m.group(2).split())
    return res

C09_MAIN = """package main

import (
	"fmt"
	"os"
)

func main() {
	v, err := Parse("", []byte(os.Args[1]))
	fmt.Printf("%v|%v\\n", v, err)
}
"""

def replay_c09_known(ctx, k):
    """the witness grammar gives different results with and without -optimize-grammar on its input (real parsers)"""
    outs = []
    for i, fl in enumerate(([], ["-optimize-grammar"])):
        d = os.path.dirname(ctx.sc.path("kf_c09", k["id"], str(i), "x"))
        p = subprocess.run([ctx.pigeon()] + fl + ["-o", os.path.join(d, "parser.go")], input=k["grammar"], text=True,
                           stdout=subprocess.PIPE, stderr=subprocess.PIPE, timeout=120)
        if p.returncode != 0:
            return False
        with open(os.path.join(d, "main.go"), "w") as f:
            f.write(C09_MAIN)
        with open(os.path.join(d, "go.mod"), "w") as f:
            f.write("module kf\n\ngo 1.25.0\n")
        b = subprocess.run(["go", "build", "-o", "prog", "."], cwd=d, env=C.go_env(), stdout=subprocess.PIPE, stderr=subprocess.STDOUT, text=True, timeout=600)
        if b.returncode != 0:
            return False
        r = subprocess.run([os.path.join(d, "prog"), k["input"]], stdout=subprocess.PIPE, stderr=subprocess.STDOUT, text=True, timeout=60)
        outs.append(r.stdout)
    return outs[0] != outs[1]

@prop("C09", replay_known=replay_c09_known)
def c09(ctx, rep):
    import json
    tool = C.build_harness_tool(ctx.sc, "opttool")
    cases_f, info_f = ctx.sc.path("opt_cases.txt"), ctx.sc.path("opt_info.txt")
    C.run([tool, "-seed", str(ctx.seed), "-n", str(ctx.q(600, 12000)), "-out", cases_f, "-info", info_f], timeout=3000)
    with open(cases_f) as f:
        lines = [l.rstrip("\n") for l in f if l.startswith("(")]
    infos = {}
    with open(info_f) as f:
        for l in f:
            d = json.loads(l)
            infos[d["id"]] = d
    for gid, d in infos.items():
        if d.get("optimizer_panic"):
            rep.violation("ast.Optimize panics: %s" % d["optimizer_panic"][:200], {"grammar": d["peg"], "entrypoints": d["entrypoints"]}, found=True)
    hosts = ctx.hosts()
    model = corr.run_model(ctx.sc, ctx.model(), ctx.tables(), lines, tag="c09model")
    impl = corr.run_impl(ctx.sc, hosts, lines, 4000)
    ref = corr.run_model(ctx.sc, ctx.model(), ctx.tables(), lines, extra="-ref", tag="c09ref")
    by_id = {corr.case_id(l): l for l in lines}
    pairs = 0
    nontriv = 0
    for cid, l in by_id.items():
        if model.get(cid, {}).get("out") == "model-timeout" or model.get(cid[:-5] + "~opt" if cid.endswith("~orig") else cid, {}).get("out") == "model-timeout":
            continue
        if not same_on(["out", "val", "errs", "trace"], model.get(cid, {}), impl.get(cid, {})):
            rep.violation("model/implementation disagree", {"case": l, "model": model.get(cid), "impl": impl.get(cid)}, found=False)
        if not cid.endswith("~orig"):
            continue
        oid = cid[:-5] + "~opt"
        a, b = impl.get(cid, {}), impl.get(oid, {})
        ra, rb = ref.get(cid, {}), ref.get(oid, {})
        pairs += 1
        if int(a.get("cnt", "0") or 0) > 3:
            nontriv += 1
        gid = cid.split("/")[0]
        keep = block_params(l)
        def differs(x, y):
            if (x.get("errs", "") == "") != (y.get("errs", "") == ""):
                return "one parser accepts the input, the other rejects it"
            if x.get("out") != y.get("out"):
                return "outcome differs"
            if x.get("errs", "") == "" and flat_bytes(x.get("val")) != flat_bytes(y.get("val")):
                return "the matched text of the returned value differs"
            if action_trace(x.get("trace"), keep) != action_trace(y.get("trace"), keep):
                return "actions run at different points or see different text/pos/labels"
            if x.get("gs") != y.get("gs"):
                return "globalStore differs"
            return None
        why = differs(a, b)
        if why:
            rep.violation("-optimize-grammar changes behaviour: " + why,
                          {"grammar": infos.get(gid, {}).get("peg"), "entrypoints": infos.get(gid, {}).get("entrypoints"),
                           "case_unoptimized": l, "case_optimized": by_id.get(oid), "unoptimized": a, "optimized": b,
                           "spec_unoptimized": ra, "spec_optimized": rb}, found=True)
    rep.cov["evaluations"] = len(lines)
    rep.cov["distinct_nontrivial"] = nontriv
    rep.cov["pairs_compared"] = pairs
    rep.cov["distribution"] = {"grammars": len(infos), "grammars_with_rules_removed_or_inlined": sum(1 for d in infos.values() if d.get("rules_after", 0) < d.get("rules_before", 0)),
                               "optimizer_panics": sum(1 for d in infos.values() if d.get("optimizer_panic")),
                               "duplicate_params_after_inlining": sum(1 for d in infos.values() if d.get("dup_params"))}
    for l in lines[:2]:
        rep.samples.append({"case": l[:600], "impl": impl.get(corr.case_id(l))})
