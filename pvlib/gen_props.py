"""Properties decided on the generator-side model (Gen): C15 (Basic-Latin table), ..."""
import os, subprocess, collections
from . import common as C
from . import corr
from .props import prop, same_on

def rune_bytes(r):
    return chr(r).encode("utf-8")

# ------------------------------------------------------------------ C15
def replay_c15_known(ctx, k):
    return getattr(ctx, "c15_probe_disagrees", False)

@prop("C15", replay_known=replay_c15_known)
def c15(ctx, rep):
    tool = C.build_harness_tool(ctx.sc, "bltool")
    n = ctx.q(150, 3000)
    p = C.run([tool, "-seed", str(ctx.seed), "-n", str(n)], timeout=600)
    blf = ctx.sc.path("bl.txt")
    with open(blf, "w") as f:
        f.write(p.stdout)
    q = subprocess.run([ctx.model(), "-tables", ctx.tables(), "-bl", blf], stdout=subprocess.PIPE, text=True, timeout=1200)
    go = [l.split("|") for l in p.stdout.splitlines()]
    mo = [l.split() for l in q.stdout.splitlines()]
    if len(go) != len(mo):
        rep.violation("model produced %d tables for %d classes" % (len(mo), len(go)), {}, found=False)
        return
    known = 0
    disagree = {}
    for g, m in zip(go, mo):
        raw = bytes.fromhex(g[0]).decode("utf-8", "replace")
        if g[6] != m[1]:
            # the model of BasicLatinLookup no longer computes what builder.BasicLatinLookup computes
            diff = [i for i in range(128) if g[6][i] != m[1][i]]
            rep.violation("Gen.basic_latin (model) and builder.BasicLatinLookup disagree on class %s at runes %s" % (raw, diff[:8]),
                          {"class": raw, "go_table": g[6], "model_table": m[1]}, found=False)
        if m[2] == "0":
            disagree[g[0]] = raw
            if g[4] == "1":
                known += 1
            else:
                rep.violation("class %s without the i flag: the Basic-Latin table disagrees with the general procedure" % raw,
                              {"class": raw, "table": g[6]}, found=True)
    ctx.c15_probe_disagrees = bytes("[@-Z]i", "utf-8").hex() in disagree
    rep.cov["classes"] = len(go)
    rep.cov["classes_with_i_where_table_differs (known finding)"] = known
    # run-time decisions of real parsers with and without -optimize-basic-latin, all 128 runes + non-ASCII + invalid bytes
    inputs = [bytes([i]) for i in range(128)] + [rune_bytes(r) for r in (0xe9, 0x212a, 0x3a3, 0x1f600, 0xfffd)] + [b"\xff", b"\xc3", b""]
    sel = go[: ctx.q(40, 400)]
    lines = []
    nid = 0
    for ci, g in enumerate(sel):
        for bl in (0, 1):
            table = " ".join(g[6]) if bl else ""
            cls = "(cls 1 x%s (chars %s) (ranges %s) (classes %s) %s %s (table%s))" % (
                g[0], g[7], g[8].strip(), " ".join("x" + c for c in g[3].split()), g[4], g[5], (" " + table) if table else "")
            for ii, inp in enumerate(inputs):
                lines.append("(case c15-%d-%d/%d (tmpl 0 0 0 %d) (opts 0 0 0 1 1 0 x x) (rules (rule x53 x 0 0 %s)) (blocks) (input x%s))"
                             % (ci, bl, ii, bl, cls, inp.hex()))
    hosts = ctx.hosts([(False, False, False, False), (False, False, False, True)])
    model = corr.run_model(ctx.sc, ctx.model(), ctx.tables(), lines, tag="c15model")
    impl = corr.run_impl(ctx.sc, hosts, lines, 3000)
    unexplained = 0
    for ci, g in enumerate(sel):
        raw = bytes.fromhex(g[0]).decode("utf-8", "replace")
        for ii, inp in enumerate(inputs):
            a_id, b_id = "c15-%d-0/%d" % (ci, ii), "c15-%d-1/%d" % (ci, ii)
            for cid in (a_id, b_id):
                if not same_on(["out", "val", "errs"], model.get(cid, {}), impl.get(cid, {})):
                    rep.violation("model/implementation disagree on a class decision", {"class": raw, "input": inp.hex(),
                                  "model": model.get(cid), "impl": impl.get(cid)}, found=False)
            if not same_on(["out", "val"], impl.get(a_id, {}), impl.get(b_id, {})):
                if g[0] in disagree and g[4] == "1":
                    continue        # the known finding: i flag
                unexplained += 1
                rep.violation("-optimize-basic-latin changes the decision of class %s on input %s" % (raw, inp.hex()),
                              {"class": raw, "input": inp.hex(), "plain": impl.get(a_id), "basic_latin": impl.get(b_id)}, found=True)
    rep.cov["evaluations"] = len(lines)
    rep.cov["distinct_nontrivial"] = len(sel) * len(inputs)
    rep.cov["runtime_decision_pairs"] = len(sel) * len(inputs)
    rep.samples.append({"class": bytes.fromhex(sel[0][0]).decode("utf-8", "replace"), "go_table": sel[0][6]})
    rep.samples.append({"case": lines[1][:400]})
