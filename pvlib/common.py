"""Shared plumbing for the ./check entry point: environment, scratch space,
builds from /repo's working tree, evidence and violation reporting."""
import json, os, shutil, subprocess, sys, tempfile, time, hashlib
from concurrent.futures import ThreadPoolExecutor

VERIF = os.path.dirname(os.path.dirname(os.path.abspath(__file__)))
REPO = os.environ.get("PIGEON_REPO", "/repo")
NCPU = os.cpu_count() or 4

def go_env():
    e = dict(os.environ)
    e["GOFLAGS"] = "-mod=mod"
    e["GOPROXY"] = "off"
    e.pop("GOSUMDB", None)          # GOSUMDB=off breaks module verification here
    e["GOTOOLCHAIN"] = "auto"       # /repo needs the cached go1.25.0 toolchain
    return e

def run(cmd, cwd=None, env=None, timeout=None, check=True, capture=True, input=None):
    p = subprocess.run(cmd, cwd=cwd, env=env, timeout=timeout, input=input,
                       stdout=subprocess.PIPE if capture else None,
                       stderr=subprocess.STDOUT if capture else None, text=True)
    if check and p.returncode != 0:
        raise RuntimeError("command failed (%d): %s\n%s" % (p.returncode, " ".join(cmd), (p.stdout or "")[-4000:]))
    return p

class Scratch:
    """Scratch directory outside /repo and /verif, removed on exit."""
    def __init__(self):
        self.dir = tempfile.mkdtemp(prefix="pv-")
    def path(self, *parts):
        p = os.path.join(self.dir, *parts)
        os.makedirs(os.path.dirname(p), exist_ok=True)
        return p
    def cleanup(self):
        shutil.rmtree(self.dir, ignore_errors=True)

def pmap(fn, items, workers=NCPU):
    with ThreadPoolExecutor(max_workers=workers) as ex:
        return list(ex.map(fn, items))

# ---------------------------------------------------------------- builds
def build_pigeon(sc):
    """go build the pigeon binary from /repo's working tree, hooks enabled (-tags verif)."""
    out = sc.path("bin", "pigeon")
    run(["go", "build", "-tags", "verif", "-o", out, "."], cwd=REPO, env=go_env(), timeout=600)
    return out

def build_harness_tool(sc, name):
    """go build a harness command (linked against /repo's packages through the replace directive)."""
    out = sc.path("bin", name)
    h = os.path.join(VERIF, "harness")
    gosum = os.path.join(h, "go.sum")
    shutil.copyfile(os.path.join(REPO, "go.sum"), gosum)
    # the AST dump used on the harness side is the hook's own code (verif_dump.go in /repo), copied per build
    hook = open(os.path.join(REPO, "verif_dump.go")).read()
    body = hook[hook.index("func verifPos"):]
    os.makedirs(os.path.join(h, "astdump"), exist_ok=True)
    with open(os.path.join(h, "astdump", "dump_generated.go"), "w") as f:
        f.write("// Code generated from /repo/verif_dump.go by pvlib/common.py; DO NOT EDIT.\n\npackage astdump\n\n"
                "import (\n\t\"fmt\"\n\t\"io\"\n\t\"strings\"\n\n\t\"github.com/mna/pigeon/ast\"\n)\n\n" + body)
    run(["go", "build", "-tags", "verif", "-o", out, "./cmd/" + name], cwd=h, env=go_env(), timeout=600)
    return out

def variant_name(t):
    opt, gs, lr, bl = t
    return "h" + ("O" if opt else "") + ("G" if gs else "") + ("L" if lr else "") + ("B" if bl else "")

ALL_VARIANTS = [(bool(i & 1), bool(i & 2), bool(i & 4), bool(i & 8)) for i in range(16)]

def seed_grammar(t):
    opt, gs, lr, bl = t
    lines = ["{", "package main", "}", ""]
    body = "'a' [\\pL]?"
    if gs:
        body = "#{ return nil } " + body
    if lr:
        body += " L"
    lines.append("S <- " + body)
    if lr:
        lines.append("L <- L 'a' / 'a'")
    return "\n".join(lines) + "\n"

def build_host(sc, pigeon, t, race=False):
    """Generate a host parser for template variant t with the real pigeon and compile it
    together with the host driver.  Returns the path of the executable."""
    opt, gs, lr, bl = t
    name = variant_name(t) + ("_race" if race else "")
    d = sc.path("hosts", name, "x")
    d = os.path.dirname(d)
    with open(os.path.join(d, "seed.peg"), "w") as f:
        f.write(seed_grammar(t))
    flags = []
    if opt: flags.append("-optimize-parser")
    if bl: flags.append("-optimize-basic-latin")
    if lr: flags.append("-support-left-recursion")
    p = run([pigeon] + flags + ["-o", os.path.join(d, "host.go"), os.path.join(d, "seed.peg")], timeout=120)
    src = os.path.join(VERIF, "harness", "_host")
    for fn in os.listdir(src):
        if fn.endswith(".go"):
            shutil.copyfile(os.path.join(src, fn), os.path.join(d, fn))
    with open(os.path.join(d, "go.mod"), "w") as f:
        f.write("module host\n\ngo 1.25.0\n")
    tags = []
    if gs or not opt: tags.append("hasstate")
    if opt: tags.append("opt")
    if lr: tags.append("lr")
    exe = os.path.join(d, "host")
    run(["go", "build"] + (["-race"] if race else []) + ["-tags", " ".join(tags), "-o", exe, "."], cwd=d, env=go_env(), timeout=900)
    return exe

def build_hosts(sc, pigeon, variants):
    exes = pmap(lambda t: build_host(sc, pigeon, t), variants)
    return dict(zip([variant_name(t) for t in variants], exes))

def unicode_tables(sc):
    tool = build_harness_tool(sc, "tables")
    out = sc.path("tables.txt")
    p = run([tool], timeout=120)
    with open(out, "w") as f:
        f.write(p.stdout)
    return out

def ocaml_driver():
    """The extracted model + driver, built by setup (make -C ocaml); rebuilt if stale."""
    d = os.path.join(VERIF, "ocaml")
    run(["make", "-s", "-C", d], timeout=1800)
    return os.path.join(d, "driver")

def coq_make():
    d = os.path.join(VERIF, "coq")
    run(["make", "-s", "-C", VERIF, "coq"], timeout=7200)

# ---------------------------------------------------------------- evidence / reporting
def write_evidence(prop, tier, seed, coverage, wall, violations, assumptions, level="proof"):
    os.makedirs(os.path.join(VERIF, "evidence"), exist_ok=True)
    ev = {"property_id": prop, "tier": tier, "seed": seed, "level": level,
          "coverage": coverage, "assumptions": assumptions, "wall_s": round(wall, 2),
          "violations": violations}
    with open(os.path.join(VERIF, "evidence", prop + ".json"), "w") as f:
        json.dump(ev, f, indent=1)

def write_replay(prop, seed, n, payload):
    d = os.path.join(VERIF, "evidence", "replay")
    os.makedirs(d, exist_ok=True)
    path = os.path.join(d, "%s-%s-%d.json" % (prop, seed, n))
    with open(path, "w") as f:
        json.dump(payload, f, indent=1)
    return path

def known_findings():
    with open(os.path.join(VERIF, "known_findings.json")) as f:
        return json.load(f)
