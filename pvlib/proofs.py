"""Proof obligations: the property theorems live in coq/Props/Cxx.v (theorem statements
closed by `exact lemma`, each followed by Print Assumptions).  A check re-compiles the
property file against the current .vo closure and reads what the kernel accepted."""
import os, re, subprocess
from . import common as C

ALLOWED_AXIOMS = {
    # axioms declared by Coq's standard library that this development may rely on;
    # every one that actually appears is echoed into the evidence file
    "functional_extensionality_dep", "proof_irrelevance", "JMeq_eq", "classic", "eq_rect_eq",
}

FORBIDDEN = re.compile(r"\b(Admitted|admit|Axiom|Parameter|Conjecture|bypass_check)\b|Unset\s+Guard|Unset\s+Positivity|type-in-type|Admit\s+Obligations")

def grep_gate():
    """Reject Admitted/axioms/disabled checks anywhere under coq/."""
    bad = []
    root = os.path.join(C.VERIF, "coq")
    for d, _, files in os.walk(root):
        for fn in files:
            if fn.endswith(".v"):
                p = os.path.join(d, fn)
                with open(p) as f:
                    for i, line in enumerate(f, 1):
                        code = re.sub(r"\(\*.*?\*\)", "", line)
                        if FORBIDDEN.search(code):
                            bad.append("%s:%d: %s" % (os.path.relpath(p, C.VERIF), i, line.strip()))
    return bad

def check_props(prop):
    """Build the .vo closure (make), then compile Props/<prop>.v and parse the
    Print Assumptions output.  Returns dict(obligations, discharged, theorems, axioms, log, ok)."""
    res = {"obligations": 0, "discharged": 0, "theorems": [], "axioms": [], "ok": False, "log": ""}
    bad = grep_gate()
    if bad:
        res["log"] = "forbidden constructs: " + "; ".join(bad[:5])
        return res
    try:
        C.coq_make()
    except RuntimeError as e:
        res["log"] = str(e)[-3000:]
        # count the obligations of this property anyway so the report names them
        res["obligations"] = len(theorem_names(prop))
        res["theorems"] = theorem_names(prop)
        return res
    names = theorem_names(prop)
    res["theorems"] = names
    res["obligations"] = len(names)
    vfile = os.path.join("Props", prop + ".v")
    p = subprocess.run(["coqc", "-Q", ".", "PV", vfile], cwd=os.path.join(C.VERIF, "coq"),
                       stdout=subprocess.PIPE, stderr=subprocess.STDOUT, text=True, timeout=3600)
    res["log"] = p.stdout[-3000:]
    if p.returncode != 0:
        return res
    # Print Assumptions output: either "Closed under the global context" or "Axioms:\n name : type ..."
    closed = p.stdout.count("Closed under the global context")
    axioms = set(re.findall(r"^([A-Za-z_][\w.']*)\s*:", p.stdout, re.M))
    axioms = {a.split(".")[-1] for a in axioms}
    res["axioms"] = sorted(axioms)
    blocks = closed + len(re.findall(r"^Axioms:", p.stdout, re.M))
    unknown = [a for a in axioms if a not in ALLOWED_AXIOMS]
    if unknown:
        res["log"] += "\nnon-standard axioms: %s" % unknown
        return res
    if blocks < len(names):
        res["log"] += "\nPrint Assumptions missing for some theorem (%d < %d)" % (blocks, len(names))
        return res
    res["discharged"] = len(names)
    res["ok"] = True
    return res

def theorem_names(prop):
    path = os.path.join(C.VERIF, "coq", "Props", prop + ".v")
    if not os.path.exists(path):
        return []
    with open(path) as f:
        txt = f.read()
    return re.findall(r"^\s*(?:Theorem|Corollary)\s+([A-Za-z_][\w']*)", txt, re.M)

TRUSTED_BASE = [
    "Coq 8.16.1 kernel (coqc); vm_compute for closed finite facts and witness theorems; no native_compute",
    "extraction: ExtrOcamlBasic only (bool/list/option/prod/unit/sumbool mapped to OCaml natives; nat, N, Z, positive stay the extracted inductives); no Extract Constant directives of our own",
    "OCaml 4.13.1 compiler and ocaml/driver.ml (case reader, printer, Unicode table loader)",
    "harness: Go case generator and its lowering (harness/gen), host driver harness/_host/*.go (Go rendering of the code-block DSL, grammar struct construction), Python diff/oracles (pvlib)",
    "Go toolchain 1.25.0: compiler, unicode tables (dumped per run into the model's ulib), utf8, strconv, sync.Pool",
    "modelled, not verified: text/template expansion of static_code.go is exercised through real generated hosts; Debug printing and Statistics.ChoiceAltCnt are outside the model",
]
