"""C03 (grammar front-end) and C20 (bootstrap chain) checks."""
import os, subprocess, json, difflib, concurrent.futures, hashlib
from . import common as C
from .props import prop

def hook_dump(pigeon, text, withpos=True):
    env = dict(os.environ, PIGEON_VERIF_DUMP="ast")
    if not withpos:
        env["PIGEON_VERIF_NOPOS"] = "1"
    p = subprocess.run([pigeon], input=text.encode(), stdout=subprocess.PIPE, stderr=subprocess.PIPE, env=env, timeout=60)
    return p.returncode, p.stdout.decode("utf-8", "replace"), p.stderr.decode("utf-8", "replace")

def first_diff(a, b):
    d = list(difflib.unified_diff(a.splitlines(), b.splitlines(), "denoted", "front-end", lineterm="", n=1))
    return "\n".join(d[:14])

def model_classes(ctx, raws):
    """{rawhex: (reading with esc_is_char=false, reading with esc_is_char=true)}"""
    f = ctx.sc.path("cls.txt")
    with open(f, "w") as fh:
        fh.write("\n".join(raws) + "\n")
    q = subprocess.run([ctx.model(), "-cls", f], stdout=subprocess.PIPE, stderr=subprocess.PIPE, text=True, timeout=600)
    if q.returncode != 0:
        raise RuntimeError("model -cls failed: " + q.stderr[-500:])
    out = {}
    for l in q.stdout.splitlines():
        parts = l.split("|")
        out[parts[0]] = (parts[1], parts[2])
    return out

def reading_of_items(line):
    """fronttool class line "rawhex|ic|inv|chars|ranges|classes" -> the model's reading format"""
    raw, ic, inv, chars, ranges, classes = line.split("|")
    return raw, "%s;%s;%s;%s;%s" % (chars, ranges, ",".join(classes.split()), ic, inv)

@prop("C03")
def c03(ctx, rep):
    tool = C.build_harness_tool(ctx.sc, "fronttool")
    n = ctx.q(400, 6000)
    p = C.run([tool, "-seed", str(ctx.seed), "-n", str(n), "-escdash"], timeout=1200)
    cases = [json.loads(l) for l in p.stdout.splitlines()]
    pigeon = ctx.pigeon()
    kinds = {}
    def one(d):
        rc, out, err = hook_dump(pigeon, d["text"])
        rc2, out2, err2 = hook_dump(pigeon, d["text2"], withpos=False)
        return d, rc, out, err, rc2, out2, err2
    nodes = 0
    real_class_lines = {}
    with concurrent.futures.ThreadPoolExecutor(max_workers=C.NCPU) as ex:
        for d, rc, out, err, rc2, out2, err2 in ex.map(one, cases):
            nodes += d["expected"].count("\n")
            for l in d["expected"].splitlines():
                k = l.split()[1] if l.lstrip().startswith("@") and len(l.split()) > 1 else "?"
                kinds[k] = kinds.get(k, 0) + 1
            if rc != 0:
                rep.violation("the front-end rejects a grammar text written in the documented syntax: " + err.strip()[:200],
                              {"grammar_text": d["text"], "stderr": err[:2000], "denoted_ast": d["expected"],
                               "how": "PIGEON_VERIF_DUMP=ast pigeon(-tags verif) < grammar_text"}, found=True)
                continue
            if out != d["expected"]:
                rep.violation("the front-end builds a different AST than the text denotes:\n" + first_diff(d["expected"], out),
                              {"grammar_text": d["text"], "denoted_ast": d["expected"], "front_end_ast": out,
                               "how": "PIGEON_VERIF_DUMP=ast pigeon(-tags verif) < grammar_text"}, found=True)
            # the same abstract grammar under a second spelling and layout: same AST, positions and the raw class text aside
            if rc2 != 0 or out2 != d["nopos2"]:
                rep.violation("a second spelling/layout of the same grammar yields a different AST (positions aside):\n" + first_diff(d["nopos2"], out2),
                              {"grammar_text": d["text2"], "denoted_ast": d["nopos2"], "front_end_ast": out2, "stderr": err2[:500]}, found=True)
            # the classes as the real front-end read them (dump lines are in the order of ClassLines)
            rl = [l.strip() for l in out.splitlines() if " class " in l and "chars=" in l]
            for cl, l in zip(d["classes"], rl):
                real_class_lines[cl] = l
    # model of CharClassMatcher.parse on every class text: (a) equals the real reader, (b) equals the denoted class
    denoted = dict(reading_of_items(cl) for cl in real_class_lines)
    m = model_classes(ctx, sorted(denoted)) if denoted else {}
    import re
    agree = {"esc_is_char=false": 0, "esc_is_char=true": 0}
    for cl, l in real_class_lines.items():
        raw, want = reading_of_items(cl)
        mm = re.search(r'ic=(\w+) inv=(\w+) chars=\[([^\]]*)\] ranges=\[([^\]]*)\] classes=\[(.*)\]$', l)
        names = re.findall(r'"([^"]*)"', mm.group(5))
        real = "%s;%s;%s;%d;%d" % (mm.group(3), mm.group(4), ",".join(n.encode().hex() for n in names),
                                   mm.group(1) == "true", mm.group(2) == "true")
        q0, q1 = m.get(raw, ("?", "?"))
        if real == q0:
            agree["esc_is_char=false"] += 1
        if real == q1:
            agree["esc_is_char=true"] += 1
        if q1 != want:
            rep.violation("model Front.parse_class (esc_is_char=true) does not read a printed class as its denotation (theorem C03_class_reader_recovers_denoted_class would be violated by this text: harness or model defect)",
                          {"class_hex": raw, "model": q1, "denoted": want}, found=False)
        if real != q1:
            txt = bytes.fromhex(raw).decode("utf-8", "replace")
            if real != want:
                rep.violation("ast.CharClassMatcher.parse reads class %s as %s, the text denotes %s" % (txt, real, want),
                              {"class": txt, "front_end": real, "denoted": want, "model_pinned_reading": q0,
                               "how": "A <- %s ; PIGEON_VERIF_DUMP=ast pigeon(-tags verif)" % txt}, found=True)
            else:
                rep.violation("model Front.parse_class and ast.CharClassMatcher.parse disagree on class %s" % txt,
                              {"class": txt, "front_end": real, "model": q1}, found=False)
    rep.cov["evaluations"] = 2 * len(cases) + len(real_class_lines)
    rep.cov["distinct_nontrivial"] = len({hashlib.sha1(d["nopos"].encode()).hexdigest() for d in cases if d["nopos"].count("\n") > 4})
    rep.cov["distribution"] = {"grammars": len(cases), "ast_nodes_compared": nodes, "class_texts": len(real_class_lines),
                               "real_reader_agrees_with_model": agree, "node_kinds": kinds}
    if cases:
        rep.samples.append({"grammar_text": cases[0]["text"][:600], "denoted_ast": cases[0]["expected"][:600]})
