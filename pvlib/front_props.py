"""C03 (grammar front-end) and C20 (bootstrap chain) checks."""
import os, subprocess, json, difflib, concurrent.futures, hashlib
from . import common as C
from .props import prop

def hook_dump(pigeon, text, withpos=True):
    env = dict(os.environ, PIGEON_VERIF_DUMP="ast")
    if not withpos:
        env["PIGEON_VERIF_NOPOS"] = "1"
    p = subprocess.run([pigeon], input=text.encode(), stdout=subprocess.PIPE, stderr=subprocess.PIPE, env=env, timeout=60)
    return p.returncode, p.stdout.decode("utf-8", "replace"), p.stderr.decode("utf-8", "replace")

def first_diff(a, b):
    d = list(difflib.unified_diff(a.splitlines(), b.splitlines(), "denoted", "front-end", lineterm="", n=1))
    return "\n".join(d[:14])

def model_classes(ctx, raws):
    """{rawhex: (reading with esc_is_char=false, reading with esc_is_char=true)}"""
    f = ctx.sc.path("cls.txt")
    with open(f, "w") as fh:
        fh.write("\n".join(raws) + "\n")
    q = subprocess.run([ctx.model(), "-cls", f], stdout=subprocess.PIPE, stderr=subprocess.PIPE, text=True, timeout=600)
    if q.returncode != 0:
        raise RuntimeError("model -cls failed: " + q.stderr[-500:])
    out = {}
    for l in q.stdout.splitlines():
        parts = l.split("|")
        out[parts[0]] = (parts[1], parts[2])
    return out

def reading_of_items(line):
    """fronttool class line "rawhex|ic|inv|chars|ranges|classes" -> the model's reading format"""
    raw, ic, inv, chars, ranges, classes = line.split("|")
    return raw, "%s;%s;%s;%s;%s" % (chars, ranges, ",".join(classes.split()), ic, inv)

@prop("C03")
def c03(ctx, rep):
    tool = C.build_harness_tool(ctx.sc, "fronttool")
    n = ctx.q(400, 6000)
    p = C.run([tool, "-seed", str(ctx.seed), "-n", str(n), "-escdash"], timeout=1200)
    cases = [json.loads(l) for l in p.stdout.splitlines()]
    pigeon = ctx.pigeon()
    kinds = {}
    def one(d):
        rc, out, err = hook_dump(pigeon, d["text"])
        rc2, out2, err2 = hook_dump(pigeon, d["text2"], withpos=False)
        return d, rc, out, err, rc2, out2, err2
    nodes = 0
    real_class_lines = {}
    with concurrent.futures.ThreadPoolExecutor(max_workers=C.NCPU) as ex:
        for d, rc, out, err, rc2, out2, err2 in ex.map(one, cases):
            nodes += d["expected"].count("\n")
            for l in d["expected"].splitlines():
                k = l.split()[1] if l.lstrip().startswith("@") and len(l.split()) > 1 else "?"
                kinds[k] = kinds.get(k, 0) + 1
            if rc != 0:
                rep.violation("the front-end rejects a grammar text written in the documented syntax: " + err.strip()[:200],
                              {"grammar_text": d["text"], "stderr": err[:2000], "denoted_ast": d["expected"],
                               "how": "PIGEON_VERIF_DUMP=ast pigeon(-tags verif) < grammar_text"}, found=True)
                continue
            if out != d["expected"]:
                rep.violation("the front-end builds a different AST than the text denotes:\n" + first_diff(d["expected"], out),
                              {"grammar_text": d["text"], "denoted_ast": d["expected"], "front_end_ast": out,
                               "how": "PIGEON_VERIF_DUMP=ast pigeon(-tags verif) < grammar_text"}, found=True)
            # the same abstract grammar under a second spelling and layout: same AST, positions and the raw class text aside
            if rc2 != 0 or out2 != d["nopos2"]:
                rep.violation("a second spelling/layout of the same grammar yields a different AST (positions aside):\n" + first_diff(d["nopos2"], out2),
                              {"grammar_text": d["text2"], "denoted_ast": d["nopos2"], "front_end_ast": out2, "stderr": err2[:500]}, found=True)
            # the classes as the real front-end read them (dump lines are in the order of ClassLines)
            rl = [l.strip() for l in out.splitlines() if " class " in l and "chars=" in l]
            for cl, l in zip(d["classes"], rl):
                real_class_lines[cl] = l
    # model of CharClassMatcher.parse on every class text: (a) equals the real reader, (b) equals the denoted class
    denoted = dict(reading_of_items(cl) for cl in real_class_lines)
    m = model_classes(ctx, sorted(denoted)) if denoted else {}
    import re
    agree = {"esc_is_char=false": 0, "esc_is_char=true": 0}
    for cl, l in real_class_lines.items():
        raw, want = reading_of_items(cl)
        mm = re.search(r'ic=(\w+) inv=(\w+) chars=\[([^\]]*)\] ranges=\[([^\]]*)\] classes=\[(.*)\]$', l)
        names = re.findall(r'"([^"]*)"', mm.group(5))
        real = "%s;%s;%s;%d;%d" % (mm.group(3), mm.group(4), ",".join(n.encode().hex() for n in names),
                                   mm.group(1) == "true", mm.group(2) == "true")
        q0, q1 = m.get(raw, ("?", "?"))
        if real == q0:
            agree["esc_is_char=false"] += 1
        if real == q1:
            agree["esc_is_char=true"] += 1
        if q1 != want:
            rep.violation("model Front.parse_class (esc_is_char=true) does not read a printed class as its denotation (theorem C03_class_reader_recovers_denoted_class would be violated by this text: harness or model defect)",
                          {"class_hex": raw, "model": q1, "denoted": want}, found=False)
        if real != q1:
            txt = bytes.fromhex(raw).decode("utf-8", "replace")
            if real != want:
                rep.violation("ast.CharClassMatcher.parse reads class %s as %s, the text denotes %s" % (txt, real, want),
                              {"class": txt, "front_end": real, "denoted": want, "model_pinned_reading": q0,
                               "how": "A <- %s ; PIGEON_VERIF_DUMP=ast pigeon(-tags verif)" % txt}, found=True)
            else:
                rep.violation("model Front.parse_class and ast.CharClassMatcher.parse disagree on class %s" % txt,
                              {"class": txt, "front_end": real, "model": q1}, found=False)
    # model of the literal reader on every literal token: equals the denoted bytes (the real front-end's values were
    # compared with the denoted AST above)
    lits = {}
    for d in cases:
        for ll in d.get("lits") or []:
            raw, val = ll.split("|")
            lits[raw] = val
    nlit = 0
    if lits:
        f = ctx.sc.path("lits.txt")
        with open(f, "w") as fh:
            fh.write("\n".join(sorted(lits)) + "\n")
        q = subprocess.run([ctx.model(), "-unq", f], stdout=subprocess.PIPE, stderr=subprocess.PIPE, text=True, timeout=600)
        if q.returncode != 0:
            raise RuntimeError("model -unq failed: " + q.stderr[-500:])
        for l in q.stdout.splitlines():
            raw, got = l.split("|")
            nlit += 1
            if got != lits.get(raw):
                rep.violation("model FrontLit.unquote reads the literal %s as %s, it denotes %s" % (bytes.fromhex(raw).decode("utf-8", "replace"), got, lits.get(raw)),
                              {"literal_hex": raw, "model": got, "denoted": lits.get(raw)}, found=False)
    rep.cov["literal_tokens_checked_against_model"] = nlit
    rep.cov["evaluations"] = 2 * len(cases) + len(real_class_lines)
    rep.cov["distinct_nontrivial"] = len({hashlib.sha1(d["nopos"].encode()).hexdigest() for d in cases if d["nopos"].count("\n") > 4})
    rep.cov["distribution"] = {"grammars": len(cases), "ast_nodes_compared": nodes, "class_texts": len(real_class_lines),
                               "real_reader_agrees_with_model": agree, "node_kinds": kinds}
    if cases:
        rep.samples.append({"grammar_text": cases[0]["text"][:600], "denoted_ast": cases[0]["expected"][:600]})

# ------------------------------------------------------------------ C20 (bootstrap chain)
def unquote_display(q):
    """dump field of a display name (Go %q of the stored value) -> the name it stands for"""
    if q == "-":
        return None
    raw = json.loads(q)
    if len(raw) >= 2 and raw[0] == raw[-1] and raw[0] in "\"'`":
        if raw[0] == "`":
            return raw[1:-1]
        if raw[0] == "'":
            return raw[1:-1].replace("\\'", "'")
        return json.loads(raw)
    return raw

def norm_display(dump):
    """display-name quoting aside: the generated front-end keeps the literal text, the bootstrap one its value"""
    out = []
    for l in dump.splitlines():
        if l.startswith(" rule "):
            parts = l.split(" ", 3)
            dn = unquote_display(parts[3]) if len(parts) > 3 else None
            l = " rule %s %s" % (parts[2], json.dumps(dn))
        out.append(l)
    return "\n".join(out) + "\n"

@prop("C20")
def c20(ctx, rep):
    from . import regen
    repo = C.REPO
    bindir = regen.build_tools(repo, ctx.sc.path("c20bin"))
    # (1) every checked-in generated file is reproduced byte for byte by its Makefile rule
    res = regen.regenerate(repo, bindir, ctx.sc.path("c20"))
    for target, same, detail in res:
        if not same:
            rep.violation("regenerating %s with its documented rule does not reproduce the checked-in file" % target,
                          {"artifact": target, "rule": detail, "how": "build the tools from the tree, run the Makefile recipe, cmp"}, found=True)
    # (2) the three stages are a fixpoint: bootstrap-pigeon and pigeon produce the same pigeon.go
    outs = {}
    # (bootstrap-pigeon always emits the "// nolint" comments; stage 3 needs -nolint for the same text)
    for tool in ("bootstrap-pigeon", "pigeon"):
        p = subprocess.run([os.path.join(bindir, tool)] + (["-nolint"] if tool == "pigeon" else []) + ["grammar/pigeon.peg"], cwd=repo, stdout=subprocess.PIPE, stderr=subprocess.PIPE, timeout=300)
        outs[tool] = (p.returncode, p.stdout)
    if outs["bootstrap-pigeon"] != outs["pigeon"] or outs["pigeon"][0] != 0:
        rep.violation("bootstrap-pigeon and pigeon generate different parsers from grammar/pigeon.peg (the bootstrap is not a fixpoint)",
                      {"rc": [outs["bootstrap-pigeon"][0], outs["pigeon"][0]]}, found=True)
    if outs["pigeon"][1] != open(os.path.join(repo, "pigeon.go"), "rb").read():
        rep.violation("pigeon grammar/pigeon.peg does not reproduce pigeon.go", {}, found=True)
    # (3) the model of static_code_generator (Embed.embed) writes the same file as the real tool and the tree
    emb = []
    for src, dst, var in (("builder/static_code.go", "builder/generated_static_code.go", "staticCode"),
                          ("builder/static_code_range_table.go", "builder/generated_static_code_range_table.go", "rangeTable0")):
        q = subprocess.run([ctx.model(), "-embed", os.path.join(repo, src), "-var", var], stdout=subprocess.PIPE, stderr=subprocess.PIPE, timeout=600)
        real_out = ctx.sc.path("c20", "real_" + var + ".go")
        subprocess.run([os.path.join(bindir, "static_code_generator"), src, real_out, var], cwd=repo, check=True, timeout=300)
        real = open(real_out, "rb").read()
        info = q.stderr.decode()
        emb.append({"source": src, "model_equals_tool": q.stdout == real, "info": info.strip()})
        if q.stdout != real:
            found = real != open(os.path.join(repo, dst), "rb").read()
            rep.violation("model Embed.embed and static_code_generator write different files for %s" % src,
                          {"source": src, "theorem": "C20_embedded_constant_denotes_source is about the model"}, found=found)
        if "kept_has_backquote=false" not in info:
            rep.violation("%s contains a backquote after the delimiter: the generated raw string does not denote the source" % src,
                          {"source": src, "info": info}, found=True)
    # (4) the hand-written bootstrap front-end and the generated one build the same AST on the bootstrap subset
    ft = C.build_harness_tool(ctx.sc, "fronttool")
    bt = C.build_harness_tool(ctx.sc, "boottool")
    n = ctx.q(400, 6000)
    p = subprocess.run([ft, "-seed", str(ctx.seed), "-n", str(n), "-bootstrap"], stdout=subprocess.PIPE, check=True, timeout=1200)
    cases = [json.loads(l) for l in p.stdout.decode().splitlines()]
    # plus the repository's own grammars in the subset
    extra = []
    for rel in ("grammar/bootstrap.peg",):
        extra.append({"id": rel, "text": open(os.path.join(repo, rel)).read(), "nopos": None})
    allc = cases + extra
    q = subprocess.run([bt], input="\n".join(json.dumps({"id": d["id"], "text": d["text"]}) for d in allc).encode(),
                       stdout=subprocess.PIPE, check=True, timeout=1200)
    boot = {}
    for l in q.stdout.decode().splitlines():
        o = json.loads(l)
        boot[o["id"]] = o
    pigeon = ctx.pigeon()
    def one(d):
        rc, out, err = hook_dump(pigeon, d["text"], withpos=False)
        return d, rc, out, err
    agree = 0
    with concurrent.futures.ThreadPoolExecutor(max_workers=C.NCPU) as ex:
        for d, rc, out, err in ex.map(one, allc):
            b = boot.get(d["id"], {"ok": False, "err": "no output"})
            if rc != 0 or not b["ok"]:
                rep.violation("a grammar of the bootstrap subset is rejected by %s" % ("the generated front-end" if rc != 0 else "the bootstrap front-end: " + b.get("err", "")[:200]),
                              {"grammar_text": d["text"], "bootstrap_error": b.get("err"), "pigeon_error": err[:500]}, found=True)
                continue
            if norm_display(out) != norm_display(b["dump"]):
                rep.violation("bootstrap.Parser and the generated front-end build different ASTs:\n" + first_diff(norm_display(b["dump"]), norm_display(out)),
                              {"grammar_text": d["text"], "bootstrap_ast": b["dump"], "pigeon_ast": out}, found=True)
            else:
                agree += 1
            if d.get("nopos") and out != d["nopos"]:
                rep.violation("generated front-end differs from the denoted AST on a bootstrap-subset grammar", {"grammar_text": d["text"]}, found=True)
    rep.cov["evaluations"] = len(res) + len(allc) + 4
    rep.cov["distinct_nontrivial"] = len({hashlib.sha1(d["text"].encode()).hexdigest() for d in allc})
    rep.cov["distribution"] = {"artifacts_regenerated": len(res), "artifacts_identical": sum(1 for r in res if r[1]),
                               "bootstrap_subset_grammars": len(allc), "front_ends_agree": agree, "embed": emb}
    rep.samples.append({"artifact_rules": [r[0] for r in res][:6]})
    if cases:
        rep.samples.append({"bootstrap_subset_text": cases[0]["text"][:500]})
