# Build of the verification framework (offline).  `make setup` is MANIFEST.setup_cmd.
.PHONY: all setup coq ocaml clean coqchk

all: coq ocaml

setup: all
	./check --warm

coq: coq/Makefile.coq
	$(MAKE) -C coq -f Makefile.coq -j16

coq/Makefile.coq: $(wildcard coq/*/*.v) coq/_CoqProject.base
	cd coq && { cat _CoqProject.base; find Lib Syntax Spec Model Proofs Props Gen -name '*.v' | sort; } > _CoqProject && coq_makefile -f _CoqProject -o Makefile.coq

ocaml: coq
	$(MAKE) -C ocaml

# independent re-check of all compiled property files (thorough tier only; prints the axioms relied on)
coqchk: coq
	cd coq && coqchk -silent -o -Q . PV $$(ls Props/*.v | sed 's,Props/\(.*\)\.v,PV.Props.\1,')

clean:
	-$(MAKE) -C coq -f Makefile.coq cleanall
	rm -f coq/Makefile.coq coq/Makefile.coq.conf ocaml/driver ocaml/model.ml ocaml/model.mli ocaml/*.cm* ocaml/*.o
