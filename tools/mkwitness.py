#!/usr/bin/env python3
"""Builds the witness cases of the known findings (corpus/*.txt) from compact descriptions."""
import os
V = os.path.dirname(os.path.dirname(os.path.abspath(__file__)))
def hx(s): return "x" + (s.encode() if isinstance(s, str) else s).hex()
def quote(s):  # strconv.Quote for the plain strings used here
    return '"' + s.replace('\\', '\\\\').replace('"', '\\"').replace('\n', '\\n') + '"'
NID = [0]
def nid():
    NID[0] += 1; return NID[0]
def lit(s, ic=False):
    rs = " ".join(str(ord(ch)) for ch in (s.lower() if ic else s))
    return "(lit %d (%s) %d %s)" % (nid(), rs, int(ic), hx(quote(s) + ("i" if ic else "")))
def cls(raw, chars=(), ranges=(), classes=(), ic=False, inv=False):
    return "(cls %d %s (chars %s) (ranges %s) (classes %s) %d %d (table))" % (
        nid(), hx(raw), " ".join(str(ord(c)) for c in chars), " ".join(str(ord(c)) for c in ranges),
        " ".join(hx(c) for c in classes), int(ic), int(inv))
def anyc(): return "(any %d)" % nid()
def seq(*es): return "(seq %d %s)" % (nid(), " ".join(es))
def alt(*es): return "(alt %d %s)" % (nid(), " ".join(es))
def un(k, e): return "(%s %d %s)" % (k, nid(), e)
def lab(l, e): return "(lab %d %s %s)" % (nid(), hx(l), e)
def act(cid, e): return "(act %d %d %s)" % (nid(), cid, e)
def code(k, cid): return "(%s %d %d)" % (k, nid(), cid)
def ref(n): return "(ref %d %s)" % (nid(), hx(n))
def rec(e, rc, *ls): return "(rec %d %s %s %s)" % (nid(), e, rc, " ".join(hx(l) for l in ls))
def throw(l): return "(throw %d %s)" % (nid(), hx(l))
def rule(name, e, leader=0, lr=0, display=""): return "(rule %s %s %d %d %s)" % (hx(name), hx(display), leader, lr, e)
def block(cid, params=(), ops=(), panic=("never", ""), err=("never", ""), ret="nil", pred="always"):
    return "(block %d (params%s) (ops%s) (panic %s %s) (err %s %s) (ret %s) (pred %s))" % (
        cid, "".join(" " + hx(p) for p in params), "".join(" " + o for o in ops),
        panic[0], hx(panic[1]), err[0], hx(err[1]), ret, pred)
def case(cid, rules, blocks, inp, tmpl=(0, 0, 0, 0), memo=0, recover=1, allowinv=0, maxexpr=0, entry="", file=""):
    return "(case %s (tmpl %d %d %d %d) (opts %d 0 0 %d %d %d %s %s) (rules %s) (blocks%s) (input %s))" % (
        cid, tmpl[0], tmpl[1], tmpl[2], tmpl[3], memo, recover, allowinv, maxexpr, hx(entry), hx(file),
        " ".join(rules), "".join(" " + b for b in blocks), hx(inp))
W = {}
# literal U+FFFD "matches" at end of input (consumes nothing)
W["lit_eof"] = [case("kf-lit-eof/0", [rule("S", seq(lit("a"), lit("\ufffd")))], [], "a")]
# &{...} after an action sees the action's text/pos instead of "" / the current position
W["stale_ctx"] = [case("kf-stale-ctx/0",
    [rule("S", seq(act(1, lit("ab")), code("andc", 2), lit("c")))],
    [block(1, ret="(tuple cid text)"), block(2, pred="(offge 2)")], "abc")]
# the recovery expression's label is written into the thrower's scope
W["recover_scope"] = [case("kf-recover-scope/0",
    [rule("R", rec(ref("B"), act(2, lab("x", lit("z"))), "l")),
     rule("B", act(1, seq(lab("x", lit("a")), throw("l"))))],
    [block(1, params=["x"], ret="(tuple cid (arg %s))" % hx("x")), block(2, params=["x"], ret="(tuple cid text)")], "az")]
# Memoize(true) + MaxExpressions: memo hits are not charged, ('a'*)* never returns
W["memo_nocharge"] = [case("kf-memo-nocharge/0",
    [rule("A", seq(un("star", un("star", lit("a"))), un("not", anyc())))], [], "aa", memo=1, maxexpr=200)]
# memo hit on a labelled expression skips the label binding
W["memo_label"] = [
    case("kf-memo-label/%d" % memo,
        [rule("S", alt(seq(ref("R"), lit("z")), seq(lit("a"), ref("R")))),
         rule("R", act(1, seq(ref("Q"), lab("x", ref("A"))))),
         rule("Q", un("opt", lit("a"))),
         rule("A", lit("b"))],
        [block(1, params=["x"], ret="(tuple cid (arg %s))" % hx("x"))], "ab", memo=memo)
    for memo in (0, 1)]
# ---- probes of the C06 check (not findings): one rule reached several times at one offset, inside and outside ! predicates
def act_a(cid=1): return block(cid, params=["x"], ret="(tuple cid text pos (arg %s))" % hx("x"))
P = []
for i, inp in enumerate(["aaaad", "aab", "ad", "", "aacaa"]):
    P.append(case("c06probe-0-%d/0" % i,
        [rule("S", un("star", seq(un("not", seq(ref("A"), lit("b"))), un("not", seq(ref("A"), lit("c"))), anyc()))),
         rule("A", act(1, lab("x", un("star", lit("a")))))], [act_a()], inp, memo=1))
    P.append(case("c06probe-1-%d/0" % i,
        [rule("S", un("star", seq(un("not", ref("B")), anyc()))),
         rule("B", alt(seq(ref("A"), lit("b")), seq(ref("A"), lit("c")), seq(un("not", ref("A")), lit("d")))),
         rule("A", act(1, lab("x", un("plus", lit("a")))))], [act_a()], inp, memo=1))
    P.append(case("c06probe-2-%d/0" % i,
        [rule("S", alt(seq(un("not", ref("A")), lit("x")), seq(ref("A"), lit("b")), seq(un("and", ref("A")), un("not", un("not", ref("A"))), lit("aac")), ref("A"))),
         rule("A", act(1, lab("x", un("plus", lit("a")))), display="letters")], [act_a()], inp, memo=1))
# a result computed inside a ! predicate and reused outside it (the expected set of the final report differs under Memoize:
# outside C06's claim, inside the model: q_memo_expected)
P.append(case("c06probe-3-0/0", [rule("S", alt(seq(un("not", ref("A")), lit("x")), ref("A"))), rule("A", lit("a"))], [], "b", memo=1))
# a memo hit on a list value (a repetition of 3, 5, 6, 7 items) on the path that finally succeeds, no action in between
for i, inp in enumerate(["aaay", "aaaaay", "aaaaaay", "aaaaaaay", "aay", "aaax", "y"]):
    P.append(case("c06probe-4-%d/0" % i,
        [rule("S", alt(seq(ref("R"), lit("x"), un("not", anyc())), seq(ref("R"), lit("y"), un("not", anyc())))),
         rule("R", un("plus", lit("a")))], [], inp, memo=1))
    P.append(case("c06probe-5-%d/0" % i,
        [rule("S", alt(seq(lab("v", un("star", alt(lit("a"), lit("b")))), lit("x")), seq(lab("v", un("star", alt(lit("a"), lit("b")))), lit("y")), seq(ref("T"), lit("y")))),
         rule("T", seq(un("star", lit("a")), un("opt", lit("q"))))], [], inp, memo=1))
W["c06_probes"] = P
os.makedirs(os.path.join(V, "corpus"), exist_ok=True)
for k, lines in W.items():
    with open(os.path.join(V, "corpus", ("%s.txt" if k.endswith("_probes") else "kf_%s.txt") % k), "w") as f:
        f.write("\n".join(lines) + "\n")
print("wrote", sorted(W))
