#!/bin/bash
# usage: try_seed.sh <seed-id> <worktree> <property> [more properties...]
# Confirms a seeded change (tests pass with it, demo fails with it / passes without it),
# stores it under /verif/seeded/<seed-id>/ and runs the checks of the given properties against it.
set -u
ID=$1; WT=$2; shift 2
export GOFLAGS=-mod=mod GOPROXY=off
D=/verif/seeded/$ID
mkdir -p $D
git -C $WT diff > $D/patch.diff
[ -s $D/patch.diff ] || { echo "empty patch"; exit 2; }
cp $WT/demo.sh $D/ 2>/dev/null; rm -rf $D/seed_demo; cp -r $WT/seed_demo $D/ 2>/dev/null
echo "== confirm in worktree: build + tests with the change"
(cd $WT && go build ./... && go test -vet=off -count=1 -timeout 25m ./... 2>&1 | grep -v "^ok\|no test files" | head -5; echo "tests-exit=${PIPESTATUS[0]}") > $D/confirm.log 2>&1
(cd $WT && bash ./demo.sh > $D/demo_with.log 2>&1; echo "demo-with-change rc=$?") | tee -a $D/confirm.log
(cd $WT && git stash -q && bash ./demo.sh > $D/demo_without.log 2>&1; echo "demo-without-change rc=$?"; git stash pop -q) | tee -a $D/confirm.log
echo "== apply to /repo and run checks"
git -C /repo apply $D/patch.diff || { echo "patch does not apply"; exit 2; }
for P in "$@"; do
  (cd /verif && ./check $P > $D/check_$P.log 2>&1; echo "check $P rc=$? violations=$(grep -c '^VIOLATION' $D/check_$P.log)")
done
git -C /repo checkout -- .
git -C /repo status --short | head -3
