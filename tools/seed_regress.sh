#!/bin/bash
# Re-runs every seeded change against the check of its property (and writes seeded/REGRESSION.txt).
# /repo must be clean; each patch is applied, checked and reverted.
set -u
cd /verif
OUT=seeded/REGRESSION.txt
: > $OUT.tmp
for d in seeded/*/; do
  id=$(basename $d)
  prop=$(python3 -c "import json;print(json.load(open('$d/meta.json'))['property'])")
  if ! git -C /repo apply --check $PWD/$d/patch.diff 2>/dev/null; then
    if git -C /repo apply --3way $PWD/$d/patch.diff >/dev/null 2>&1; then :; else
      echo "$id $prop patch-does-not-apply-to-current-tree" | tee -a $OUT.tmp; git -C /repo checkout -- . ; git -C /repo reset -q; continue
    fi
  else
    git -C /repo apply $PWD/$d/patch.diff
  fi
  ./check $prop > /tmp/regress_$id.log 2>&1; rc=$?
  n=$(grep -c '^VIOLATION' /tmp/regress_$id.log)
  nf=$(grep '^VIOLATION' /tmp/regress_$id.log | grep -vc no-failing-input-found)
  echo "$id $prop rc=$rc violations=$n with-failing-input=$nf" | tee -a $OUT.tmp
  git -C /repo reset -q; git -C /repo checkout -- .
done
mv $OUT.tmp $OUT
git -C /repo status --short
