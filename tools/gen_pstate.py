#!/usr/bin/env python3
# One-off generator for coq/Model/PState.v (record + setters). Output is committed.
fields = [
 ("pt","savepoint"),("cur_pos","position"),("cur_text","bytes"),
 ("st","store"),("gs","gstore"),("errs","list perr"),
 ("memo","list (nat * mkey * rtuple)"),
 ("vstack","list scope"),("rstack","list rule"),
 ("maxFailPos","position"),("maxFailExpected","list bytes"),("maxFailInvert","bool"),
 ("exprCnt","N"),("rcvstack","list (list label * expr)"),
 ("trace","list event"),("pool","list poolop"),
]
out=[]
out.append("Record pstate := mkPstate {\n" + ";\n".join(f"  {n} : {t}" for n,t in fields) + "\n}.\n")
for i,(n,t) in enumerate(fields):
    args=" ".join((f"v" if j==i else f"({m} s)") for j,(m,_) in enumerate(fields))
    out.append(f"Definition set_{n} (v : {t}) (s : pstate) : pstate :=\n  mkPstate {args}.\n")
print("\n".join(out))
